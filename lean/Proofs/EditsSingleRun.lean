import Proofs.EditsAnnotate
import Proofs.AlignSingleRun
/-!
Section-level form of `single_run`: when the plus line's tokens are the minus line's tokens with
one contiguous run inserted, the minus line has no emphasised section and the plus line has
exactly one, whose text has the size of the difference.
-/
set_option linter.unusedSimpArgs false
set_option linter.unusedVariables false
namespace Edits
open Align Generated.Align

def emphCount (e : Tag) (secs : List Section) : Nat := (secs.filter (fun s => s.tag = e)).length
def emphText (e : Tag) (secs : List Section) : List Char :=
  (secs.filter (fun s => s.tag = e)).flatMap (fun s => text s.gs)

theorem emphCount_append (e : Tag) (a b : List Section) :
    emphCount e (a ++ b) = emphCount e a + emphCount e b := by simp [emphCount]

theorem emphCount_zero_of_tags (e tag : Tag) (secs : List Section) (h : ∀ s ∈ secs, s.tag = tag)
    (hne : tag ≠ e) : emphCount e secs = 0 := by
  unfold emphCount
  rw [List.length_eq_zero_iff, List.filter_eq_nil_iff]
  intro s hs
  simp [h s hs, hne]

theorem text_secsG (secs : List Section) : text (secsG secs) = secs.flatMap (fun s => text s.gs) := by
  induction secs with
  | nil => rfl
  | cons s secs ih =>
    simp only [secsG, List.flatMap_cons] at ih ⊢
    rw [text_append, ih]

/-- Line text = kept text + emphasised text, in length. -/
theorem length_text_split (e : Tag) (secs : List Section) :
    (text (secsG secs)).length = (keptText e secs).length + (emphText e secs).length := by
  rw [text_secsG]
  induction secs with
  | nil => rfl
  | cons s secs ih =>
    by_cases h : s.tag = e
    · simp [keptText, emphText, h] at ih ⊢; omega
    · simp [keptText, emphText, h] at ih ⊢; omega

theorem keptText_all (e tag : Tag) (secs : List Section) (h : ∀ s ∈ secs, s.tag = tag) (hne : tag ≠ e) :
    keptText e secs = text (secsG secs) := by
  rw [text_secsG]
  unfold keptText
  congr 1
  rw [List.filter_eq_self]
  intro s hs
  simp [h s hs, hne]

/-- One step of the loop when no deletion has happened so far and the run is not a deletion. -/
theorem annotateStep_nodel (t : Tags) (x y : List Tok) (ml pl : List G) (hx : x ≠ []) (hy : y ≠ [])
    (hd : t.noopDel ≠ t.del) (hi : t.noopIns ≠ t.ins) (st st1 : AState) (r : Op × Nat)
    (hr : r.1 ≠ .deletion) (h : annotateStep t x y ml pl st r = .ok st1)
    (hm : st.mPrev = t.noopDel) (ham : ∀ s ∈ st.am, s.tag = t.noopDel) :
    st1.mPrev = t.noopDel ∧ (∀ s ∈ st1.am, s.tag = t.noopDel) ∧
      emphCount t.ins st1.ap = emphCount t.ins st.ap + (if r.1 = .insertion then 1 else 0) := by
  obtain ⟨o, n⟩ := r
  cases o with
  | deletion => exact absurd rfl hr
  | insertion =>
    simp only [annotateStep] at h
    split at h
    · cases h
    · injection h with h; subst h
      refine ⟨hm, ham, ?_⟩
      simp [emphCount_append, emphCount]
  | noOp =>
    simp only [annotateStep] at h
    split at h
    · cases h
    · rename_i msec mOff xOff hg
      split at h
      · cases h
      · rename_i co hco
        split at h
        · cases h
        · rename_i psec pOff yOff hg2
          injection h with h; subst h
          obtain ⟨co', hco', hprop⟩ := coalesceTest_ok t (isSpace msec) st.mPrev st.pPrev xOff x.length
            st.yOff y.length (by simpa using hx) (by simpa using hy)
          rw [hco] at hco'; injection hco' with hco'; subst hco'
          have hp : (if co = true then st.pPrev else t.noopIns) = t.noopIns := by
            cases co with
            | false => rfl
            | true =>
              rcases (hprop rfl).2 with ⟨h1, _⟩ | ⟨_, h2⟩
              · rw [hm] at h1; exact absurd h1 hd
              · simp [h2]
          refine ⟨rfl, ?_, ?_⟩
          · intro s hs
            simp only [List.mem_append, List.mem_singleton] at hs
            rcases hs with hs | rfl
            · exact ham s hs
            · simp only [hm, ite_self]
          · simp only [emphCount_append, reduceCtorEq, if_false, Nat.add_zero]
            rw [hp, emphCount_zero_of_tags t.ins t.noopIns _ (plusSections_tag _ _) hi]
            omega

def insRuns (runs : List (Op × Nat)) : Nat := (runs.filter (fun r => r.1 = .insertion)).length

theorem annotateLoop_nodel (t : Tags) (x y : List Tok) (ml pl : List G) (hx : x ≠ []) (hy : y ≠ [])
    (hd : t.noopDel ≠ t.del) (hi : t.noopIns ≠ t.ins) :
    ∀ (runs : List (Op × Nat)) (st st' : AState), (∀ r ∈ runs, r.1 ≠ .deletion) →
      annotateLoop t x y ml pl runs st = .ok st' →
      st.mPrev = t.noopDel → (∀ s ∈ st.am, s.tag = t.noopDel) →
      (∀ s ∈ st'.am, s.tag = t.noopDel) ∧ emphCount t.ins st'.ap = emphCount t.ins st.ap + insRuns runs := by
  intro runs
  induction runs with
  | nil =>
    intro st st' _ h _ ham
    simp only [annotateLoop] at h
    injection h with h; subst h
    exact ⟨ham, by simp [insRuns]⟩
  | cons r rs ih =>
    intro st st' hr h hm ham
    simp only [annotateLoop] at h
    split at h
    · cases h
    · rename_i st1 hs
      obtain ⟨h1, h2, h3⟩ := annotateStep_nodel t x y ml pl hx hy hd hi st st1 r (hr r (by simp)) hs hm ham
      obtain ⟨h4, h5⟩ := ih st1 st' (fun r' hr' => hr r' (by simp [hr'])) h h1 h2
      refine ⟨h4, ?_⟩
      rw [h5, h3]
      unfold insRuns
      by_cases hri : r.1 = .insertion <;> simp [hri, List.filter_cons] <;> omega

/-- Run-length encoding of `NoOp^k ++ Ins^(j+1) ++ NoOp^m`: no deletion run, one insertion run. -/
theorem rle_single_ins (k j m : Nat) :
    let runs := runLengthEncode (List.replicate k Oper.noOp ++ List.replicate (j + 1) Oper.insertion ++
      List.replicate m Oper.noOp)
    (∀ r ∈ runs, r.1 ≠ Oper.deletion) ∧ insRuns runs = 1 := by
  have tail : ∀ c, (∀ r ∈ rleAux Oper.insertion c (List.replicate m Oper.noOp), r.1 ≠ Oper.deletion) ∧
      insRuns (rleAux Oper.insertion c (List.replicate m Oper.noOp)) = 1 := by
    intro c
    cases m with
    | zero => simp [rleAux, insRuns]
    | succ m =>
      rw [List.replicate_succ, rleAux_ne _ _ _ _ (by simp)]
      have := rleAux_replicate Oper.noOp 1 m []
      simp only [List.append_nil] at this
      rw [this]
      simp [rleAux, insRuns]
  have mid : ∀ c, (∀ r ∈ rleAux Oper.insertion c (List.replicate j Oper.insertion ++ List.replicate m Oper.noOp),
        r.1 ≠ Oper.deletion) ∧
      insRuns (rleAux Oper.insertion c (List.replicate j Oper.insertion ++ List.replicate m Oper.noOp)) = 1 := by
    intro c
    rw [rleAux_replicate]
    exact tail _
  intro runs
  cases k with
  | zero =>
    simp only [runs, List.replicate_zero, List.nil_append, List.replicate_succ, List.cons_append, runLengthEncode]
    exact mid 1
  | succ k =>
    simp only [runs, List.replicate_succ, List.cons_append, runLengthEncode, List.append_assoc]
    rw [rleAux_replicate, rleAux_ne _ _ _ _ (by simp)]
    have := mid 1
    constructor
    · intro r hr
      simp only [List.mem_cons] at hr
      rcases hr with rfl | hr
      · simp
      · exact this.1 r hr
    · have h2 := this.2
      unfold insRuns at h2 ⊢
      simp [List.filter_cons, h2]

/-- Pure insertion of one run of tokens: no emphasis on the minus line, exactly one emphasised
section on the plus line, and its text has the size of the difference. -/
theorem annotatePair_single_insertion (t : Tags) (m p : Line) (x y : List Tok) (a : Annotated)
    (hx : tokenize m.gs m.spans = .ok x) (hy : tokenize p.gs p.spans = .ok y)
    (pre suf : List (List Char)) (c : List Char) (b : List (List Char))
    (h0 : tokTexts x = [] :: (pre ++ suf)) (h1 : tokTexts y = [] :: (pre ++ (c :: b) ++ suf))
    (hd : t.noopDel ≠ t.del) (hi : t.noopIns ≠ t.ins) (h : annotatePair t m p = .ok a) :
    (∀ s ∈ a.minus, s.tag = t.noopDel) ∧ emphCount t.ins a.plus = 1 ∧
      (emphText t.ins a.plus).length + (text m.gs).length = (text p.gs).length := by
  obtain ⟨a', ha', spec⟩ := annotatePair_of_tokens t m p x y hx hy
  rw [h] at ha'; injection ha' with ha'; subst ha'
  have hxne : x ≠ [] := by intro hx0; rw [hx0] at h0; simp [tokTexts] at h0
  have hyne : y ≠ [] := by intro hy0; rw [hy0] at h1; simp [tokTexts] at h1
  obtain ⟨k, mm, hops⟩ := opsSpec_single_insertion ([] : List Char) pre suf c b
  have h' := h
  unfold annotatePair at h'
  rw [hx, hy] at h'
  simp only at h'
  unfold coalescedOperations at h'
  rw [operations_eq, h0, h1, hops] at h'
  simp only at h'
  obtain ⟨hnd, hone⟩ := rle_single_ins k b.length mm
  unfold annotateOps at h'
  split at h'
  · cases h'
  · rename_i st hl
    injection h' with h'
    subst h'
    obtain ⟨hmin, hcnt⟩ := annotateLoop_nodel t x y m.gs p.gs hxne hyne hd hi _ _ st hnd hl rfl
      (by simp [initState])
    refine ⟨hmin, ?_, ?_⟩
    · rw [hcnt, hone]; simp [initState, emphCount]
    · show (emphText t.ins st.ap).length + (text m.gs).length = (text p.gs).length
      have hk := keptText_all t.del t.noopDel st.am hmin hd
      have hs := spec.sound hd hi
      simp only at hs
      have hlen := length_text_split t.ins st.ap
      have hp := spec.plus_partition
      have hmn := spec.minus_partition
      simp only at hp hmn
      rw [hp] at hlen
      rw [← hs, hk, hmn] at hlen
      omega

/-! ### dual: pure deletion -/

theorem annotateStep_noins (t : Tags) (x y : List Tok) (ml pl : List G) (hx : x ≠ []) (hy : y ≠ [])
    (hd : t.noopDel ≠ t.del) (hi : t.noopIns ≠ t.ins) (st st1 : AState) (r : Op × Nat)
    (hr : r.1 ≠ .insertion) (h : annotateStep t x y ml pl st r = .ok st1)
    (hm : st.pPrev = t.noopIns) (hap : ∀ s ∈ st.ap, s.tag = t.noopIns) :
    st1.pPrev = t.noopIns ∧ (∀ s ∈ st1.ap, s.tag = t.noopIns) ∧
      emphCount t.del st1.am = emphCount t.del st.am + (if r.1 = .deletion then 1 else 0) := by
  obtain ⟨o, n⟩ := r
  cases o with
  | insertion => exact absurd rfl hr
  | deletion =>
    simp only [annotateStep] at h
    split at h
    · cases h
    · injection h with h; subst h
      refine ⟨hm, hap, ?_⟩
      simp [emphCount_append, emphCount]
  | noOp =>
    simp only [annotateStep] at h
    split at h
    · cases h
    · rename_i msec mOff xOff hg
      split at h
      · cases h
      · rename_i co hco
        split at h
        · cases h
        · rename_i psec pOff yOff hg2
          injection h with h; subst h
          obtain ⟨co', hco', hprop⟩ := coalesceTest_ok t (isSpace msec) st.mPrev st.pPrev xOff x.length
            st.yOff y.length (by simpa using hx) (by simpa using hy)
          rw [hco] at hco'; injection hco' with hco'; subst hco'
          have hp : (if co = true then st.mPrev else t.noopDel) = t.noopDel := by
            cases co with
            | false => rfl
            | true =>
              rcases (hprop rfl).2 with ⟨_, h1⟩ | ⟨h2, _⟩
              · rw [hm] at h1; exact absurd h1 hi
              · simp [h2]
          refine ⟨rfl, ?_, ?_⟩
          · intro s hs
            simp only [List.mem_append] at hs
            rcases hs with hs | hs
            · exact hap s hs
            · rw [plusSections_tag _ _ s hs]
              simp only [hm, ite_self]
          · simp only [emphCount_append, reduceCtorEq, if_false, Nat.add_zero]
            rw [hp]
            simp [emphCount, hd]

def delRuns (runs : List (Op × Nat)) : Nat := (runs.filter (fun r => r.1 = .deletion)).length

theorem annotateLoop_noins (t : Tags) (x y : List Tok) (ml pl : List G) (hx : x ≠ []) (hy : y ≠ [])
    (hd : t.noopDel ≠ t.del) (hi : t.noopIns ≠ t.ins) :
    ∀ (runs : List (Op × Nat)) (st st' : AState), (∀ r ∈ runs, r.1 ≠ .insertion) →
      annotateLoop t x y ml pl runs st = .ok st' →
      st.pPrev = t.noopIns → (∀ s ∈ st.ap, s.tag = t.noopIns) →
      (∀ s ∈ st'.ap, s.tag = t.noopIns) ∧ emphCount t.del st'.am = emphCount t.del st.am + delRuns runs := by
  intro runs
  induction runs with
  | nil =>
    intro st st' _ h _ hap
    simp only [annotateLoop] at h
    injection h with h; subst h
    exact ⟨hap, by simp [delRuns]⟩
  | cons r rs ih =>
    intro st st' hr h hm hap
    simp only [annotateLoop] at h
    split at h
    · cases h
    · rename_i st1 hs
      obtain ⟨h1, h2, h3⟩ := annotateStep_noins t x y ml pl hx hy hd hi st st1 r (hr r (by simp)) hs hm hap
      obtain ⟨h4, h5⟩ := ih st1 st' (fun r' hr' => hr r' (by simp [hr'])) h h1 h2
      refine ⟨h4, ?_⟩
      rw [h5, h3]
      unfold delRuns
      by_cases hri : r.1 = .deletion <;> simp [hri, List.filter_cons] <;> omega

theorem rle_single_del (k j m : Nat) :
    let runs := runLengthEncode (List.replicate k Oper.noOp ++ List.replicate (j + 1) Oper.deletion ++
      List.replicate m Oper.noOp)
    (∀ r ∈ runs, r.1 ≠ Oper.insertion) ∧ delRuns runs = 1 := by
  have tail : ∀ c, (∀ r ∈ rleAux Oper.deletion c (List.replicate m Oper.noOp), r.1 ≠ Oper.insertion) ∧
      delRuns (rleAux Oper.deletion c (List.replicate m Oper.noOp)) = 1 := by
    intro c
    cases m with
    | zero => simp [rleAux, delRuns]
    | succ m =>
      rw [List.replicate_succ, rleAux_ne _ _ _ _ (by simp)]
      have := rleAux_replicate Oper.noOp 1 m []
      simp only [List.append_nil] at this
      rw [this]
      simp [rleAux, delRuns]
  have mid : ∀ c, (∀ r ∈ rleAux Oper.deletion c (List.replicate j Oper.deletion ++ List.replicate m Oper.noOp),
        r.1 ≠ Oper.insertion) ∧
      delRuns (rleAux Oper.deletion c (List.replicate j Oper.deletion ++ List.replicate m Oper.noOp)) = 1 := by
    intro c
    rw [rleAux_replicate]
    exact tail _
  intro runs
  cases k with
  | zero =>
    simp only [runs, List.replicate_zero, List.nil_append, List.replicate_succ, List.cons_append, runLengthEncode]
    exact mid 1
  | succ k =>
    simp only [runs, List.replicate_succ, List.cons_append, runLengthEncode, List.append_assoc]
    rw [rleAux_replicate, rleAux_ne _ _ _ _ (by simp)]
    have := mid 1
    constructor
    · intro r hr
      simp only [List.mem_cons] at hr
      rcases hr with rfl | hr
      · simp
      · exact this.1 r hr
    · have h2 := this.2
      unfold delRuns at h2 ⊢
      simp [List.filter_cons, h2]

theorem annotatePair_single_deletion (t : Tags) (m p : Line) (x y : List Tok) (a : Annotated)
    (hx : tokenize m.gs m.spans = .ok x) (hy : tokenize p.gs p.spans = .ok y)
    (pre suf : List (List Char)) (c : List Char) (b : List (List Char))
    (h0 : tokTexts x = [] :: (pre ++ (c :: b) ++ suf)) (h1 : tokTexts y = [] :: (pre ++ suf))
    (hd : t.noopDel ≠ t.del) (hi : t.noopIns ≠ t.ins) (h : annotatePair t m p = .ok a) :
    (∀ s ∈ a.plus, s.tag = t.noopIns) ∧ emphCount t.del a.minus = 1 ∧
      (emphText t.del a.minus).length + (text p.gs).length = (text m.gs).length := by
  obtain ⟨a', ha', spec⟩ := annotatePair_of_tokens t m p x y hx hy
  rw [h] at ha'; injection ha' with ha'; subst ha'
  have hxne : x ≠ [] := by intro hx0; rw [hx0] at h0; simp [tokTexts] at h0
  have hyne : y ≠ [] := by intro hy0; rw [hy0] at h1; simp [tokTexts] at h1
  obtain ⟨k, mm, hops⟩ := opsSpec_single_deletion ([] : List Char) pre suf c b
  have h' := h
  unfold annotatePair at h'
  rw [hx, hy] at h'
  simp only at h'
  unfold coalescedOperations at h'
  rw [operations_eq, h0, h1, hops] at h'
  simp only at h'
  obtain ⟨hnd, hone⟩ := rle_single_del k b.length mm
  unfold annotateOps at h'
  split at h'
  · cases h'
  · rename_i st hl
    injection h' with h'
    subst h'
    obtain ⟨hpl, hcnt⟩ := annotateLoop_noins t x y m.gs p.gs hxne hyne hd hi _ _ st hnd hl rfl
      (by simp [initState])
    refine ⟨hpl, ?_, ?_⟩
    · rw [hcnt, hone]; simp [initState, emphCount]
    · show (emphText t.del st.am).length + (text p.gs).length = (text m.gs).length
      have hk := keptText_all t.ins t.noopIns st.ap hpl hi
      have hs := spec.sound hd hi
      simp only at hs
      have hlen := length_text_split t.del st.am
      have hp := spec.plus_partition
      have hmn := spec.minus_partition
      simp only at hp hmn
      rw [hmn] at hlen
      rw [hs, hk, hp] at hlen
      omega

end Edits
