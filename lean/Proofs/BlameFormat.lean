import DeltaModel.BlameFormat
import Proofs.BlameRender
/-!
Lemmas for the placeholder grammar (`DeltaModel/BlameFormat.lean`): the hand-written matcher of
`make_placeholder_regex` inverts the formatter `Spec.text` / `render`.
-/
namespace Blame
namespace PF
open Generated.BlameFormat

/-! ## character classes -/

def rangesDisjoint (a b : List (Nat × Nat)) : Bool :=
  a.all fun r => b.all fun s => decide (r.2 < s.1) || decide (s.2 < r.1)

theorem inRanges_disjoint {a b : List (Nat × Nat)} (h : rangesDisjoint a b = true) (c : Char)
    (ha : inRanges a c = true) : inRanges b c = false := by
  cases hb : inRanges b c with
  | false => rfl
  | true =>
    simp only [inRanges, List.any_eq_true, Bool.and_eq_true, decide_eq_true_eq] at ha hb
    obtain ⟨r, hr, hr1, hr2⟩ := ha
    obtain ⟨s, hs, hs1, hs2⟩ := hb
    simp only [rangesDisjoint, List.all_eq_true, Bool.or_eq_true, decide_eq_true_eq] at h
    have := h r hr s hs
    omega

/-- The facts about the generated classes that make the pattern deterministic (no alternative
after the first one that applies can succeed) and the formatter invertible. -/
def classesOk : Bool :=
  rangesDisjoint typeStartClass digitClass && rangesDisjoint digitClass alignClass &&
  rangesDisjoint typeStartClass alignClass && rangesDisjoint typeRestClass alignClass &&
  !isDigitC '.' && !isDigitC '_' && !isDigitC '}' &&
  !isTypeStart '}' && !isTypeStart '_' && !isTypeStart '.' && !isTypeRest '}' &&
  !isAlignC '.' && !isAlignC '_' && !isAlignC '}' &&
  isAlignC '<' && isAlignC '^' && isAlignC '>' &&
  alignOfChar '<' == some Align.left && alignOfChar '^' == some Align.center &&
  alignOfChar '>' == some Align.right &&
  !isFillC '<' && !isFillC '^' && !isFillC '>'

theorem classesOk_true : classesOk = true := by decide

theorem typeStart_not_digit {c : Char} (h : isTypeStart c = true) : isDigitC c = false :=
  inRanges_disjoint (a := typeStartClass) (by decide) c h
theorem digit_not_align {c : Char} (h : isDigitC c = true) : isAlignC c = false :=
  inRanges_disjoint (a := digitClass) (by decide) c h
theorem typeStart_not_align {c : Char} (h : isTypeStart c = true) : isAlignC c = false :=
  inRanges_disjoint (a := typeStartClass) (by decide) c h
theorem typeRest_not_align {c : Char} (h : isTypeRest c = true) : isAlignC c = false :=
  inRanges_disjoint (a := typeRestClass) (by decide) c h

theorem digit_dot : isDigitC '.' = false := by decide
theorem digit_under : isDigitC '_' = false := by decide
theorem digit_close : isDigitC '}' = false := by decide
theorem typeStart_close : isTypeStart '}' = false := by decide
theorem typeStart_under : isTypeStart '_' = false := by decide
theorem typeStart_dot : isTypeStart '.' = false := by decide
theorem typeRest_close : isTypeRest '}' = false := by decide
theorem align_dot : isAlignC '.' = false := by decide
theorem align_under : isAlignC '_' = false := by decide
theorem align_close : isAlignC '}' = false := by decide

theorem align_alignChar (a : Align) : isAlignC (alignChar a) = true := by
  cases a <;> decide
theorem fill_alignChar (a : Align) : isFillC (alignChar a) = false := by
  cases a <;> decide
theorem alignOfChar_alignChar (a : Align) : alignOfChar (alignChar a) = some a := by
  cases a <;> decide

theorem isDigitC_of_isDigit {c : Char} (h : c.isDigit = true) : isDigitC c = true := by
  have h' : 48 ≤ c.toNat ∧ c.toNat ≤ 57 := by
    unfold Char.isDigit at h
    simp only [Bool.and_eq_true, decide_eq_true_eq, ge_iff_le] at h
    obtain ⟨h1, h2⟩ := h
    rw [UInt32.le_iff_toNat_le] at h1 h2
    exact ⟨h1, h2⟩
  simp [isDigitC, inRanges, digitClass, h'.1, h'.2]

theorem toDigits_digitC (n : Nat) : ∀ c ∈ Nat.toDigits 10 n, isDigitC c = true :=
  fun _ hc => isDigitC_of_isDigit (Nat.isDigit_of_mem_toDigits (by decide) (by decide) hc)

theorem toDigits_all_isDigit (n : Nat) : (Nat.toDigits 10 n).all Char.isDigit = true := by
  rw [List.all_eq_true]
  exact fun _ hc => Nat.isDigit_of_mem_toDigits (by decide) (by decide) hc

/-! ## greedy repetition -/

theorem span_all (p : Char → Bool) (ds X : Str) (hd : ∀ c ∈ ds, p c = true)
    (hX : ∀ x r, X = x :: r → p x = false) :
    (ds ++ X).takeWhile p = ds ∧ (ds ++ X).dropWhile p = X := by
  induction ds with
  | nil =>
    cases X with
    | nil => simp
    | cons x r => simp [hX x r rfl]
  | cons d ds ih =>
    have h := hd d (by simp)
    have ih' := ih (fun c hc => hd c (List.mem_cons_of_mem _ hc))
    simp [h, ih'.1, ih'.2]

/-! ## the type and the closing brace -/

/-- First character of `typeText ++ "}" ++ rest`. -/
theorem head_typeX (s : Spec) (hty : tyOk s.ty = true) (rest : Str) (x : Char) (r : Str)
    (h : s.typeText ++ '}' :: rest = x :: r) : x = '}' ∨ x = '_' ∨ isTypeStart x = true := by
  unfold Spec.typeText at h
  cases hs : s.ty with
  | nil =>
    rw [hs] at h
    simp at h
    exact Or.inl h.1.symm
  | cons c t =>
    rw [hs] at h hty
    simp only [tyOk, Bool.and_eq_true] at hty
    cases hu : s.under with
    | true =>
      rw [hu] at h
      simp at h
      exact Or.inr (Or.inl h.1.symm)
    | false =>
      rw [hu] at h
      simp at h
      exact Or.inr (Or.inr (h.1 ▸ hty.1))

theorem typeBody_close (rest : Str) : typeBody ('}' :: rest) = none := by
  simp [typeBody, typeStart_close]

theorem matchTypeClose_gen (s : Spec) (hty : tyOk s.ty = true) (rest : Str) :
    matchTypeClose (s.typeText ++ '}' :: rest) = some (s.ty, rest) := by
  unfold Spec.typeText
  cases hs : s.ty with
  | nil => simp [matchTypeClose, typeBody_close, closeBrace]
  | cons c t =>
    rw [hs] at hty
    simp only [tyOk, Bool.and_eq_true, List.all_eq_true] at hty
    obtain ⟨hc, ht⟩ := hty
    have hsp := span_all isTypeRest t ('}' :: rest) ht
      (fun x r e => by cases e; exact typeRest_close)
    have hcu : c ≠ '_' := by
      intro e; subst e; rw [typeStart_under] at hc; cases hc
    cases hu : s.under with
    | true =>
      simp [matchTypeClose, typeBody, hc, hsp.1, hsp.2, closeBrace]
    | false =>
      simp [matchTypeClose, typeBody, hc, hcu, hsp.1, hsp.2, closeBrace]

/-! ## precision -/

theorem matchPrec_gen (s : Spec) (hty : tyOk s.ty = true) (rest : Str) :
    matchPrec (s.precText ++ (s.typeText ++ '}' :: rest)) =
      some (s.prec.map (Nat.toDigits 10), s.ty, rest) := by
  have hT := matchTypeClose_gen s hty rest
  have hX : ∀ x r, s.typeText ++ '}' :: rest = x :: r → isDigitC x = false := by
    intro x r e
    rcases head_typeX s hty rest x r e with h | h | h
    · subst h; exact digit_close
    · subst h; exact digit_under
    · exact typeStart_not_digit h
  unfold Spec.precText
  cases hp : s.prec with
  | some n =>
    have hsp := span_all isDigitC (Nat.toDigits 10 n) _ (toDigits_digitC n) hX
    have hne : (Nat.toDigits 10 n).isEmpty = false := by
      cases h : Nat.toDigits 10 n with
      | nil => exact absurd h Nat.toDigits_ne_nil
      | cons _ _ => rfl
    simp [matchPrec, hsp.1, hsp.2, hne, hT]
  | none =>
    cases hl : s.typeText ++ '}' :: rest with
    | nil => simp at hl
    | cons x r =>
      have hx : x ≠ '.' := by
        rcases head_typeX s hty rest x r hl with h | h | h
        · subst h; decide
        · subst h; decide
        · intro e; subst e; rw [typeStart_dot] at h; cases h
      rw [hl] at hT
      simp [matchPrec, hx, hT]

/-! ## width -/

theorem head_precX (s : Spec) (hty : tyOk s.ty = true) (rest : Str) (x : Char) (r : Str)
    (h : s.precText ++ (s.typeText ++ '}' :: rest) = x :: r) : isDigitC x = false := by
  unfold Spec.precText at h
  cases hp : s.prec with
  | some n =>
    rw [hp] at h
    simp at h
    rw [← h.1]; exact digit_dot
  | none =>
    rw [hp] at h
    simp only [List.nil_append] at h
    rcases head_typeX s hty rest x r h with h | h | h
    · subst h; exact digit_close
    · subst h; exact digit_under
    · exact typeStart_not_digit h

theorem matchWidth_gen (s : Spec) (hty : tyOk s.ty = true) (rest : Str) :
    matchWidth (s.widthText ++ (s.precText ++ (s.typeText ++ '}' :: rest))) =
      some (s.width.map (Nat.toDigits 10), s.prec.map (Nat.toDigits 10), s.ty, rest) := by
  have hP := matchPrec_gen s hty rest
  have hX := head_precX s hty rest
  unfold Spec.widthText
  cases hw : s.width with
  | some n =>
    have hsp := span_all isDigitC (Nat.toDigits 10 n) _ (toDigits_digitC n) hX
    have hne : (Nat.toDigits 10 n).isEmpty = false := by
      cases h : Nat.toDigits 10 n with
      | nil => exact absurd h Nat.toDigits_ne_nil
      | cons _ _ => rfl
    simp [matchWidth, hsp.1, hsp.2, hne, hP]
  | none =>
    have hsp := span_all isDigitC [] _ (fun _ h => by cases h) hX
    simp only [List.nil_append] at hsp ⊢
    simp [matchWidth, hsp.1, hP]

def capsOf (s : Spec) : Caps :=
  ⟨s.label, s.align.map alignChar, s.width.map (Nat.toDigits 10), s.prec.map (Nat.toDigits 10), s.ty⟩

theorem specWith_gen (s : Spec) (hty : tyOk s.ty = true) (ac : Option Char) (rest : Str) :
    specWith s.label ac (s.widthText ++ (s.precText ++ (s.typeText ++ '}' :: rest))) =
      some (⟨s.label, ac, s.width.map (Nat.toDigits 10), s.prec.map (Nat.toDigits 10), s.ty⟩, rest) := by
  simp [specWith, matchWidth_gen s hty rest]

/-! ## fill and alignment -/

theorem ty_not_align (x : Char) (t : Str) (hty : tyOk (x :: t) = true) (c : Char) (hc : c ∈ x :: t) :
    isAlignC c = false := by
  simp only [tyOk, Bool.and_eq_true, List.all_eq_true] at hty
  rcases List.mem_cons.mp hc with e | hc
  · subst e; exact typeStart_not_align hty.1
  · exact typeRest_not_align (hty.2 c hc)

/-- No character of the width, precision and type text is an alignment character. -/
theorem bodyTail_not_align (s : Spec) (hty : tyOk s.ty = true) :
    ∀ c ∈ s.widthText ++ (s.precText ++ s.typeText), isAlignC c = false := by
  intro c hc
  simp only [List.mem_append] at hc
  rcases hc with hc | hc | hc
  · unfold Spec.widthText at hc
    cases hw : s.width with
    | none => rw [hw] at hc; cases hc
    | some n => rw [hw] at hc; exact digit_not_align (toDigits_digitC n c hc)
  · unfold Spec.precText at hc
    cases hp : s.prec with
    | none => rw [hp] at hc; cases hc
    | some n =>
      rw [hp] at hc
      rcases List.mem_cons.mp hc with e | hc
      · subst e; exact align_dot
      · exact digit_not_align (toDigits_digitC n c hc)
  · unfold Spec.typeText at hc
    cases hs : s.ty with
    | nil => rw [hs] at hc; cases hc
    | cons x t =>
      rw [hs] at hc hty
      cases hu : s.under with
      | true =>
        rw [hu] at hc
        simp only [if_true, List.cons_append, List.nil_append] at hc
        rcases List.mem_cons.mp hc with e | hc
        · subst e; exact align_under
        · exact ty_not_align x t hty c hc
      | false =>
        rw [hu] at hc
        simp only [Bool.false_eq_true, if_false, List.nil_append] at hc
        exact ty_not_align x t hty c hc

theorem matchSpec_noalign (label : Str) (B : Str) (hB : B ≠ []) (hal : ∀ c ∈ B, isAlignC c = false)
    (rest : Str) : matchSpec label (B ++ '}' :: rest) = specWith label none (B ++ '}' :: rest) := by
  cases B with
  | nil => exact absurd rfl hB
  | cons b B' =>
    have hb := hal b (by simp)
    cases B' with
    | nil => simp [matchSpec, hb, align_close]
    | cons b2 B'' =>
      have hb2 := hal b2 (by simp)
      simp [matchSpec, hb, hb2]

theorem matchSpec_gen (s : Spec) (hty : tyOk s.ty = true)
    (hfill : ∀ f, s.fill = some f → isFillC f = true) (hbody : s.body ≠ []) (rest : Str) :
    matchSpec s.label (s.body ++ '}' :: rest) = some (capsOf s, rest) := by
  have hassoc : s.body ++ '}' :: rest =
      s.alignText ++ (s.widthText ++ (s.precText ++ (s.typeText ++ '}' :: rest))) := by
    simp [Spec.body, List.append_assoc]
  cases ha : s.align with
  | some a =>
    rw [hassoc]
    cases hf : s.fill with
    | some f =>
      have hff := hfill f hf
      simp [Spec.alignText, ha, hf, matchSpec, hff, align_alignChar, specWith_gen s hty, capsOf]
    | none =>
      simp [Spec.alignText, ha, hf, matchSpec, fill_alignChar, align_alignChar, specWith_gen s hty, capsOf]
  | none =>
    have hat : s.alignText = [] := by simp [Spec.alignText, ha]
    have hB : s.widthText ++ (s.precText ++ s.typeText) ≠ [] := by
      intro e; apply hbody; simp [Spec.body, hat, e]
    have hl : s.body ++ '}' :: rest = (s.widthText ++ (s.precText ++ s.typeText)) ++ '}' :: rest := by
      simp [Spec.body, hat, List.append_assoc]
    rw [hl, matchSpec_noalign s.label _ hB (bodyTail_not_align s hty) rest]
    have hl2 : (s.widthText ++ (s.precText ++ s.typeText)) ++ '}' :: rest =
        s.widthText ++ (s.precText ++ (s.typeText ++ '}' :: rest)) := by simp [List.append_assoc]
    rw [hl2, specWith_gen s hty]
    simp [capsOf, ha]

/-! ## the label alternation -/

theorem dropPrefix_self (lab X : Str) : dropPrefix? (lab ++ X) lab = some X := by
  induction lab with
  | nil => cases X <;> simp [dropPrefix?]
  | cons c lab ih => simp [dropPrefix?, ih]

def cleanLabel (lab : Str) : Prop := ∀ c ∈ lab, c ≠ ':' ∧ c ≠ '}'

/-- Two labels without `:` / `}` that both match in front of a `:` or `}` are the same label. -/
theorem dropPrefix_other (lab' : Str) : ∀ (lab : Str) (d : Char) (X : Str) (c : Char) (r : Str),
    cleanLabel lab' → cleanLabel lab → (d = ':' ∨ d = '}') → (c = ':' ∨ c = '}') →
    dropPrefix? (lab ++ d :: X) lab' = some (c :: r) → lab' = lab := by
  induction lab' with
  | nil =>
    intro lab d X c r _ hl _ hc h
    cases lab with
    | nil => rfl
    | cons x lab2 =>
      simp [dropPrefix?] at h
      have := hl x (by simp)
      rcases hc with e | e
      · exact absurd (h.1.trans e) this.1
      · exact absurd (h.1.trans e) this.2
  | cons y lab'2 ih =>
    intro lab d X c r hl' hl hd hc h
    have hy := hl' y (by simp)
    cases lab with
    | nil =>
      simp only [List.nil_append, dropPrefix?] at h
      by_cases e : d = y
      · subst e
        rcases hd with e | e
        · exact absurd e hy.1
        · exact absurd e hy.2
      · simp [e] at h
    | cons x lab2 =>
      simp only [List.cons_append, dropPrefix?] at h
      by_cases e : x = y
      · subst e
        simp only [if_true] at h
        have := ih lab2 d X c r (fun c hc => hl' c (List.mem_cons_of_mem _ hc))
          (fun c hc => hl c (List.mem_cons_of_mem _ hc)) hd hc h
        rw [this]
      · simp [e] at h

/-- What follows the label: `}` or `:body}`. -/
def Spec.afterLabel (s : Spec) (rest : Str) : Str :=
  (match s.body with | [] => [] | b => ':' :: b) ++ '}' :: rest

theorem afterLabel_head (s : Spec) (rest : Str) :
    ∃ d X, s.afterLabel rest = d :: X ∧ (d = ':' ∨ d = '}') := by
  unfold Spec.afterLabel
  cases s.body with
  | nil => exact ⟨'}', rest, rfl, Or.inr rfl⟩
  | cons b B => exact ⟨':', _, rfl, Or.inl rfl⟩

theorem body_nil_caps (s : Spec) (h : s.body = []) : capsOf s = ⟨s.label, none, none, none, []⟩ := by
  simp only [Spec.body, List.append_eq_nil_iff] at h
  obtain ⟨h1, h2, h3, h4⟩ := h
  have ha : s.align = none := by
    cases ha : s.align with
    | none => rfl
    | some a => simp [Spec.alignText, ha] at h1
  have hw : s.width = none := by
    cases hw : s.width with
    | none => rfl
    | some n => simp [Spec.widthText, hw] at h2
  have hp : s.prec = none := by
    cases hp : s.prec with
    | none => rfl
    | some n => simp [Spec.precText, hp] at h3
  have ht : s.ty = [] := by
    cases ht : s.ty with
    | nil => rfl
    | cons x t => cases hu : s.under <;> simp [Spec.typeText, ht, hu] at h4
  simp [capsOf, ha, hw, hp, ht]

theorem here_self (s : Spec) (hty : tyOk s.ty = true)
    (hfill : ∀ f, s.fill = some f → isFillC f = true) (rest : Str) :
    (match s.afterLabel rest with
      | c :: r =>
        if c = ':' then matchSpec s.label r
        else if c = '}' then some ((⟨s.label, none, none, none, []⟩ : Caps), r)
        else none
      | [] => none) = some (capsOf s, rest) := by
  unfold Spec.afterLabel
  cases hb : s.body with
  | nil => simp [body_nil_caps s hb]
  | cons b B =>
    have := matchSpec_gen s hty hfill (by rw [hb]; simp) rest
    rw [hb] at this
    simpa using this

theorem matchAfterBrace_gen (labels : List Str) (hl : ∀ lab ∈ labels, cleanLabel lab) (s : Spec)
    (hmem : s.label ∈ labels) (hty : tyOk s.ty = true)
    (hfill : ∀ f, s.fill = some f → isFillC f = true) (rest : Str) :
    matchAfterBrace labels (s.label ++ s.afterLabel rest) = some (capsOf s, rest) := by
  induction labels with
  | nil => cases hmem
  | cons lab more ih =>
    by_cases e : lab = s.label
    · subst e
      have hh := here_self s hty hfill rest
      unfold matchAfterBrace
      rw [dropPrefix_self]
      cases hal : s.afterLabel rest with
      | nil => rw [hal] at hh; cases hh
      | cons c r => rw [hal] at hh; simp only [] at hh ⊢; rw [hh]
    · have hmem' : s.label ∈ more := by
        rcases List.mem_cons.mp hmem with h | h
        · exact absurd h.symm e
        · exact h
      have ih' := ih (fun l hl' => hl l (List.mem_cons_of_mem _ hl')) hmem'
      obtain ⟨d, X, hdX, hd⟩ := afterLabel_head s rest
      unfold matchAfterBrace
      cases hdp : dropPrefix? (s.label ++ s.afterLabel rest) lab with
      | none => simpa using ih'
      | some t =>
        cases t with
        | nil => simpa using ih'
        | cons c r =>
          have hne : ¬ (c = ':' ∨ c = '}') := by
            intro hc
            rw [hdX] at hdp
            exact e (dropPrefix_other lab s.label d X c r (hl lab (by simp))
              (hl s.label hmem) hd hc hdp)
          have h1 : c ≠ ':' := fun h => hne (Or.inl h)
          have h2 : c ≠ '}' := fun h => hne (Or.inr h)
          simp only [h1, h2, if_false]
          exact ih'

/-! ## leftmost match -/

theorem matchAfterBrace_noStart (labels : List Str) (d : Char) (t : Str)
    (h : noStart labels d = true) : matchAfterBrace labels (d :: t) = none := by
  induction labels with
  | nil => rfl
  | cons lab more ih =>
    simp only [noStart, List.all_cons, Bool.and_eq_true] at h
    have ih' := ih (by simpa [noStart] using h.2)
    cases lab with
    | nil => simp at h
    | cons x lab2 =>
      have hx : d ≠ x := by
        have := h.1
        simp at this
        exact fun e => this e.symm
      unfold matchAfterBrace
      simp [dropPrefix?, hx, ih']

theorem Spec.text_eq (s : Spec) (rest : Str) :
    s.text ++ rest = '{' :: (s.label ++ s.afterLabel rest) := by
  unfold Spec.text Spec.afterLabel
  cases s.body <;> simp

theorem findPlaceholder_skip (labels : List Str) (c : Char) (t : Str)
    (h : (if c = '{' then matchAfterBrace labels t else none) = none) :
    findPlaceholder labels (c :: t) =
      match findPlaceholder labels t with
      | some (pre, caps, after) => some (c :: pre, caps, after)
      | none => none := by
  rw [findPlaceholder, h]
  rfl

theorem findPlaceholder_gen (labels : List Str) (hl : ∀ lab ∈ labels, cleanLabel lab) (s : Spec)
    (hmem : s.label ∈ labels) (hty : tyOk s.ty = true)
    (hfill : ∀ f, s.fill = some f → isFillC f = true) (rest : Str) :
    ∀ lit : Str, litOk labels lit = true →
      findPlaceholder labels (lit ++ (s.text ++ rest)) = some (lit, capsOf s, rest) := by
  intro lit
  induction lit with
  | nil =>
    intro _
    rw [List.nil_append, Spec.text_eq]
    simp [findPlaceholder, matchAfterBrace_gen labels hl s hmem hty hfill rest]
  | cons c lit ih =>
    intro hok
    simp only [litOk, Bool.and_eq_true] at hok
    have ih' := ih hok.2
    have hskip : (if c = '{' then matchAfterBrace labels (lit ++ (s.text ++ rest)) else none) = none := by
      by_cases e : c = '{'
      · subst e
        cases lit with
        | nil => simp at hok
        | cons d lit' =>
          have hd : noStart labels d = true := by simpa using hok.1
          simp [matchAfterBrace_noStart labels d _ hd]
      · simp [e]
    rw [List.cons_append, findPlaceholder_skip labels c _ hskip, ih']

theorem findPlaceholder_lit (labels : List Str) :
    ∀ lit : Str, litOk labels lit = true → findPlaceholder labels lit = none := by
  intro lit
  induction lit with
  | nil => intro _; rfl
  | cons c lit ih =>
    intro hok
    simp only [litOk, Bool.and_eq_true] at hok
    have ih' := ih hok.2
    have hskip : (if c = '{' then matchAfterBrace labels lit else none) = none := by
      by_cases e : c = '{'
      · subst e
        cases lit with
        | nil => simp at hok
        | cons d lit' =>
          have hd : noStart labels d = true := by simpa using hok.1
          simp [matchAfterBrace_noStart labels d _ hd]
      · simp [e]
    rw [findPlaceholder_skip labels c _ hskip, ih']

/-! ## `parse_line_number_format` -/

theorem parseUsize_toDigits (n : Nat) (h : n ≤ usizeMax) : parseUsize (Nat.toDigits 10 n) = some n := by
  simp [parseUsize, toDigits_all_isDigit, Nat.ofDigitChars_ten_toDigits, h]

theorem mkItem_gen (s : Spec) (hw : optLe s.width = true) (hp : optLe s.prec = true) (pre suf : Str) :
    mkItem pre (capsOf s) suf =
      .ok ⟨pre, some s.label, s.align, s.width, s.prec, s.ty, suf⟩ := by
  have ha : (s.align.map alignChar).bind alignOfChar = s.align := by
    cases s.align with
    | none => rfl
    | some a => simp [alignOfChar_alignChar]
  cases hw' : s.width with
  | none =>
    cases hp' : s.prec with
    | none => simp [mkItem, capsOf, hw', hp', ha]
    | some p =>
      rw [hp'] at hp
      have := parseUsize_toDigits p (by simpa [optLe] using hp)
      simp [mkItem, capsOf, hw', hp', ha, this]
  | some w =>
    rw [hw'] at hw
    have h1 := parseUsize_toDigits w (by simpa [optLe] using hw)
    cases hp' : s.prec with
    | none => simp [mkItem, capsOf, hw', hp', ha, h1]
    | some p =>
      rw [hp'] at hp
      have := parseUsize_toDigits p (by simpa [optLe] using hp)
      simp [mkItem, capsOf, hw', hp', ha, h1, this]

/-- All pieces of a format are well formed for the label set. -/
def piecesOk (labels : List Str) (ps : List Piece) : Prop :=
  ∀ p ∈ ps, p.spec.ok labels = true ∧ litOk labels p.lit = true

theorem labelsOk_clean (labels : List Str) (h : labelsOk labels = true) : ∀ lab ∈ labels, cleanLabel lab := by
  intro lab hlab c hc
  simp only [labelsOk, List.all_eq_true, Bool.and_eq_true] at h
  have := (h lab hlab).2 c hc
  simpa using this

theorem parseFormatF_gen (labels : List Str) (hlab : labelsOk labels = true) (tail : Str)
    (ht : litOk labels tail = true) :
    ∀ (ps : List Piece) (fuel : Nat), piecesOk labels ps → ps.length < fuel →
      parseFormatF labels fuel (render ps tail) = .ok (itemsOf ps tail) := by
  intro ps
  induction ps with
  | nil =>
    intro fuel _ hf
    cases fuel with
    | zero => cases hf
    | succ fuel => simp [render, parseFormatF, findPlaceholder_lit labels tail ht, itemsOf]
  | cons p ps ih =>
    intro fuel hps hf
    cases fuel with
    | zero => cases hf
    | succ fuel =>
      have hp := hps p (by simp)
      simp only [Spec.ok, Bool.and_eq_true] at hp
      obtain ⟨⟨⟨⟨⟨hmem, hfill⟩, hw⟩, hpr⟩, hty⟩, hlit⟩ := hp
      have hmem' : p.spec.label ∈ labels := by simpa using hmem
      have hfill' : ∀ f, p.spec.fill = some f → isFillC f = true := by
        intro f hf'; rw [hf'] at hfill; exact hfill
      have hfind := findPlaceholder_gen labels (labelsOk_clean labels hlab) p.spec hmem' hty hfill'
        (render ps tail) p.lit hlit
      have ih' := ih fuel (fun q hq => hps q (List.mem_cons_of_mem _ hq)) (by simp at hf; omega)
      simp [render, parseFormatF, hfind, mkItem_gen p.spec hw hpr, ih', itemsOf]

theorem render_length (ps : List Piece) (tail : Str) : ps.length ≤ (render ps tail).length := by
  induction ps with
  | nil => simp
  | cons p ps ih => simp [render, Spec.text]; omega

/-- `parse_line_number_format` inverts `render`, for every label set without `:` / `}`. -/
theorem parseFormat_render (labels : List Str) (hlab : labelsOk labels = true) (ps : List Piece)
    (tail : Str) (hps : piecesOk labels ps) (ht : litOk labels tail = true) :
    parseFormat labels (render ps tail) = .ok (expected ps tail) := by
  have h := parseFormatF_gen labels hlab tail ht ps ((render ps tail).length + 1) hps
    (by have := render_length ps tail; omega)
  unfold parseFormat
  rw [h]
  cases ps with
  | nil => simp [itemsOf, expected, render]
  | cons p ps => simp [itemsOf, expected]

/-! ## the blame format -/

/-- The `Item`s `format_blame_metadata` reads for `render ps tail`: one per placeholder, carrying the
literal text before it, the field its label prints, alignment / width / precision as written, and
(as in the source) the whole rest of the format string as suffix. -/
def blameItemsOf : List Piece → Str → List Item
  | [], _ => []
  | p :: ps, tail =>
    ⟨p.lit, fieldOfLabel p.spec.label, p.spec.align, p.spec.width, p.spec.prec, render ps tail⟩ ::
      blameItemsOf ps tail

def blameExpected (ps : List Piece) (tail : Str) : List Item :=
  match ps with
  | [] => [⟨[], none, none, none, none, tail⟩]
  | _ => blameItemsOf ps tail

theorem blameLabels_field : ∀ lab ∈ blameLabels, (fieldOfLabel lab).isSome = true := by decide

theorem toItems_itemsOf (tail : Str) : ∀ ps : List Piece, piecesOk blameLabels ps →
    toItems (itemsOf ps tail) = .ok (blameItemsOf ps tail) := by
  intro ps
  induction ps with
  | nil => intro _; rfl
  | cons p ps ih =>
    intro hps
    have hp := (hps p (by simp)).1
    simp only [Spec.ok, Bool.and_eq_true] at hp
    have hmem : p.spec.label ∈ blameLabels := by simpa using hp.1.1.1.1
    have hf := blameLabels_field p.spec.label hmem
    have ih' := ih (fun q hq => hps q (List.mem_cons_of_mem _ hq))
    cases hfl : fieldOfLabel p.spec.label with
    | none => rw [hfl] at hf; cases hf
    | some f => simp [itemsOf, toItems, toItem, hfl, ih', blameItemsOf]

/-- `parse_line_number_format(blame_format, BLAME_PLACEHOLDER_REGEX)` inverts `render`. -/
theorem parseBlameFormat_render (ps : List Piece) (tail : Str) (hps : piecesOk blameLabels ps)
    (ht : litOk blameLabels tail = true) :
    parseBlameFormat (render ps tail) = .ok (blameExpected ps tail) := by
  unfold parseBlameFormat
  rw [parseFormat_render blameLabels (by decide) ps tail hps ht]
  cases ps with
  | nil => simp [expected, toItems, toItem, blameExpected]
  | cons p ps =>
    have := toItems_itemsOf tail (p :: ps) hps
    simpa [expected, blameExpected] using this

theorem mem_blameItemsOf (tail : Str) (p : Piece) : ∀ ps : List Piece, p ∈ ps →
    ∃ it ∈ blameItemsOf ps tail, it.ph = fieldOfLabel p.spec.label ∧ it.prec = p.spec.prec := by
  intro ps
  induction ps with
  | nil => intro h; cases h
  | cons q ps ih =>
    intro h
    rcases List.mem_cons.mp h with e | h
    · subst e
      exact ⟨_, List.mem_cons_self, rfl, rfl⟩
    · obtain ⟨it, hit, h1, h2⟩ := ih h
      exact ⟨it, List.mem_cons_of_mem _ hit, h1, h2⟩

/-- Every placeholder written in the format shows its field in the metadata (= the colour key). -/
theorem blameFormat_shows (arith : Nat) (cw : Char → Nat) (ps : List Piece) (tail : Str)
    (ts author commit key : Str)
    (hk : formatMeta arith cw (blameExpected ps tail) ts author commit = .ok key)
    (p : Piece) (hp : p ∈ ps) (f : Field) (hf : fieldOfLabel p.spec.label = some f) :
    (match p.spec.prec with
     | none => fieldText f ts author commit
     | some n => (fieldText f ts author commit).take n) <:+: key := by
  obtain ⟨it, hit, h1, h2⟩ := mem_blameItemsOf tail p ps hp
  have hit' : it ∈ blameExpected ps tail := by
    cases ps with
    | nil => cases hp
    | cons q qs => exact hit
  have := formatMetaGo_shows arith cw ts author commit (blameExpected ps tail) [] [] key hk it hit' f
    (by rw [h1, hf])
  rw [h2] at this
  exact this

end PF
end Blame
