import Proofs.WrapSect
/-
C07 helper (sectioning independence, part 2): how the machine consumes a run of clusters of
the finest sectioning.
-/
namespace Wrap

/-- What the simulation needs of the (flat) line and of the repairs present. -/
structure SimHyp (fx : Fixes) (cfg : Cfg) (lw : Nat) (flat : List G) : Prop where
  sym1 : cfg.leftSym.w = 1
  /-- "perfect fit" of the finest sectioning means: nothing of positive width follows -/
  p1 : ∀ r, r <:+ flat → (PerfectRest fx (fine r) ↔ gsWidth r = 0)
  /-- a zero-width cluster can only be the very last one, unless the shortcut is repaired -/
  p2 : fx.zwShortcut = true ∨ ∀ g r', (g :: r') <:+ flat → g.w = 0 → r' = []
  fits : ∀ g ∈ flat, g.w + cfg.leftSym.w ≤ lw

theorem isNlList_append {a b : List G} (h : isNlList (a ++ b) = true) :
    (a = [] ∧ isNlList b = true) ∨ (isNlList a = true ∧ b = []) := by
  cases a with
  | nil => left; exact ⟨rfl, h⟩
  | cons x a =>
    cases a with
    | nil =>
      cases b with
      | nil => right; exact ⟨by simpa using h, rfl⟩
      | cons y b => simp [isNlList] at h
    | cons y a => simp [isNlList] at h

theorem isNlList_ne_nil {b : List G} (h : isNlList b = true) : b ≠ [] := by
  intro hb; rw [hb] at h; cases h

/-- The machine, on the finest sectioning, places a run `a` of clusters that fits the row
(the last of them possibly by a perfect fit) cluster by cluster. If the run ends exactly at
the row end and only the line's final newline follows, that is placed too. -/
theorem fine_push_run {fx : Fixes} {cfg : Cfg} {sym lw : Nat} {flat : List G}
    (H : SimHyp fx cfg lw flat) :
    ∀ (a b : List G) (stF : St),
      stF.stack = fine (a ++ b) → (a ++ b) <:+ flat →
      limitReached (effMax cfg lw) stF.result.length = false →
      stF.len + gsWidth a ≤ lw → (stF.len + gsWidth a = lw → gsWidth b = 0) →
      ∃ stF', Steps fx cfg sym lw stF stF' ∧ stF'.result = stF.result ∧
        stF'.len = stF.len + gsWidth a ∧
        (if a ≠ [] ∧ stF.len + gsWidth a = lw ∧ isNlList b = true
         then stF'.stack = [] ∧ flatG stF'.curr = flatG stF.curr ++ a ++ b
         else stF'.stack = fine b ∧ flatG stF'.curr = flatG stF.curr ++ a) := by
  intro a
  induction a with
  | nil =>
    intro b stF hst _ _ _ _
    refine ⟨stF, Steps.refl _, rfl, by simp [gsWidth], ?_⟩
    simp only [ne_eq, not_true_eq_false, false_and, if_false]
    exact ⟨by simpa using hst, by simp⟩
  | cons x a ih =>
    intro b stF hst hsuf hlim hle hzero
    have hsuf' : (a ++ b) <:+ flat := List.IsSuffix.trans (List.suffix_cons x (a ++ b)) hsuf
    have hstack : stF.stack = (0, [x]) :: fine (a ++ b) := by rw [hst]; rfl
    have hgx : gsWidth [x] = x.w := by simp [gsWidth]
    simp only [gsWidth] at hle hzero
    by_cases hlt : stF.len + x.w < lw
    · -- plain push, then the rest of the run
      have hrel : StepRel fx cfg sym lw stF
          { stF with curr := stF.curr ++ [(0, [x])], len := stF.len + gsWidth [x], stack := fine (a ++ b) } :=
        StepRel.push stF 0 [x] (fine (a ++ b)) hstack hlim (Or.inl (by rw [hgx]; exact hlt))
      obtain ⟨st2, hsteps, hres, hlen, hcond⟩ :=
        ih b { stF with curr := stF.curr ++ [(0, [x])], len := stF.len + gsWidth [x], stack := fine (a ++ b) }
          rfl hsuf' hlim (by simp only [hgx]; omega) (by simp only [hgx]; intro h; exact hzero (by omega))
      refine ⟨st2, Steps.cons (step_of_rel hrel) hsteps, hres, by simp only [hlen, hgx, gsWidth]; omega, ?_⟩
      simp only [hgx] at hcond
      have hflat : flatG (stF.curr ++ [(0, [x])]) = flatG stF.curr ++ [x] := by simp [flatG_append, flatG]
      have hiff : (a ≠ [] ∧ stF.len + x.w + gsWidth a = lw ∧ isNlList b = true) ↔
          (x :: a ≠ [] ∧ stF.len + gsWidth (x :: a) = lw ∧ isNlList b = true) := by
        simp only [gsWidth]
        constructor
        · intro ⟨_, h2, h3⟩; exact ⟨by simp, by omega, h3⟩
        · intro ⟨_, h2, h3⟩
          refine ⟨?_, by omega, h3⟩
          intro ha; subst ha; simp [gsWidth] at h2; omega
      simp only [hiff] at hcond
      by_cases hc : x :: a ≠ [] ∧ stF.len + gsWidth (x :: a) = lw ∧ isNlList b = true
      · rw [if_pos hc] at hcond ⊢
        exact ⟨hcond.1, by rw [hcond.2, hflat]; simp⟩
      · rw [if_neg hc] at hcond ⊢
        exact ⟨hcond.1, by rw [hcond.2, hflat]; simp⟩
    · -- the cluster ends the row: everything after it has width zero
      have heq : stF.len + x.w = lw := by omega
      have ha0 : gsWidth a = 0 := by omega
      have hb0 : gsWidth b = 0 := hzero (by omega)
      have hr0 : gsWidth (a ++ b) = 0 := by rw [gsWidth_append]; omega
      have hperf : PerfectRest fx (fine (a ++ b)) := (H.p1 (a ++ b) hsuf').mpr hr0
      have hflat : flatG (stF.curr ++ [(0, [x])]) = flatG stF.curr ++ [x] := by simp [flatG_append, flatG]
      by_cases hnil : a ++ b = []
      · -- nothing follows
        have ha : a = [] := (List.append_eq_nil_iff.mp hnil).1
        have hb : b = [] := (List.append_eq_nil_iff.mp hnil).2
        subst ha; subst hb
        have hrel : StepRel fx cfg sym lw stF
            { stF with curr := stF.curr ++ [(0, [x])], len := stF.len + gsWidth [x], stack := fine ([] ++ []) } :=
          StepRel.push stF 0 [x] (fine ([] ++ [])) hstack hlim (Or.inr ⟨by rw [hgx]; exact heq, Or.inl rfl⟩)
        refine ⟨_, Steps.single (step_of_rel hrel), rfl, by simp [gsWidth], ?_⟩
        have hc : ¬ (x :: ([] : List G) ≠ [] ∧ stF.len + gsWidth (x :: []) = lw ∧ isNlList ([] : List G) = true) := by
          simp [isNlList]
        rw [if_neg hc]
        exact ⟨rfl, by simp only [hflat]⟩
      · by_cases hnl : isNlList (a ++ b) = true
        · -- only the final newline follows: the lone-newline rule places both
          have hrel : StepRel fx cfg sym lw stF
              { stF with curr := stF.curr ++ (0, [x]) :: fine (a ++ b), len := stF.len + gsWidth [x], stack := [] } :=
            StepRel.nl stF 0 [x] (fine (a ++ b)) hstack hlim (by rw [hgx]; exact heq)
              (by rw [isLoneNl_fine]; exact hnl)
          have hcurr : flatG (stF.curr ++ (0, [x]) :: fine (a ++ b)) = flatG stF.curr ++ x :: (a ++ b) := by
            rw [flatG_append, flatG_cons, flatG_fine]; rfl
          refine ⟨_, Steps.single (step_of_rel hrel), rfl, by simp only [hgx, gsWidth]; omega, ?_⟩
          rcases isNlList_append hnl with ⟨ha, hb⟩ | ⟨ha, hb⟩
          · subst ha
            have hc : (x :: ([] : List G) ≠ [] ∧ stF.len + gsWidth (x :: []) = lw ∧ isNlList b = true) :=
              ⟨by simp, by simp [gsWidth]; omega, hb⟩
            rw [if_pos hc]
            exact ⟨rfl, by rw [hcurr]; simp⟩
          · subst hb
            have hc : ¬ (x :: a ≠ [] ∧ stF.len + gsWidth (x :: a) = lw ∧ isNlList ([] : List G) = true) := by
              simp [isNlList]
            rw [if_neg hc]
            exact ⟨rfl, by rw [hcurr]; simp⟩
        · -- other zero-width text follows: the zero-width perfect fit, then the rest of the run
          have hnl' : isLoneNl (fine (a ++ b)) = false := by
            rw [isLoneNl_fine]; cases h : isNlList (a ++ b) <;> simp_all
          have hzw : fx.zwPerfectFit = true ∧ allZeroWidth (fine (a ++ b)) = true := by
            rcases hperf with h | h | h
            · exact absurd (by simpa [fine] using h) hnil
            · rw [hnl'] at h; cases h
            · exact h
          have hrel : StepRel fx cfg sym lw stF
              { stF with curr := stF.curr ++ [(0, [x])], len := stF.len + gsWidth [x], stack := fine (a ++ b) } :=
            StepRel.push stF 0 [x] (fine (a ++ b)) hstack hlim
              (Or.inr ⟨by rw [hgx]; exact heq, Or.inr ⟨hnl', hzw⟩⟩)
          obtain ⟨st2, hsteps, hres, hlen, hcond⟩ :=
            ih b { stF with curr := stF.curr ++ [(0, [x])], len := stF.len + gsWidth [x], stack := fine (a ++ b) }
              rfl hsuf' hlim (by simp only [hgx]; omega) (by intro _; exact hb0)
          refine ⟨st2, Steps.cons (step_of_rel hrel) hsteps, hres, by simp only [hlen, hgx, gsWidth]; omega, ?_⟩
          simp only [hgx] at hcond
          have hiff : (a ≠ [] ∧ stF.len + x.w + gsWidth a = lw ∧ isNlList b = true) ↔
              (x :: a ≠ [] ∧ stF.len + gsWidth (x :: a) = lw ∧ isNlList b = true) := by
            simp only [gsWidth]
            constructor
            · intro ⟨_, h2, h3⟩; exact ⟨by simp, by omega, h3⟩
            · intro ⟨_, h2, h3⟩
              refine ⟨?_, by omega, h3⟩
              intro ha; subst ha
              exact hnl (by simpa using h3)
          simp only [hiff] at hcond
          by_cases hc : x :: a ≠ [] ∧ stF.len + gsWidth (x :: a) = lw ∧ isNlList b = true
          · rw [if_pos hc] at hcond ⊢
            exact ⟨hcond.1, by rw [hcond.2, hflat]; simp⟩
          · rw [if_neg hc] at hcond ⊢
            exact ⟨hcond.1, by rw [hcond.2, hflat]; simp⟩

end Wrap
