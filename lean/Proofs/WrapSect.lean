import Proofs.WrapMain
/-
C07 helper (sectioning independence, part 1): multi-step execution of the loop, the converse
of `step_next`, and the finest sectioning of a line.
-/
namespace Wrap

/-- The clusters of a list of sections, section boundaries forgotten. -/
def flatG (secs : List Sec) : List G := secs.flatMap (·.2)

/-- The finest sectioning: every cluster a section of its own (style 0). -/
def fine (gs : List G) : List Sec := gs.map fun g => (0, [g])

theorem flatG_nil : flatG [] = [] := rfl
theorem flatG_cons (s : Sec) (r : List Sec) : flatG (s :: r) = s.2 ++ flatG r := by simp [flatG]
theorem flatG_append (a b : List Sec) : flatG (a ++ b) = flatG a ++ flatG b := by simp [flatG]
theorem flatG_fine (gs : List G) : flatG (fine gs) = gs := by
  induction gs with
  | nil => rfl
  | cons g gs ih => simp only [fine, List.map_cons, flatG_cons] at ih ⊢; simp [ih]
theorem fine_cons (g : G) (gs : List G) : fine (g :: gs) = (0, [g]) :: fine gs := rfl
theorem fine_nil : fine [] = [] := rfl

theorem gsWidth_flatG (secs : List Sec) : gsWidth (flatG secs) = rowWidth secs := by
  induction secs with
  | nil => rfl
  | cons s r ih => rw [flatG_cons, gsWidth_append, ih]; rfl

/-- `[nl]` with `nl` a newline cluster. -/
def isNlList : List G → Bool
  | [g] => g.s == "\n"
  | _ => false

theorem isLoneNl_fine (r : List G) : isLoneNl (fine r) = isNlList r := by
  cases r with
  | nil => rfl
  | cons g r =>
    cases r with
    | nil => rfl
    | cons g' r => rfl

theorem allZeroWidth_iff (secs : List Sec) : allZeroWidth secs = true ↔ rowWidth secs = 0 := by
  induction secs with
  | nil => simp [allZeroWidth, rowWidth]
  | cons s r ih =>
    rw [allZeroWidth_cons, ih]
    simp only [rowWidth]
    omega

theorem rowWidth_fine (r : List G) : rowWidth (fine r) = gsWidth r := by
  rw [← gsWidth_flatG, flatG_fine]

/-- Multi-step execution: zero or more iterations that continue. -/
inductive Steps (fx : Fixes) (cfg : Cfg) (sym lw : Nat) : St → St → Prop
  | refl (st : St) : Steps fx cfg sym lw st st
  | cons {a b c : St} : step fx cfg sym lw a = .next b → Steps fx cfg sym lw b c → Steps fx cfg sym lw a c

theorem Steps.trans {fx : Fixes} {cfg : Cfg} {sym lw : Nat} {a b c : St}
    (h1 : Steps fx cfg sym lw a b) (h2 : Steps fx cfg sym lw b c) : Steps fx cfg sym lw a c := by
  induction h1 with
  | refl => exact h2
  | cons hs _ ih => exact Steps.cons hs (ih h2)

theorem Steps.single {fx : Fixes} {cfg : Cfg} {sym lw : Nat} {a b : St}
    (h : step fx cfg sym lw a = .next b) : Steps fx cfg sym lw a b :=
  Steps.cons h (Steps.refl b)

theorem loop_steps {fx : Fixes} {cfg : Cfg} {sym lw : Nat} :
    ∀ (fuel : Nat) (st st' : St) (stop : Stop), loop fx cfg sym lw fuel st = some (st', stop) →
      Steps fx cfg sym lw st st' ∧ step fx cfg sym lw st' = .done stop := by
  intro fuel
  induction fuel with
  | zero => intro st st' stop h; simp [loop] at h
  | succ n ih =>
    intro st st' stop h
    unfold loop at h
    split at h
    · rename_i s hs
      cases h
      exact ⟨Steps.refl _, hs⟩
    · rename_i st2 hs
      obtain ⟨h1, h2⟩ := ih st2 st' stop h
      exact ⟨Steps.cons hs h1, h2⟩

/-- The loop is deterministic: the state in which it stops is unique. -/
theorem steps_done_unique {fx : Fixes} {cfg : Cfg} {sym lw : Nat} {a b c : St} {s s' : Stop}
    (h1 : Steps fx cfg sym lw a b) (hb : step fx cfg sym lw b = .done s)
    (h2 : Steps fx cfg sym lw a c) (hc : step fx cfg sym lw c = .done s') : b = c ∧ s = s' := by
  induction h1 generalizing c with
  | refl st =>
    cases h2 with
    | refl => rw [hb] at hc; cases hc; exact ⟨rfl, rfl⟩
    | cons hs _ => rw [hb] at hs; cases hs
  | cons hs _ ih =>
    cases h2 with
    | refl => rw [hc] at hs; cases hs
    | cons hs' h2' =>
      rw [hs] at hs'
      cases hs'
      exact ih hb h2' hc

/-- Converse of `step_next`: the step relation determines the step. -/
theorem step_of_rel {fx : Fixes} {cfg : Cfg} {sym lw : Nat} {st st' : St}
    (h : StepRel fx cfg sym lw st st') : step fx cfg sym lw st = .next st' := by
  cases h with
  | push style gs rest hs hl hfit =>
    unfold step
    rw [hs]
    simp only [hl, Bool.false_eq_true, if_false]
    rcases hfit with h1 | ⟨h1, h2 | ⟨h3, h4, h5⟩⟩
    · simp [h1]
    · have : ¬ st.len + gsWidth gs < lw := by omega
      simp [this, h1, h2]
    · have : ¬ st.len + gsWidth gs < lw := by omega
      by_cases hr : rest = []
      · simp [this, h1, hr]
      · simp [this, h1, hr, h3, h4, h5]
  | nl style gs rest hs hl heq hnl =>
    unfold step
    rw [hs]
    have : ¬ st.len + gsWidth gs < lw := by omega
    have hr : rest ≠ [] := by intro h; rw [h] at hnl; cases hnl
    simp [hl, this, heq, hr, hnl]
  | split0 style gs rest hs hl hge hnf hns hw =>
    unfold step
    rw [hs]
    have h1 : ¬ st.len + gsWidth gs < lw := by omega
    have h2 : ¬ (st.len + gsWidth gs = lw ∧ rest = []) := fun ⟨a, b⟩ => hnf ⟨a, Or.inl b⟩
    have h3 : ¬ (st.len + gsWidth gs = lw ∧ isLoneNl rest = true) := fun ⟨a, b⟩ => hnf ⟨a, Or.inr (Or.inl b)⟩
    have h4 : ¬ (st.len + gsWidth gs = lw ∧ fx.zwPerfectFit = true ∧ allZeroWidth rest = true) :=
      fun ⟨a, b⟩ => hnf ⟨a, Or.inr (Or.inr b)⟩
    have h5 : ¬ (fx.stuckStop = true ∧ stuckCond cfg lw st gs) := hns
    simp only [hl, Bool.false_eq_true, if_false, h1, h2, h3, h4, h5, hw, if_true]
  | splitk style gs rest hs hl hge hnf hns hw =>
    unfold step
    rw [hs]
    have h1 : ¬ st.len + gsWidth gs < lw := by omega
    have h2 : ¬ (st.len + gsWidth gs = lw ∧ rest = []) := fun ⟨a, b⟩ => hnf ⟨a, Or.inl b⟩
    have h3 : ¬ (st.len + gsWidth gs = lw ∧ isLoneNl rest = true) := fun ⟨a, b⟩ => hnf ⟨a, Or.inr (Or.inl b)⟩
    have h4 : ¬ (st.len + gsWidth gs = lw ∧ fx.zwPerfectFit = true ∧ allZeroWidth rest = true) :=
      fun ⟨a, b⟩ => hnf ⟨a, Or.inr (Or.inr b)⟩
    have h5 : ¬ (fx.stuckStop = true ∧ stuckCond cfg lw st gs) := hns
    simp only [hl, Bool.false_eq_true, if_false, h1, h2, h3, h4, h5, hw]

end Wrap
