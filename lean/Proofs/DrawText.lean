import DeltaModel.DrawText
import Proofs.TermDraw
/-!
The text of a decorated header (commit / file / hunk header, merge-conflict and grep headers) is painted
with the text style it was given, unmodified — whatever the decoration.

Two layers:
* over the generated data-flow reading of `src/handlers/draw.rs` (`Generated.DrawText`): for every
  function `get_draw_function` can return, the symbolic run reaches `paint` only with the unmodified
  `text_style` argument (on `text` / `text (addendum)`) or the unmodified `decoration_style` argument (on
  material free of the text); every call site passes a configured style together with *its own* decoration;
* over the executable `Draw` model (`DeltaModel/Sgr.lean`, tied to the source by
  `DrawProofs.shapes_as_modelled`): for every decoration shape the text piece written is
  `Sgr.paint a.textStyle (text or text (addendum))`, every other piece is painted with the decoration style,
  and the abstract terminal shows the text in exactly the renditions of `a.textStyle`.
-/
namespace DrawTextProofs
open DrawText Generated.DrawText

/-! ### The source, read as data flow -/

/-- **Every drawing function paints the text with its own `text_style` argument, unmodified**, and
paints with nothing but that and its own `decoration_style` argument (see
`DrawText.TextPaintedWithGivenStyle`), for each of the eight decoration variants. -/
theorem text_style_reaches_paint_unmodified :
    ∀ vf ∈ drawFunctionOf, TextPaintedWithGivenStyle (paintsOf drawFns vf.2) := by decide +kernel

/-- No function of `draw.rs` declares a parameter `mut`, and none assigns to anything: values only
flow through `let`s and calls (what the symbolic run follows). -/
theorem no_mutation_in_draw :
    ∀ f ∈ drawFns, f.mutParams = [] ∧ ∀ e ∈ f.events, isMutate e = false := by decide +kernel

/-- A `DrawFunction` takes the text style as its sixth argument (the only `Style`), the decoration style
as its seventh; all eight variants are mapped to a function of the table with seven parameters. -/
theorem draw_function_signature :
    drawFunctionParamTypes = ["&mut dyn Write", "&str", "&str", "&str", "&Width", "Style", "ansi_term::Style"] ∧
    drawFunctionOf.map (·.1) = ["Box", "BoxWithUnderline", "BoxWithOverline", "BoxWithUnderOverline",
      "Underline", "Overline", "UnderOverline", "NoDecoration"] ∧
    ∀ vf ∈ drawFunctionOf, ∃ f, findFn drawFns vf.2 = some f ∧ f.params.length = 7 := by decide +kernel

/-- `Style::paint` (delta's `Style`) paints with its `ansi_term_style`, as is. -/
theorem style_paint_is_ansi_term_paint :
    stylePaintBody = ["self", ".", "ansi_term_style", ".", "paint", "(", "input", ")"] := by decide

/-- Root identifier of an argument expression (`config` of `config.file_style`, `self` of
`self.config.commit_style`). -/
def rootOf (e : List String) : String := e.headD ""

/-- **Every call site passes a configured style together with its own decoration**: the function returned by
`get_draw_function(<d>)` is called once, with seven arguments, the seventh being the decoration style that
`get_draw_function` returned; the sixth (the text style) is an expression `<s>` with `<d>` = `<s>.decoration_style`
— or `config.null_style`, where the text arrives painted already (hunk-header and grep lines); `<s>` is rooted in
a parameter (or `self`) that no `let` of the function rebinds. -/
def CallSiteOk (s : CallSite) : Prop :=
  s.args.length = 7 ∧ s.args[6]? = some [s.decoVar] ∧ s.decoVar ∈ s.lets ∧
  ∃ st, s.args[5]? = some st ∧
    (st = ["config", ".", "null_style"] ∨ s.decoArg = st ++ [".", "decoration_style"]) ∧
    (rootOf st ∈ s.params ∨ rootOf st = "self") ∧ rootOf st ∉ s.lets ∧
    st.all (fun t => t ≠ "{" ∧ t ≠ "(") = true

instance (s : CallSite) : Decidable (CallSiteOk s) := by unfold CallSiteOk; infer_instance

theorem call_sites_pass_configured_style : ∀ s ∈ drawCallSites, CallSiteOk s := by decide +kernel

/-- The five call sites: commit, file, raw hunk header, painted hunk-header / grep line, merge-conflict header. -/
theorem call_sites_are :
    drawCallSites.map (fun s => (s.file, s.inFn)) =
      [("commit_meta.rs", "_handle_commit_meta_header_line"),
       ("diff_header.rs", "write_generic_diff_header_header_line"),
       ("hunk_header.rs", "write_hunk_header_raw"),
       ("hunk_header.rs", "write_line_of_code_with_optional_path_and_line_number"),
       ("merge_conflict.rs", "write_diff_header")] := by decide

/-! ### The `Draw` model -/

open Draw Term Sgr SgrTerm

/-- Whatever the decoration, the text piece is written. -/
theorem text_piece_written (s : Shape) (a : Args) : some (textPiece a) ∈ draw s a := by
  cases s <;>
    simp [draw, noDecoration, boxed, boxedPartial, boxedWithUnderline, boxedWithWhisker, underOver,
      horizontalLine, decoPiece]

/-- A written piece is the text piece, or something painted with the decoration style (or a newline). -/
def PieceOk (a : Args) (x : Option (List Char)) : Prop :=
  ∀ q, x = some q → q = textPiece a ∨ ∃ t, q = Sgr.paint a.deco t

theorem pieceOk_none (a : Args) : PieceOk a none := by intro q h; cases h
theorem pieceOk_text (a : Args) : PieceOk a (some (textPiece a)) := by
  intro q h; cases h; exact Or.inl rfl
theorem pieceOk_deco (a : Args) (t : List Char) : PieceOk a (decoPiece a t) := by
  intro q h; simp only [decoPiece, Option.some.injEq] at h; exact Or.inr ⟨t, h.symm⟩

theorem all_pieces_ok (s : Shape) (a : Args) : ∀ x ∈ draw s a, PieceOk a x := by
  cases s <;>
    simp [draw, noDecoration, boxed, boxedPartial, boxedWithUnderline, boxedWithWhisker, underOver,
      horizontalLine, pieceOk_none, pieceOk_text, pieceOk_deco, or_imp, forall_and]

/-- Everything else that is written is painted with the decoration style. -/
theorem other_pieces_are_decoration (s : Shape) (a : Args) (q : List Char) (hq : some q ∈ draw s a) :
    q = textPiece a ∨ ∃ t, q = Sgr.paint a.deco t :=
  all_pieces_ok s a _ hq q rfl

/-- Unless the style is `raw`, the text piece is `text_style.paint(text)` / `text_style.paint(text (addendum))`
with the *given* text style. -/
theorem textPiece_eq_paint (a : Args) (hr : a.textRaw = false) :
    textPiece a = Sgr.paint a.textStyle (fullText a) := by
  simp only [textPiece, hr, Bool.false_eq_true, if_false, paintText, fullText]
  split <;> rfl

theorem fullText_noesc (a : Args) (ht : ESC ∉ a.text) (ha : ESC ∉ a.addendum) : ESC ∉ fullText a := by
  unfold fullText
  split
  · exact ht
  · intro h
    simp only [List.mem_append] at h
    rcases h with ((h | h) | h) | h
    · exact ht h
    · revert h; decide
    · exact ha h
    · revert h; decide

/-- The abstract terminal shows the text piece in exactly the renditions of the given text style, and is back
in its default state afterwards. -/
theorem text_piece_shown_in_given_style (a : Args) (hr : a.textRaw = false) (hw : Style.wf a.textStyle)
    (ht : ESC ∉ a.text) (ha : ESC ∉ a.addendum) :
    Term.run Term.init (textPiece a) =
      (Term.init, (fullText a).map fun c => ⟨c, ofStyle a.textStyle, none⟩) := by
  rw [textPiece_eq_paint a hr]
  have := run_paint a.textStyle (fullText a) hw (fullText_noesc a ht ha) Term.init rfl rfl
  simpa [cellsOf, Term.init] using this

end DrawTextProofs
