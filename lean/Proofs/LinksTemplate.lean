import DeltaModel.Links
/-!
URL templates: `str::replace` over a template made of literal segments and placeholders.
-/
namespace Links
open Ansi

/-- No `{`. -/
def noBrace (t : Bytes) : Bool := t.all fun b => b != 0x7b

theorem replaceSkip_skip (pat rep : Bytes) (xs : Bytes) : ∀ rest,
    replaceSkip pat rep xs.length (xs ++ rest) = replaceSkip pat rep 0 rest := by
  induction xs with
  | nil => intro rest; rfl
  | cons x xs ih =>
    intro rest
    simp only [List.length_cons, List.cons_append]
    rw [replaceSkip]
    · exact ih rest

theorem isPrefixOf_self_append (a b : Bytes) : a.isPrefixOf (a ++ b) = true := by
  induction a with
  | nil => simp [List.isPrefixOf]
  | cons x xs ih => simp [List.isPrefixOf, ih]

/-- At an occurrence of the pattern, the replacement is emitted. -/
theorem replace_match (pat rep : Bytes) (hne : pat ≠ []) (rest : Bytes) :
    replaceSkip pat rep 0 (pat ++ rest) = rep ++ replaceSkip pat rep 0 rest := by
  cases pat with
  | nil => exact absurd rfl hne
  | cons b bs =>
    have hp : (b :: bs).isPrefixOf (b :: (bs ++ rest)) = true := by
      have := isPrefixOf_self_append (b :: bs) rest
      simpa using this
    simp only [List.cons_append]
    rw [replaceSkip]
    simp only [hp, if_true, List.length_cons, Nat.add_sub_cancel]
    rw [replaceSkip_skip]

/-- A chunk the replacement passes over unchanged. -/
def Inert (pat rep c : Bytes) : Prop :=
  ∀ rest, replaceSkip pat rep 0 (c ++ rest) = c ++ replaceSkip pat rep 0 rest

theorem inert_noBrace (pt rep t : Bytes) (h : noBrace t = true) : Inert (0x7b :: pt) rep t := by
  induction t with
  | nil => intro rest; rfl
  | cons b bs ih =>
    intro rest
    simp only [noBrace, List.all_cons, Bool.and_eq_true, bne_iff_ne, ne_eq] at h
    have hb : ((0x7b : UInt8) :: pt).isPrefixOf (b :: (bs ++ rest)) = false := by
      simp [List.isPrefixOf]
      intro e; exact absurd e.symm h.1
    simp only [List.cons_append]
    rw [replaceSkip]
    simp only [hb, Bool.false_eq_true, if_false]
    rw [ih (by simpa [noBrace] using h.2) rest]

theorem replace_chunks (pat rep : Bytes) (hne : pat ≠ []) (cs : List Bytes)
    (h : ∀ c ∈ cs, c = pat ∨ (c ≠ pat ∧ Inert pat rep c)) (rest : Bytes) :
    replaceSkip pat rep 0 (cs.flatten ++ rest) =
      (cs.map fun c => if c = pat then rep else c).flatten ++ replaceSkip pat rep 0 rest := by
  induction cs with
  | nil => simp
  | cons c cs ih =>
    have ih' := ih (fun x hx => h x (by simp [hx]))
    simp only [List.flatten_cons, List.map_cons, List.append_assoc]
    rcases h c (by simp) with rfl | ⟨hc, hi⟩
    · rw [replace_match _ rep hne, ih']; simp
    · rw [hi, ih']; simp [hc]

/-! ### Templates -/

inductive Seg where
  | lit (t : Bytes)
  | path
  | host
  | line
  deriving Repr

def Seg.text : Seg → Bytes
  | .lit t => t
  | .path => phPath
  | .host => phHost
  | .line => phLine

/-- The format string a template stands for. -/
def renderT (tm : List Seg) : Bytes := (tm.map Seg.text).flatten

def Seg.subst (p : Bytes) (h : Option Bytes) (l : Bytes) : Seg → Bytes
  | .lit t => t
  | .path => p
  | .host => match h with | some h => h | none => phHost
  | .line => l

def Seg.wf : Seg → Prop
  | .lit t => noBrace t = true
  | _ => True

theorem noBrace_ne (t pat : Bytes) (h : noBrace t = true) (hp : noBrace pat = false) : t ≠ pat := by
  intro e; subst e; simp [h] at hp

/-- One placeholder is passed over by the replacement of another one. -/
theorem inert_placeholder (pat rep q : Bytes) (pt qt : Bytes) (hp : pat = 0x7b :: pt) (hq : q = 0x7b :: qt)
    (hqt : noBrace qt = true) (hdiff : ∀ rest, pat.isPrefixOf (q ++ rest) = false) : Inert pat rep q := by
  intro rest
  have h1 := hdiff rest
  subst hq
  simp only [List.cons_append] at h1 ⊢
  rw [replaceSkip]
  simp only [h1, Bool.false_eq_true, if_false]
  subst hp
  rw [inert_noBrace pt rep qt hqt rest]

theorem replaceSkip_nil (pat rep : Bytes) (n : Nat) : replaceSkip pat rep n [] = [] := by
  cases n <;> rfl

/-- One substitution pass over a template, segment by segment. -/
theorem replaceAll_map (tm : List Seg) (f g : Seg → Bytes) (pat rep : Bytes) (hne : pat ≠ [])
    (h : ∀ seg ∈ tm, (f seg = pat ∧ g seg = rep) ∨ (f seg ≠ pat ∧ Inert pat rep (f seg) ∧ g seg = f seg)) :
    replaceAll (tm.map f).flatten pat rep = (tm.map g).flatten := by
  have hc : ∀ c ∈ tm.map f, c = pat ∨ (c ≠ pat ∧ Inert pat rep c) := by
    intro c hc
    simp only [List.mem_map] at hc
    obtain ⟨seg, hs, rfl⟩ := hc
    rcases h seg hs with ⟨e, _⟩ | ⟨e, i, _⟩
    · exact Or.inl e
    · exact Or.inr ⟨e, i⟩
  have := replace_chunks pat rep hne (tm.map f) hc []
  simp only [List.append_nil, replaceSkip_nil] at this
  unfold replaceAll
  rw [this]
  congr 1
  simp only [List.map_map]
  apply List.map_congr_left
  intro seg hs
  rcases h seg hs with ⟨e, e2⟩ | ⟨e, _, e2⟩
  · simp [e, e2]
  · simp [e, e2]

theorem noBrace_phs : noBrace phPath = false ∧ noBrace phHost = false ∧ noBrace phLine = false := by decide

def lineBytes : Option Nat → Bytes
  | some n => natBytes n
  | none => []

theorem pass_path (tm : List Seg) (hwf : ∀ seg ∈ tm, seg.wf) (p : Bytes) :
    replaceAll (renderT tm) phPath p = (tm.map (Seg.subst p none phLine)).flatten := by
  apply replaceAll_map tm Seg.text (Seg.subst p none phLine) phPath p (by decide)
  intro seg hs
  cases seg with
  | lit t =>
    have ht : noBrace t = true := hwf _ hs
    exact Or.inr ⟨noBrace_ne t phPath ht noBrace_phs.1, inert_noBrace _ p t ht, rfl⟩
  | path => exact Or.inl ⟨rfl, rfl⟩
  | host =>
    exact Or.inr ⟨by decide, inert_placeholder phPath p phHost _ _ rfl rfl (by decide)
      (by intro rest; simp [phPath, phHost, List.isPrefixOf]), rfl⟩
  | line =>
    exact Or.inr ⟨by decide, inert_placeholder phPath p phLine _ _ rfl rfl (by decide)
      (by intro rest; simp [phPath, phLine, List.isPrefixOf]), rfl⟩

theorem pass_host (tm : List Seg) (hwf : ∀ seg ∈ tm, seg.wf) (p h : Bytes) (hp : noBrace p = true) :
    replaceAll (tm.map (Seg.subst p none phLine)).flatten phHost h =
      (tm.map (Seg.subst p (some h) phLine)).flatten := by
  apply replaceAll_map tm (Seg.subst p none phLine) (Seg.subst p (some h) phLine) phHost h (by decide)
  intro seg hs
  cases seg with
  | lit t =>
    have ht : noBrace t = true := hwf _ hs
    exact Or.inr ⟨noBrace_ne t phHost ht noBrace_phs.2.1, inert_noBrace _ h t ht, rfl⟩
  | path => exact Or.inr ⟨noBrace_ne p phHost hp noBrace_phs.2.1, inert_noBrace _ h p hp, rfl⟩
  | host => exact Or.inl ⟨rfl, rfl⟩
  | line =>
    exact Or.inr ⟨(by decide : phLine ≠ phHost), inert_placeholder phHost h phLine _ _ rfl rfl (by decide)
      (by intro rest; simp [phHost, phLine, List.isPrefixOf]), rfl⟩

theorem pass_line (tm : List Seg) (hwf : ∀ seg ∈ tm, seg.wf) (p : Bytes) (host : Option Bytes)
    (hp : noBrace p = true) (hh : ∀ h, host = some h → noBrace h = true) (l : Bytes) :
    replaceAll (tm.map (Seg.subst p host phLine)).flatten phLine l =
      (tm.map (Seg.subst p host l)).flatten := by
  apply replaceAll_map tm (Seg.subst p host phLine) (Seg.subst p host l) phLine l (by decide)
  intro seg hs
  cases seg with
  | lit t =>
    have ht : noBrace t = true := hwf _ hs
    exact Or.inr ⟨noBrace_ne t phLine ht noBrace_phs.2.2, inert_noBrace _ l t ht, rfl⟩
  | path => exact Or.inr ⟨noBrace_ne p phLine hp noBrace_phs.2.2, inert_noBrace _ l p hp, rfl⟩
  | host =>
    cases host with
    | some h =>
      have hhh := hh h rfl
      exact Or.inr ⟨noBrace_ne h phLine hhh noBrace_phs.2.2, inert_noBrace _ l h hhh, rfl⟩
    | none =>
      exact Or.inr ⟨(by decide : phHost ≠ phLine), inert_placeholder phLine l phHost _ _ rfl rfl (by decide)
        (by intro rest; simp [phHost, phLine, List.isPrefixOf]), rfl⟩
  | line => exact Or.inl ⟨rfl, rfl⟩

/-- **File link target**: for a template of literal segments (without `{`) and the placeholders
`{path}`, `{host}`, `{line}`, and a path and host name without `{`, the URL is the template with
every placeholder replaced by its value — in particular it carries exactly the given absolute
path, and the given line number wherever `{line}` occurs. -/
theorem fileUrl_template (tm : List Seg) (hwf : ∀ seg ∈ tm, seg.wf) (p : Bytes) (host : Option Bytes)
    (hp : noBrace p = true) (hh : ∀ h, host = some h → noBrace h = true) (line : Option Nat) :
    fileUrl (renderT tm) p host line = (tm.map (Seg.subst p host (lineBytes line))).flatten := by
  unfold fileUrl
  rw [pass_path tm hwf p]
  cases host with
  | none =>
    cases line with
    | some n => exact pass_line tm hwf p none hp hh (natBytes n)
    | none => exact pass_line tm hwf p none hp hh []
  | some h =>
    simp only []
    rw [pass_host tm hwf p h hp]
    cases line with
    | some n => exact pass_line tm hwf p (some h) hp hh (natBytes n)
    | none => exact pass_line tm hwf p (some h) hp hh []

/-- The values substituted are needed brace-free: a file name containing a placeholder is itself
rewritten by the later passes (`{line}.txt` at line 3 links to `…/3.txt`). -/
theorem fileUrl_placeholder_in_path :
    fileUrl (renderT [.lit [0x66, 0x3a], .path]) [0x2f, 0x7b, 0x6c, 0x69, 0x6e, 0x65, 0x7d] none (some 3) ≠
      [0x66, 0x3a] ++ [0x2f, 0x7b, 0x6c, 0x69, 0x6e, 0x65, 0x7d] := by
  decide

end Links
