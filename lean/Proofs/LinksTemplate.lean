import DeltaModel.Links
/-!
URL templates: `str::replace` over a template made of literal segments and placeholders.
-/
namespace Links
open Ansi

/-- No `{`. -/
def noBrace (t : Bytes) : Bool := t.all fun b => b != 0x7b

theorem replaceSkip_skip (pat rep : Bytes) (xs : Bytes) : ∀ rest,
    replaceSkip pat rep xs.length (xs ++ rest) = replaceSkip pat rep 0 rest := by
  induction xs with
  | nil => intro rest; rfl
  | cons x xs ih =>
    intro rest
    simp only [List.length_cons, List.cons_append]
    rw [replaceSkip]
    · exact ih rest

theorem isPrefixOf_self_append (a b : Bytes) : a.isPrefixOf (a ++ b) = true := by
  induction a with
  | nil => simp [List.isPrefixOf]
  | cons x xs ih => simp [List.isPrefixOf, ih]

/-- At an occurrence of the pattern, the replacement is emitted. -/
theorem replace_match (pat rep : Bytes) (hne : pat ≠ []) (rest : Bytes) :
    replaceSkip pat rep 0 (pat ++ rest) = rep ++ replaceSkip pat rep 0 rest := by
  cases pat with
  | nil => exact absurd rfl hne
  | cons b bs =>
    have hp : (b :: bs).isPrefixOf (b :: (bs ++ rest)) = true := by
      have := isPrefixOf_self_append (b :: bs) rest
      simpa using this
    simp only [List.cons_append]
    rw [replaceSkip]
    simp only [hp, if_true, List.length_cons, Nat.add_sub_cancel]
    rw [replaceSkip_skip]

/-- A chunk the replacement passes over unchanged. -/
def Inert (pat rep c : Bytes) : Prop :=
  ∀ rest, replaceSkip pat rep 0 (c ++ rest) = c ++ replaceSkip pat rep 0 rest

theorem inert_noBrace (pt rep t : Bytes) (h : noBrace t = true) : Inert (0x7b :: pt) rep t := by
  induction t with
  | nil => intro rest; rfl
  | cons b bs ih =>
    intro rest
    simp only [noBrace, List.all_cons, Bool.and_eq_true, bne_iff_ne, ne_eq] at h
    have hb : ((0x7b : UInt8) :: pt).isPrefixOf (b :: (bs ++ rest)) = false := by
      simp [List.isPrefixOf]
      intro e; exact absurd e.symm h.1
    simp only [List.cons_append]
    rw [replaceSkip]
    simp only [hb, Bool.false_eq_true, if_false]
    rw [ih (by simpa [noBrace] using h.2) rest]

theorem replace_chunks (pat rep : Bytes) (hne : pat ≠ []) (cs : List Bytes)
    (h : ∀ c ∈ cs, c = pat ∨ (c ≠ pat ∧ Inert pat rep c)) (rest : Bytes) :
    replaceSkip pat rep 0 (cs.flatten ++ rest) =
      (cs.map fun c => if c = pat then rep else c).flatten ++ replaceSkip pat rep 0 rest := by
  induction cs with
  | nil => simp
  | cons c cs ih =>
    have ih' := ih (fun x hx => h x (by simp [hx]))
    simp only [List.flatten_cons, List.map_cons, List.append_assoc]
    rcases h c (by simp) with rfl | ⟨hc, hi⟩
    · rw [replace_match _ rep hne, ih']; simp
    · rw [hi, ih']; simp [hc]

/-! ### Templates -/

inductive Ph where
  | path | host | line
  deriving DecidableEq, Repr

def Ph.text : Ph → Bytes
  | .path => phPath
  | .host => phHost
  | .line => phLine

inductive Seg where
  | lit (t : Bytes)
  | ph (k : Ph)
  deriving Repr

/-- Which placeholders have been given a value. -/
structure Sub where
  path : Option Bytes := none
  host : Option Bytes := none
  line : Option Bytes := none

def Sub.get (σ : Sub) : Ph → Option Bytes
  | .path => σ.path
  | .host => σ.host
  | .line => σ.line

def Sub.set (σ : Sub) (k : Ph) (v : Bytes) : Sub :=
  match k with
  | .path => { σ with path := some v }
  | .host => { σ with host := some v }
  | .line => { σ with line := some v }

def Seg.sub (σ : Sub) : Seg → Bytes
  | .lit t => t
  | .ph k => match σ.get k with
    | some v => v
    | none => k.text

/-- The format string a template stands for. -/
def renderT (tm : List Seg) : Bytes := (tm.map (Seg.sub {})).flatten

/-- The template with `{path}`, `{line}` and (when the host name is known) `{host}` replaced. -/
def Seg.subst (p : Bytes) (h : Option Bytes) (l : Bytes) : Seg → Bytes :=
  Seg.sub { path := some p, host := h, line := some l }

def Seg.wf : Seg → Prop
  | .lit t => noBrace t = true
  | _ => True

theorem noBrace_ne (t pat : Bytes) (h : noBrace t = true) (hp : noBrace pat = false) : t ≠ pat := by
  intro e; subst e; simp [h] at hp

/-- One placeholder is passed over by the replacement of another one. -/
theorem inert_placeholder (pat rep q : Bytes) (pt qt : Bytes) (hp : pat = 0x7b :: pt) (hq : q = 0x7b :: qt)
    (hqt : noBrace qt = true) (hdiff : ∀ rest, pat.isPrefixOf (q ++ rest) = false) : Inert pat rep q := by
  intro rest
  have h1 := hdiff rest
  subst hq
  simp only [List.cons_append] at h1 ⊢
  rw [replaceSkip]
  simp only [h1, Bool.false_eq_true, if_false]
  subst hp
  rw [inert_noBrace pt rep qt hqt rest]

theorem replaceSkip_nil (pat rep : Bytes) (n : Nat) : replaceSkip pat rep n [] = [] := by
  cases n <;> rfl

/-- One substitution pass over a template, segment by segment. -/
theorem replaceAll_map (tm : List Seg) (f g : Seg → Bytes) (pat rep : Bytes) (hne : pat ≠ [])
    (h : ∀ seg ∈ tm, (f seg = pat ∧ g seg = rep) ∨ (f seg ≠ pat ∧ Inert pat rep (f seg) ∧ g seg = f seg)) :
    replaceAll (tm.map f).flatten pat rep = (tm.map g).flatten := by
  have hc : ∀ c ∈ tm.map f, c = pat ∨ (c ≠ pat ∧ Inert pat rep c) := by
    intro c hc
    simp only [List.mem_map] at hc
    obtain ⟨seg, hs, rfl⟩ := hc
    rcases h seg hs with ⟨e, _⟩ | ⟨e, i, _⟩
    · exact Or.inl e
    · exact Or.inr ⟨e, i⟩
  have := replace_chunks pat rep hne (tm.map f) hc []
  simp only [List.append_nil, replaceSkip_nil] at this
  unfold replaceAll
  rw [this]
  congr 1
  simp only [List.map_map]
  apply List.map_congr_left
  intro seg hs
  rcases h seg hs with ⟨e, e2⟩ | ⟨e, _, e2⟩
  · simp [e, e2]
  · simp [e, e2]

/-- The text after the `{` of a placeholder. -/
def Ph.tail : Ph → Bytes
  | .path => [0x70, 0x61, 0x74, 0x68, 0x7d]
  | .host => [0x68, 0x6f, 0x73, 0x74, 0x7d]
  | .line => [0x6c, 0x69, 0x6e, 0x65, 0x7d]

theorem ph_text (k : Ph) : k.text = 0x7b :: k.tail ∧ noBrace k.tail = true ∧ noBrace k.text = false ∧ k.text ≠ [] := by
  cases k <;> decide

theorem ph_inert (k j : Ph) (hkj : j ≠ k) (rep : Bytes) : j.text ≠ k.text ∧ Inert k.text rep j.text := by
  refine ⟨by cases k <;> cases j <;> first | exact absurd rfl hkj | decide, ?_⟩
  apply inert_placeholder k.text rep j.text k.tail j.tail (ph_text k).1 (ph_text j).1 (ph_text j).2.1
  intro rest
  cases k <;> cases j <;> first
    | exact absurd rfl hkj
    | simp [Ph.text, phPath, phHost, phLine, List.isPrefixOf]

theorem sub_set_same (σ : Sub) (k : Ph) (v : Bytes) : (σ.set k v).get k = some v := by cases k <;> rfl
theorem sub_set_other (σ : Sub) (k j : Ph) (v : Bytes) (h : j ≠ k) : (σ.set k v).get j = σ.get j := by
  cases k <;> cases j <;> first | exact absurd rfl h | rfl

/-- **One pass**: replacing placeholder `k` by `v` in a template whose already substituted values are
brace-free substitutes exactly the `{k}` segments. -/
theorem pass (tm : List Seg) (hwf : ∀ seg ∈ tm, seg.wf) (σ : Sub) (k : Ph) (v : Bytes)
    (hk : σ.get k = none) (hσ : ∀ j w, σ.get j = some w → noBrace w = true) :
    replaceAll (tm.map (Seg.sub σ)).flatten k.text v = (tm.map (Seg.sub (σ.set k v))).flatten := by
  obtain ⟨hk1, _, hk3, hk4⟩ := ph_text k
  apply replaceAll_map tm (Seg.sub σ) (Seg.sub (σ.set k v)) k.text v hk4
  intro seg hs
  cases seg with
  | lit t =>
    have ht : noBrace t = true := hwf _ hs
    refine Or.inr ⟨noBrace_ne t k.text ht hk3, ?_, rfl⟩
    rw [hk1]; exact inert_noBrace _ v t ht
  | ph j =>
    by_cases hj : j = k
    · subst hj
      exact Or.inl ⟨by simp [Seg.sub, hk], by simp [Seg.sub, sub_set_same]⟩
    · have hg : Seg.sub (σ.set k v) (.ph j) = Seg.sub σ (.ph j) := by simp [Seg.sub, sub_set_other σ k j v hj]
      cases hw : σ.get j with
      | none =>
        have hf : Seg.sub σ (.ph j) = j.text := by simp [Seg.sub, hw]
        obtain ⟨h1, h2⟩ := ph_inert k j hj v
        exact Or.inr ⟨by rw [hf]; exact h1, by rw [hf]; exact h2, hg⟩
      | some w =>
        have hf : Seg.sub σ (.ph j) = w := by simp [Seg.sub, hw]
        have hwb := hσ j w hw
        refine Or.inr ⟨by rw [hf]; exact noBrace_ne w k.text hwb hk3, ?_, hg⟩
        rw [hf, hk1]; exact inert_noBrace _ v w hwb

theorem noBrace_natBytes (n : Nat) : noBrace (natBytes n) = true := by
  simp only [noBrace, List.all_eq_true, natBytes, List.mem_map]
  rintro b ⟨c, hc, rfl⟩
  have hd := Nat.isDigit_of_mem_toDigits (by decide) (by decide) hc
  simp only [Char.isDigit, Bool.and_eq_true, decide_eq_true_eq] at hd
  have h2 : c.toNat ≤ 57 := UInt32.le_iff_toNat_le.mp hd.2
  simp only [bne_iff_ne, ne_eq]
  intro e
  have := congrArg UInt8.toNat e
  simp [UInt8.toNat_ofNat'] at this
  omega

theorem noBrace_lineBytes (line : Option Nat) : noBrace (lineBytes line) = true := by
  cases line with
  | none => rfl
  | some n => exact noBrace_natBytes n

/-- **File link target, original substitution order** (`{path}` first): the path must be brace-free,
or the later passes rewrite it. -/
theorem fileUrlPathFirst_template (tm : List Seg) (hwf : ∀ seg ∈ tm, seg.wf) (p : Bytes) (host : Option Bytes)
    (hp : noBrace p = true) (hh : ∀ h, host = some h → noBrace h = true) (line : Option Nat) :
    fileUrlPathFirst (renderT tm) p host line = (tm.map (Seg.subst p host (lineBytes line))).flatten := by
  unfold fileUrlPathFirst renderT
  have e1 := pass tm hwf {} .path p rfl (by intro j w h; cases j <;> simp [Sub.get] at h)
  simp only [Ph.text] at e1
  rw [e1]
  cases host with
  | none =>
    have e3 := pass tm hwf (({} : Sub).set .path p) .line (lineBytes line) rfl (by
      intro j w h; cases j <;> simp [Sub.get, Sub.set] at h; subst h; exact hp)
    simp only [Ph.text] at e3
    simpa [Seg.subst, Sub.set] using e3
  | some h =>
    have e2 := pass tm hwf (({} : Sub).set .path p) .host h rfl (by
      intro j w hj; cases j <;> simp [Sub.get, Sub.set] at hj; subst hj; exact hp)
    simp only [Ph.text] at e2
    simp only []
    rw [e2]
    have e3 := pass tm hwf ((({} : Sub).set .path p).set .host h) .line (lineBytes line) rfl (by
      intro j w hj; cases j <;> simp [Sub.get, Sub.set] at hj
      · subst hj; exact hp
      · subst hj; exact hh h rfl)
    simp only [Ph.text] at e3
    simpa [Seg.subst, Sub.set] using e3

/-- **File link target, repaired order** (`{path}` last): no condition on the path at all — the URL
carries exactly the given absolute path, whatever characters it contains. -/
theorem fileUrlPathLast_template (tm : List Seg) (hwf : ∀ seg ∈ tm, seg.wf) (p : Bytes) (host : Option Bytes)
    (hh : ∀ h, host = some h → noBrace h = true) (line : Option Nat) :
    fileUrlPathLast (renderT tm) p host line = (tm.map (Seg.subst p host (lineBytes line))).flatten := by
  unfold fileUrlPathLast renderT
  cases host with
  | none =>
    have e2 := pass tm hwf {} .line (lineBytes line) rfl (by intro j w h; cases j <;> simp [Sub.get] at h)
    simp only [Ph.text] at e2
    simp only []
    rw [e2]
    have e3 := pass tm hwf (({} : Sub).set .line (lineBytes line)) .path p rfl (by
      intro j w hj; cases j <;> simp [Sub.get, Sub.set] at hj; subst hj; exact noBrace_lineBytes line)
    simp only [Ph.text] at e3
    simpa [Seg.subst, Sub.set] using e3
  | some h =>
    have e1 := pass tm hwf {} .host h rfl (by intro j w h; cases j <;> simp [Sub.get] at h)
    simp only [Ph.text] at e1
    simp only []
    rw [e1]
    have e2 := pass tm hwf (({} : Sub).set .host h) .line (lineBytes line) rfl (by
      intro j w hj; cases j <;> simp [Sub.get, Sub.set] at hj; subst hj; exact hh h rfl)
    simp only [Ph.text] at e2
    rw [e2]
    have e3 := pass tm hwf ((({} : Sub).set .host h).set .line (lineBytes line)) .path p rfl (by
      intro j w hj; cases j <;> simp [Sub.get, Sub.set] at hj
      · subst hj; exact hh h rfl
      · subst hj; exact noBrace_lineBytes line)
    simp only [Ph.text] at e3
    simpa [Seg.subst, Sub.set] using e3

/-- **File link target** for whichever order the source has: brace-free host; and, only in the
original order, a brace-free path. -/
theorem fileUrl_template (tm : List Seg) (hwf : ∀ seg ∈ tm, seg.wf) (p : Bytes) (host : Option Bytes)
    (hp : Generated.fileLinkPathLast = false → noBrace p = true)
    (hh : ∀ h, host = some h → noBrace h = true) (line : Option Nat) :
    fileUrl (renderT tm) p host line = (tm.map (Seg.subst p host (lineBytes line))).flatten := by
  unfold fileUrl
  cases hf : Generated.fileLinkPathLast with
  | true => simpa using fileUrlPathLast_template tm hwf p host hh line
  | false => simpa using fileUrlPathFirst_template tm hwf p host (hp hf) hh line

/-- The witness `f:{path}` with the file `/{line}` at line 3: rewritten to `f:/3` by the original
order, kept by the repaired one. -/
theorem fileUrl_placeholder_in_path :
    fileUrlPathFirst (renderT [.lit [0x66, 0x3a], .ph .path]) [0x2f, 0x7b, 0x6c, 0x69, 0x6e, 0x65, 0x7d] none (some 3) ≠
      [0x66, 0x3a] ++ [0x2f, 0x7b, 0x6c, 0x69, 0x6e, 0x65, 0x7d] ∧
    fileUrlPathLast (renderT [.lit [0x66, 0x3a], .ph .path]) [0x2f, 0x7b, 0x6c, 0x69, 0x6e, 0x65, 0x7d] none (some 3) =
      [0x66, 0x3a] ++ [0x2f, 0x7b, 0x6c, 0x69, 0x6e, 0x65, 0x7d] := by
  decide

end Links
