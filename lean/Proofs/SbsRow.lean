import DeltaModel.SbsRow
import Proofs.WrapGeom
/-
C07 helper (session 4 / T3): the composed side-by-side row.
Fill decision, padding (generated arms = the hand-written `padPanel`), one panel, rows of a block,
rows of an unchanged line.
-/
namespace SbsRow
open Wrap (G gsWidth Err spaceG)
open SideBySide (Item measure truncateStr padPanel Fill measure_append padPanel_width measure_spaces)
open LineNumbers (PH Cell St Panel Counters Alignment renderCell)

/-! ## Fill decision -/

/-- The left panel is filled with spaces, whatever the line, the styles and the options. -/
theorem fillFor_left (cfg : Cfg) (e i b : Bool) (sf : Option FillM) :
    fillFor cfg .left e i b sf = some .spaces := by
  unfold fillFor computedFill
  generalize cfg.bgExtends = x
  cases e <;> cases i <;> cases b <;> cases x <;> cases sf <;> rfl

/-- The right panel is filled — by the method its caller asks for — exactly when the row holds a
line with sections, its fill style has a background colour and the width is not `variable`. -/
theorem fillFor_right (cfg : Cfg) (e i b : Bool) (sf : Option FillM) :
    fillFor cfg .right e i b sf = if (!e && i && b && cfg.bgExtends) then sf else none := by
  unfold fillFor computedFill
  generalize cfg.bgExtends = x
  cases e <;> cases i <;> cases b <;> cases x <;> cases sf <;> rfl

/-! ## Padding: the generated arms are the hand-written `padPanel` -/

def toFill (cfg : Cfg) : Option FillM → Fill
  | none => .none
  | some .spaces => .spaces
  | some .ansi => .ansiSeq cfg.ansiSeq

theorem padPanelG_eq (cfg : Cfg) (pw : Nat) (line : List Item) (fill : Option FillM) :
    padPanelG cfg pw line fill = padPanel pw line cfg.tail (toFill cfg fill) := by
  unfold padPanelG padPanel
  have hg : Generated.SbsRow.truncateGuardStrict = true := rfl
  simp only [hg, if_true]
  by_cases hcut : pw < measure line
  · simp only [hcut, decide_true, if_true]
    cases truncateStr line pw cfg.tail with
    | error e => rfl
    | ok l =>
      simp only
      have hle : pw ≤ measure line := Nat.le_of_lt hcut
      rcases fill with _ | m
      · simp [toFill, modeCode, lookupPad, Generated.SbsRow.padFillArms]
      · cases m
        · simp [toFill, modeCode, lookupPad, Generated.SbsRow.padFillArms, hle]
        · simp [toFill, modeCode, lookupPad, Generated.SbsRow.padFillArms]
  · simp only [hcut, decide_false, Bool.false_eq_true, if_false]
    rcases fill with _ | m
    · simp [toFill, modeCode, lookupPad, Generated.SbsRow.padFillArms]
    · cases m
      · by_cases hle : pw ≤ measure line
        · simp [toFill, modeCode, lookupPad, Generated.SbsRow.padFillArms, hle]
        · simp [toFill, modeCode, lookupPad, Generated.SbsRow.padFillArms, hle, hcut]
      · simp [toFill, modeCode, lookupPad, Generated.SbsRow.padFillArms]

/-- The checked subtraction `panel_width - text_width` is guarded: the only way the padding fails is
the `debug_assert!` inside `truncate_str`. -/
theorem padPanelG_error (cfg : Cfg) (pw : Nat) (line : List Item) (fill : Option FillM) (e : Err)
    (h : padPanelG cfg pw line fill = .error e) :
    pw < measure line ∧ truncateStr line pw cfg.tail = .error e := by
  rw [padPanelG_eq] at h
  unfold padPanel at h
  simp only at h
  by_cases hcut : pw < measure line
  · simp only [hcut, if_true] at h
    cases ht : truncateStr line pw cfg.tail with
    | error e' =>
      rw [ht] at h
      simp only at h
      cases h
      exact ⟨hcut, rfl⟩
    | ok l =>
      rw [ht] at h
      simp only at h
      generalize toFill cfg fill = f at h
      cases f <;> (try simp only at h) <;> (try split at h) <;> cases h
  · simp only [hcut, if_false] at h
    generalize toFill cfg fill = f at h
    cases f <;> (try simp only at h) <;> (try split at h) <;> cases h

/-- Since fix d6cf9d0 (`Generated.wrapTruncAssertsWideCluster = false`, read from the source on every run)
`truncate_str` has no panic point either: `pad_panel_line_to_width` never panics. -/
theorem padPanelG_total (hno : Generated.wrapTruncAssertsWideCluster = false) (cfg : Cfg) (pw : Nat)
    (line : List Item) (fill : Option FillM) : ∃ out, padPanelG cfg pw line fill = .ok out := by
  cases h : padPanelG cfg pw line fill with
  | ok o => exact ⟨o, rfl⟩
  | error e =>
    obtain ⟨_, ht⟩ := padPanelG_error cfg pw line fill e h
    obtain ⟨o, ho⟩ := SideBySide.truncateStr_total hno line pw cfg.tail
    rw [ho] at ht; cases ht

/-! ## One panel -/

/-- What is appended to a panel line that fits its panel. -/
def fillItems (cfg : Cfg) (pw tw : Nat) : Option FillM → List Item
  | none => []
  | some .spaces => if pw ≤ tw then [] else [.text (List.replicate (pw - tw) spaceG)]
  | some .ansi => [.ansi cfg.ansiSeq]

theorem padPanelG_fits (cfg : Cfg) (pw : Nat) (line : List Item) (fill : Option FillM)
    (hfit : measure line ≤ pw) :
    padPanelG cfg pw line fill = .ok (line ++ fillItems cfg pw (measure line) fill) := by
  rw [padPanelG_eq]
  unfold padPanel
  have : ¬ pw < measure line := by omega
  simp only [this, if_false]
  rcases fill with _ | m
  · simp [toFill, fillItems]
  · cases m
    · by_cases hle : pw ≤ measure line
      · simp [toFill, fillItems, hle]
      · simp [toFill, fillItems, hle]
    · simp [toFill, fillItems]

/-- Width of a finished panel: never more than the panel width, exactly the panel width on the left. -/
theorem panel_width (hok : Generated.wrapTruncStopsAfterCut = true)
    (cfg : Cfg) (side : Panel) (cell : Option Cell) (pre : Option String) (h : Half)
    (sf : Option FillM) (out : List Item) (hp : panel cfg side cell pre h sf = .ok out) :
    measure out ≤ cfg.pw side ∧ (side = .left → measure out = cfg.pwL) := by
  unfold panel at hp
  split at hp
  · cases hp
  · rename_i line hl
    rw [padPanelG_eq] at hp
    have := padPanel_width _ line cfg.tail out _ (Or.inl hok) hp
    refine ⟨this.1, fun hs => ?_⟩
    subst hs
    rw [fillFor_left] at hp this
    exact this.2 rfl

/-- A panel whose line fits is that line followed by the fill only. -/
theorem panel_fits (cfg : Cfg) (side : Panel) (cell : Option Cell) (pre : Option String) (h : Half)
    (sf : Option FillM) (line : List Item) (hl : panelLine cfg cell pre h = .ok line)
    (hfit : measure line ≤ cfg.pw side) :
    panel cfg side cell pre h sf =
      .ok (line ++ fillItems cfg (cfg.pw side) (measure line)
                      (fillFor cfg side h.secs.isEmpty h.hasIndex h.hasBg sf)) := by
  unfold panel
  rw [hl]
  exact padPanelG_fits cfg _ line _ hfit

/-- The half of a row that holds no line: the gutter and nothing else (no marker column, no text,
no empty-line marker). -/
theorem panelLine_blank (cfg : Cfg) (cell : Option Cell) (pre : Option String) (st : St) (bg : Bool) :
    panelLine cfg cell pre ⟨false, st, [], bg⟩ = .ok (gItems cfg (renderCell cfg.fl cfg.fr cfg.minW cell)) := by
  simp [panelLine, paintLine, markerFor]

/-- The panel line of a half that holds (a row of) a line with sections: gutter, marker column,
the sections — in this order, nothing else. -/
theorem panelLine_text (cfg : Cfg) (cell : Option Cell) (pre : Option String) (st : St) (bg idx : Bool)
    (secs : List Item) (hne : secs ≠ []) :
    panelLine cfg cell pre ⟨idx, st, secs, bg⟩ =
      .ok (gItems cfg (renderCell cfg.fl cfg.fr cfg.minW cell) ++ preItems cfg pre ++ secs) := by
  have : secs.isEmpty = false := by cases secs <;> simp_all
  cases pre <;> simp [panelLine, paintLine, markerFor, this]

/-! ## Rows of a block -/

/-- Every row of a block: left panel exactly `pwL` wide, right panel at most `pwR`. -/
def RowOk (cfg : Cfg) (r : Row) : Prop := measure r.left = cfg.pwL ∧ measure r.right ≤ cfg.pwR

theorem blockRow_ok (hok : Generated.wrapTruncStopsAfterCut = true) (cfg : Cfg) (s : Sides) (c c' : Counters)
    (mi pi : Option Nat) (row : Row) (h : blockRow cfg s c mi pi = .ok (c', row)) : RowOk cfg row := by
  unfold blockRow at h
  split at h
  · cases h
  · split at h
    · cases h
    · split at h
      · cases h
      · rename_i l hl
        split at h
        · cases h
        · split at h
          · cases h
          · rename_i r hr
            cases h
            exact ⟨(panel_width hok cfg .left _ _ _ _ l hl).2 rfl, (panel_width hok cfg .right _ _ _ _ r hr).1⟩

theorem blockRowsGo_ok (hok : Generated.wrapTruncStopsAfterCut = true) (cfg : Cfg) (s : Sides) :
    ∀ (al : Alignment) (c c' : Counters) (rows : List Row),
      blockRowsGo cfg s c al = .ok (c', rows) → ∀ r ∈ rows, RowOk cfg r := by
  intro al
  induction al with
  | nil =>
    intro c c' rows h
    simp [blockRowsGo] at h
    obtain ⟨_, rfl⟩ := h
    intro r hr; cases hr
  | cons e rest ih =>
    intro c c' rows h
    obtain ⟨mi, pi⟩ := e
    simp only [blockRowsGo] at h
    split at h
    · cases h
    · rename_i c1 row hrow
      split at h
      · cases h
      · rename_i c2 rows' hrest
        cases h
        intro r hr
        rcases List.mem_cons.mp hr with rfl | hr'
        · exact blockRow_ok hok cfg s c c1 mi pi _ hrow
        · exact ih c1 _ rows' hrest r hr'

theorem blockRows_ok (hok : Generated.wrapTruncStopsAfterCut = true) (cfg : Cfg) (c c' : Counters) (m p : Nat)
    (al : Alignment) (wl wr : List Nat) (rl rr : List Bool) (rowsL rowsR : List (List Item)) (bgL bgR : List Bool)
    (rows : List Row) (h : blockRows cfg c m p al wl wr rl rr rowsL rowsR bgL bgR = .ok (c', rows)) :
    ∀ r ∈ rows, RowOk cfg r := by
  unfold blockRows at h
  split at h
  · cases h
  · split at h
    · cases h
    · exact blockRowsGo_ok hok cfg _ _ _ _ _ h

/-- The rows and the gutter cells run over the same alignment: one row per entry. -/
theorem blockRowsGo_length (cfg : Cfg) (s : Sides) :
    ∀ (al : Alignment) (c c' : Counters) (rows : List Row),
      blockRowsGo cfg s c al = .ok (c', rows) → rows.length = al.length := by
  intro al
  induction al with
  | nil => intro c c' rows h; simp [blockRowsGo] at h; simp [h.2.symm]
  | cons e rest ih =>
    intro c c' rows h
    obtain ⟨mi, pi⟩ := e
    simp only [blockRowsGo] at h
    split at h
    · cases h
    · split at h
      · cases h
      · rename_i c2 rows' hrest
        cases h
        simp [ih _ _ _ hrest]

/-- The gutter cells of the rows are those of the C05 counter machine (`LineNumbers.sbsRows`). -/
theorem blockRowsGo_cells (cfg : Cfg) (s : Sides) :
    ∀ (al : Alignment) (c c' : Counters) (rows : List Row),
      blockRowsGo cfg s c al = .ok (c', rows) →
      LineNumbers.sbsRows c s.sl s.sr s.rl s.rr al = .ok (c', rows.map (·.cells)) := by
  intro al
  induction al with
  | nil => intro c c' rows h; simp [blockRowsGo] at h; obtain ⟨rfl, rfl⟩ := h; rfl
  | cons e rest ih =>
    intro c c' rows h
    obtain ⟨mi, pi⟩ := e
    simp only [blockRowsGo] at h
    split at h
    · cases h
    · rename_i c1 row hrow
      split at h
      · cases h
      · rename_i c2 rows' hrest
        cases h
        have hcell : LineNumbers.sbsRow c s.sl s.sr (LineNumbers.rawAt s.rl mi) (LineNumbers.rawAt s.rr pi) mi pi
            = .ok (c1, row.cells) := by
          unfold blockRow at hrow
          split at hrow
          · cases hrow
          · rename_i c1' cells hc
            have hc' : LineNumbers.sbsRow c s.sl s.sr (LineNumbers.rawAt s.rl mi) (LineNumbers.rawAt s.rr pi) mi pi
                = .ok (c1', cells) := by
              revert hc
              cases LineNumbers.sbsRow c s.sl s.sr (LineNumbers.rawAt s.rl mi) (LineNumbers.rawAt s.rr pi) mi pi with
              | error e => intro hc; cases hc
              | ok v => intro hc; simp only [liftS] at hc; cases hc; rfl
            split at hrow
            · cases hrow
            · split at hrow
              · cases hrow
              · split at hrow
                · cases hrow
                · split at hrow
                  · cases hrow
                  · cases hrow
                    exact hc'
        simp only [LineNumbers.sbsRows, hcell, ih _ _ _ hrest, List.map_cons]

/-- Entry `(Some i, None)` of the alignment: the left panel is built from row `i` of the left side,
the right panel from no sections at all (and symmetrically). -/
theorem blockRow_halves (cfg : Cfg) (s : Sides) (c c' : Counters) (mi pi : Option Nat) (row : Row)
    (h : blockRow cfg s c mi pi = .ok (c', row)) :
    ∃ hl hr, halfOf s.sl s.rowsL s.bgL (St.ofCode Generated.LineNum.sbsDefaultStates.1) mi = .ok hl ∧
      halfOf s.sr s.rowsR s.bgR (St.ofCode Generated.LineNum.sbsDefaultStates.2) pi = .ok hr ∧
      panel cfg .left row.cells.l (prefixFor cfg .left hl.st) hl (shouldFillOf cfg Generated.SbsRow.blockShouldFill.1)
        = .ok row.left ∧
      panel cfg .right row.cells.r (prefixFor cfg .right hr.st) hr (shouldFillOf cfg Generated.SbsRow.blockShouldFill.2)
        = .ok row.right := by
  unfold blockRow at h
  split at h
  · cases h
  · split at h
    · cases h
    · rename_i hl hhl
      split at h
      · cases h
      · rename_i l hpl
        split at h
        · cases h
        · rename_i hr hhr
          split at h
          · cases h
          · rename_i r hpr
            cases h
            exact ⟨hl, hr, hhl, hhr, hpl, hpr⟩

theorem halfOf_none (states : List St) (rows : List (List Item)) (bg : List Bool) (d : St) :
    halfOf states rows bg d none = .ok ⟨false, d, [], false⟩ := rfl

theorem halfOf_some (states : List St) (rows : List (List Item)) (bg : List Bool) (d : St) (i : Nat) (hf : Half)
    (h : halfOf states rows bg d (some i) = .ok hf) :
    hf.hasIndex = true ∧ rows[i]? = some hf.secs ∧ states[i]? = some hf.st := by
  simp only [halfOf] at h
  split at h
  · cases h
  · rename_i st hst
    split at h
    · cases h
    · rename_i secs hsecs
      cases h
      refine ⟨rfl, ?_, ?_⟩
      · unfold lookupSecs at hsecs
        split at hsecs
        · rename_i r hr; cases hsecs; exact hr
        · cases hsecs
      · revert hst
        unfold LineNumbers.lookupSt
        cases hs : states[i]? with
        | none => intro hst; simp [liftS] at hst
        | some x => intro hst; simp [liftS] at hst; rw [hst]

/-! ## Rows of an unchanged line -/

theorem zeroRow_ok (hok : Generated.wrapTruncStopsAfterCut = true) (cfg : Cfg) (c c' : Counters) (st : St)
    (secs : List Item) (bg : Bool) (row : Row) (h : zeroRow cfg c st secs bg = .ok (c', row)) :
    RowOk cfg row ∧
    ∃ ll lr, panelLine cfg row.cells.l (zeroPrefixFor cfg) ⟨true, st, secs, bg⟩ = .ok ll ∧
      panelLine cfg row.cells.r (zeroPrefixFor cfg) ⟨true, st, secs, bg⟩ = .ok lr ∧
      padPanelG cfg cfg.pwL ll (some .spaces) = .ok row.left ∧
      padPanelG cfg cfg.pwR lr (fillFor cfg .right secs.isEmpty true bg (shouldFillOf cfg Generated.SbsRow.zeroShouldFill))
        = .ok row.right := by
  unfold zeroRow at h
  split at h
  · cases h
  · split at h
    · cases h
    · rename_i l hl
      split at h
      · cases h
      · split at h
        · cases h
        · rename_i r hr
          cases h
          refine ⟨⟨(panel_width hok cfg .left _ _ _ _ l hl).2 rfl, (panel_width hok cfg .right _ _ _ _ r hr).1⟩, ?_⟩
          unfold panel at hl hr
          split at hl
          · cases hl
          · rename_i ll hll
            split at hr
            · cases hr
            · rename_i lr hlr
              rw [fillFor_left] at hl
              exact ⟨ll, lr, hll, hlr, hl, hr⟩

theorem zeroRowsGo_ok (hok : Generated.wrapTruncStopsAfterCut = true) (cfg : Cfg) (bg : Bool) :
    ∀ (l : List (St × List Item)) (c c' : Counters) (rows : List Row),
      zeroRowsGo cfg bg c l = .ok (c', rows) → ∀ r ∈ rows, RowOk cfg r := by
  intro l
  induction l with
  | nil =>
    intro c c' rows h
    simp [zeroRowsGo] at h
    obtain ⟨_, rfl⟩ := h
    intro r hr; cases hr
  | cons e rest ih =>
    intro c c' rows h
    obtain ⟨st, secs⟩ := e
    simp only [zeroRowsGo] at h
    split at h
    · cases h
    · rename_i c1 row hrow
      split at h
      · cases h
      · rename_i c2 rows' hrest
        cases h
        intro r hr
        rcases List.mem_cons.mp hr with rfl | hr'
        · exact (zeroRow_ok hok cfg c c1 st secs bg _ hrow).1
        · exact ih c1 _ rows' hrest r hr'

theorem zeroRows_ok (hok : Generated.wrapTruncStopsAfterCut = true) (cfg : Cfg) (c c' : Counters)
    (rows : List (List Item)) (bg : Bool) (out : List Row) (h : zeroRows cfg c rows bg = .ok (c', out)) :
    ∀ r ∈ out, RowOk cfg r := by
  unfold zeroRows at h
  split at h
  · cases h
  · exact zeroRowsGo_ok hok cfg bg _ _ _ _ h

/-! ## Panel widths from `--width` -/

theorem panelWidthsV_spec (fixed : Bool) (w : Nat) (m : FillM) :
    (panelWidthsV fixed w m).1 = w / 2 ∧
    (panelWidthsV fixed w m).1 ≤ (panelWidthsV fixed w m).2 ∧
    (panelWidthsV fixed w m).1 + (panelWidthsV fixed w m).2 ≤ w ∧
    (fixed = true → panelWidthsV fixed w m = SideBySide.panelWidths w (decide (m = .ansi))) := by
  unfold panelWidthsV isOddWithAnsi SideBySide.panelWidths Generated.panelDivisor Generated.oddRightIncrement
  have ho : Generated.SbsRow.oddRule = (2, 2, 1) := rfl
  simp only [ho]
  by_cases hw : w % 2 = 1
  · cases m <;> cases fixed <;> simp [modeCode, hw] <;> omega
  · cases m <;> cases fixed <;> simp [modeCode, hw] <;> omega

end SbsRow
