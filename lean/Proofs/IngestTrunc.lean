import DeltaModel.IngestMachine
import Proofs.TruncTotal
/-!
C01 / T4 helper lemmas: what `truncate_str` (`Line.truncate`, the character-level model of
`truncate_str_impl`) keeps of a line — the longest prefix of its grapheme clusters that fits next to
the truncation mark — and when `ingest_line_utf8` truncates at all.
-/
namespace IngestMachine
open Line

/-- Number of leading clusters that fit in `dw` columns when `used` columns are taken already. -/
def fitCount (dw : Nat) : Nat → List G → Nat
  | _, [] => 0
  | used, g :: gs => if used + g.w > dw then 0 else fitCount dw (used + g.w) gs + 1

theorem fitCount_le (dw : Nat) (gs : List G) : ∀ used, fitCount dw used gs ≤ gs.length := by
  induction gs with
  | nil => intro used; simp [fitCount]
  | cons g gs ih =>
    intro used
    simp only [fitCount]
    split
    · simp
    · have := ih (used + g.w); simp; omega

theorem gWidth_cons (g : G) (gs : List G) : gWidth (g :: gs) = g.w + gWidth gs := by
  simp [gWidth]

theorem gWidth_append (a b : List G) : gWidth (a ++ b) = gWidth a + gWidth b := by
  simp [gWidth]

theorem gChars_append (a b : List G) : gChars (a ++ b) = gChars a ++ gChars b := by
  simp [gChars]

/-- the clusters counted by `fitCount` do fit … -/
theorem fitCount_fits (dw : Nat) (gs : List G) :
    ∀ used, 0 < fitCount dw used gs → used + gWidth (gs.take (fitCount dw used gs)) ≤ dw := by
  induction gs with
  | nil => intro used h; simp [fitCount] at h
  | cons g gs ih =>
    intro used h
    simp only [fitCount] at h ⊢
    split at h
    · omega
    · rename_i hle
      rw [if_neg hle]
      simp only [List.take_succ_cons, gWidth_cons]
      by_cases h0 : 0 < fitCount dw (used + g.w) gs
      · have := ih (used + g.w) h0; omega
      · have : fitCount dw (used + g.w) gs = 0 := by omega
        rw [this]; simp [gWidth]; omega

/-- … and the next one does not: the prefix is the longest that fits. -/
theorem fitCount_maximal (dw : Nat) (gs : List G) :
    ∀ used, fitCount dw used gs < gs.length →
      dw < used + gWidth (gs.take (fitCount dw used gs + 1)) := by
  induction gs with
  | nil => intro used h; simp at h
  | cons g gs ih =>
    intro used h
    simp only [fitCount] at h ⊢
    split
    · rename_i hgt
      simp [gWidth]; omega
    · rename_i hle
      rw [if_neg hle] at h
      simp only [List.take_succ_cons, gWidth_cons]
      have : fitCount dw (used + g.w) gs < gs.length := by simp at h; omega
      have := ih (used + g.w) this
      omega

/-- when every cluster fits, the whole list does -/
theorem fitCount_all (dw : Nat) (gs : List G) :
    ∀ used, fitCount dw used gs = gs.length → gs = [] ∨ used + gWidth gs ≤ dw := by
  intro used h
  cases gs with
  | nil => exact Or.inl rfl
  | cons g gs =>
    right
    have h0 : 0 < fitCount dw used (g :: gs) := by rw [h]; simp
    have := fitCount_fits dw (g :: gs) used h0
    rw [h] at this; simpa using this

theorem fitCount_append (dw : Nat) (a b : List G) :
    ∀ used, fitCount dw used (a ++ b) =
      if fitCount dw used a = a.length then a.length + fitCount dw (used + gWidth a) b
      else fitCount dw used a := by
  induction a with
  | nil => intro used; simp [fitCount, gWidth]
  | cons g a ih =>
    intro used
    simp only [List.cons_append, fitCount]
    split
    · simp
    · rw [ih (used + g.w)]
      simp only [List.length_cons, gWidth_cons]
      split
      · rename_i h; rw [if_pos (by omega)]; simp [Nat.add_assoc]; omega
      · rename_i h; rw [if_neg (by omega)]

/-- what the filler of a split wide cluster can be: nothing, or the fill character some number of times (once for a
two-column cluster; `display_width - used` times for a cluster wider than two columns: `truncText_filler_fits`) -/
def Filler (fill : Option Char) (f : List G) : Prop :=
  f = [] ∨ ∃ ch n, fill = some ch ∧ f = List.replicate n ⟨[ch], 1⟩

theorem gWidth_replicate_one (n : Nat) (s : List Char) : gWidth (List.replicate n ⟨s, 1⟩) = n := by
  induction n with
  | zero => simp [gWidth]
  | succ n ih => rw [List.replicate_succ, gWidth_cons, ih]; show 1 + n = n + 1; omega

/-- The inner loop of `truncate_str_impl`: it keeps the leading clusters that fit, in order, and
reports a cut iff one did not fit (then possibly one filler column for a split wide cluster). -/
theorem truncText_spec (dw : Nat) (fill : Option Char) (gs : List G) :
    ∀ (used : Nat) (kept : List G) (used' : Nat) (c : Bool),
      truncText dw fill used gs = some (kept, used', c) →
      used' = used + gWidth (gs.take (fitCount dw used gs)) ∧
      (c = false → fitCount dw used gs = gs.length ∧ kept = gs) ∧
      (c = true → fitCount dw used gs < gs.length ∧
        ∃ f, Filler fill f ∧ kept = gs.take (fitCount dw used gs) ++ f) := by
  induction gs with
  | nil =>
    intro used kept used' c h
    simp [truncText] at h
    obtain ⟨rfl, rfl, rfl⟩ := h
    simp [fitCount, gWidth]
  | cons g gs ih =>
    intro used kept used' c h
    simp only [truncText] at h
    by_cases hgt : used + g.w > dw
    · rw [if_pos hgt] at h
      have hfc : fitCount dw used (g :: gs) = 0 := by simp [fitCount, hgt]
      rw [hfc]
      cases fill with
      | none =>
        simp at h
        obtain ⟨rfl, rfl, rfl⟩ := h
        simp [gWidth, Filler]
      | some f =>
        simp only at h
        split at h
        · simp at h
          obtain ⟨rfl, rfl, rfl⟩ := h
          simp only [List.take_zero, gWidth, List.map_nil, List.sum_nil, Nat.add_zero, List.nil_append, true_and]
          exact ⟨by simp, fun _ => ⟨by simp, _, Or.inr ⟨f, 1, rfl, rfl⟩, rfl⟩⟩
        · split at h
          · split at h
            · cases h
            · simp at h
              obtain ⟨rfl, rfl, rfl⟩ := h
              simp only [List.take_zero, gWidth, List.map_nil, List.sum_nil, Nat.add_zero, List.nil_append, true_and]
              exact ⟨by simp, fun _ => ⟨by simp, _, Or.inr ⟨f, _, rfl, rfl⟩, rfl⟩⟩
          · simp at h
            obtain ⟨rfl, rfl, rfl⟩ := h
            simp [gWidth, Filler]
    · rw [if_neg hgt] at h
      have hfc : fitCount dw used (g :: gs) = fitCount dw (used + g.w) gs + 1 := by simp [fitCount, hgt]
      rw [hfc]
      cases hr : truncText dw fill (used + g.w) gs with
      | none => rw [hr] at h; cases h
      | some res =>
        obtain ⟨r, u, c'⟩ := res
        rw [hr] at h
        simp at h
        obtain ⟨rfl, rfl, rfl⟩ := h
        obtain ⟨h1, h2, h3⟩ := ih (used + g.w) r u c' hr
        refine ⟨?_, ?_, ?_⟩
        · simp only [List.take_succ_cons, gWidth_cons]; omega
        · intro hc
          obtain ⟨a, b⟩ := h2 hc
          simp [a, b]
        · intro hc
          obtain ⟨a, f, hf, b⟩ := h3 hc
          refine ⟨by simp; omega, f, hf, ?_⟩
          simp [b]

/-- The filler, exactly, by the first cluster `g` that does not fit when `used'` columns are taken: one fill
character for a two-column cluster if a column is left; for a cluster wider than two columns (the fallback of
`truncate_str_impl`, reached since fix d6cf9d0) as many as columns are left; else none. -/
def fillerFor (dw : Nat) (fill : Option Char) (used' : Nat) (g : G) : List G :=
  match fill with
  | none => []
  | some ch =>
    if g.w = 2 ∧ used' < dw then [⟨[ch], 1⟩]
    else if g.w > 2 then List.replicate (dw - used') ⟨[ch], 1⟩
    else []

/-- the filler never goes beyond the limit -/
theorem fillerFor_fits (dw : Nat) (fill : Option Char) (used' : Nat) (g : G) (h : used' ≤ dw) :
    used' + gWidth (fillerFor dw fill used' g) ≤ dw := by
  unfold fillerFor
  cases fill with
  | none => simp [gWidth]; exact h
  | some ch =>
    simp only
    split
    · rename_i h2; simp [gWidth]; omega
    · split
      · rw [gWidth_replicate_one]; omega
      · simp [gWidth]; exact h

/-- with a fill character, a cluster wider than one column that does not fit is filled up to the limit exactly -/
theorem fillerFor_exact (dw : Nat) (ch : Char) (used' : Nat) (g : G) (h : used' ≤ dw) (hw : 2 ≤ g.w)
    (hcut : dw < used' + g.w) : used' + gWidth (fillerFor dw (some ch) used' g) = dw := by
  unfold fillerFor
  simp only
  split
  · rename_i h2; simp [gWidth]; omega
  · split
    · rw [gWidth_replicate_one]; omega
    · simp [gWidth]; omega

/-- `truncText_spec`, the filler made exact: after a cut the clusters kept are the longest prefix that fits and
`fillerFor` of the first cluster that does not. -/
theorem truncText_filler (dw : Nat) (fill : Option Char) (gs : List G) :
    ∀ (used : Nat) (kept : List G) (used' : Nat),
      truncText dw fill used gs = some (kept, used', true) →
      ∃ g, gs[fitCount dw used gs]? = some g ∧ dw < used' + g.w ∧
        kept = gs.take (fitCount dw used gs) ++ fillerFor dw fill used' g := by
  induction gs with
  | nil => intro used kept used' h; simp [truncText] at h
  | cons g gs ih =>
    intro used kept used' h
    simp only [truncText] at h
    by_cases hgt : used + g.w > dw
    · rw [if_pos hgt] at h
      have hfc : fitCount dw used (g :: gs) = 0 := by simp [fitCount, hgt]
      rw [hfc]
      refine ⟨g, by simp, ?_⟩
      cases fill with
      | none =>
        simp at h
        obtain ⟨rfl, rfl⟩ := h
        exact ⟨hgt, by simp [fillerFor]⟩
      | some f =>
        simp only at h
        split at h
        · rename_i h2
          simp at h
          obtain ⟨rfl, rfl⟩ := h
          exact ⟨hgt, by simp [fillerFor, h2]⟩
        · rename_i h2
          split at h
          · rename_i h3
            split at h
            · cases h
            · simp at h
              obtain ⟨rfl, rfl⟩ := h
              refine ⟨hgt, ?_⟩
              simp only [fillerFor, List.take_zero, List.nil_append]
              rw [if_neg h2, if_pos h3]
          · rename_i h3
            simp at h
            obtain ⟨rfl, rfl⟩ := h
            refine ⟨hgt, ?_⟩
            simp only [fillerFor, List.take_zero, List.nil_append]
            rw [if_neg h2, if_neg h3]
    · rw [if_neg hgt] at h
      have hfc : fitCount dw used (g :: gs) = fitCount dw (used + g.w) gs + 1 := by simp [fitCount, hgt]
      rw [hfc]
      cases hr : truncText dw fill (used + g.w) gs with
      | none => rw [hr] at h; cases h
      | some res =>
        obtain ⟨r, u, c'⟩ := res
        rw [hr] at h
        simp at h
        obtain ⟨rfl, rfl, rfl⟩ := h
        obtain ⟨g', h1, h2, h3⟩ := ih (used + g.w) r u hr
        exact ⟨g', by simpa using h1, h2, by simp [h3]⟩

theorem gsOf_append (a b : List Item) : gsOf (a ++ b) = gsOf a ++ gsOf b := by
  induction a with
  | nil => rfl
  | cons x xs ih => cases x <;> simp [gsOf, ih]

theorem textOf_append (a b : List Item) : textOf (a ++ b) = textOf a ++ textOf b := by
  simp [textOf, gsOf_append, gChars_append]

theorem width_eq_gWidth (items : List Item) : width items = gWidth (gsOf items) := by
  induction items with
  | nil => rfl
  | cons x xs ih =>
    have hc : width (x :: xs) = x.width + width xs := by simp [width]
    rw [hc, ih]
    cases x with
    | text gs => simp [gsOf, Item.width, gWidth]
    | esc s => simp [gsOf, Item.width]

/-- The outer loop (as the source is now: nothing is added after the first cut): the text kept is the
longest prefix of the line's clusters that fits, possibly followed by one filler column. -/
theorem truncGo_spec (hstop : Generated.StyleTables.truncateStopsAfterCut = true) (dw : Nat) (fill : Option Char)
    (items : List Item) :
    ∀ (cut : Bool) (used : Nat) (kept : List Item), truncGo dw fill cut used items = some kept →
      (cut = true → gsOf kept = []) ∧
      (cut = false → ∃ f, Filler fill f ∧ (f ≠ [] → fitCount dw used (gsOf items) < (gsOf items).length) ∧
        gsOf kept = (gsOf items).take (fitCount dw used (gsOf items)) ++ f) := by
  induction items with
  | nil =>
    intro cut used kept h
    simp [truncGo] at h
    subst h
    simp [gsOf, fitCount, Filler]
  | cons x xs ih =>
    intro cut used kept h
    cases x with
    | esc s =>
      simp only [truncGo, Option.map_eq_some_iff] at h
      obtain ⟨r, hr, rfl⟩ := h
      simpa [gsOf] using ih cut used r hr
    | text gs =>
      simp only [truncGo, hstop, Bool.and_true] at h
      cases cut with
      | true =>
        simp only [if_true, Option.map_eq_some_iff] at h
        obtain ⟨r, hr, rfl⟩ := h
        have := (ih true used r hr).1 rfl
        simp [gsOf, this]
      | false =>
        simp only [Bool.false_eq_true, if_false, Bool.false_or] at h
        cases ht : truncText dw fill used gs with
        | none => rw [ht] at h; cases h
        | some res =>
          obtain ⟨k1, used', c⟩ := res
          rw [ht] at h
          simp only [Option.map_eq_some_iff] at h
          obtain ⟨r, hr, rfl⟩ := h
          obtain ⟨hu, hc0, hc1⟩ := truncText_spec dw fill gs used k1 used' c ht
          refine ⟨(by intro hh; cases hh), fun _ => ?_⟩
          simp only [gsOf]
          rw [fitCount_append]
          cases c with
          | false =>
            obtain ⟨hall, rfl⟩ := hc0 rfl
            obtain ⟨f, hf, hlt, hk⟩ := (ih false used' r hr).2 rfl
            rw [if_pos hall]
            rw [hall] at hu
            simp only [List.take_length] at hu
            subst hu
            refine ⟨f, hf, ?_, ?_⟩
            · intro hne; have := hlt hne; simp; omega
            · rw [hk]
              simp [List.take_append, List.append_assoc]
              exact (List.take_of_length_le (by omega)).symm
          | true =>
            obtain ⟨hlt, f, hf, rfl⟩ := hc1 rfl
            have hnil := (ih true used' r hr).1 rfl
            rw [if_neg (by omega)]
            refine ⟨f, hf, ?_, ?_⟩
            · intro _; simp; omega
            · rw [hnil, List.take_append_of_le_length (by omega)]
              simp

/-- `truncate_str_impl` either leaves the line alone (it fits) or returns what `truncGo` keeps next
to the (itself truncated) tail. -/
theorem truncate_cases (dw : Nat) (tail : List Item) (fill : Option Char) (items o : List Item)
    (h : truncate dw tail fill items = some o) :
    (width items ≤ dw ∧ o = items) ∨
    (dw < width items ∧ ∃ rt kept, truncNoTail dw fill tail = some rt ∧
      truncGo dw fill false (width rt) items = some kept ∧ o = kept ++ rt) := by
  unfold truncate at h
  split at h
  · left; rename_i hle; exact ⟨hle, by simpa using h.symm⟩
  · right
    rename_i hgt
    refine ⟨by omega, ?_⟩
    cases hrt : truncNoTail dw fill tail with
    | none => rw [hrt] at h; cases h
    | some rt =>
      rw [hrt] at h
      simp only [Option.map_eq_some_iff] at h
      obtain ⟨kept, hk, rfl⟩ := h
      exact ⟨rt, kept, rfl, hk, rfl⟩

/-- a truncation mark that fits is used whole -/
theorem truncNoTail_fits (dw : Nat) (fill : Option Char) (tail : List Item) (h : width tail ≤ dw) :
    truncNoTail dw fill tail = some tail := by
  simp [truncNoTail, h]

/-- The guard of the truncation holds only for a positive limit that the line exceeds in bytes. -/
theorem truncates_only_when_longer {maxLen : Nat} {r1 : Headers.Str} (h : truncates maxLen r1 = true) :
    0 < maxLen ∧ maxLen < utf8Len r1 := by
  simp [truncates, Generated.truncGuard] at h
  omega

/-- bytes ≥ 1 per character -/
theorem length_le_utf8Len (s : Headers.Str) : s.length ≤ utf8Len s := by
  induction s with
  | nil => simp [utf8Len]
  | cons c cs ih =>
    have h1 : utf8Len (c :: cs) = c.utf8Size + utf8Len cs := by simp [utf8Len]
    have h2 : 0 < c.utf8Size := Char.utf8Size_pos c
    rw [h1]; simp; omega

end IngestMachine
