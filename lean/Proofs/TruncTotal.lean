import DeltaModel.Sgr
/-!
`truncate_str_impl` (the character-level model `Line.truncate` of `DeltaModel/Sgr.lean`, run by C09 and, through
`IngestMachine`, by C01) has no panic point since fix d6cf9d0 removed the `debug_assert!` on a cluster wider than two
columns: the flag `truncateAssertsWideCluster` is read from the source on every run.
-/
namespace Line

/-- Since fix d6cf9d0 (no `debug_assert!` in front of the fallback: `truncateAssertsWideCluster = false`, read from
the source on every run) the inner loop of `truncate_str_impl` has no panic point, whatever the cluster widths. -/
theorem truncText_isSome (hno : Generated.StyleTables.truncateAssertsWideCluster = false) (dw : Nat)
    (fill : Option Char) (gs : List G) : ∀ used, ∃ r, truncText dw fill used gs = some r := by
  induction gs with
  | nil => intro used; exact ⟨_, rfl⟩
  | cons g gs ih =>
    intro used
    simp only [truncText, hno]
    split
    · cases fill with
      | none => exact ⟨_, rfl⟩
      | some f =>
        simp only
        split
        · exact ⟨_, rfl⟩
        · split
          · exact ⟨_, rfl⟩
          · exact ⟨_, rfl⟩
    · obtain ⟨⟨r, u, c⟩, hr⟩ := ih (used + g.w)
      rw [hr]; exact ⟨_, rfl⟩

theorem truncGo_isSome (hno : Generated.StyleTables.truncateAssertsWideCluster = false) (dw : Nat)
    (fill : Option Char) (items : List Item) : ∀ cut used, ∃ r, truncGo dw fill cut used items = some r := by
  induction items with
  | nil => intro cut used; exact ⟨_, rfl⟩
  | cons x xs ih =>
    intro cut used
    cases x with
    | esc s =>
      obtain ⟨r, hr⟩ := ih cut used
      exact ⟨_, by simp only [truncGo, hr]; rfl⟩
    | text gs =>
      simp only [truncGo]
      split
      · obtain ⟨r, hr⟩ := ih cut used
        exact ⟨_, by rw [hr]; rfl⟩
      · obtain ⟨⟨k, u, c⟩, hk⟩ := truncText_isSome hno dw fill gs used
        obtain ⟨r, hr⟩ := ih (cut || c) u
        rw [hk]
        exact ⟨_, by simp only [hr]; rfl⟩

/-- **`truncate_str_impl` never panics** (since fix d6cf9d0), whatever the cluster widths, the limit, the tail. -/
theorem truncate_isSome (hno : Generated.StyleTables.truncateAssertsWideCluster = false) (dw : Nat)
    (tail : List Item) (fill : Option Char) (items : List Item) : ∃ o, truncate dw tail fill items = some o := by
  unfold truncate
  split
  · exact ⟨_, rfl⟩
  · have hrt : ∃ rt, truncNoTail dw fill tail = some rt := by
      unfold truncNoTail
      split
      · exact ⟨_, rfl⟩
      · exact truncGo_isSome hno dw fill tail false 0
    obtain ⟨rt, hrt⟩ := hrt
    obtain ⟨r, hr⟩ := truncGo_isSome hno dw fill items false (width rt)
    rw [hrt]
    exact ⟨_, by simp only [hr]; rfl⟩

theorem fitPanel_isSome (hno : Generated.StyleTables.truncateAssertsWideCluster = false) (spec : PadSpec)
    (line1 : List Item) : ∃ o, fitPanel spec line1 = some o := by
  unfold fitPanel
  split
  · exact truncate_isSome hno _ _ _ _
  · exact ⟨_, rfl⟩

/-- `pad_panel_line_to_width` never panics (since fix d6cf9d0). -/
theorem padPanel_isSome (hno : Generated.StyleTables.truncateAssertsWideCluster = false) (spec : PadSpec)
    (line : List Item) : ∃ o, padPanel spec line = some o := by
  obtain ⟨o, ho⟩ := fitPanel_isSome hno spec (withMarker spec line)
  exact ⟨_, by simp only [padPanel, ho]; rfl⟩

/-- every row is rendered -/
theorem render_isSome (hno : Generated.StyleTables.truncateAssertsWideCluster = false) (r : Row) :
    ∃ o, r.render = some o := by
  cases r with
  | unified xs fill => exact ⟨_, rfl⟩
  | sideBySide l r il ir sl sr =>
    obtain ⟨a, ha⟩ := padPanel_isSome hno sl il
    obtain ⟨b, hb⟩ := padPanel_isSome hno sr ir
    exact ⟨a ++ b, by simp only [Row.render, ha, hb]⟩

end Line
