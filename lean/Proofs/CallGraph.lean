import DeltaModel.CallGraph
/-!
Soundness of the bit-set closure check of `DeltaModel/CallGraph.lean` (for EVERY graph, root list and
set): a set that is `closed` and contains the roots contains every node reachable from them. Hence
"no query primitive in a closed set around the roots" is "no query primitive reachable".
Plus the cache lemmas: if every protocol query answers `v`, every access (direct or through the
process-lifetime cache) answers `v`.
-/
namespace CallGraph

theorem testBit_mask_of_mem {j : Nat} {l : List Nat} (h : j ∈ l) : (mask l).testBit j = true := by
  induction l with
  | nil => cases h
  | cons a l ih =>
    simp only [mask, Nat.testBit_or, Bool.or_eq_true]
    rcases List.mem_cons.mp h with rfl | h'
    · left
      simp [Nat.testBit_shiftLeft]
    · right
      exact ih h'

theorem closedAux_spec (rs : List Nat) (k S : Nat) (h : closedAux rs k S = true)
    (i : Nat) (r : Nat) (hi : rs[i]? = some r) (hm : S.testBit (k + i) = true) : S ||| r = S := by
  induction rs generalizing k i with
  | nil => simp at hi
  | cons a rs ih =>
    simp only [closedAux, Bool.and_eq_true, Bool.or_eq_true, Bool.not_eq_true', beq_iff_eq] at h
    cases i with
    | zero =>
      simp at hi
      subst hi
      rcases h.1 with h0 | h0
      · simp [h0] at hm
      · exact h0
    | succ i =>
      simp at hi
      have := ih (k + 1) h.2 i hi (by rw [← hm]; congr 1; omega)
      exact this

theorem closed_step {g : Graph} {S : Nat} (hc : closed g S = true) {i j : Nat}
    (hi : S.testBit i = true) (hj : j ∈ calleesOf g i) : S.testBit j = true := by
  unfold calleesOf at hj
  cases hr : g[i]? with
  | none => simp [hr] at hj
  | some row =>
    simp [hr] at hj
    have hrow : (rowMasks g)[i]? = some (mask row) := by simp [rowMasks, hr]
    have := closedAux_spec (rowMasks g) 0 S hc i (mask row) hrow (by simpa using hi)
    rw [← this, Nat.testBit_or, testBit_mask_of_mem hj, Bool.or_true]

/-- A closed set containing the roots contains everything reachable from them. -/
theorem reach_in_closed {g : Graph} {roots : List Nat} {S : Nat} (hc : closed g S = true)
    (hr : ∀ r ∈ roots, S.testBit r = true) {f : Nat} (h : Reach g roots f) : S.testBit f = true := by
  induction h with
  | root hm => exact hr _ hm
  | call _ hj ih => exact closed_step hc ih hj

theorem reach_trans {g : Graph} {roots : List Nat} {f p : Nat} (h1 : Reach g roots f)
    (h2 : Reach g [f] p) : Reach g roots p := by
  induction h2 with
  | root hm => simp at hm; subst hm; exact h1
  | call _ hj ih => exact Reach.call ih hj

theorem reach_mono {g : Graph} {r1 r2 : List Nat} (hs : ∀ r ∈ r1, r ∈ r2) {f : Nat}
    (h : Reach g r1 f) : Reach g r2 f := by
  induction h with
  | root hm => exact Reach.root (hs _ hm)
  | call _ hj ih => exact Reach.call ih hj

/-- The check used by the property theorems: `separates` ⇒ nothing in `bad` is reachable, and
nothing reachable reaches anything in `bad`. -/
theorem separates_sound {g : Graph} {roots bad : List Nat} {S : Nat} (h : separates g roots bad S = true)
    {f : Nat} (hf : Reach g roots f) : f ∉ bad ∧ ∀ p ∈ bad, ¬ Reach g [f] p := by
  simp only [separates, Bool.and_eq_true, List.all_eq_true, Bool.not_eq_true'] at h
  obtain ⟨⟨hc, hr⟩, hb⟩ := h
  have key : ∀ x, Reach g roots x → x ∉ bad := by
    intro x hx hm
    have := reach_in_closed hc hr hx
    rw [hb x hm] at this
    cases this
  exact ⟨key f hf, fun p hp h2 => key p (reach_trans hf h2) hp⟩

/-! ### Cache -/

theorem answers_all_eq (v : Caller.Cell) (l : List Access) (rs : List Caller.Cell) (c : Option Caller.Cell)
    (hrs : ∀ r ∈ rs, r = v) (hc : ∀ w, c = some w → w = v) (out : List Caller.Cell)
    (h : answers l rs c = some out) : ∀ a ∈ out, a = v := by
  induction l generalizing rs c out with
  | nil => simp [answers] at h; subst h; simp
  | cons x l ih =>
    cases x with
    | direct =>
      cases rs with
      | nil => simp [answers] at h
      | cons r rs =>
        simp only [answers, Option.map_eq_some_iff] at h
        obtain ⟨o, ho, rfl⟩ := h
        intro a ha
        rcases List.mem_cons.mp ha with rfl | ha
        · exact hrs _ (by simp)
        · exact ih rs c (fun x hx => hrs x (List.mem_cons_of_mem _ hx)) hc o ho a ha
    | cached =>
      cases c with
      | some w =>
        simp only [answers, Option.map_eq_some_iff] at h
        obtain ⟨o, ho, rfl⟩ := h
        intro a ha
        rcases List.mem_cons.mp ha with rfl | ha
        · exact hc _ rfl
        · exact ih rs (some w) hrs hc o ho a ha
      | none =>
        cases rs with
        | nil => simp [answers] at h
        | cons r rs =>
          simp only [answers, Option.map_eq_some_iff] at h
          obtain ⟨o, ho, rfl⟩ := h
          intro a ha
          rcases List.mem_cons.mp ha with rfl | ha
          · exact hrs _ (by simp)
          · exact ih rs (some r) (fun x hx => hrs x (List.mem_cons_of_mem _ hx))
              (fun w hw => by cases hw; exact hrs _ (by simp)) o ho _ ha

end CallGraph
