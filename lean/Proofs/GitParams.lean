import DeltaModel.GitParams
/-!
Lemmas about `GitParams` (the reader of `GIT_CONFIG_PARAMETERS`): facts about the generated classes, the matcher on
the text git writes for one `-c`, the scan over a whole variable (`scan_fmtList`).
-/
namespace GitParams
open Generated.GitParams

/-! ## The generated classes and prefix -/

theorem prefix_eq : keyPrefix.toList = ['d','e','l','t','a','.'] := by decide
theorem keyChar_quote : keyChar '\'' = false := by decide
theorem keyChar_eq : keyChar '=' = false := by decide
theorem keyChar_bang : keyChar '!' = false := by decide

theorem toNat_39 (c : Char) (h2 : c.toNat = 39) : c = '\'' := by
  have : c = Char.ofNat c.toNat := (Char.ofNat_toNat c).symm
  rw [this, h2]

theorem valChar_iff (c : Char) : valChar c = true ↔ c ≠ '\'' := by
  unfold valChar inRanges valueExcluded
  simp
  constructor
  · intro h hc; subst hc; revert h; decide
  · intro h
    have : c.toNat ≠ 39 := fun h2 => h (toNat_39 c h2)
    omega

theorem valChar_quote : valChar '\'' = false := by decide

theorem keyChar_noQB {c : Char} (h : keyChar c = true) : c ≠ '\'' ∧ c ≠ '!' := by
  constructor <;> (intro hc; subst hc; revert h; decide)

/-! ## Lists -/

theorem takeWhile_stop (p : Char → Bool) (a b : List Char) (c : Char)
    (ha : ∀ x ∈ a, p x = true) (hc : p c = false) :
    (a ++ c :: b).takeWhile p = a ∧ (a ++ c :: b).dropWhile p = c :: b := by
  induction a with
  | nil => simp [hc]
  | cons x xs ih =>
    have hx : p x = true := ha x (by simp)
    have := ih (fun y hy => ha y (by simp [hy]))
    simp [hx, this]

theorem takeWhile_all (p : Char → Bool) (a : List Char) (ha : ∀ x ∈ a, p x = true) :
    a.takeWhile p = a ∧ a.dropWhile p = [] := by
  induction a with
  | nil => simp
  | cons x xs ih =>
    have hx : p x = true := ha x (by simp)
    have := ih (fun y hy => ha y (by simp [hy]))
    simp [hx, this]

theorem stripPrefix_append (p t : List Char) : stripPrefix p (p ++ t) = some t := by
  induction p with
  | nil => cases t <;> rfl
  | cons x xs ih => simp [stripPrefix, ih]

theorem stripPrefix_some {p t r : List Char} (h : stripPrefix p t = some r) : t = p ++ r := by
  induction p generalizing t with
  | nil => cases t <;> simp_all [stripPrefix]
  | cons x xs ih =>
    cases t with
    | nil => simp [stripPrefix] at h
    | cons c cs =>
      simp only [stripPrefix] at h
      split at h
      · rename_i hxc; subst hxc; simp [ih h]
      · cases h

/-- A literal that is in front of `k ++ q :: r` although `q` does not occur in it is in front of `k`. -/
theorem isPrefixOf_of_append (p k r : List Char) (q : Char) (hq : q ∉ p)
    (h : p.isPrefixOf (k ++ q :: r) = true) : p.isPrefixOf k = true := by
  induction p generalizing k with
  | nil => simp
  | cons x xs ih =>
    cases k with
    | nil =>
      simp [List.isPrefixOf] at h
      exact absurd h.1.symm (by intro e; apply hq; simp [e])
    | cons c cs =>
      simp [List.isPrefixOf] at h ⊢
      exact ⟨h.1, by simpa using ih cs (fun hm => hq (by simp [hm])) (by simpa using h.2)⟩

theorem sqBody_id {s : List Char} (h : noQuoteBang s = true) : sqBody s = s := by
  induction s with
  | nil => rfl
  | cons c cs ih =>
    simp [noQuoteBang] at h ih
    simp [sqBody, h.1.1, h.1.2]
    exact ih h.2

/-! ## The matcher -/

theorem matchAt_no_start {t : List Char} (h : ("'delta.".toList).isPrefixOf t = false) : matchAt t = none := by
  unfold matchAt
  split
  · rename_i t1
    split
    · rfl
    · rename_i t2 hs
      have := stripPrefix_some hs
      rw [prefix_eq] at this
      subst this
      simp at h
  · rfl

theorem valueAt_ok (v b : List Char) (hv : v ≠ []) (hva : ∀ c ∈ v, c ≠ '\'') :
    valueAt (v ++ '\'' :: b) = some v := by
  have h := takeWhile_stop valChar v b '\'' (fun x hx => (valChar_iff x).2 (hva x hx)) valChar_quote
  unfold valueAt
  simp only [h.1, h.2]
  cases v with
  | nil => exact absurd rfl hv
  | cons _ _ => rfl

theorem valueAt_empty (b : List Char) : valueAt ('\'' :: b) = none := by
  simp [valueAt, List.takeWhile, valChar_quote]

theorem matchAt_new (k v b : List Char) (hk : k ≠ []) (hka : ∀ c ∈ k, keyChar c = true)
    (hv : v ≠ []) (hva : ∀ c ∈ v, c ≠ '\'') :
    matchAt ('\'' :: (keyPrefix.toList ++ k) ++ '\'' :: '=' :: '\'' :: v ++ '\'' :: b) =
      some ⟨'\'' :: (keyPrefix.toList ++ k) ++ '\'' :: '=' :: '\'' :: v ++ ['\''],
            [none, none, some (keyPrefix.toList ++ k), some v]⟩ := by
  have h := takeWhile_stop keyChar k ('=' :: '\'' :: v ++ '\'' :: b) '\'' hka keyChar_quote
  have e : '\'' :: (keyPrefix.toList ++ k) ++ '\'' :: '=' :: '\'' :: v ++ '\'' :: b =
      '\'' :: (keyPrefix.toList ++ (k ++ '\'' :: ('=' :: '\'' :: v ++ '\'' :: b))) := by simp
  rw [e]
  unfold matchAt
  simp only [stripPrefix_append, h.1, h.2]
  cases k with
  | nil => exact absurd rfl hk
  | cons x xs =>
    have hval := valueAt_ok v b hv hva
    simp only [List.cons_append] at hval ⊢
    simp [hval]

theorem matchAt_old (k v b : List Char) (hk : k ≠ []) (hka : ∀ c ∈ k, keyChar c = true)
    (hv : v ≠ []) (hva : ∀ c ∈ v, c ≠ '\'') :
    matchAt ('\'' :: (keyPrefix.toList ++ k) ++ '=' :: v ++ '\'' :: b) =
      some ⟨'\'' :: (keyPrefix.toList ++ k) ++ '=' :: v ++ ['\''],
            [some (keyPrefix.toList ++ k), some v, none, none]⟩ := by
  have h := takeWhile_stop keyChar k (v ++ '\'' :: b) '=' hka keyChar_eq
  have e : '\'' :: (keyPrefix.toList ++ k) ++ '=' :: v ++ '\'' :: b =
      '\'' :: (keyPrefix.toList ++ (k ++ '=' :: (v ++ '\'' :: b))) := by simp
  rw [e]
  unfold matchAt
  simp only [stripPrefix_append, h.1, h.2]
  cases k with
  | nil => exact absurd rfl hk
  | cons x xs =>
    have hval := valueAt_ok v b hv hva
    simp [hval]

/-! ## The scan -/

theorem scanAux_skip (a b : List Char) : scanAux (a ++ b) a.length = scanAux b 0 := by
  induction a with
  | nil => simp
  | cons x xs ih => simpa [scanAux] using ih

/-- `a` contains no place where a match could start, whatever follows is `b`. -/
def dead (b : List Char) : List Char → Bool
  | [] => true
  | c :: cs => !("'delta.".toList).isPrefixOf (c :: cs ++ b) && dead b cs

theorem scanAux_dead (a b : List Char) (h : dead b a = true) : scanAux (a ++ b) 0 = scanAux b 0 := by
  induction a with
  | nil => simp
  | cons x xs ih =>
    simp [dead] at h
    have hm : matchAt (x :: (xs ++ b)) = none := matchAt_no_start (by simpa using h.1)
    simp [scanAux, hm]
    exact ih h.2

theorem dead_append (a1 a2 b : List Char) : dead b (a1 ++ a2) = (dead (a2 ++ b) a1 && dead b a2) := by
  induction a1 with
  | nil => simp [dead]
  | cons x xs ih => simp [dead, ih, Bool.and_assoc]

theorem dead_of_no_quote (a b : List Char) (h : ∀ c ∈ a, c ≠ '\'') : dead b a = true := by
  induction a with
  | nil => rfl
  | cons x xs ih =>
    have hx : x ≠ '\'' := h x (by simp)
    simp [dead, List.isPrefixOf]
    exact ⟨Or.inl (fun e => hx e.symm), ih (fun c hc => h c (by simp [hc]))⟩

theorem scan_match (w b : List Char) (m : Match) (hw : w ≠ []) (hm : matchAt (w ++ b) = some m)
    (hwm : m.whole = w) : scanAux (w ++ b) 0 = pairOf m :: scanAux b 0 := by
  cases w with
  | nil => exact absurd rfl hw
  | cons c cs =>
    simp only [List.cons_append] at hm ⊢
    simp only [scanAux, hm, hwm]
    simpa using scanAux_skip cs b

end GitParams
