import Proofs.WrapSect2
/-
C07 helper (sectioning independence, part 3): the simulation relation and one split of the
finest sectioning.
-/
namespace Wrap

/-- The text of a wrapped row: its clusters without the inserted wrap symbol. -/
def contentRow (r : Row) : List G := flatG r.dropLast

/-- Simulation relation between a run on a line and a run on its finest sectioning. -/
structure Rel (stM stF : St) : Prop where
  res : stM.result.map contentRow = stF.result.map contentRow
  cur : flatG stM.curr = flatG stF.curr
  len : stM.len = stF.len
  stk : stF.stack = fine (flatG stM.stack)

def NoEmptySec (secs : List Sec) : Prop := ∀ s ∈ secs, s.2 ≠ []

theorem flatG_eq_nil_of_noEmpty {t : List Sec} (hne : NoEmptySec t) (h : flatG t = []) : t = [] := by
  cases t with
  | nil => rfl
  | cons s r =>
    rw [flatG_cons] at h
    have := (List.append_eq_nil_iff.mp h).1
    exact absurd this (hne s (by simp))

theorem isLoneNl_of_flat {t : List Sec} (hne : NoEmptySec t) (h : isNlList (flatG t) = true) :
    isLoneNl t = true := by
  cases t with
  | nil => simp [flatG, isNlList] at h
  | cons s r =>
    obtain ⟨st, gs⟩ := s
    have hgs : gs ≠ [] := hne (st, gs) (by simp)
    rw [flatG_cons] at h
    simp only at h
    rcases isNlList_append h with ⟨h1, _⟩ | ⟨h1, h2⟩
    · exact absurd h1 hgs
    · have hr : r = [] := flatG_eq_nil_of_noEmpty (fun s hs => hne s (List.mem_cons_of_mem _ hs)) h2
      subst hr
      cases gs with
      | nil => exact absurd rfl hgs
      | cons g gs =>
        cases gs with
        | nil => simpa [isLoneNl, isNlList] using h1
        | cons g' gs => simp [isNlList] at h1

theorem flat_of_isLoneNl {t : List Sec} (h : isLoneNl t = true) : isNlList (flatG t) = true := by
  unfold isLoneNl at h
  split at h
  · simpa [flatG, isNlList] using h
  · cases h

theorem flatG_suffix {t line : List Sec} (h : t <:+ line) : flatG t <:+ flatG line := by
  obtain ⟨pre, rfl⟩ := h
  rw [flatG_append]
  exact List.suffix_append _ _

/-- "Perfect fit" depends on the flat text only (no empty sections). -/
theorem perfectRest_iff_flat {fx : Fixes} {t : List Sec} (hne : NoEmptySec t) :
    PerfectRest fx t ↔ PerfectRest fx (fine (flatG t)) := by
  unfold PerfectRest
  rw [isLoneNl_fine]
  constructor
  · rintro (h | h | h)
    · left; rw [h]; rfl
    · right; left; exact flat_of_isLoneNl h
    · right; right
      refine ⟨h.1, ?_⟩
      rw [allZeroWidth_iff, rowWidth_fine, gsWidth_flatG, ← allZeroWidth_iff]
      exact h.2
  · rintro (h | h | h)
    · left
      have : flatG t = [] := by
        cases hf : flatG t with
        | nil => rfl
        | cons g r => rw [hf] at h; simp [fine] at h
      exact flatG_eq_nil_of_noEmpty hne this
    · right; left; exact isLoneNl_of_flat hne h
    · right; right
      refine ⟨h.1, ?_⟩
      have := h.2
      rw [allZeroWidth_iff, rowWidth_fine, gsWidth_flatG, ← allZeroWidth_iff] at this
      exact this

/-- "Perfect fit" for the sections of the line itself. -/
theorem perfectRest_iff_width {fx : Fixes} {cfg : Cfg} {lw : Nat} {line t : List Sec}
    (H : SimHyp fx cfg lw (flatG line)) (hne : NoEmptySec t) (hsuf : t <:+ line) :
    PerfectRest fx t ↔ rowWidth t = 0 := by
  rw [perfectRest_iff_flat hne, H.p1 (flatG t) (flatG_suffix hsuf), gsWidth_flatG]

theorem takeFit_head_unfit (wl : Nat) (gs : List G) (c : G) (rem : List G)
    (h : (takeFit wl gs).2 = c :: rem) : wl - gsWidth (takeFit wl gs).1 < c.w := by
  induction gs generalizing wl with
  | nil => simp [takeFit] at h
  | cons g gs ih =>
    unfold takeFit at h ⊢
    split
    · rename_i hfit
      simp only [hfit, if_true] at h
      have := ih (wl - g.w) h
      simp only [gsWidth]
      omega
    · rename_i hfit
      simp only [hfit, if_false] at h
      cases h
      simp [gsWidth]
      omega

theorem widthLeft_eq {cfg : Cfg} {lw len : Nat} {gs : List G} (hsym : cfg.leftSym.w = 1)
    (hlen : len < lw) (hge : lw ≤ len + gsWidth gs) : widthLeft cfg lw len gs = lw - len - 1 := by
  unfold widthLeft
  omega

/-- One split of the finest sectioning: the cluster on top does not fit; the current row is
closed with the wrap symbol and the cluster stays for the next row. -/
theorem fine_split {fx : Fixes} {cfg : Cfg} {sym lw : Nat} {flat : List G}
    (H : SimHyp fx cfg lw flat) (stF : St) (c : G) (b : List G)
    (hst : stF.stack = fine (c :: b)) (hsuf : (c :: b) <:+ flat)
    (hlim : limitReached (effMax cfg lw) stF.result.length = false)
    (hcur : stF.len = gsWidth (flatG stF.curr))
    (hlt : stF.len < lw) (hge : lw ≤ stF.len + c.w)
    (hnp : ¬ (stF.len + c.w = lw ∧ gsWidth b = 0)) :
    ∃ row, step fx cfg sym lw stF =
        .next { result := stF.result ++ [row], curr := [], len := 0, stack := fine (c :: b) } ∧
      contentRow row = flatG stF.curr := by
  have hstack : stF.stack = (0, [c]) :: fine b := by rw [hst]; rfl
  have hgc : gsWidth [c] = c.w := by simp [gsWidth]
  have hfitc : c.w + cfg.leftSym.w ≤ lw := H.fits c (hsuf.subset (by simp))
  have hsym := H.sym1
  have hpos : 0 < stF.len := by omega
  have hge' : lw ≤ stF.len + gsWidth [c] := by rw [hgc]; exact hge
  have hnf : ¬ (stF.len + gsWidth [c] = lw ∧ PerfectRest fx (fine b)) := by
    rw [hgc]
    intro ⟨h1, h2⟩
    have hb : b <:+ flat := List.IsSuffix.trans (List.suffix_cons c b) hsuf
    exact hnp ⟨h1, (H.p1 b hb).mp h2⟩
  have hns : ¬ StuckStop fx cfg lw stF [c] := by
    intro ⟨_, _, hc, _⟩
    rw [hc] at hcur
    simp [flatG, gsWidth] at hcur
    omega
  have hwl : widthLeft cfg lw stF.len [c] = lw - stF.len - 1 := widthLeft_eq hsym hlt hge'
  by_cases hw : shortcutCond fx cfg lw stF [c]
  · refine ⟨stF.curr ++ [(sym, [cfg.leftSym])], ?_, by simp [contentRow]⟩
    have := step_of_rel (StepRel.split0 (sym := sym) stF 0 [c] (fine b) hstack hlim hge' hnf hns hw)
    rw [this]
    rfl
  · refine ⟨stF.curr ++ [(0, []), (sym, [cfg.leftSym])], ?_, ?_⟩
    · have := step_of_rel (StepRel.splitk (sym := sym) stF 0 [c] (fine b) hstack hlim hge' hnf hns hw)
      rw [this, hwl, takeFit_stuck _ c [] (by omega)]
      rfl
    · have : stF.curr ++ [(0, []), (sym, [cfg.leftSym])] = (stF.curr ++ [(0, [])]) ++ [(sym, [cfg.leftSym])] := by simp
      rw [contentRow, this, List.dropLast_concat, flatG_append]
      simp [flatG]

end Wrap
