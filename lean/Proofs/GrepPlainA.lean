import DeltaModel.Grep
import Proofs.GrepLongest
/-! C16, fragment A: numbered text line, path with an extension. -/
namespace Grep

private theorem extOk_colon : extOk ':' = false := by decide
private theorem startOk_colon : startOk ':' = false := by decide

/-- No longer admissible split on a `:` line: a `:` cannot sit in an extension path
beyond a `:`-free extension path. -/
private theorem numbered_hmax_colon {lo hi : Nat} {path w0 v' ds code : List Char}
    (hpath : extPathOk lo hi path = true) (_hcolon : path.contains ':' = false)
    (hds : digitsOk ds = true)
    (hu' : extPathOk lo hi (path ++ ':' :: w0) = true)
    (hw0 : w0 ++ v' = ds ++ ':' :: code) : False := by
  obtain ⟨p0, pm, pe, pext, hp, -, -, -, -, -, -⟩ := extPathOk_elim hpath
  obtain ⟨c0, mid, e, ext, hu, hc0, hmid, -, hext, hlo, -⟩ := extPathOk_elim hu'
  -- the digit list starts with a digit
  have hdshead : ∀ r, ds ≠ '.' :: r := by
    intro r hr
    subst hr
    simp [digitsOk] at hds
    exact isDigit_ne_dot hds.1 rfl
  have hdsne : ds ≠ [] := by
    intro hr; subst hr; simp [digitsOk] at hds
  have key : ∀ x, w0 = '.' :: x → False := by
    intro x hx
    subst hx
    cases ds with
    | nil => exact hdsne rfl
    | cons d dt =>
      simp at hw0
      exact hdshead dt (by rw [hw0.1])
  have hu2 : (c0 :: mid) ++ (e :: '.' :: ext) = path ++ (':' :: w0) := by
    rw [hu]; simp
  rw [List.append_eq_append_iff] at hu2
  rcases hu2 with ⟨a', ha1, ha2⟩ | ⟨c', hc1, hc2⟩
  · -- path = (c0 :: mid) ++ a'
    cases a' with
    | nil =>
      simp at ha2
      exact key ext ha2.2.symm
    | cons a0 a'' =>
      simp at ha2
      obtain ⟨-, ha2⟩ := ha2
      cases a'' with
      | nil => simp at ha2
      | cons a1 a3 =>
        simp at ha2
        obtain ⟨-, ha2⟩ := ha2
        subst ha2
        simp [extOk_colon] at hext
  · cases c' with
    | nil =>
      simp at hc2
      exact key ext hc2.2
    | cons c1 c'' =>
      simp at hc2
      obtain ⟨hc3, -⟩ := hc2
      subst hc3
      rw [hp] at hc1
      simp at hc1
      obtain ⟨-, hc1⟩ := hc1
      subst hc1
      simp at hmid

/-- No longer admissible split on a `-`/`=` line without look-alike in the code. -/
private theorem numbered_hmax_other {lo hi : Nat} {path w0 v' ds code : List Char} {s : Char}
    {r : Kind × Option (List Char) × List Char}
    (hs : isSepChar s = true)
    (hds : digitsOk ds = true)
    (hlook : hasNumLookAlike hi code = false)
    (hu' : extPathOk lo hi (path ++ s :: w0) = true) (hlo : 1 ≤ lo)
    (hQ : parseSep true v' = some r)
    (hw0 : w0 ++ v' = ds ++ s :: code) : False := by
  obtain ⟨k', dg', code'⟩ := r
  obtain ⟨c0, mid, e, ext, hu, -, -, -, hext, hlo', hhi⟩ := extPathOk_elim hu'
  obtain ⟨t, d, hv', ht, hdne, hdall, -⟩ := parseSep_true_elim hQ
  have hsext : extOk s = false := extOk_of_isSepChar hs
  have hsdot : s ≠ '.' := by
    intro hh; subst hh; simp [isSepChar] at hs
  have hu2 : path ++ (s :: w0) = (c0 :: (mid ++ [e])) ++ ('.' :: ext) := by
    rw [hu]; simp
  have hw1 : ∃ w1, w0 = w1 ++ '.' :: ext := by
    rw [List.append_eq_append_iff] at hu2
    rcases hu2 with ⟨a', ha1, ha2⟩ | ⟨c', hc1, hc2⟩
    · cases a' with
      | nil =>
        simp at ha2
        exact absurd ha2.1 hsdot
      | cons a0 w1 =>
        simp at ha2
        exact ⟨w1, ha2.2⟩
    · cases c' with
      | nil =>
        simp at hc2
        exact absurd hc2.1.symm hsdot
      | cons c1 c'' =>
        simp at hc2
        obtain ⟨-, hc2⟩ := hc2
        subst hc2
        simp [hsext] at hext
  obtain ⟨w1, hw1⟩ := hw1
  subst hw1
  subst hv'
  have hz : (ds ++ [s]).contains '.' = false := by
    simp only [digitsOk, Bool.and_eq_true, List.all_eq_true] at hds
    rw [Bool.eq_false_iff]
    intro hmem
    simp only [List.contains_eq_mem, List.mem_append, List.mem_singleton, decide_eq_true_eq] at hmem
    rcases hmem with hm | hm
    · exact isDigit_ne_dot (hds.2 _ hm) rfl
    · exact hsdot hm.symm
  have heq : (ds ++ [s]) ++ code = w1 ++ '.' :: (ext ++ t :: (d ++ t :: code')) := by
    have h1 : ds ++ [s] ++ code = ds ++ s :: code := by simp
    rw [h1, ← hw0]; simp
  obtain ⟨a', -, hcode⟩ := append_eq_append_dot hz heq
  rw [hcode, hasNumLookAlike_intro hi a' ext d code' t hext (by omega) hhi ht hdne hdall] at hlook
  exact absurd hlook (by decide)

theorem parsePlain_numbered (p : Parsed) (h : fragNumbered p = true) :
    parsePlain (fmtPlain p) = some p := by
  obtain ⟨path, kind, digits, code⟩ := p
  unfold fragNumbered at h
  -- the fragment is stated with the documented bounds; the first regex has the regenerated ones
  rw [← extMinNum_eq, ← extMaxNum_eq] at h
  cases digits with
  | none => simp at h
  | some ds =>
    simp only [Bool.and_eq_true] at h
    obtain ⟨⟨⟨⟨⟨hds, hk⟩, hpath⟩, hcolon⟩, hcode⟩, hlook⟩ := h
    obtain ⟨s, hsep, hkos, hsc, hms⟩ := sep_of_textKind hk
    have hcolon' : path.contains ':' = false := by simpa using hcolon
    have hline : fmtPlain ⟨path, kind, some ds, code⟩ = path ++ (s :: (ds ++ s :: code)) := by
      simp [fmtPlain, hsep]
    rw [hline]
    have hlong : longest (Variant.pathOk .extNum) (parseSep (Variant.requireNum .extNum)) []
        (path ++ (s :: (ds ++ s :: code))) = some ([] ++ path, (kind, some ds, code)) := by
      apply longest_some
      · simpa [Variant.pathOk] using hpath
      · exact parseSep_numbered _ s kind ds code hkos hds hcode
      · intro u' v' heq hlen ⟨hP, hQ⟩
        have hP' : extPathOk Generated.Grep.extMinNum Generated.Grep.extMaxNum u' = true := by
          simpa [Variant.pathOk] using hP
        have hQ' : ∃ r, parseSep true v' = some r := by
          simpa [Variant.requireNum, Option.isSome_iff_exists] using hQ
        obtain ⟨r, hQ'⟩ := hQ'
        rw [List.append_eq_append_iff] at heq
        rcases heq with ⟨c', hc1, hc2⟩ | ⟨a', ha1, ha2⟩
        · subst hc1
          cases c' with
          | nil => simp at hlen
          | cons c1 w0 =>
            simp at hc2
            obtain ⟨hc3, hw0⟩ := hc2
            subst hc3
            by_cases hs : s = ':'
            · subst hs
              exact numbered_hmax_colon hpath hcolon' hds hP' hw0.symm
            · have hkm : kind ≠ .match_ := fun hh => hs (hms.mp hh)
              have hl : hasNumLookAlike Generated.Grep.extMaxNum code = false := by
                simpa [hkm] using hlook
              exact numbered_hmax_other hsc hds hl hP' (by decide) hQ' hw0.symm
        · subst ha1; simp at hlen; omega
    have hv : parseVariant .extNum (path ++ (s :: (ds ++ s :: code))) =
        some ⟨path, kind, some ds, code⟩ := by
      unfold parseVariant
      rw [hlong]
      simp [mkParsed]
    simp [parsePlain, plainVariants_eq, hv]

end Grep
