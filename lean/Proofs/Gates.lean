import DeltaModel.Gates
import Proofs.Machine.Claims
/-!
C04, claim gates: helper lemmas between the generated gate trees (`Generated.ClaimGates`, meaning in
`DeltaModel/Gates.lean`) and the line state machine (`NotOpener`, `passthrough_exact`).
-/
namespace Gates
open Generated.ClaimGates Machine Headers

/-- the calling processes that are grep tools (`git grep`; `rg`, `grep`, `ag`, `ack`, `sift` …) -/
def grepTools : List String := ["GitGrep", "OtherGrep"]

/-- A gate that cannot claim under the knowledge `knowOf st ca deny` does not claim in any environment
that agrees with it — whatever the options, the other regexes and the uninterpreted conditions say. -/
theorem not_claims_of_may_false {g : Gate} {st ca : Option String} {deny : List Cond}
    (hm : may (knowOf st ca deny) g = false) (e : Env)
    (hs : ∀ s, st = some s → e.state = s) (hc : ∀ x, ca = some x → e.caller = x)
    (hd : ∀ c ∈ deny, holds e c = false) : claims e g = false := by
  cases h : claims e g with
  | false => rfl
  | true =>
    have := claims_may (knowOf_sound e st ca deny hs hc hd) g h
    rw [hm] at this; cases this

/-- the text of the line carries none of the literal markers that open a construct -/
structure NoMarker (l : L) : Prop where
  diff : startsWith l.text Generated.Markers.diffLine = false
  hunkHeader : startsWith l.text Generated.Markers.hunkHeader = false
  oldMode : startsWith l.text Generated.Markers.oldMode = false
  newMode : startsWith l.text Generated.Markers.newMode = false
  onlyIn : startsWith l.text Generated.Markers.onlyIn = false
  binary : startsWith l.text Generated.Markers.binaryFiles = false
  submodule : startsWith l.text Generated.Markers.submoduleLog = false

end Gates
