import DeltaModel.ColorOnlyCfg
import Proofs.Machine.ColorOnlyText
/-!
`--color-only` requested ⇒ the configuration the machine runs under is in the normal form of the color-only theorems
(`Machine.CONormal`), whatever else is set; with the presets not overridden it satisfies `Machine.Preset`.

The proofs evaluate the **generated** tables of `DeltaModel/Generated/ColorOnlyCfg.lean` (guards, assignments, field
initialisers of `Config::from`): a source edit that makes a `config.color_only` guard, the side-by-side reset or the
decoration strip depend on anything but the request changes a table and these proofs no longer go through.
-/
set_option linter.unusedSimpArgs false
namespace ColorOnlyCfg
open Generated.ColorOnlyCfg Machine

/-- the tail of `set_options` keeps the request and switches side-by-side off -/
theorem tail_of_color_only (o : OptV) (h : o.bool "color_only" = true) :
    (setOptionsTail o).bool "color_only" = true ∧ (setOptionsTail o).bool "side_by_side" = false ∧
    (setOptionsTail o).nat = o.nat := by
  simp [setOptionsTail, evalB, tailGuard, h, assignB, tailBoolAssigns, Options.lookup]

/-- … and leaves every option field alone that it does not assign -/
theorem tail_bool_other (o : OptV) (f : String) (hf : Options.lookup f tailBoolAssigns = none) :
    (setOptionsTail o).bool f = o.bool f := by
  unfold setOptionsTail
  split <;> simp [assignB, hf]

theorem tail_str_other (o : OptV) (f : String) (hf : Options.lookup f tailStrAssigns = none) :
    (setOptionsTail o).str f = o.str f := by
  unfold setOptionsTail
  split <;> simp [assignS, hf]

theorem tail_nat (o : OptV) : (setOptionsTail o).nat = o.nat := by
  unfold setOptionsTail
  split <;> rfl

/-- `Config::from` on option values in which color-only is on: `config.color_only` is on and the three header styles
carry no decoration, whatever the style parser returned -/
theorem configFrom_normal (parse : String → String → ElemStyle) (o : OptV) (wd : Bool) (base : Cfg)
    (h : o.bool "color_only" = true) : CONormal (configFrom parse o wd base) := by
  refine ⟨?_, ?_, ?_, ?_⟩ <;>
    simp [configFrom, cfgBool, cfgStyle, styleOf, cfgBoolFields, cfgStyleFields, styleSources, stripGuard, stripNames,
      stripDeco, stripValue, Options.lookup, evalB, h]

/-- **the normal form, from the option values after the `set_options!` macro** -/
theorem finalCfg_normal (parse : String → String → ElemStyle) (o : OptV) (wd : Bool) (base : Cfg)
    (h : o.bool "color_only" = true) :
    CONormal (finalCfg parse o wd base) ∧ sideBySide (setOptionsTail o) wd = false := by
  obtain ⟨h1, h2, _⟩ := tail_of_color_only o h
  refine ⟨configFrom_normal parse _ wd base h1, ?_⟩
  simp [sideBySide, cfgBool, cfgBoolFields, Options.lookup, evalB, h2]

/-- **the presets**: raw header styles, markers kept, tab width 0 in the option values ⇒ `Preset` -/
theorem finalCfg_preset (parse : String → String → ElemStyle) (hraw : ∀ d, (parse "raw" d).isRaw = true)
    (o : OptV) (wd : Bool) (base : Cfg) (h : o.bool "color_only" = true)
    (hc : o.str "commit_style" = "raw") (hf : o.str "file_style" = "raw") (hh : o.str "hunk_header_style" = "raw")
    (hk : o.bool "keep_plus_minus_markers" = true) (ht : o.nat "tab_width" = 0) :
    Preset (finalCfg parse o wd base) := by
  have nf := (finalCfg_normal parse o wd base h).1
  have sc := tail_str_other o "commit_style" (by decide)
  have sf := tail_str_other o "file_style" (by decide)
  have sh := tail_str_other o "hunk_header_style" (by decide)
  have bk := tail_bool_other o "keep_plus_minus_markers" (by decide)
  have hn := tail_nat o
  refine ⟨nf, ?_, ?_, ?_, ?_, ?_⟩ <;>
    simp [finalCfg, configFrom, cfgBool, cfgStyle, styleOf, cfgBoolFields, cfgStyleFields, styleSources, cfgTabField,
      Options.lookup, evalB, sc, sf, sh, bk, hn, hc, hf, hh, hk, ht, hraw] <;>
    (split <;> simp [hraw])

/-- the field → long option table sends `color_only` to `color-only` -/
theorem longOf_color_only : longOf "color_only" = "color-only" := by decide

/-- **by any source**: if the value the `set_options!` macro resolves for `color-only` is true (command line, `[delta]`
section, `GIT_CONFIG_PARAMETERS`, a custom feature, a builtin feature, `DELTA_FEATURES`), the configuration is in the
normal form and side-by-side is off — whatever the other options, features and sources say -/
theorem cfgOfInputs_normal (parse : String → String → ElemStyle) (π : List Options.Name) (inp : Options.Inputs) (wd : Bool)
    (base : Cfg) (h : Options.valIsTrue (Options.effective π inp "color-only") = true) :
    CONormal (cfgOfInputs parse π inp wd base) ∧ sideBySide (setOptionsTail (optAfterMacro π inp)) wd = false := by
  apply finalCfg_normal
  show Options.valIsTrue (Options.effectiveWith _ inp (longOf "color_only")) = true
  rw [longOf_color_only]; exact h

/-- the block of `set_options` read here assigns the same options as the `color-only-reset` statement of C13's statement
table (`Generated/OptionsTables.lean`), read by another extractor -/
theorem tail_agrees_with_c13 :
    (∀ o ∈ Options.colorOnlyResetOptions, o ∈ (tailBoolAssigns.map (·.1) ++ tailStrAssigns.map (·.1)).map longOf) ∧
    (∀ o ∈ (tailBoolAssigns.map (·.1) ++ tailStrAssigns.map (·.1)).map longOf, o ∈ Options.colorOnlyResetOptions) := by
  decide

end ColorOnlyCfg
