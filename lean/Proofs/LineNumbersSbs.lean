import DeltaModel.LineNumbers
set_option linter.unusedSimpArgs false
set_option linter.unusedVariables false
/-!
Helper lemmas for C05, part 3: the side-by-side view.

Specification `sbsSpec`: for every entry of the line alignment the first row carries the true
number(s) of its line(s) — `a + i` for minus line `i`, `c + j` for plus line `j` — and the
continuation rows carry none. The proof goes entry by entry with the invariant
"left counter = a + (minus lines done), right counter = c + (plus lines done)"; inside an entry the
transient `+1` / `saturating_sub(1)` pair of the unpaired wrapped rows is visible as the `l + 1 ≤
usizeMax` side condition.
-/
namespace LineNumbers
open Generated.LineNum

/-- What a side-by-side row shows: the number in the left panel's `{nm}` cell and the number in the
    right panel's `{np}` cell (`none` when a panel has no gutter at all). -/
def SbsRow.shown (r : SbsRow) : Option (Option Nat × Option Nat) :=
  match r.l, r.r with
  | some x, some y => some (x.left, y.right)
  | _, _ => none

/-- Specification of the rows of one alignment entry. -/
def entrySpec (a c : Nat) (wl wr : List Nat) : Option Nat × Option Nat → List (Option Nat × Option Nat)
  | (some i, some j) => (some (a + i), some (c + j)) :: List.replicate (max (wl.getD i 1) (wr.getD j 1) - 1) (none, none)
  | (some i, none) => (some (a + i), none) :: List.replicate (wl.getD i 1 - 1) (none, none)
  | (none, some j) => (none, some (c + j)) :: List.replicate (wr.getD j 1 - 1) (none, none)
  | (none, none) => []

/-- Specification of a subhunk: starts `a`/`c`, alignment `al`, rows per line `wl`/`wr`. -/
def sbsSpec (a c : Nat) (al : Alignment) (wl wr : List Nat) : List (Option Nat × Option Nat) :=
  al.flatMap (entrySpec a c wl wr)

/-- The alignment uses each minus line `i..m` and each plus line `j..p` exactly once, in order
    (what `edits::infer_edits` produces and `wrap_minusplus_block` asserts). Result: the end point. -/
def validFrom : Alignment → Nat → Nat → Option (Nat × Nat)
  | [], i, j => some (i, j)
  | (some x, none) :: rest, i, j => if x = i then validFrom rest (i + 1) j else none
  | (none, some y) :: rest, i, j => if y = j then validFrom rest i (j + 1) else none
  | (some x, some y) :: rest, i, j => if x = i ∧ y = j then validFrom rest (i + 1) (j + 1) else none
  | (none, none) :: _, _, _ => none

theorem validFrom_le : ∀ (al : Alignment) (i j m p : Nat), validFrom al i j = some (m, p) → i ≤ m ∧ j ≤ p := by
  intro al
  induction al with
  | nil => intro i j m p h; simp [validFrom] at h; omega
  | cons e rest ih =>
    intro i j m p h
    obtain ⟨mi, pi⟩ := e
    cases mi with
    | none =>
      cases pi with
      | none => simp [validFrom] at h
      | some y =>
        simp only [validFrom] at h
        split at h
        · have := ih _ _ _ _ h; omega
        · simp at h
    | some x =>
      cases pi with
      | none =>
        simp only [validFrom] at h
        split at h
        · have := ih _ _ _ _ h; omega
        · simp at h
      | some y =>
        simp only [validFrom] at h
        split at h
        · have := ih _ _ _ _ h; omega
        · simp at h

/-! ### one call of `paint_line` in side-by-side mode -/

theorem pl_left_minus (c : Counters) (h : c.left ≤ usizeMax) :
    paintLine true c .minus (some .left) = .ok (c, some ⟨true, false, some c.left, none⟩) := by
  simp [paintLine, linenumbersAndStyles, lookupArm, numberArms, St.code, incrementFor, incrementRule,
    panelCode, bumpN, addUsize, addUsizeSat, h, emitFor, lookupEmit, emitArms]

theorem pl_left_minusWrapped (c : Counters) :
    paintLine true c .minusWrapped (some .left) = .ok (c, some ⟨true, false, none, none⟩) := by
  simp [paintLine, linenumbersAndStyles, lookupArm, numberArms, St.code, incrementFor, incrementRule,
    panelCode, bumpN, emitFor, lookupEmit, emitArms]

/-- Left panel of a row without minus line: painted with the opposite state `HunkPlus`. -/
theorem pl_left_plus (c : Counters) (h : c.right ≤ usizeMax) :
    paintLine true c .plus (some .left) = .ok (c, some ⟨true, false, none, some c.right⟩) := by
  simp [paintLine, linenumbersAndStyles, lookupArm, numberArms, St.code, incrementFor, incrementRule,
    panelCode, bumpN, addUsize, addUsizeSat, h, emitFor, lookupEmit, emitArms]

theorem pl_right_plus (c : Counters) (h : c.right + 1 ≤ usizeMax) :
    paintLine true c .plus (some .right) = .ok (⟨c.left, c.right + 1⟩, some ⟨false, true, none, some c.right⟩) := by
  simp [paintLine, linenumbersAndStyles, lookupArm, numberArms, St.code, incrementFor, incrementRule,
    panelCode, bumpN, addUsize, addUsizeSat, h, emitFor, lookupEmit, emitArms]

theorem pl_right_plusWrapped (c : Counters) :
    paintLine true c .plusWrapped (some .right) = .ok (c, some ⟨false, true, none, none⟩) := by
  simp [paintLine, linenumbersAndStyles, lookupArm, numberArms, St.code, incrementFor, incrementRule,
    panelCode, bumpN, emitFor, lookupEmit, emitArms]

/-- Right panel of a row without plus line: painted with the opposite state `HunkMinus`, which
    increments the *left* counter. -/
theorem pl_right_minus (c : Counters) (h : c.left + 1 ≤ usizeMax) :
    paintLine true c .minus (some .right) = .ok (⟨c.left + 1, c.right⟩, some ⟨false, true, some c.left, none⟩) := by
  simp [paintLine, linenumbersAndStyles, lookupArm, numberArms, St.code, incrementFor, incrementRule,
    panelCode, bumpN, addUsize, addUsizeSat, h, emitFor, lookupEmit, emitArms]

/-! ### the correction match does not look at the raw-line payload of the states -/

/-- Every state pattern of a correction-arm table leaves the payload unconstrained. -/
def payloadFree (arms : List (List (Nat × Nat) × (Nat × Nat) × Nat × Nat × Nat)) : Bool :=
  arms.all fun arm => arm.1.all (fun pat => pat.2 = 99) && arm.2.1.2 = 99

theorem patMatch2_free (pat : Nat × Nat) (code raw raw' : Nat) (h : pat.2 = 99) :
    patMatch2 pat code raw = patMatch2 pat code raw' := by
  simp [patMatch2, patMatch, h]

theorem any_patMatch2_free (lp : List (Nat × Nat)) (code raw raw' : Nat) (h : lp.all (fun pat => pat.2 = 99) = true) :
    lp.any (patMatch2 · code raw) = lp.any (patMatch2 · code raw') := by
  induction lp with
  | nil => rfl
  | cons pat rest ih =>
    simp only [List.all_cons, Bool.and_eq_true, decide_eq_true_eq] at h
    simp only [List.any_cons, patMatch2_free pat code raw raw' h.1, ih (by simpa using h.2)]

theorem fixLookup_free (ls lraw rs rraw lraw' rraw' mi pi : Nat) :
    ∀ (arms : List (List (Nat × Nat) × (Nat × Nat) × Nat × Nat × Nat)), payloadFree arms = true →
      fixLookup ls lraw rs rraw mi pi arms = fixLookup ls lraw' rs rraw' mi pi arms := by
  intro arms
  induction arms with
  | nil => intro _; rfl
  | cons arm rest ih =>
    intro h
    obtain ⟨lp, rp, mp, pp, act⟩ := arm
    simp only [payloadFree, List.all_cons, Bool.and_eq_true, decide_eq_true_eq] at h
    obtain ⟨⟨hl, hr⟩, hrest⟩ := h
    simp only [fixLookup, any_patMatch2_free lp ls lraw lraw' hl, patMatch2_free rp rs rraw rraw' hr,
      ih (by simpa [payloadFree] using hrest)]

/-- The generated arms of the correction match constrain no payload. -/
theorem sbsFixArms_payloadFree : payloadFree sbsFixArms = true := by decide

theorem applyFix_ignores_raw (c : Counters) (ls rs : St) (lraw rraw lraw' rraw' mi pi : Bool) :
    applyFix c ls rs lraw rraw mi pi = applyFix c ls rs lraw' rraw' mi pi := by
  unfold applyFix
  rw [fixLookup_free ls.code _ rs.code _ (if lraw' then 1 else 0) (if rraw' then 1 else 0) _ _ sbsFixArms
    sbsFixArms_payloadFree]

/-! ### one row of the loop, by the states found at its indices -/

theorem lookupSt_of (l : List St) (i : Nat) (s : St) (h : l[i]? = some s) : lookupSt l i = .ok s := by
  simp [lookupSt, h]

/-- paired row, both first rows -/
theorem row_pair_first (l r i j : Nat) (sl sr : List St) (lraw rraw : Bool)
    (hl : sl[i]? = some .minus) (hr : sr[j]? = some .plus)
    (h1 : l + 1 ≤ usizeMax) (h2 : r + 1 ≤ usizeMax) :
    sbsRow ⟨l, r⟩ sl sr lraw rraw (some i) (some j) = .ok (⟨l + 1, r + 1⟩, ⟨some ⟨true, false, some l, none⟩, some ⟨false, true, none, some r⟩⟩) := by
  simp [sbsRow, lookupSt, hl, hr, pl_left_minus ⟨l, r⟩ (by simp; omega), pl_right_plus ⟨l, r⟩ (by simpa using h2),
      applyFix, fixLookup, sbsFixArms, patMatch, patMatch2, St.code, addUsize, addUsizeSat, h1]

theorem row_pair_first_shown (l r : Nat) : ((⟨some ⟨true, false, some l, none⟩, some ⟨false, true, none, some r⟩⟩ : SbsRow)).shown = some (some l, some r) := by
  simp [SbsRow.shown, Cell.left, Cell.right]

/-- paired row: first row of the minus line beside a continuation row of the plus line -/
theorem row_pair_minus_first (l r i j : Nat) (sl sr : List St) (lraw rraw : Bool)
    (hl : sl[i]? = some .minus) (hr : sr[j]? = some .plusWrapped) (h1 : l + 1 ≤ usizeMax) :
    sbsRow ⟨l, r⟩ sl sr lraw rraw (some i) (some j) = .ok (⟨l + 1, r⟩, ⟨some ⟨true, false, some l, none⟩, some ⟨false, true, none, none⟩⟩) := by
  simp [sbsRow, lookupSt, hl, hr, pl_left_minus ⟨l, r⟩ (by simp; omega), pl_right_plusWrapped,
      applyFix, fixLookup, sbsFixArms, patMatch, patMatch2, St.code, addUsize, addUsizeSat, h1]

theorem row_pair_minus_first_shown (l r : Nat) : ((⟨some ⟨true, false, some l, none⟩, some ⟨false, true, none, none⟩⟩ : SbsRow)).shown = some (some l, none) := by
  simp [SbsRow.shown, Cell.left, Cell.right]

/-- paired row, both continuation rows -/
theorem row_pair_cont (l r i j : Nat) (sl sr : List St) (lraw rraw : Bool)
    (hl : sl[i]? = some .minusWrapped) (hr : sr[j]? = some .plusWrapped) :
    sbsRow ⟨l, r⟩ sl sr lraw rraw (some i) (some j) = .ok (⟨l, r⟩, ⟨some ⟨true, false, none, none⟩, some ⟨false, true, none, none⟩⟩) := by
  simp [sbsRow, lookupSt, hl, hr, pl_left_minusWrapped, pl_right_plusWrapped,
      applyFix, fixLookup, sbsFixArms, patMatch, patMatch2, St.code]

theorem row_pair_cont_shown (l r : Nat) : ((⟨some ⟨true, false, none, none⟩, some ⟨false, true, none, none⟩⟩ : SbsRow)).shown = some (none, none) := by
  simp [SbsRow.shown, Cell.left, Cell.right]

/-- unpaired minus row, first row: the right panel call increments the left counter -/
theorem row_left_first (l r i : Nat) (sl sr : List St) (lraw rraw : Bool)
    (hl : sl[i]? = some .minus) (h1 : l + 1 ≤ usizeMax) :
    sbsRow ⟨l, r⟩ sl sr lraw rraw (some i) none = .ok (⟨l + 1, r⟩, ⟨some ⟨true, false, some l, none⟩, some ⟨false, true, some l, none⟩⟩) := by
  simp [sbsRow, lookupSt, hl, pl_left_minus ⟨l, r⟩ (by simp; omega), sbsDefaultStates, St.ofCode, opposite,
      lookupOpp, oppositeArms, St.code, pl_right_minus ⟨l, r⟩ (by simpa using h1),
      applyFix, fixLookup, sbsFixArms, patMatch, patMatch2]

theorem row_left_first_shown (l r : Nat) : ((⟨some ⟨true, false, some l, none⟩, some ⟨false, true, some l, none⟩⟩ : SbsRow)).shown = some (some l, none) := by
  simp [SbsRow.shown, Cell.left, Cell.right]

/-- unpaired minus row, continuation: `+1` by the right panel call, undone by the correction -/
theorem row_left_cont (l r i : Nat) (sl sr : List St) (lraw rraw : Bool)
    (hl : sl[i]? = some .minusWrapped) (h1 : l + 1 ≤ usizeMax) :
    sbsRow ⟨l, r⟩ sl sr lraw rraw (some i) none = .ok (⟨l, r⟩, ⟨some ⟨true, false, none, none⟩, some ⟨false, true, some l, none⟩⟩) := by
  simp [sbsRow, lookupSt, hl, pl_left_minusWrapped, sbsDefaultStates, St.ofCode, opposite,
      lookupOpp, oppositeArms, St.code, pl_right_minus ⟨l, r⟩ (by simpa using h1),
      applyFix, fixLookup, sbsFixArms, patMatch, patMatch2]

theorem row_left_cont_shown (l r : Nat) : ((⟨some ⟨true, false, none, none⟩, some ⟨false, true, some l, none⟩⟩ : SbsRow)).shown = some (none, none) := by
  simp [SbsRow.shown, Cell.left, Cell.right]

/-- unpaired plus row, first row -/
theorem row_right_first (l r j : Nat) (sl sr : List St) (lraw rraw : Bool)
    (hr : sr[j]? = some .plus) (h2 : r + 1 ≤ usizeMax) :
    sbsRow ⟨l, r⟩ sl sr lraw rraw none (some j) = .ok (⟨l, r + 1⟩, ⟨some ⟨true, false, none, some r⟩, some ⟨false, true, none, some r⟩⟩) := by
  simp [sbsRow, lookupSt, hr, sbsDefaultStates, St.ofCode, opposite, lookupOpp, oppositeArms, St.code,
      pl_left_plus ⟨l, r⟩ (by simp; omega), pl_right_plus ⟨l, r⟩ (by simpa using h2),
      applyFix, fixLookup, sbsFixArms, patMatch, patMatch2]

theorem row_right_first_shown (l r : Nat) : ((⟨some ⟨true, false, none, some r⟩, some ⟨false, true, none, some r⟩⟩ : SbsRow)).shown = some (none, some r) := by
  simp [SbsRow.shown, Cell.left, Cell.right]

/-- unpaired plus row, continuation -/
theorem row_right_cont (l r j : Nat) (sl sr : List St) (lraw rraw : Bool)
    (hr : sr[j]? = some .plusWrapped) (h2 : r ≤ usizeMax) :
    sbsRow ⟨l, r⟩ sl sr lraw rraw none (some j) = .ok (⟨l, r⟩, ⟨some ⟨true, false, none, some r⟩, some ⟨false, true, none, none⟩⟩) := by
  simp [sbsRow, lookupSt, hr, sbsDefaultStates, St.ofCode, opposite, lookupOpp, oppositeArms, St.code,
      pl_left_plus ⟨l, r⟩ (by simpa using h2), pl_right_plusWrapped,
      applyFix, fixLookup, sbsFixArms, patMatch, patMatch2]

theorem row_right_cont_shown (l r : Nat) : ((⟨some ⟨true, false, none, some r⟩, some ⟨false, true, none, none⟩⟩ : SbsRow)).shown = some (none, none) := by
  simp [SbsRow.shown, Cell.left, Cell.right]

/-- paired row: continuation of the minus line beside the first row of the plus line (cannot arise
    from `wrap_minusplus_block`, which pairs first rows; kept for completeness of the case table) -/
theorem row_pair_plus_first (l r i j : Nat) (sl sr : List St) (lraw rraw : Bool)
    (hl : sl[i]? = some .minusWrapped) (hr : sr[j]? = some .plus) (h2 : r + 1 ≤ usizeMax) :
    sbsRow ⟨l, r⟩ sl sr lraw rraw (some i) (some j) = .ok (⟨l, r + 1⟩, ⟨some ⟨true, false, none, none⟩, some ⟨false, true, none, some r⟩⟩) := by
  simp [sbsRow, lookupSt, hl, hr, pl_left_minusWrapped, pl_right_plus ⟨l, r⟩ (by simpa using h2),
      applyFix, fixLookup, sbsFixArms, patMatch, patMatch2, St.code]

theorem row_pair_plus_first_shown (l r : Nat) : ((⟨some ⟨true, false, none, none⟩, some ⟨false, true, none, some r⟩⟩ : SbsRow)).shown = some (none, some r) := by
  simp [SbsRow.shown, Cell.left, Cell.right]

/-! ### runs of rows -/

theorem sbsRows_append (sl sr : List St) (rl rr : List Bool) (xs ys : Alignment) : ∀ (c : Counters),
    sbsRows c sl sr rl rr (xs ++ ys) =
      match sbsRows c sl sr rl rr xs with
      | .error e => .error e
      | .ok (c1, r1) =>
        match sbsRows c1 sl sr rl rr ys with
        | .error e => .error e
        | .ok (c2, r2) => .ok (c2, r1 ++ r2) := by
  induction xs with
  | nil =>
    intro c
    simp only [List.nil_append, sbsRows]
    cases sbsRows c sl sr rl rr ys with
    | error e => rfl
    | ok v => rfl
  | cons x xs ih =>
    intro c
    obtain ⟨mi, pi⟩ := x
    simp only [List.cons_append, sbsRows]
    cases sbsRow c sl sr (rawAt rl mi) (rawAt rr pi) mi pi with
    | error e => rfl
    | ok v =>
      obtain ⟨c1, row⟩ := v
      simp only [ih c1]
      cases sbsRows c1 sl sr rl rr xs with
      | error e => rfl
      | ok w =>
        obtain ⟨c2, r1⟩ := w
        simp only []
        cases sbsRows c2 sl sr rl rr ys with
        | error e => rfl
        | ok u => simp

/-- continuation rows of a pair -/
theorem rows_pair_cont (sl sr : List St) (rl rr : List Bool) (l r : Nat) : ∀ (n L R : Nat),
    (∀ t, t < n → sl[L + t]? = some .minusWrapped) → (∀ t, t < n → sr[R + t]? = some .plusWrapped) →
    ∃ rows, sbsRows ⟨l, r⟩ sl sr rl rr (paired L R n) = .ok (⟨l, r⟩, rows) ∧
      rows.map SbsRow.shown = List.replicate n (some (none, none)) := by
  intro n
  induction n with
  | zero => intro L R _ _; exact ⟨[], rfl, rfl⟩
  | succ n ih =>
    intro L R hl hr
    have h1 := row_pair_cont l r L R sl sr (rawAt rl (some L)) (rawAt rr (some R)) (by simpa using hl 0 (by omega)) (by simpa using hr 0 (by omega))
    have h2 := row_pair_cont_shown l r
    obtain ⟨rows, h3, h4⟩ := ih (L + 1) (R + 1)
      (fun t ht => by have := hl (t + 1) (by omega); rwa [show L + (t + 1) = L + 1 + t by omega] at this)
      (fun t ht => by have := hr (t + 1) (by omega); rwa [show R + (t + 1) = R + 1 + t by omega] at this)
    exact ⟨(⟨some ⟨true, false, none, none⟩, some ⟨false, true, none, none⟩⟩ : SbsRow) :: rows,
      by simp [paired, sbsRows, h1, h3], by simp [h2, h4, List.replicate_succ]⟩

theorem rows_left_cont (sl sr : List St) (rl rr : List Bool) (l r : Nat) (h1 : l + 1 ≤ usizeMax) : ∀ (n L : Nat),
    (∀ t, t < n → sl[L + t]? = some .minusWrapped) →
    ∃ rows, sbsRows ⟨l, r⟩ sl sr rl rr (leftOnly L n) = .ok (⟨l, r⟩, rows) ∧
      rows.map SbsRow.shown = List.replicate n (some (none, none)) := by
  intro n
  induction n with
  | zero => intro L _; exact ⟨[], rfl, rfl⟩
  | succ n ih =>
    intro L hl
    have h2 := row_left_cont l r L sl sr (rawAt rl (some L)) (rawAt rr none) (by simpa using hl 0 (by omega)) h1
    have h3 := row_left_cont_shown l r
    obtain ⟨rows, h4, h5⟩ := ih (L + 1)
      (fun t ht => by have := hl (t + 1) (by omega); rwa [show L + (t + 1) = L + 1 + t by omega] at this)
    exact ⟨(⟨some ⟨true, false, none, none⟩, some ⟨false, true, some l, none⟩⟩ : SbsRow) :: rows,
      by simp [leftOnly, sbsRows, h2, h4], by simp [h3, h5, List.replicate_succ]⟩

theorem rows_right_cont (sl sr : List St) (rl rr : List Bool) (l r : Nat) (h2 : r ≤ usizeMax) : ∀ (n R : Nat),
    (∀ t, t < n → sr[R + t]? = some .plusWrapped) →
    ∃ rows, sbsRows ⟨l, r⟩ sl sr rl rr (rightOnly R n) = .ok (⟨l, r⟩, rows) ∧
      rows.map SbsRow.shown = List.replicate n (some (none, none)) := by
  intro n
  induction n with
  | zero => intro R _; exact ⟨[], rfl, rfl⟩
  | succ n ih =>
    intro R hr
    have h3 := row_right_cont l r R sl sr (rawAt rl none) (rawAt rr (some R)) (by simpa using hr 0 (by omega)) h2
    have h4 := row_right_cont_shown l r
    obtain ⟨rows, h5, h6⟩ := ih (R + 1)
      (fun t ht => by have := hr (t + 1) (by omega); rwa [show R + (t + 1) = R + 1 + t by omega] at this)
    exact ⟨(⟨some ⟨true, false, none, some r⟩, some ⟨false, true, none, none⟩⟩ : SbsRow) :: rows,
      by simp [rightOnly, sbsRows, h3, h5], by simp [h4, h6, List.replicate_succ]⟩

/-! ### the states of one wrapped line inside the state vector -/

/-- `pre ++ segStates (first, cont) x ++ post` at offset `pre.length`: first row state, then
    continuation states. -/
theorem seg_first (pre post : List St) (a b x : Nat) (hx : 1 ≤ x) :
    (pre ++ (segStates (a, b) x ++ post))[pre.length]? = some (St.ofCode a) := by
  obtain ⟨y, rfl⟩ : ∃ y, x = y + 1 := ⟨x - 1, by omega⟩
  simp [segStates]

theorem seg_cont (pre post : List St) (a b x t : Nat) (h1 : 1 ≤ t) (h2 : t < x) :
    (pre ++ (segStates (a, b) x ++ post))[pre.length + t]? = some (St.ofCode b) := by
  obtain ⟨y, rfl⟩ : ∃ y, x = y + 1 := ⟨x - 1, by omega⟩
  obtain ⟨u, rfl⟩ : ∃ u, t = u + 1 := ⟨t - 1, by omega⟩
  have hu : u < y := by omega
  simp [segStates, List.getElem?_append_right, List.getElem?_append_left, hu]

end LineNumbers
