import DeltaModel.StyleGuards
/-!
Lemmas for the C12 theorems about which configured style a section of a hunk line is painted with
(`DeltaModel/StyleGuards.lean`).

Part 1: `==` on `Style` (the generated list of compared fields): reflexive, and false as soon as the `is_emph` flags
differ — *because* `is_emph` is among the compared fields (`isEmph_compared`, a `decide` on the generated list).
Part 2: the value `symGuard` / `symOpt` give is the value of the guard / argument for every configuration with the flags
of `parse_styles()`.
Part 3: `update_diff_style_sections` commutes with any map of styles that keeps the `is_emph` flag and the
"counts as another style" relation of the sections (so running it on field names and looking the names up afterwards
is the same as running it on the styles).
Part 4: which field governs which section (closed form).
-/
set_option linter.unusedVariables false
namespace StyleGuards
open Generated.StyleGuards

/-! ### Part 1: equality of styles -/

/-- The generated facts the equality lemmas rest on. -/
theorem eqFields_known : ∀ p ∈ styleEqFields, p ∈ knownParts := by decide

/-- **`==` on `Style` looks at `is_emph`.** (False of a hand-written `eq` that leaves the field out.) -/
theorem isEmph_compared : "is_emph" ∈ styleEqFields := by decide

theorem partEq_refl (p : String) (hp : p ∈ knownParts) (a : GStyle) : partEq p a a = true := by
  simp only [knownParts, List.mem_cons, List.mem_nil_iff, or_false] at hp
  rcases hp with h | h | h | h | h | h <;> subst h <;> simp [partEq]

theorem styleEq_refl (a : GStyle) : styleEq a a = true := by
  unfold styleEq styleEqOn
  rw [List.all_eq_true]
  intro p hp
  exact partEq_refl p (eqFields_known p hp) a

theorem styleEq_false_of_flag (a b : GStyle) (h : a.isEmph ≠ b.isEmph) : styleEq a b = false := by
  unfold styleEq styleEqOn
  rw [List.all_eq_false]
  refine ⟨"is_emph", isEmph_compared, ?_⟩
  simp [partEq, h]

/-- `configOf` produces configurations with the flags of `parse_styles()`. -/
theorem configOf_asParsed (given : String → GStyle) : AsParsed (configOf given) := by
  intro f
  unfold configOf isEmphField
  cases configStyleKey.lookup f <;> rfl

/-! ### Part 2: guards that do not depend on the configured values -/

theorem symCmp_sound (cfg : Cfg) (h : AsParsed cfg) (a b : Operand) (v : Bool) (hs : symCmp a b = some v) :
    evalCmp cfg a b = v := by
  cases a with
  | style a =>
    cases b with
    | style b =>
      simp only [symCmp] at hs
      simp only [evalCmp]
      split at hs
      · rename_i hab
        have hab : a = b := by simpa using hab
        subst hab
        split at hs
        · injection hs with hs; rw [← hs]; exact styleEq_refl _
        · cases hs
      · split at hs
        · rename_i hf
          injection hs with hs
          rw [← hs]
          apply styleEq_false_of_flag
          rw [h a, h b]
          simp only [Bool.and_eq_true, bne_iff_ne, ne_eq] at hf
          exact hf.2
        · cases hs
    | part b q => simp [symCmp] at hs
  | part a p =>
    cases b with
    | style b => simp [symCmp] at hs
    | part b q =>
      simp only [symCmp] at hs
      simp only [evalCmp]
      split at hs
      · rename_i hpq
        simp only [Bool.and_eq_true, beq_iff_eq] at hpq
        obtain ⟨h1, h2⟩ := hpq
        subst h1
        subst h2
        injection hs with hs
        rw [← hs]
        simp [partEq, h a, h b]
      · split at hs
        · rename_i hpq
          simp only [Bool.and_eq_true, beq_iff_eq, List.contains_eq_mem, decide_eq_true_eq] at hpq
          obtain ⟨⟨h1, h2⟩, h3⟩ := hpq
          subst h1
          subst h2
          injection hs with hs
          rw [← hs]
          simp [partEq_refl p h3]
        · cases hs

theorem symGuard_sound (cfg : Cfg) (h : AsParsed cfg) (g : Guard) (v : Bool) (hs : symGuard g = some v) :
    evalGuard cfg g = v := by
  induction g generalizing v with
  | eq a b => exact symCmp_sound cfg h a b v hs
  | ne a b =>
    simp only [symGuard, Option.map_eq_some_iff] at hs
    obtain ⟨w, hw, hv⟩ := hs
    simp [evalGuard, symCmp_sound cfg h a b w hw, hv]
  | flag f p =>
    simp only [symGuard] at hs
    split at hs
    · rename_i hp
      have hp : p = "is_emph" := by simpa using hp
      subst hp
      injection hs with hs
      simp [evalGuard, flagOf, h f, hs]
    · cases hs
  | lit b => simp only [symGuard] at hs; injection hs
  | not g ih =>
    simp only [symGuard, Option.map_eq_some_iff] at hs
    obtain ⟨w, hw, hv⟩ := hs
    simp [evalGuard, ih w hw, hv]
  | and g k ihg ihk =>
    simp only [symGuard] at hs
    simp only [evalGuard]
    split at hs
    · rename_i hg; injection hs with hs; rw [← hs, ihg false hg]; rfl
    · rename_i hk _; injection hs with hs; rw [← hs, ihk false hk]; simp
    · rename_i hg hk; injection hs with hs; rw [← hs, ihg true hg, ihk true hk]; rfl
    · cases hs
  | or g k ihg ihk =>
    simp only [symGuard] at hs
    simp only [evalGuard]
    split at hs
    · rename_i hg; injection hs with hs; rw [← hs, ihg true hg]; rfl
    · rename_i hk _; injection hs with hs; rw [← hs, ihk true hk]; simp
    · rename_i hg hk; injection hs with hs; rw [← hs, ihg false hg, ihk false hk]; rfl
    · cases hs

theorem symOpt_sound (cfg : Cfg) (h : AsParsed cfg) (o : OptStyle) (r : Option String) (hs : symOpt o = some r) :
    evalOpt cfg o = r.map cfg := by
  induction o generalizing r with
  | none => simp only [symOpt] at hs; injection hs with hs; subst hs; rfl
  | some f => simp only [symOpt] at hs; injection hs with hs; subst hs; rfl
  | ite g t e iht ihe =>
    simp only [symOpt] at hs
    simp only [evalOpt]
    split at hs
    · rename_i hg; rw [symGuard_sound cfg h g true hg]; simpa using iht r hs
    · rename_i hg; rw [symGuard_sound cfg h g false hg]; simpa using ihe r hs
    · cases hs

/-! ### Part 3: the update commutes with a map of styles -/

def mapOk {α β : Type} (f : α → β) : Except String α → Except String β
  | .ok a => .ok (f a)
  | .error e => .error e

def mapSecs {σ τ : Type} (f : σ → τ) (l : List (σ × Bool)) : List (τ × Bool) := l.map fun s => (f s.1, s.2)

theorem mapSecs_reverse {σ τ : Type} (f : σ → τ) (l : List (σ × Bool)) : mapSecs f l.reverse = (mapSecs f l).reverse := by
  simp [mapSecs, List.map_reverse]

theorem any_congr_mem {α : Type} (l : List α) (p q : α → Bool) (h : ∀ x ∈ l, p x = q x) : l.any p = l.any q := by
  induction l with
  | nil => rfl
  | cons x l ih =>
    simp only [List.any_cons]
    rw [h x (List.mem_cons_self ..), ih (fun y hy => h y (List.mem_cons_of_mem _ hy))]

theorem moreThanOne_map {σ τ : Type} (o₁ : Ops σ) (o₂ : Ops τ) (f : σ → τ) (secs : List (σ × Bool))
    (hD : ∀ a ∈ secs, ∀ b ∈ secs, o₂.differs (f a.1) (f b.1) = o₁.differs a.1 b.1) :
    moreThanOne o₂ (mapSecs f secs) = moreThanOne o₁ secs := by
  cases secs with
  | nil => rfl
  | cons s rest =>
    simp only [mapSecs, List.map_cons, moreThanOne, List.length_cons, List.length_map]
    congr 1
    rw [← List.map_cons (f := fun s : σ × Bool => (f s.1, s.2)), List.any_map]
    apply any_congr_mem
    intro x hx
    exact hD x hx s (List.mem_cons_self ..)

theorem unwrap_map {σ τ : Type} (f : σ → τ) (x : Option σ) : unwrap (x.map f) = mapOk f (unwrap x) := by
  cases x <;> rfl

theorem newStyle_map {σ τ : Type} (o₁ : Ops σ) (o₂ : Ops τ) (f : σ → τ) (hE : ∀ a, o₂.isEmph (f a) = o₁.isEmph a)
    (ws ne : Option σ) (should mixed isWs : Bool) (s : σ × Bool) :
    newStyle o₂ (ws.map f) (ne.map f) should mixed isWs (f s.1, s.2) = mapOk f (newStyle o₁ ws ne should mixed isWs s) := by
  unfold newStyle
  simp only [hE, unwrap_map]
  split
  · rfl
  · split
    · cases ne with
      | none => rfl
      | some n =>
        simp only [unwrap, mapOk]
        split
        · cases ws <;> rfl
        · rfl
    · rfl

theorem updateLoop_map {σ τ : Type} (o₁ : Ops σ) (o₂ : Ops τ) (f : σ → τ) (hE : ∀ a, o₂.isEmph (f a) = o₁.isEmph a)
    (ws ne : Option σ) (should mixed isWs : Bool) (l : List (σ × Bool)) :
    updateLoop o₂ (ws.map f) (ne.map f) should mixed isWs (mapSecs f l) =
      mapOk (mapSecs f) (updateLoop o₁ ws ne should mixed isWs l) := by
  induction l generalizing isWs with
  | nil => rfl
  | cons s rest ih =>
    simp only [mapSecs, List.map_cons, updateLoop]
    rw [newStyle_map o₁ o₂ f hE]
    cases newStyle o₁ ws ne should mixed (if wsErrCleared isWs s.2 = true then false else isWs) s with
    | error e => rfl
    | ok st =>
      simp only [mapOk]
      have := ih (if wsErrCleared isWs s.2 = true then false else isWs)
      simp only [mapSecs] at this
      rw [this]
      cases updateLoop o₁ ws ne should mixed (if wsErrCleared isWs s.2 = true then false else isWs) rest <;> rfl

/-- **`update_diff_style_sections` commutes with a map of styles** that keeps the flag and, on the sections of the line, the
relation "counts as another style". -/
theorem updateLine_map {σ τ : Type} (o₁ : Ops σ) (o₂ : Ops τ) (f : σ → τ) (hE : ∀ a, o₂.isEmph (f a) = o₁.isEmph a)
    (ws ne : Option σ) (homolog : Bool) (secs : List (σ × Bool))
    (hD : ∀ a ∈ secs, ∀ b ∈ secs, o₂.differs (f a.1) (f b.1) = o₁.differs a.1 b.1) :
    updateLine o₂ (ws.map f) (ne.map f) homolog (mapSecs f secs) = mapOk (mapSecs f) (updateLine o₁ ws ne homolog secs) := by
  unfold updateLine
  simp only [moreThanOne_map o₁ o₂ f secs hD, Option.isSome_map]
  have hrev : (if sectionsReversed = true then (mapSecs f secs).reverse else mapSecs f secs) =
      mapSecs f (if sectionsReversed = true then secs.reverse else secs) := by
    split
    · rw [mapSecs_reverse]
    · rfl
  rw [hrev, updateLoop_map o₁ o₂ f hE]
  cases updateLoop o₁ ws ne (shouldUpdateNonEmph ne.isSome homolog) (moreThanOne o₁ secs) (wsErrInitial ws.isSome)
      (if sectionsReversed = true then secs.reverse else secs) with
  | error e => rfl
  | ok out =>
    simp only [mapOk]
    split
    · rw [mapSecs_reverse]
    · rfl

/-! ### Part 4: painted styles = the configured styles of the governing fields -/

/-- Facts about the generated tables (each a `decide`). -/
theorem moreThanOneStyleCmp_whole : moreThanOneStyleCmp = ("", "!=", "") := by decide

theorem sectionDiffers_eq (a b : GStyle) : sectionDiffers a b = !styleEq a b := by
  simp [sectionDiffers, moreThanOneStyleCmp_whole]

theorem side_flags (side : Side) : isEmphField (lineField side) = false ∧ isEmphField (emphField side) = true := by
  cases side <;> decide

theorem side_names (side : Side) : (emphField side != lineField side) = true := by
  cases side <;> decide

theorem annotatedField_flag (side : Side) (e : Bool) : isEmphField (annotatedField side e) = e := by
  cases e <;> simp [annotatedField, side_flags side]

theorem callOf_isSome (side : Side) : (callOf side).isSome = true := by
  cases side <;> decide

theorem callOf_mem (side : Side) (c : UpdateCall) (h : callOf side = some c) : c ∈ updateCalls ∧ c.side = side.name := by
  unfold callOf at h
  refine ⟨List.mem_of_find?_eq_some h, ?_⟩
  have := List.find?_some h
  simpa using this

/-- **Neither argument of either call depends on the values of the configured styles** (for configurations with the flags
of `parse_styles()`): the guard `non_emph != emph` has a definite value. -/
theorem calls_sym : ∀ c ∈ updateCalls, (symOpt c.wsErr).isSome = true ∧ (symOpt c.nonEmph).isSome = true := by decide

/-- On the sections of one line, "counts as another style" is "is another field". -/
theorem differs_fields (cfg : Cfg) (h : AsParsed cfg) (side : Side) (e e' : Bool) :
    sectionDiffers (cfg (annotatedField side e)) (cfg (annotatedField side e')) =
      (annotatedField side e != annotatedField side e') := by
  rw [sectionDiffers_eq]
  have hn := side_names side
  have hf := side_flags side
  cases e <;> cases e' <;> simp only [annotatedField, Bool.false_eq_true, if_false, if_true]
  · simp [styleEq_refl]
  · rw [styleEq_false_of_flag _ _ (by rw [h, h, hf.1, hf.2]; decide)]
    simp only [bne_iff_ne, ne_eq] at hn ⊢
    simpa using fun h' => hn h'.symm
  · rw [styleEq_false_of_flag _ _ (by rw [h, h, hf.1, hf.2]; decide)]
    simpa using hn
  · simp [styleEq_refl]

/-- **The painted styles are the configured styles of the governing fields.** -/
theorem paintedLine_eq_governs (cfg : Cfg) (h : AsParsed cfg) (side : Side) (homolog : Bool) (secs : List (Bool × Bool)) :
    paintedLine cfg side homolog secs = mapOk (mapSecs cfg) (governs side homolog secs) := by
  unfold paintedLine governs
  cases hc : callOf side with
  | none => have := callOf_isSome side; simp [hc] at this
  | some c =>
    obtain ⟨h1, h2⟩ := calls_sym c (callOf_mem side c hc).1
    cases hws : symOpt c.wsErr with
    | none => simp [hws] at h1
    | some ws =>
      cases hne : symOpt c.nonEmph with
      | none => simp [hne] at h2
      | some ne =>
        simp only [hws, hne]
        rw [symOpt_sound cfg h _ ws hws, symOpt_sound cfg h _ ne hne]
        have hm : (secs.map fun s => (cfg (annotatedField side s.1), s.2)) =
            mapSecs cfg (secs.map fun s => (annotatedField side s.1, s.2)) := by
          simp [mapSecs]
        rw [hm]
        apply updateLine_map sOps gOps cfg (fun a => h a)
        intro a ha b hb
        obtain ⟨x, _, hx⟩ := List.mem_map.mp ha
        obtain ⟨y, _, hy⟩ := List.mem_map.mp hb
        subst hx
        subst hy
        exact differs_fields cfg h side x.1 y.1

/-! ### Part 5: which field governs a section (closed form) -/

/-- The field `X-non-emph-style` is read into. -/
def nonEmphField : Side → String
  | .minus => "minus_non_emph_style"
  | .plus => "plus_non_emph_style"

/-- The rule for a section outside the trailing whitespace of an added line: a changed section shows the within-line
(emph) style; an unchanged section shows the non-emph style when the line has a partner, the style of the line
otherwise. -/
def hunkRule (side : Side) (homolog e : Bool) : String :=
  if e then emphField side else if homolog then nonEmphField side else lineField side

/-- What the two calls pass (generated, `decide`): no whitespace-error style for removed lines, `whitespace_error_style`
for added lines, and **always** the non-emph style of the side. -/
theorem calls_args : ∀ c ∈ updateCalls,
    (c.side = "Minus" → symOpt c.wsErr = some none ∧ symOpt c.nonEmph = some (some (nonEmphField .minus))) ∧
    (c.side = "Plus" → symOpt c.wsErr = some (some "whitespace_error_style") ∧
      symOpt c.nonEmph = some (some (nonEmphField .plus))) := by decide

/-- The generated guards of `update_diff_style_sections`, as far as needed here (`decide`). -/
theorem guard_facts :
    (∀ e m, wsErrBranch false e m = false) ∧
    (∀ h e, nonEmphBranch (shouldUpdateNonEmph true h) e = (h && !e)) ∧
    wsErrInitial false = false ∧
    (∀ w, (if wsErrCleared w false = true then false else w) = false) ∧
    (∀ b, (if wsErrCleared false b = true then false else false) = false) ∧
    sectionsReversed = true := by decide

/-- `is_whitespace_error` after the reset test at a section (`blank` = the section is blank). -/
def stepWs (w blank : Bool) : Bool := if wsErrCleared w blank then false else w

theorem stepWs_nonblank (w : Bool) : stepWs w false = false := guard_facts.2.2.2.1 w
theorem stepWs_false (b : Bool) : stepWs false b = false := guard_facts.2.2.2.2.1 b

theorem updateLoop_cons {σ : Type} (o : Ops σ) (ws ne : Option σ) (should mixed w : Bool) (s : σ × Bool) (rest : List (σ × Bool)) :
    updateLoop o ws ne should mixed w (s :: rest) =
      match newStyle o ws ne should mixed (stepWs w s.2) s with
      | .error e => .error e
      | .ok st =>
        match updateLoop o ws ne should mixed (stepWs w s.2) rest with
        | .error e => .error e
        | .ok out => .ok ((st, s.2) :: out) := rfl

/-- `is_whitespace_error` after the sections of `l` have been visited. -/
def wsEnd (w : Bool) : List (String × Bool) → Bool
  | [] => w
  | s :: rest => wsEnd (stepWs w s.2) rest

theorem wsEnd_false (l : List (String × Bool)) : wsEnd false l = false := by
  induction l with
  | nil => rfl
  | cons s rest ih => simp only [wsEnd]; rw [stepWs_false]; exact ih

theorem wsEnd_nonblank (w : Bool) (l : List (String × Bool)) (h : ∃ t ∈ l, t.2 = false) : wsEnd w l = false := by
  induction l generalizing w with
  | nil => obtain ⟨t, ht, _⟩ := h; simp at ht
  | cons s rest ih =>
    simp only [wsEnd]
    obtain ⟨t, ht, hb⟩ := h
    rcases List.mem_cons.mp ht with ht | ht
    · subst ht
      rw [hb, stepWs_nonblank]
      exact wsEnd_false rest
    · exact ih _ ⟨t, ht, hb⟩

theorem newStyle_noWs (ws : Option String) (n : String) (should mixed : Bool) (s : String × Bool) :
    newStyle sOps ws (some n) should mixed false s = .ok (if nonEmphBranch should (isEmphField s.1) then n else s.1) := by
  unfold newStyle
  simp only [guard_facts.1, sOps, unwrap, Bool.and_false, Bool.false_eq_true, if_false]
  split <;> rfl

theorem updateLoop_length (ws ne : Option String) (should mixed w : Bool) (l out : List (String × Bool))
    (h : updateLoop sOps ws ne should mixed w l = .ok out) : out.length = l.length := by
  induction l generalizing w out with
  | nil => simp only [updateLoop] at h; injection h with h; subst h; rfl
  | cons s rest ih =>
    rw [updateLoop_cons] at h
    split at h
    · cases h
    · split at h
      · cases h
      · rename_i o ho
        injection h with h
        subst h
        simp [ih _ o ho]

/-- A section visited while `is_whitespace_error` is off gets the non-emph style iff the non-emph branch applies. -/
theorem updateLoop_at (ws : Option String) (n : String) (should mixed w : Bool) (l₁ l₂ out : List (String × Bool))
    (s : String × Bool) (h : updateLoop sOps ws (some n) should mixed w (l₁ ++ s :: l₂) = .ok out)
    (hw : stepWs (wsEnd w l₁) s.2 = false) :
    ∃ o₁ o₂, out = o₁ ++ (if nonEmphBranch should (isEmphField s.1) then n else s.1, s.2) :: o₂ ∧
      o₁.length = l₁.length ∧ o₂.length = l₂.length := by
  induction l₁ generalizing w out with
  | nil =>
    rw [List.nil_append, updateLoop_cons] at h
    simp only [wsEnd] at hw
    rw [hw, newStyle_noWs] at h
    simp only [] at h
    split at h
    · cases h
    · rename_i o ho
      injection h with h
      exact ⟨[], o, by simpa using h.symm, rfl, updateLoop_length _ _ _ _ _ _ _ ho⟩
  | cons x rest ih =>
    rw [List.cons_append, updateLoop_cons] at h
    split at h
    · cases h
    · rename_i st hst
      split at h
      · cases h
      · rename_i o ho
        injection h with h
        obtain ⟨o₁, o₂, ho', hl₁, hl₂⟩ := ih _ o ho hw
        refine ⟨(st, x.2) :: o₁, o₂, ?_, by simp [hl₁], hl₂⟩
        rw [← h, ho']
        rfl

/-- **Closed form of `governs`**: on a removed line every section, and on an added line every section that is not part
of the line's trailing whitespace, is governed by `hunkRule` — in particular an unchanged section of a line with a
partner by the non-emph style of its side. -/
theorem governs_section (side : Side) (homolog : Bool) (pre post : List (Bool × Bool)) (s : Bool × Bool)
    (g : List (String × Bool)) (hg : governs side homolog (pre ++ s :: post) = .ok g)
    (hbody : side = .minus ∨ ∃ t ∈ s :: post, t.2 = false) :
    ∃ gpre gpost, g = gpre ++ (hunkRule side homolog s.1, s.2) :: gpost ∧ gpre.length = pre.length ∧
      gpost.length = post.length := by
  unfold governs at hg
  cases hc : callOf side with
  | none => have := callOf_isSome side; simp [hc] at this
  | some c =>
    obtain ⟨hmem, hside⟩ := callOf_mem side c hc
    obtain ⟨hminus, hplus⟩ := calls_args c hmem
    have hrev := guard_facts.2.2.2.2.2
    let f := fun s : Bool × Bool => (annotatedField side s.1, s.2)
    have hlist : (List.map f (pre ++ s :: post)).reverse = (post.map f).reverse ++ f s :: (pre.map f).reverse := by
      simp [List.map_append, List.reverse_append]
    have key : ∀ (ws : Option String) (n : String) (out : List (String × Bool)),
        updateLine sOps ws (some n) homolog (List.map f (pre ++ s :: post)) = .ok out →
        stepWs (wsEnd (wsErrInitial ws.isSome) (post.map f).reverse) s.2 = false →
        ∃ gpre gpost, out = gpre ++ (if homolog && !s.1 then n else annotatedField side s.1, s.2) :: gpost ∧
          gpre.length = pre.length ∧ gpost.length = post.length := by
      intro ws n out hout hw
      unfold updateLine at hout
      simp only [hrev, if_true, hlist] at hout
      split at hout
      · cases hout
      · rename_i o ho
        injection hout with hout
        obtain ⟨o₁, o₂, ho', hl₁, hl₂⟩ := updateLoop_at ws n _ _ _ _ _ o (f s) ho hw
        refine ⟨o₂.reverse, o₁.reverse, ?_, by simpa using hl₂, by simpa using hl₁⟩
        rw [← hout, ho']
        simp only [List.reverse_append, List.reverse_cons, List.append_assoc, List.singleton_append, f,
          annotatedField_flag, Option.isSome_some, guard_facts.2.1]
    cases side with
    | minus =>
      obtain ⟨h1, h2⟩ := hminus hside
      simp only [hc, h1, h2] at hg
      obtain ⟨gpre, gpost, hg', hl⟩ := key none _ g hg (by
        simp only [Option.isSome_none, guard_facts.2.2.1, wsEnd_false]
        exact stepWs_false s.2)
      refine ⟨gpre, gpost, ?_, hl⟩
      rw [hg']
      cases s with
      | mk e b => cases e <;> cases homolog <;> simp [hunkRule, annotatedField]
    | plus =>
      obtain ⟨h1, h2⟩ := hplus hside
      simp only [hc, h1, h2] at hg
      have hex : ∃ t ∈ s :: post, t.2 = false := by
        rcases hbody with hb | hb
        · cases hb
        · exact hb
      obtain ⟨gpre, gpost, hg', hl⟩ := key (some "whitespace_error_style") _ g hg (by
        obtain ⟨t, ht, hb⟩ := hex
        rcases List.mem_cons.mp ht with ht | ht
        · subst ht
          rw [hb]
          exact stepWs_nonblank _
        · rw [wsEnd_nonblank _ _ ⟨f t, by simpa using List.mem_map_of_mem (f := f) ht, hb⟩]
          exact stepWs_false s.2)
      refine ⟨gpre, gpost, ?_, hl⟩
      rw [hg']
      cases s with
      | mk e b => cases e <;> cases homolog <;> simp [hunkRule, annotatedField]

/-! ### Part 6: `governs` is total; `styleEq` is identity; `annotate`; the flags -/

theorem newStyle_ok (ws : Option String) (n : String) (should mixed w : Bool) (s : String × Bool)
    (hws : ws.isSome = true ∨ w = false) : ∃ st, newStyle sOps ws (some n) should mixed w s = .ok st := by
  rcases hws with hws | hw
  · obtain ⟨x, hx⟩ := Option.isSome_iff_exists.mp hws
    subst hx
    unfold newStyle
    simp only [unwrap]
    split
    · exact ⟨_, rfl⟩
    · split
      · split <;> exact ⟨_, rfl⟩
      · exact ⟨_, rfl⟩
  · subst hw
    exact ⟨_, newStyle_noWs ws n should mixed s⟩

theorem updateLoop_ok (ws : Option String) (n : String) (should mixed w : Bool) (l : List (String × Bool))
    (hws : ws.isSome = true ∨ w = false) : ∃ out, updateLoop sOps ws (some n) should mixed w l = .ok out := by
  induction l generalizing w with
  | nil => exact ⟨[], rfl⟩
  | cons s rest ih =>
    rw [updateLoop_cons]
    have hws' : ws.isSome = true ∨ stepWs w s.2 = false := by
      rcases hws with h | h
      · exact .inl h
      · subst h; exact .inr (stepWs_false s.2)
    obtain ⟨st, hst⟩ := newStyle_ok ws n should mixed (stepWs w s.2) s hws'
    obtain ⟨out, hout⟩ := ih (stepWs w s.2) hws'
    rw [hst, hout]
    exact ⟨_, rfl⟩

/-- `governs` always answers: no argument depends on the configured values, and no `unwrap()` of the loop can fail. -/
theorem governs_ok (side : Side) (homolog : Bool) (secs : List (Bool × Bool)) :
    ∃ g, governs side homolog secs = .ok g := by
  unfold governs
  cases hc : callOf side with
  | none => have := callOf_isSome side; simp [hc] at this
  | some c =>
    obtain ⟨hmem, hside⟩ := callOf_mem side c hc
    obtain ⟨hminus, hplus⟩ := calls_args c hmem
    have fin : ∀ (ws : Option String) (n : String) (l : List (String × Bool)),
        (ws.isSome = true ∨ wsErrInitial ws.isSome = false) → ∃ g, updateLine sOps ws (some n) homolog l = .ok g := by
      intro ws n l hws
      unfold updateLine
      obtain ⟨out, hout⟩ := updateLoop_ok ws n (shouldUpdateNonEmph (some n).isSome homolog) (moreThanOne sOps l)
        (wsErrInitial ws.isSome) (if sectionsReversed = true then l.reverse else l) hws
      simp only [hout]
      exact ⟨_, rfl⟩
    cases side with
    | minus =>
      obtain ⟨h1, h2⟩ := hminus hside
      simp only [h1, h2]
      exact fin none _ _ (.inr guard_facts.2.2.1)
    | plus =>
      obtain ⟨h1, h2⟩ := hplus hside
      simp only [h1, h2]
      exact fin (some _) _ _ (.inl rfl)

/-- The struct as the model sees it, and every field of it compared by `==`. -/
theorem struct_facts : styleStructFields = knownParts ∧ (∀ p ∈ knownParts, p ∈ styleEqFields) := by decide

/-- **Two styles that `==` calls equal are the same style** (so coalescing equal neighbours, or treating "equal to the
first style" as "one style", loses nothing). -/
theorem styleEq_iff (a b : GStyle) : styleEq a b = true ↔ a = b := by
  constructor
  · intro h
    unfold styleEq styleEqOn at h
    rw [List.all_eq_true] at h
    have hk := struct_facts.2
    have h1 := h _ (hk "ansi_term_style" (by decide))
    have h2 := h _ (hk "is_emph" (by decide))
    have h3 := h _ (hk "is_omitted" (by decide))
    have h4 := h _ (hk "is_raw" (by decide))
    have h5 := h _ (hk "is_syntax_highlighted" (by decide))
    have h6 := h _ (hk "decoration_style" (by decide))
    simp [partEq] at h1 h2 h3 h4 h5 h6
    cases a; cases b
    simp_all
  · intro h; subst h; exact styleEq_refl a

/-- What the generated tables say about `edits::annotate` (instantiated with `Style`): every comparison is `==`
between a `…_op_prev` variable and a parameter; for every value the variable can hold, comparing the two configured
styles has a definite result: that of comparing the two *names*. -/
theorem annotate_facts : ∀ c ∈ annotateComparisons, c.2.1 = "==" ∧ (prevValues c.1 ≠ []) ∧
    ∀ v ∈ prevValues c.1,
      ((annotationField v).bind fun fv => (annotationField c.2.2).bind fun fr => symCmp (.style fv) (.style fr)) =
        some (v == c.2.2) := by decide

/-- Where `is_emph` is written (generated inventory, `decide`): every constructor writes `false`; the only assignments
are those of `parse_styles()`, `true`, on the resolved map, one per flagged key; the flagged `Config` fields are the two
within-line styles. -/
theorem isEmph_writes :
    (∀ w ∈ isEmphWrites, w.2.2.1 = "init" → w.2.2.2 = "false") ∧
    (∀ w ∈ isEmphWrites, w.2.2.1 = "assign" → w.1 = "src/parse_styles.rs" ∧ w.2.1 = "parse_styles" ∧ w.2.2.2 = "true") ∧
    (isEmphWrites.filter (·.2.2.1 == "assign")).length = emphFlagSets.length ∧
    (∀ e ∈ emphFlagSets, e.2 = "resolved") ∧
    (∀ f ∈ configStyleKey.map (·.1), isEmphField f = (f == "minus_emph_style" || f == "plus_emph_style")) ∧
    isEmphField "minus_emph_style" = true ∧ isEmphField "plus_emph_style" = true := by decide

/-! ### Part 7: the inventory of tests on configured styles, as reviewed

Every place of src/ where the *value* of a configured style can steer control flow is one of:
* a comparison of two whole `Style` values (`reviewedComparisonPlaces`): the two `non_emph != emph` guards (modelled:
  `updateCalls`, always true), `style_sections_contain_more_than_one_style` (modelled: `moreThanOne`), `annotate`
  (`annotate_facts`), the coalescing of equal neighbours in `superimpose_style_sections` (harmless because `==` is
  identity: `styleEq_iff`), and `blame_metadata_style` (a style parsed from git's own colours against `Style::default()`,
  no configured style involved);
* a read of one part of a configured style (`reviewedPartsRead`), each in the code that writes that option's own element:
  `is_omitted` / `is_raw` / `decoration_style` of commit / file / hunk-header / grep-header styles decide how (whether) that
  very header is written; `is_raw` of minus / zero / plus style keeps the raw line of a line of that very kind;
  `inline_hint_style.ansi_term_style.background` builds the syntect twin of that very style; the seven
  `is_syntax_highlighted` reads of `should_compute_syntax_highlighting` only decide whether syntect is run for a line
  (what a section takes from it is gated by the section's own style in `superimpose_style_sections`).
No part of one option's style decides which style another option's text gets; `is_emph` of a configured style is never
read (only that of a section's style, in `update_diff_style_sections`: modelled). -/

def reviewedComparisonPlaces : List (String × String) :=
  [("src/edits.rs", "annotate"),
   ("src/handlers/blame.rs", "blame_metadata_style"),
   ("src/paint.rs", "coalesce"),
   ("src/paint.rs", "paint_minus_and_plus_lines"),
   ("src/paint.rs", "style_sections_contain_more_than_one_style")]

def reviewedPartsRead : List (String × String) :=
  [("classic_grep_header_style", "decoration_style"),
   ("commit_style", "decoration_style"),
   ("commit_style", "is_omitted"),
   ("file_style", "decoration_style"),
   ("file_style", "is_omitted"),
   ("hunk_header_style", "decoration_style"),
   ("hunk_header_style", "is_omitted"),
   ("hunk_header_style", "is_raw"),
   ("inline_hint_style", "ansi_term_style.background"),
   ("minus_emph_style", "is_syntax_highlighted"),
   ("minus_non_emph_style", "is_syntax_highlighted"),
   ("minus_style", "is_raw"),
   ("minus_style", "is_syntax_highlighted"),
   ("plus_emph_style", "is_syntax_highlighted"),
   ("plus_non_emph_style", "is_syntax_highlighted"),
   ("plus_style", "is_raw"),
   ("plus_style", "is_syntax_highlighted"),
   ("ripgrep_header_style", "decoration_style"),
   ("zero_style", "is_raw"),
   ("zero_style", "is_syntax_highlighted")]

/-- The operands of the comparisons in the guards of the two calls. -/
def guardOperands : Guard → List String
  | .eq a b | .ne a b => [a, b].map fun | .style f => f | .part f _ => f
  | .flag f _ => [f]
  | .lit _ => []
  | .not g => guardOperands g
  | .and g h | .or g h => guardOperands g ++ guardOperands h

/-- The guard of an `if g { … } else { … }` argument. -/
def guardOf : OptStyle → Option Guard
  | .ite g _ _ => some g
  | _ => none

def optOperands : OptStyle → List String
  | .none | .some _ => []
  | .ite g t e => guardOperands g ++ optOperands t ++ optOperands e

theorem inventory_facts :
    styleComparisonPlaces = reviewedComparisonPlaces ∧
    configStylePartsRead = reviewedPartsRead ∧
    (∀ r ∈ configStyleReads, r.use = "cmp" → r.file = "src/paint.rs" ∧ r.inFn = "paint_minus_and_plus_lines" ∧
      r.field ∈ updateCalls.flatMap fun c => optOperands c.wsErr ++ optOperands c.nonEmph) ∧
    (∀ r ∈ configStyleReads, r.use = "part" → r.detail ≠ "is_emph") := by decide +kernel

end StyleGuards
