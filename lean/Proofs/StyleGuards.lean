import DeltaModel.StyleGuards
/-!
Lemmas for the C12 theorems about which configured style a section of a hunk line is painted with
(`DeltaModel/StyleGuards.lean`).

Part 1: `==` on `Style` (the generated list of compared fields): reflexive, and false as soon as the `is_emph` flags
differ — *because* `is_emph` is among the compared fields (`isEmph_compared`, a `decide` on the generated list).
Part 2: the value `symGuard` / `symOpt` give is the value of the guard / argument for every configuration with the flags
of `parse_styles()`.
Part 3: `update_diff_style_sections` commutes with any map of styles that keeps the `is_emph` flag and the
"counts as another style" relation of the sections (so running it on field names and looking the names up afterwards
is the same as running it on the styles).
Part 4: which field governs which section (closed form).
-/
set_option linter.unusedVariables false
namespace StyleGuards
open Generated.StyleGuards

/-! ### Part 1: equality of styles -/

/-- The generated facts the equality lemmas rest on. -/
theorem eqFields_known : ∀ p ∈ styleEqFields, p ∈ knownParts := by decide

/-- **`==` on `Style` looks at `is_emph`.** (False of a hand-written `eq` that leaves the field out.) -/
theorem isEmph_compared : "is_emph" ∈ styleEqFields := by decide

theorem partEq_refl (p : String) (hp : p ∈ knownParts) (a : GStyle) : partEq p a a = true := by
  simp only [knownParts, List.mem_cons, List.mem_nil_iff, or_false] at hp
  rcases hp with h | h | h | h | h | h <;> subst h <;> simp [partEq]

theorem styleEq_refl (a : GStyle) : styleEq a a = true := by
  unfold styleEq styleEqOn
  rw [List.all_eq_true]
  intro p hp
  exact partEq_refl p (eqFields_known p hp) a

theorem styleEq_false_of_flag (a b : GStyle) (h : a.isEmph ≠ b.isEmph) : styleEq a b = false := by
  unfold styleEq styleEqOn
  rw [List.all_eq_false]
  refine ⟨"is_emph", isEmph_compared, ?_⟩
  simp [partEq, h]

/-- `configOf` produces configurations with the flags of `parse_styles()`. -/
theorem configOf_asParsed (given : String → GStyle) : AsParsed (configOf given) := by
  intro f
  unfold configOf isEmphField
  cases configStyleKey.lookup f <;> rfl

/-! ### Part 2: guards that do not depend on the configured values -/

theorem symCmp_sound (cfg : Cfg) (h : AsParsed cfg) (a b : Operand) (v : Bool) (hs : symCmp a b = some v) :
    evalCmp cfg a b = v := by
  cases a with
  | style a =>
    cases b with
    | style b =>
      simp only [symCmp] at hs
      simp only [evalCmp]
      split at hs
      · rename_i hab
        have hab : a = b := by simpa using hab
        subst hab
        split at hs
        · injection hs with hs; rw [← hs]; exact styleEq_refl _
        · cases hs
      · split at hs
        · rename_i hf
          injection hs with hs
          rw [← hs]
          apply styleEq_false_of_flag
          rw [h a, h b]
          simp only [Bool.and_eq_true, bne_iff_ne, ne_eq] at hf
          exact hf.2
        · cases hs
    | part b q => simp [symCmp] at hs
  | part a p =>
    cases b with
    | style b => simp [symCmp] at hs
    | part b q =>
      simp only [symCmp] at hs
      simp only [evalCmp]
      split at hs
      · rename_i hpq
        simp only [Bool.and_eq_true, beq_iff_eq] at hpq
        obtain ⟨h1, h2⟩ := hpq
        subst h1
        subst h2
        injection hs with hs
        rw [← hs]
        simp [partEq, h a, h b]
      · split at hs
        · rename_i hpq
          simp only [Bool.and_eq_true, beq_iff_eq, List.contains_eq_mem, decide_eq_true_eq] at hpq
          obtain ⟨⟨h1, h2⟩, h3⟩ := hpq
          subst h1
          subst h2
          injection hs with hs
          rw [← hs]
          simp [partEq_refl p h3]
        · cases hs

theorem symGuard_sound (cfg : Cfg) (h : AsParsed cfg) (g : Guard) (v : Bool) (hs : symGuard g = some v) :
    evalGuard cfg g = v := by
  induction g generalizing v with
  | eq a b => exact symCmp_sound cfg h a b v hs
  | ne a b =>
    simp only [symGuard, Option.map_eq_some_iff] at hs
    obtain ⟨w, hw, hv⟩ := hs
    simp [evalGuard, symCmp_sound cfg h a b w hw, hv]
  | flag f p =>
    simp only [symGuard] at hs
    split at hs
    · rename_i hp
      have hp : p = "is_emph" := by simpa using hp
      subst hp
      injection hs with hs
      simp [evalGuard, flagOf, h f, hs]
    · cases hs
  | lit b => simp only [symGuard] at hs; injection hs
  | not g ih =>
    simp only [symGuard, Option.map_eq_some_iff] at hs
    obtain ⟨w, hw, hv⟩ := hs
    simp [evalGuard, ih w hw, hv]
  | and g k ihg ihk =>
    simp only [symGuard] at hs
    simp only [evalGuard]
    split at hs
    · rename_i hg; injection hs with hs; rw [← hs, ihg false hg]; rfl
    · rename_i hk _; injection hs with hs; rw [← hs, ihk false hk]; simp
    · rename_i hg hk; injection hs with hs; rw [← hs, ihg true hg, ihk true hk]; rfl
    · cases hs
  | or g k ihg ihk =>
    simp only [symGuard] at hs
    simp only [evalGuard]
    split at hs
    · rename_i hg; injection hs with hs; rw [← hs, ihg true hg]; rfl
    · rename_i hk _; injection hs with hs; rw [← hs, ihk true hk]; simp
    · rename_i hg hk; injection hs with hs; rw [← hs, ihg false hg, ihk false hk]; rfl
    · cases hs

theorem symOpt_sound (cfg : Cfg) (h : AsParsed cfg) (o : OptStyle) (r : Option String) (hs : symOpt o = some r) :
    evalOpt cfg o = r.map cfg := by
  induction o generalizing r with
  | none => simp only [symOpt] at hs; injection hs with hs; subst hs; rfl
  | some f => simp only [symOpt] at hs; injection hs with hs; subst hs; rfl
  | ite g t e iht ihe =>
    simp only [symOpt] at hs
    simp only [evalOpt]
    split at hs
    · rename_i hg; rw [symGuard_sound cfg h g true hg]; simpa using iht r hs
    · rename_i hg; rw [symGuard_sound cfg h g false hg]; simpa using ihe r hs
    · cases hs

/-! ### Part 3: the update commutes with a map of styles -/

def mapOk {α β : Type} (f : α → β) : Except String α → Except String β
  | .ok a => .ok (f a)
  | .error e => .error e

def mapSecs {σ τ : Type} (f : σ → τ) (l : List (σ × Bool)) : List (τ × Bool) := l.map fun s => (f s.1, s.2)

theorem mapSecs_reverse {σ τ : Type} (f : σ → τ) (l : List (σ × Bool)) : mapSecs f l.reverse = (mapSecs f l).reverse := by
  simp [mapSecs, List.map_reverse]

theorem any_congr_mem {α : Type} (l : List α) (p q : α → Bool) (h : ∀ x ∈ l, p x = q x) : l.any p = l.any q := by
  induction l with
  | nil => rfl
  | cons x l ih =>
    simp only [List.any_cons]
    rw [h x (List.mem_cons_self ..), ih (fun y hy => h y (List.mem_cons_of_mem _ hy))]

theorem moreThanOne_map {σ τ : Type} (o₁ : Ops σ) (o₂ : Ops τ) (f : σ → τ) (secs : List (σ × Bool))
    (hD : ∀ a ∈ secs, ∀ b ∈ secs, o₂.differs (f a.1) (f b.1) = o₁.differs a.1 b.1) :
    moreThanOne o₂ (mapSecs f secs) = moreThanOne o₁ secs := by
  cases secs with
  | nil => rfl
  | cons s rest =>
    simp only [mapSecs, List.map_cons, moreThanOne, List.length_cons, List.length_map]
    congr 1
    rw [← List.map_cons (f := fun s : σ × Bool => (f s.1, s.2)), List.any_map]
    apply any_congr_mem
    intro x hx
    exact hD x hx s (List.mem_cons_self ..)

theorem unwrap_map {σ τ : Type} (f : σ → τ) (x : Option σ) : unwrap (x.map f) = mapOk f (unwrap x) := by
  cases x <;> rfl

theorem newStyle_map {σ τ : Type} (o₁ : Ops σ) (o₂ : Ops τ) (f : σ → τ) (hE : ∀ a, o₂.isEmph (f a) = o₁.isEmph a)
    (ws ne : Option σ) (should mixed isWs : Bool) (s : σ × Bool) :
    newStyle o₂ (ws.map f) (ne.map f) should mixed isWs (f s.1, s.2) = mapOk f (newStyle o₁ ws ne should mixed isWs s) := by
  unfold newStyle
  simp only [hE, unwrap_map]
  split
  · rfl
  · split
    · cases ne with
      | none => rfl
      | some n =>
        simp only [unwrap, mapOk]
        split
        · cases ws <;> rfl
        · rfl
    · rfl

theorem updateLoop_map {σ τ : Type} (o₁ : Ops σ) (o₂ : Ops τ) (f : σ → τ) (hE : ∀ a, o₂.isEmph (f a) = o₁.isEmph a)
    (ws ne : Option σ) (should mixed isWs : Bool) (l : List (σ × Bool)) :
    updateLoop o₂ (ws.map f) (ne.map f) should mixed isWs (mapSecs f l) =
      mapOk (mapSecs f) (updateLoop o₁ ws ne should mixed isWs l) := by
  induction l generalizing isWs with
  | nil => rfl
  | cons s rest ih =>
    simp only [mapSecs, List.map_cons, updateLoop]
    rw [newStyle_map o₁ o₂ f hE]
    cases newStyle o₁ ws ne should mixed (if wsErrCleared isWs s.2 = true then false else isWs) s with
    | error e => rfl
    | ok st =>
      simp only [mapOk]
      have := ih (if wsErrCleared isWs s.2 = true then false else isWs)
      simp only [mapSecs] at this
      rw [this]
      cases updateLoop o₁ ws ne should mixed (if wsErrCleared isWs s.2 = true then false else isWs) rest <;> rfl

/-- **`update_diff_style_sections` commutes with a map of styles** that keeps the flag and, on the sections of the line, the
relation "counts as another style". -/
theorem updateLine_map {σ τ : Type} (o₁ : Ops σ) (o₂ : Ops τ) (f : σ → τ) (hE : ∀ a, o₂.isEmph (f a) = o₁.isEmph a)
    (ws ne : Option σ) (homolog : Bool) (secs : List (σ × Bool))
    (hD : ∀ a ∈ secs, ∀ b ∈ secs, o₂.differs (f a.1) (f b.1) = o₁.differs a.1 b.1) :
    updateLine o₂ (ws.map f) (ne.map f) homolog (mapSecs f secs) = mapOk (mapSecs f) (updateLine o₁ ws ne homolog secs) := by
  unfold updateLine
  simp only [moreThanOne_map o₁ o₂ f secs hD, Option.isSome_map]
  have hrev : (if sectionsReversed = true then (mapSecs f secs).reverse else mapSecs f secs) =
      mapSecs f (if sectionsReversed = true then secs.reverse else secs) := by
    split
    · rw [mapSecs_reverse]
    · rfl
  rw [hrev, updateLoop_map o₁ o₂ f hE]
  cases updateLoop o₁ ws ne (shouldUpdateNonEmph ne.isSome homolog) (moreThanOne o₁ secs) (wsErrInitial ws.isSome)
      (if sectionsReversed = true then secs.reverse else secs) with
  | error e => rfl
  | ok out =>
    simp only [mapOk]
    split
    · rw [mapSecs_reverse]
    · rfl

/-! ### Part 4: painted styles = the configured styles of the governing fields -/

/-- Facts about the generated tables (each a `decide`). -/
theorem moreThanOneStyleCmp_whole : moreThanOneStyleCmp = ("", "!=", "") := by decide

theorem sectionDiffers_eq (a b : GStyle) : sectionDiffers a b = !styleEq a b := by
  simp [sectionDiffers, moreThanOneStyleCmp_whole]

theorem side_flags (side : Side) : isEmphField (lineField side) = false ∧ isEmphField (emphField side) = true := by
  cases side <;> decide

theorem side_names (side : Side) : (emphField side != lineField side) = true := by
  cases side <;> decide

theorem annotatedField_flag (side : Side) (e : Bool) : isEmphField (annotatedField side e) = e := by
  cases e <;> simp [annotatedField, side_flags side]

theorem callOf_isSome (side : Side) : (callOf side).isSome = true := by
  cases side <;> decide

theorem callOf_mem (side : Side) (c : UpdateCall) (h : callOf side = some c) : c ∈ updateCalls ∧ c.side = side.name := by
  unfold callOf at h
  refine ⟨List.mem_of_find?_eq_some h, ?_⟩
  have := List.find?_some h
  simpa using this

/-- **Neither argument of either call depends on the values of the configured styles** (for configurations with the flags
of `parse_styles()`): the guard `non_emph != emph` has a definite value. -/
theorem calls_sym : ∀ c ∈ updateCalls, (symOpt c.wsErr).isSome = true ∧ (symOpt c.nonEmph).isSome = true := by decide

/-- On the sections of one line, "counts as another style" is "is another field". -/
theorem differs_fields (cfg : Cfg) (h : AsParsed cfg) (side : Side) (e e' : Bool) :
    sectionDiffers (cfg (annotatedField side e)) (cfg (annotatedField side e')) =
      (annotatedField side e != annotatedField side e') := by
  rw [sectionDiffers_eq]
  have hn := side_names side
  have hf := side_flags side
  cases e <;> cases e' <;> simp only [annotatedField, Bool.false_eq_true, if_false, if_true]
  · simp [styleEq_refl]
  · rw [styleEq_false_of_flag _ _ (by rw [h, h, hf.1, hf.2]; decide)]
    simp only [bne_iff_ne, ne_eq] at hn ⊢
    simpa using fun h' => hn h'.symm
  · rw [styleEq_false_of_flag _ _ (by rw [h, h, hf.1, hf.2]; decide)]
    simpa using hn
  · simp [styleEq_refl]

/-- **The painted styles are the configured styles of the governing fields.** -/
theorem paintedLine_eq_governs (cfg : Cfg) (h : AsParsed cfg) (side : Side) (homolog : Bool) (secs : List (Bool × Bool)) :
    paintedLine cfg side homolog secs = mapOk (mapSecs cfg) (governs side homolog secs) := by
  unfold paintedLine governs
  cases hc : callOf side with
  | none => have := callOf_isSome side; simp [hc] at this
  | some c =>
    obtain ⟨h1, h2⟩ := calls_sym c (callOf_mem side c hc).1
    cases hws : symOpt c.wsErr with
    | none => simp [hws] at h1
    | some ws =>
      cases hne : symOpt c.nonEmph with
      | none => simp [hne] at h2
      | some ne =>
        simp only [hws, hne]
        rw [symOpt_sound cfg h _ ws hws, symOpt_sound cfg h _ ne hne]
        have hm : (secs.map fun s => (cfg (annotatedField side s.1), s.2)) =
            mapSecs cfg (secs.map fun s => (annotatedField side s.1, s.2)) := by
          simp [mapSecs]
        rw [hm]
        apply updateLine_map sOps gOps cfg (fun a => h a)
        intro a ha b hb
        obtain ⟨x, _, hx⟩ := List.mem_map.mp ha
        obtain ⟨y, _, hy⟩ := List.mem_map.mp hb
        subst hx
        subst hy
        exact differs_fields cfg h side x.1 y.1

end StyleGuards
