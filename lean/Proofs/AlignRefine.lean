import Proofs.AlignSpec
/-!
Refinement: the executable table of `DeltaModel/Align` (`fill`, `lookup`, `readBack`) computes
the specification cells `cellP` and paths `pathP`; in particular the fill never fails and the
read-back fuel always suffices.
-/
namespace Align
open Generated.Align

variable {α : Type} [DecidableEq α]

/-- Spec cells `(|X|, |done|+1), (|X|, |done|+2), …` along `rest`. -/
def colFrom (X : List α) : List α → List α → List Cell
  | _, [] => []
  | done, b :: rest => cellP X (b :: done) :: colFrom X (b :: done) rest

def colP (X y : List α) : List Cell := cellP X [] :: colFrom X [] y

def colsFrom (y : List α) : List α → List α → List (List Cell)
  | _, [] => []
  | done, a :: rest => colP (a :: done) y :: colsFrom y (a :: done) rest

def tableSpec (x y : List α) : List (List Cell) := colP [] y :: colsFrom y [] x

theorem firstColFrom_eq (done rest : List α) :
    firstColFrom done.length rest.length = colFrom [] done rest := by
  induction rest generalizing done with
  | nil => rfl
  | cons b rest ih =>
    simp only [List.length_cons, firstColFrom, colFrom]
    rw [show done.length + 1 = (b :: done).length from rfl, ih (b :: done)]
    simp [cellP, colLeft]

theorem firstCol_eq (y : List α) : firstCol y.length = colP ([] : List α) y := by
  unfold firstCol colP
  rw [show (0 : Nat) = ([] : List α).length from rfl, firstColFrom_eq [] y]
  simp [cellP]

theorem fillColAux_eq (X : List α) (xi : α) (done rest : List α) :
    fillColAux X.length xi done.length (cellP (xi :: X) done) (cellP X done :: colFrom X done rest) rest
      = some (colFrom (xi :: X) done rest) := by
  induction rest generalizing done with
  | nil => simp [fillColAux, colFrom]
  | cons b rest ih =>
    simp only [colFrom, fillColAux]
    rw [choose_eq]
    have hc : chooseSpec ⟨cellP (xi :: X) done, (X.length + 1, done.length)⟩
        ⟨cellP X (b :: done), (X.length, done.length + 1)⟩ ⟨cellP X done, (X.length, done.length)⟩
        (decide (xi = b)) = cellP (xi :: X) (b :: done) := by
      rw [cellP]
    simp only [hc]
    have := ih (b :: done)
    simp only [List.length_cons] at this
    rw [this]

theorem nextCol_eq (X : List α) (xi : α) (y : List α) :
    nextCol X.length xi (colP X y) y = some (colP (xi :: X) y) := by
  unfold nextCol colP
  have h : colTop (X.length + 1) = cellP (xi :: X) ([] : List α) := by simp [cellP]
  rw [h]
  have := fillColAux_eq X xi [] y
  simp only [List.length_nil] at this
  rw [this]

theorem fillCols_eq (y done rest : List α) :
    fillCols done.length (colP done y) rest y = some (colsFrom y done rest) := by
  induction rest generalizing done with
  | nil => simp [fillCols, colsFrom]
  | cons a rest ih =>
    simp only [fillCols, colsFrom]
    rw [nextCol_eq]
    have := ih (a :: done)
    simp only [List.length_cons] at this
    simp only [this]

theorem fill_eq (x y : List α) : fill x y = some (tableSpec x y) := by
  unfold fill tableSpec
  rw [firstCol_eq]
  have := fillCols_eq y [] x
  simp only [List.length_nil] at this
  simp only [this]

/-! ### lookup -/

theorem colFrom_getElem? (X done rest : List α) (k : Nat) (hk : k < rest.length) :
    (colFrom X done rest)[k]? = some (cellP X ((rest.take (k + 1)).reverse ++ done)) := by
  induction rest generalizing done k with
  | nil => simp at hk
  | cons b rest ih =>
    cases k with
    | zero => simp [colFrom]
    | succ k =>
      simp only [colFrom, List.getElem?_cons_succ]
      rw [ih (b :: done) k (by simpa using hk)]
      simp

theorem colP_getElem? (X y : List α) (j : Nat) (hj : j ≤ y.length) :
    (colP X y)[j]? = some (cellP X (y.take j).reverse) := by
  cases j with
  | zero => simp [colP]
  | succ j =>
    simp only [colP, List.getElem?_cons_succ]
    rw [colFrom_getElem? X [] y j (by omega)]
    simp

theorem colsFrom_getElem? (y done rest : List α) (k : Nat) (hk : k < rest.length) :
    (colsFrom y done rest)[k]? = some (colP ((rest.take (k + 1)).reverse ++ done) y) := by
  induction rest generalizing done k with
  | nil => simp at hk
  | cons b rest ih =>
    cases k with
    | zero => simp [colsFrom]
    | succ k =>
      simp only [colsFrom, List.getElem?_cons_succ]
      rw [ih (b :: done) k (by simpa using hk)]
      simp

theorem tableSpec_getElem? (x y : List α) (i : Nat) (hi : i ≤ x.length) :
    (tableSpec x y)[i]? = some (colP (x.take i).reverse y) := by
  cases i with
  | zero => simp [tableSpec]
  | succ i =>
    simp only [tableSpec, List.getElem?_cons_succ]
    rw [colsFrom_getElem? y [] x i (by omega)]
    simp

/-- `X`, `Y` are reversed prefixes of `x`, `y`. -/
theorem lookup_tableSpec (X Y rx ry : List α) :
    lookup (tableSpec (X.reverse ++ rx) (Y.reverse ++ ry)) (X.length, Y.length) = some (cellP X Y) := by
  unfold lookup
  simp only
  rw [tableSpec_getElem? _ _ _ (by simp)]
  simp only
  rw [colP_getElem? _ _ _ (by simp)]
  have h1 : (X.reverse ++ rx).take X.length = X.reverse := by
    rw [show X.length = X.reverse.length by simp]; exact List.take_left' rfl
  have h2 : (Y.reverse ++ ry).take Y.length = Y.reverse := by
    rw [show Y.length = Y.reverse.length by simp]; exact List.take_left' rfl
  rw [h1, h2]; simp

end Align

namespace Align
open Generated.Align
variable {α : Type} [DecidableEq α]

theorem cellP_cons_cons (a b : α) (xs ys : List α) :
    cellP (a :: xs) (b :: ys) =
      chooseSpec ⟨cellP (a :: xs) ys, (xs.length + 1, ys.length)⟩
        ⟨cellP xs (b :: ys), (xs.length, ys.length + 1)⟩
        ⟨cellP xs ys, (xs.length, ys.length)⟩ (decide (a = b)) := by
  rw [cellP]

theorem pathP_cons_cons (a b : α) (xs ys : List α) :
    pathP (a :: xs) (b :: ys) =
      match (cellP (a :: xs) (b :: ys)).op with
      | .insertion => .insertion :: pathP (a :: xs) ys
      | .deletion => .deletion :: pathP xs (b :: ys)
      | .noOp => .noOp :: pathP xs ys := by
  conv => lhs; rw [pathP]
  cases (cellP (a :: xs) (b :: ys)).op <;> rfl

/-- Reading back from a non-origin cell yields `pathP`, and the fuel `|X| + |Y|` suffices. -/
theorem readBack_eq (x y : List α) :
    ∀ (n : Nat) (X Y rx ry : List α), X.length + Y.length = n → (X ≠ [] ∨ Y ≠ []) →
      x = X.reverse ++ rx → y = Y.reverse ++ ry →
      ∀ (fuel : Nat) (acc : List Op), X.length + Y.length ≤ fuel →
        readBack (tableSpec x y) fuel (cellP X Y) acc = .ok ((pathP X Y).reverse ++ acc) := by
  intro n
  induction n using Nat.strongRecOn with
  | _ n ih =>
    intro X Y rx ry hn hne hx hy fuel acc hfuel
    match X, Y with
    | [], [] => simp at hne
    | a :: xs, [] =>
      cases fuel with
      | zero => simp at hfuel
      | succ fuel => simp [cellP, pathP, readBack, colTop]
    | [], b :: ys =>
      cases fuel with
      | zero => simp at hfuel
      | succ fuel => simp [cellP, pathP, readBack, colLeft]
    | a :: xs, b :: ys =>
      cases fuel with
      | zero => simp at hfuel
      | succ fuel =>
        simp only [List.length_cons] at hfuel hn
        rw [pathP_cons_cons]
        rcases chooseSpec_cases ⟨cellP (a :: xs) ys, (xs.length + 1, ys.length)⟩
          ⟨cellP xs (b :: ys), (xs.length, ys.length + 1)⟩
          ⟨cellP xs ys, (xs.length, ys.length)⟩ (decide (a = b)) with h | h | h
        · -- insertion: parent is `up`
          have hc : cellP (a :: xs) (b :: ys) = insCand ⟨cellP (a :: xs) ys, (xs.length + 1, ys.length)⟩ := by
            rw [cellP_cons_cons]; exact h.1
          rw [hc]
          simp only [insCand, readBack, Prod.mk.injEq, Nat.succ_ne_zero, false_and, if_false]
          have hl := lookup_tableSpec (a :: xs) ys rx (b :: ry)
          have hy' : y = ys.reverse ++ b :: ry := by rw [hy]; simp
          rw [← hx, ← hy'] at hl
          simp only [List.length_cons] at hl
          rw [hl]
          simp only
          rw [ih (xs.length + 1 + ys.length) (by omega) (a :: xs) ys rx (b :: ry) (by simp) (by simp) hx hy' fuel _ (by simp; omega)]
          simp
        · -- deletion: parent is `left`
          have hc : cellP (a :: xs) (b :: ys) = delCand ⟨cellP xs (b :: ys), (xs.length, ys.length + 1)⟩ := by
            rw [cellP_cons_cons]; exact h.1
          rw [hc]
          simp only [delCand, readBack, Prod.mk.injEq, Nat.succ_ne_zero, and_false, if_false]
          have hl := lookup_tableSpec xs (b :: ys) (a :: rx) ry
          have hx' : x = xs.reverse ++ a :: rx := by rw [hx]; simp
          rw [← hx', ← hy] at hl
          simp only [List.length_cons] at hl
          rw [hl]
          simp only
          rw [ih (xs.length + (ys.length + 1)) (by omega) xs (b :: ys) (a :: rx) ry (by simp) (by simp) hx' hy fuel _ (by simp; omega)]
          simp
        · -- no-op: parent is `diag`
          have hc : cellP (a :: xs) (b :: ys) = noopCand ⟨cellP xs ys, (xs.length, ys.length)⟩ := by
            rw [cellP_cons_cons]; exact h.1
          rw [hc]
          simp only [noopCand, readBack]
          by_cases h0 : (xs.length, ys.length) = (0, 0)
          · simp only [h0, if_true]
            simp only [Prod.mk.injEq, List.length_eq_zero_iff] at h0
            rw [h0.1, h0.2]
            simp [pathP]
          · simp only [h0, if_false]
            have hl := lookup_tableSpec xs ys (a :: rx) (b :: ry)
            have hx' : x = xs.reverse ++ a :: rx := by rw [hx]; simp
            have hy' : y = ys.reverse ++ b :: ry := by rw [hy]; simp
            rw [← hx', ← hy'] at hl
            rw [hl]
            simp only
            have hne' : xs ≠ [] ∨ ys ≠ [] := by
              simp only [Prod.mk.injEq, List.length_eq_zero_iff] at h0
              by_cases hxs : xs = []
              · right; exact fun h => h0 ⟨hxs, h⟩
              · left; exact hxs
            rw [ih (xs.length + ys.length) (by omega) xs ys (a :: rx) (b :: ry) rfl hne' hx' hy' fuel _ (by omega)]
            simp

/-- The executable `operationsAndCost` equals the specification. -/
theorem operationsAndCost_eq (x y : List α) :
    operationsAndCost x y = .ok (opsSpec x y, (cellP x.reverse y.reverse).cost) := by
  unfold operationsAndCost
  rw [fill_eq]
  simp only
  have hl := lookup_tableSpec x.reverse y.reverse [] []
  simp only [List.reverse_reverse, List.append_nil, List.length_reverse] at hl
  rw [hl]
  simp only
  by_cases h : x = [] ∧ y = []
  · obtain ⟨rfl, rfl⟩ := h
    simp [readBack, cellP, origin, opsSpec]
  · have hne : x.reverse ≠ [] ∨ y.reverse ≠ [] := by
      by_cases hx : x = []
      · right; simpa using fun hy => h ⟨hx, hy⟩
      · left; simpa using hx
    have := readBack_eq x y _ x.reverse y.reverse [] [] rfl hne (by simp) (by simp)
      (x.length + y.length + 1) [] (by simp)
    rw [this]
    simp [opsSpec, h]

theorem operations_eq (x y : List α) : operations x y = .ok (opsSpec x y) := by
  unfold operations
  rw [operationsAndCost_eq]

end Align
