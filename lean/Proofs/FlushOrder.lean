import DeltaModel.FlushOrder
import Proofs.SuperimposeLifetime
/-!
Helper lemmas for C15 about `Superimpose.Flush` (the flush / highlighter order interpreted from the source):
when the translated painter methods are *plain* (`Plain`), the machine `runF` paints exactly what
`Lifetime.run` paints on the mapped events. Core Lean only.
-/
namespace Superimpose.Flush
open Superimpose.Lifetime Generated.PainterFlush

variable {σ : Type}

variable [DecidableEq σ]

/-- The translated painter methods mean what `Lifetime.execStmt` says: whatever `self.syntax` and the further
syntax-holding fields hold, the flush feeds the buffered lines through the highlighter that exists and
clears the buffers; a zero line / a fragment goes through the highlighter that exists; `set_highlighter`
creates a fresh highlighter for the current syntax. -/
structure Plain (env : FEnv σ) (ms : Methods) : Prop where
  flush : ∀ (one : Kind × Hl σ) (s : FState σ),
    (call env ms "paint_buffered_minus_and_plus_lines" one s).1.st =
        (Lifetime.execStmt env.lang s.st .paintBuffered).1 ∧
      (call env ms "paint_buffered_minus_and_plus_lines" one s).2 =
        (Lifetime.execStmt env.lang s.st .paintBuffered).2
  setHl : ∀ (one : Kind × Hl σ) (s : FState σ),
    (call env ms "set_highlighter" one s).1.st = { s.st with hl := some (s.st.syn, 0) } ∧
      (call env ms "set_highlighter" one s).2 = []
  zero : ∀ (one : Kind × Hl σ) (s : FState σ),
    (call env ms "paint_zero_line" one s).1.st = { s.st with hl := feed s.st.hl } ∧
      (call env ms "paint_zero_line" one s).2 = [⟨one.1, s.st.hl, one.2⟩]
  frag : ∀ (one : Kind × Hl σ) (s : FState σ),
    (call env ms "syntax_highlight_and_paint_line" one s).1.st = { s.st with hl := feed s.st.hl } ∧
      (call env ms "syntax_highlight_and_paint_line" one s).2 = [⟨one.1, s.st.hl, one.2⟩]

/-- The statement order of `handle_hunk_line` under which the correspondence with `Lifetime.step` holds. -/
def LineOrder : Prop :=
  hunkLinePrelude = [(.ifBufferOverLimit, .flush), (.ifHunkHeaderPending, .emitHunkHeader)] ∧
  hunkLineMinus = [(.ifPrevLineWasPlus, .flush), (.always, .bufferLine)] ∧
  hunkLinePlus = [(.always, .bufferLine)] ∧
  hunkLineZero = [(.always, .flush), (.always, .paintZero)] ∧
  hunkLineOther = [(.always, .flush), (.always, .writeRaw)] ∧
  hunkLineEpilogue = [(.always, .emitOutput)]

omit [DecidableEq σ] in
/-- `X` on the painter and `Y` on the lifetime state do the same. -/
def Sim (X : FState σ → FState σ × List (Painted σ)) (Y : State σ → State σ × List (Painted σ)) : Prop :=
  ∀ s, (X s).1.st = (Y s.st).1 ∧ (X s).2 = (Y s.st).2

omit [DecidableEq σ] in
theorem sim_comp {X X' : FState σ → FState σ × List (Painted σ)}
    {Y Y' : State σ → State σ × List (Painted σ)} (h : Sim X Y) (h' : Sim X' Y') :
    Sim (fun s => ((X' (X s).1).1, (X s).2 ++ (X' (X s).1).2))
      (fun t => ((Y' (Y t).1).1, (Y t).2 ++ (Y' (Y t).1).2)) := by
  intro s
  obtain ⟨a, b⟩ := h s
  obtain ⟨c, d⟩ := h' (X s).1
  simp only [a] at c d
  exact ⟨c, by show (X s).2 ++ (X' (X s).1).2 = _; rw [b, d]⟩

omit [DecidableEq σ] in
theorem sim_id : Sim (fun s : FState σ => (s, ([] : List (Painted σ)))) (fun t => (t, [])) := by
  intro s; exact ⟨rfl, rfl⟩

theorem execH_sim (env : FEnv σ) (ms : Methods) (P : Plain env ms)
    (st : Generated.SuperimposeLifetime.Stmt) :
    Sim (fun s => execH env ms s st) (fun t => Lifetime.execStmt env.lang t st) := by
  intro s
  cases st with
  | setSyntax side src => exact ⟨rfl, by cases side <;> cases src <;> rfl⟩
  | paintBuffered => exact P.flush _ s
  | setHighlighter => exact P.setHl _ s
  | paintFragment => exact P.frag (.fragment, (s.st.cur, 0)) s

theorem execHs_sim (env : FEnv σ) (ms : Methods) (P : Plain env ms)
    (l : List (Generated.SuperimposeLifetime.Guard × Generated.SuperimposeLifetime.Stmt)) :
    Sim (fun s => execHs env ms s l) (fun t => Lifetime.execStmts env.lang t l) := by
  induction l with
  | nil => intro s; exact ⟨rfl, rfl⟩
  | cons x rest ih =>
    obtain ⟨g, st⟩ := x
    intro s
    simp only [execHs, Lifetime.execStmts]
    split
    · obtain ⟨a, b⟩ := execH_sim env ms P st s
      obtain ⟨c, d⟩ := ih (execH env ms s st).1
      simp only at a b c d
      rw [a] at c d
      exact ⟨c, by rw [b, d]⟩
    · exact ih s

omit [DecidableEq σ] in
theorem run_append (lang : Option (List Char) → σ) (s : State σ) (a b : List Event) :
    run lang s (a ++ b) = ((run lang (run lang s a).1 b).1, (run lang s a).2 ++ (run lang (run lang s a).1 b).2) := by
  induction a generalizing s with
  | nil => simp [run]
  | cons e rest ih => simp [run, ih, List.append_assoc]


/-! ### The statements of `handle_hunk_line` -/

theorem flush_sim (env : FEnv σ) (ms : Methods) (P : Plain env ms) :
    Sim (fun s => execLine env ms s .flush) (fun t => step env.lang t .flush) := by
  intro s; exact P.flush _ s

theorem emit_sim (env : FEnv σ) (ms : Methods) (P : Plain env ms) :
    Sim (fun s => execLine env ms s .emitHunkHeader) (fun t => step env.lang t .hunkHeader) := by
  intro s
  exact execHs_sim env ms P Generated.SuperimposeLifetime.hunkHeaderStmts { s with st := { s.st with lineNo := 0 } }

theorem buffer_sim (env : FEnv σ) (ms : Methods) :
    Sim (fun s => execLine env ms s .bufferLine) (fun t => step env.lang t (.changedLine false)) := by
  intro s; simp [execLine, step]

theorem lines_nil (env : FEnv σ) (ms : Methods) (c : LineCtx) :
    Sim (fun s => execLines env ms c s []) (fun t => run env.lang t []) := by
  intro s; exact ⟨rfl, rfl⟩

/-- A guarded statement that does what the event `ev` does. -/
theorem lines_cons (env : FEnv σ) (ms : Methods) (c : LineCtx) (g : LineGuard) (st : LineStmt)
    (rest : List (LineGuard × LineStmt)) (ev : Event) (evs : List Event)
    (h1 : Sim (fun s => execLine env ms s st) (fun t => step env.lang t ev))
    (h2 : Sim (fun s => execLines env ms c s rest) (fun t => run env.lang t evs)) :
    Sim (fun s => execLines env ms c s ((g, st) :: rest))
      (fun t => run env.lang t ((if evalLineGuard c g then [ev] else []) ++ evs)) := by
  intro s
  cases hg : evalLineGuard c g with
  | true =>
    have := sim_comp h1 h2 s
    simpa [execLines, hg, run] using this
  | false => simpa [execLines, hg] using h2 s

/-- A guarded statement without effect on syntax, highlighter or buffers. -/
theorem lines_cons_id (env : FEnv σ) (ms : Methods) (c : LineCtx) (g : LineGuard) (st : LineStmt)
    (rest : List (LineGuard × LineStmt)) (evs : List Event)
    (h1 : ∀ s, execLine env ms s st = (s, []))
    (h2 : Sim (fun s => execLines env ms c s rest) (fun t => run env.lang t evs)) :
    Sim (fun s => execLines env ms c s ((g, st) :: rest)) (fun t => run env.lang t evs) := by
  intro s
  cases hg : evalLineGuard c g with
  | true => simpa [execLines, hg, h1] using h2 s
  | false => simpa [execLines, hg] using h2 s

/-- `flush; paint_zero_line` is what an unchanged line does. -/
theorem lines_zero (env : FEnv σ) (ms : Methods) (P : Plain env ms) (c : LineCtx)
    (rest : List (LineGuard × LineStmt)) (evs : List Event)
    (h2 : Sim (fun s => execLines env ms c s rest) (fun t => run env.lang t evs)) :
    Sim (fun s => execLines env ms c s ((.always, .flush) :: (.always, .paintZero) :: rest))
      (fun t => run env.lang t (.contextLine :: evs)) := by
  have hz : Sim (fun s => ((execLine env ms (execLine env ms s .flush).1 .paintZero).1,
        (execLine env ms s .flush).2 ++ (execLine env ms (execLine env ms s .flush).1 .paintZero).2))
      (fun t => step env.lang t .contextLine) := by
    intro s
    obtain ⟨a, b⟩ := P.flush (.line, (s.st.cur, 0)) s
    obtain ⟨c', d⟩ := P.zero
      (.line, ((call env ms "paint_buffered_minus_and_plus_lines" (.line, (s.st.cur, 0)) s).1.st.cur,
               (call env ms "paint_buffered_minus_and_plus_lines" (.line, (s.st.cur, 0)) s).1.st.lineNo))
      (call env ms "paint_buffered_minus_and_plus_lines" (.line, (s.st.cur, 0)) s).1
    simp only [execLine, step]
    rw [c', d, b, a]
    simp [Lifetime.execStmt]
  intro s
  have := sim_comp hz h2 s
  simpa [execLines, evalLineGuard, run, List.append_assoc] using this


/-! ### Events -/

theorem stepF_sim (env : FEnv σ) (ms : Methods) (P : Plain env ms) (ho : LineOrder) (e : FEvent) :
    Sim (fun s => stepF env ms s e) (fun t => run env.lang t (toEvents e)) := by
  obtain ⟨h1, h2, h3, h4, h5, h6⟩ := ho
  have epi : ∀ c, Sim (fun s => execLines env ms c s [(.always, .emitOutput)])
      (fun t => run env.lang t []) :=
    fun c => lines_cons_id env ms c _ _ _ _ (fun _ => rfl) (lines_nil env ms c)
  cases e with
  | fileMinus n mk =>
    intro s
    have := execHs_sim env ms P Generated.SuperimposeLifetime.minusHeaderStmts
      { s with st := { s.st with minusName := n, minusMarker := mk, cur := env.lang n } }
    simpa [stepF, toEvents, run, step] using this
  | filePlus n mk =>
    intro s
    have := execHs_sim env ms P Generated.SuperimposeLifetime.plusHeaderStmts
      { s with st := { s.st with plusName := n, plusMarker := mk,
                                  cur := if n.isSome then env.lang n else s.st.cur } }
    simpa [stepF, toEvents, run, step] using this
  | minusLine f o p =>
    simp only [stepF, h1, h2, h6, List.cons_append, List.nil_append, toEvents]
    exact lines_cons env ms _ _ _ _ .flush _ (flush_sim env ms P)
      (lines_cons env ms _ _ _ _ .hunkHeader _ (emit_sim env ms P)
        (lines_cons env ms _ _ _ _ .flush _ (flush_sim env ms P)
          (lines_cons env ms _ _ _ _ (.changedLine false) [] (buffer_sim env ms) (epi _))))
  | plusLine f o =>
    simp only [stepF, h1, h3, h6, List.cons_append, List.nil_append, toEvents]
    exact lines_cons env ms _ _ _ _ .flush _ (flush_sim env ms P)
      (lines_cons env ms _ _ _ _ .hunkHeader _ (emit_sim env ms P)
        (lines_cons env ms _ _ _ _ (.changedLine false) [] (buffer_sim env ms) (epi _)))
  | zeroLine f o =>
    simp only [stepF, h1, h4, h6, List.cons_append, List.nil_append, toEvents]
    exact lines_cons env ms _ _ _ _ .flush _ (flush_sim env ms P)
      (lines_cons env ms _ _ _ _ .hunkHeader _ (emit_sim env ms P)
        (lines_zero env ms P _ _ [] (epi _)))
  | otherLine f o =>
    simp only [stepF, h1, h5, h6, List.cons_append, List.nil_append, toEvents]
    exact lines_cons env ms _ _ _ _ .flush _ (flush_sim env ms P)
      (lines_cons env ms _ _ _ _ .hunkHeader _ (emit_sim env ms P)
        (lines_cons env ms _ _ _ _ .flush _ (flush_sim env ms P)
          (lines_cons_id env ms _ _ _ _ [] (fun _ => rfl) (epi _))))
  | flush =>
    intro s
    have := P.flush (.line, (s.st.cur, 0)) s
    simpa [stepF, toEvents, run, step] using this

/-- With plain painter methods and the known statement order of `handle_hunk_line`, the machine that
interprets the source paints exactly what `Lifetime.run` paints on the mapped events, with the same
highlighters, and ends in the same lifetime state. -/
theorem runF_sim (env : FEnv σ) (ms : Methods) (P : Plain env ms) (ho : LineOrder) (evs : List FEvent) :
    Sim (fun s => runF env ms s evs) (fun t => run env.lang t (toEventsAll evs)) := by
  induction evs with
  | nil => intro s; exact ⟨rfl, rfl⟩
  | cons e rest ih =>
    intro s
    have := sim_comp (stepF_sim env ms P ho e) ih s
    simpa [runF, toEventsAll, run_append] using this


omit [DecidableEq σ] in
theorem toEventsAll_append (a b : List FEvent) : toEventsAll (a ++ b) = toEventsAll a ++ toEventsAll b := by
  simp [toEventsAll]

def isFileFEvent : FEvent → Bool
  | .fileMinus _ _ => true
  | .filePlus _ _ => true
  | _ => false

omit [DecidableEq σ] in
theorem toEventsAll_no_file (evs : List FEvent) (h : ∀ e ∈ evs, isFileFEvent e = false) :
    ∀ x ∈ toEventsAll evs, isFileEvent x = false := by
  intro x hx
  simp only [toEventsAll, List.mem_flatMap] at hx
  obtain ⟨e, he, hxe⟩ := hx
  have := h e he
  cases e with
  | fileMinus n mk => simp [isFileFEvent] at this
  | filePlus n mk => simp [isFileFEvent] at this
  | minusLine f o p => cases f <;> cases o <;> cases p <;> simp [toEvents] at hxe <;> (rcases hxe with rfl | rfl | rfl | rfl) <;> rfl
  | plusLine f o => cases f <;> cases o <;> simp [toEvents] at hxe <;> (rcases hxe with rfl | rfl | rfl) <;> rfl
  | zeroLine f o => cases f <;> cases o <;> simp [toEvents] at hxe <;> (rcases hxe with rfl | rfl | rfl) <;> rfl
  | otherLine f o => cases f <;> cases o <;> simp [toEvents] at hxe <;> (rcases hxe with rfl | rfl | rfl) <;> rfl
  | flush => simp [toEvents] at hxe; subst hxe; rfl

end Superimpose.Flush
