import Proofs.StyleDenote
import Proofs.SgrRender
/-! Parsed styles are values of the Rust types (basic colours are one of the eight variants). -/
namespace DeltaStyle
open Sgr (Attr Color)
open SgrTerm (Color.wf Style.wf)

theorem toAnsiBasic_length : Generated.StyleTables.toAnsiBasic.length = 8 := by decide

theorem toAnsiColor_wf (env : Env) (c : SColor) (x : Color) (h : toAnsiColor env c = some x) :
    Color.wf x := by
  unfold toAnsiColor at h
  rw [toAnsiBasic_length] at h
  split at h
  · split at h
    · cases h; assumption
    · cases h; trivial
  · split at h
    · exact absurd h (by simp)
    · split at h <;> (cases h; trivial)

theorem parseColor_wf (env : Env) (w : String) (o : Option Color) (h : parseColor env w = .ok o) :
    ∀ x, o = some x → Color.wf x := by
  intro x hx
  subst hx
  unfold parseColor at h
  split at h
  · exact absurd h (by simp)
  · cases hr : resolveColorWord w with
    | none => simp [hr] at h
    | some c =>
      simp only [hr, Except.ok.injEq] at h
      exact toAnsiColor_wf env c x h

def optWf (o : Option Color) : Prop := ∀ x, o = some x → Color.wf x

/-- The default a style is parsed against is a Rust value. -/
def defaultWf (d : Option DStyle) : Prop := ∀ s, d = some s → Style.wf s.ansi

theorem defFg_wf (d : Option DStyle) (h : defaultWf d) : optWf (defFg d) := by
  intro x hx
  cases d with
  | none => simp [defFg] at hx
  | some s => exact (h s rfl).1 x (by simpa [defFg] using hx)

theorem defBg_wf (d : Option DStyle) (h : defaultWf d) : optWf (defBg d) := by
  intro x hx
  cases d with
  | none => simp [defBg] at hx
  | some s => exact (h s rfl).2 x (by simpa [defBg] using hx)

theorem readFg_wf (env : Env) (d : Option DStyle) (hd : defaultWf d) (w : String) (c : Colours)
    (h : readFg env d w = .ok c) : optWf c.fg ∧ optWf c.bg := by
  unfold readFg at h
  split at h
  · cases h; exact ⟨fun x hx => by simp at hx, fun x hx => by simp at hx⟩
  · split at h
    · cases h; exact ⟨defFg_wf d hd, fun x hx => by simp at hx⟩
    · cases hp : parseColor env w with
      | error e => simp [hp] at h
      | ok o =>
        simp [hp] at h; cases h
        exact ⟨parseColor_wf env w o hp, fun x hx => by simp at hx⟩

theorem readBg_wf (env : Env) (d : Option DStyle) (hd : defaultWf d) (c0 : Colours) (w : String)
    (c : Colours) (h0 : optWf c0.fg) (h : readBg env d c0 w = .ok c) : optWf c.fg ∧ optWf c.bg := by
  unfold readBg at h
  split at h
  · cases h
  · split at h
    · cases h; exact ⟨h0, defBg_wf d hd⟩
    · cases hp : parseColor env w with
      | error e => simp [hp] at h
      | ok o =>
        simp [hp] at h; cases h
        exact ⟨h0, parseColor_wf env w o hp⟩

theorem readColours_wf (env : Env) (d : Option DStyle) (hd : defaultWf d) (cws : List String)
    (c : Colours) (h : readColours env d cws = .ok c) : optWf c.fg ∧ optWf c.bg := by
  match cws with
  | [] => simp [readColours] at h; cases h; exact ⟨fun x hx => by simp at hx, fun x hx => by simp at hx⟩
  | [f] => exact readFg_wf env d hd f c (by simpa [readColours] using h)
  | [f, b] =>
    simp only [readColours] at h
    cases hf : readFg env d f with
    | error e => simp [hf] at h
    | ok c0 =>
      simp only [hf] at h
      exact readBg_wf env d hd c0 b c (readFg_wf env d hd f c0 hf).1 h
  | f :: b :: t :: rest =>
    simp only [readColours] at h
    cases hf : readFg env d f with
    | error e => simp [hf] at h
    | ok c0 =>
      simp only [hf] at h
      cases hb : readBg env d c0 b <;> simp [hb] at h

/-- Every style the parser returns is well-formed (given a well-formed default). -/
theorem parseAnsi_wf (env : Env) (d : Option DStyle) (hd : defaultWf d) (s : List Char) (p : Parsed)
    (h : parseAnsi env d s = .ok p) : Style.wf p.ansi := by
  rw [parseAnsi_eq_denote] at h
  unfold denote denoteWords at h
  cases hc : readColours env d (colourWords (words s)) with
  | error e => simp [hc] at h
  | ok c =>
    simp only [hc] at h
    cases h
    obtain ⟨h1, h2⟩ := readColours_wf env d hd _ c hc
    exact ⟨fun x hx => h1 x hx, fun x hx => h2 x hx⟩

end DeltaStyle
