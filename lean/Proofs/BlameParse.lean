import DeltaModel.Blame
/-!
Lemmas about the blame line parser `Blame.parseBlame` against the generator `Blame.fmtBlame`.
-/
namespace Blame

/-- The 25-character timestamp shape. -/
def tsShape (ts : Str) : Bool :=
  match matchPrefix tsPattern ts with
  | some (_, []) => true
  | _ => false

theorem tsShape_some (ts : Str) (h : tsShape ts = true) : ∃ a, matchPrefix tsPattern ts = some (a, []) := by
  unfold tsShape at h
  split at h
  · exact ⟨_, by assumption⟩
  · simp at h

theorem matchPrefix_cons {p : Char → Bool} {ps : List (Char → Bool)} {l a r : Str}
    (h : matchPrefix (p :: ps) l = some (a, r)) :
    ∃ c cs a', l = c :: cs ∧ p c = true ∧ a = c :: a' ∧ matchPrefix ps cs = some (a', r) := by
  cases l with
  | nil => simp [matchPrefix] at h
  | cons c cs =>
    simp only [matchPrefix] at h
    by_cases hp : p c = true
    · simp only [hp, if_true] at h
      cases hm : matchPrefix ps cs with
      | none => simp [hm] at h
      | some x =>
        obtain ⟨a', r'⟩ := x
        simp only [hm] at h
        injection h with h
        injection h with h1 h2
        exact ⟨c, cs, a', rfl, hp, h1.symm, by rw [← h2]; exact hm⟩
    · simp [hp] at h

theorem matchPrefix_nil {l a r : Str} (h : matchPrefix [] l = some (a, r)) : l = r := by
  simp [matchPrefix] at h
  exact h.2

/-- The shape check only looks at the first chars: it succeeds on `ts ++ X` returning `ts`. -/
theorem matchPrefix_append (ps : List (Char → Bool)) (ts a X : Str)
    (h : matchPrefix ps ts = some (a, [])) : matchPrefix ps (ts ++ X) = some (ts, X) := by
  induction ps generalizing ts a with
  | nil =>
    have := matchPrefix_nil h
    subst this
    simp [matchPrefix]
  | cons p ps ih =>
    obtain ⟨c, cs, a', e, hp, _, hm⟩ := matchPrefix_cons h
    subst e
    simp [matchPrefix, hp, ih cs a' hm]

theorem tsShape_destruct (ts : Str) (h : tsShape ts = true) :
    ∃ c0 c1 c2 c3 c4 c5 c6 c7 c8 c9 c10 c11 c12 c13 c14 c15 c16 c17 c18 c19 c20 c21 c22 c23 c24,
      ts = [c0, c1, c2, c3, c4, c5, c6, c7, c8, c9, c10, c11, c12, c13, c14, c15, c16, c17, c18, c19, c20, c21, c22, c23, c24] ∧
      Char.isDigit c0 = true ∧
      Char.isDigit c1 = true ∧
      Char.isDigit c2 = true ∧
      Char.isDigit c3 = true ∧
      isC '-' c4 = true ∧
      Char.isDigit c5 = true ∧
      Char.isDigit c6 = true ∧
      isC '-' c7 = true ∧
      Char.isDigit c8 = true ∧
      Char.isDigit c9 = true ∧
      isC ' ' c10 = true ∧
      Char.isDigit c11 = true ∧
      Char.isDigit c12 = true ∧
      isC ':' c13 = true ∧
      Char.isDigit c14 = true ∧
      Char.isDigit c15 = true ∧
      isC ':' c16 = true ∧
      Char.isDigit c17 = true ∧
      Char.isDigit c18 = true ∧
      isC ' ' c19 = true ∧
      isSign c20 = true ∧
      Char.isDigit c21 = true ∧
      Char.isDigit c22 = true ∧
      Char.isDigit c23 = true ∧
      Char.isDigit c24 = true := by
  obtain ⟨a, h⟩ := tsShape_some ts h
  unfold tsPattern at h
  obtain ⟨c0, l0, a0, e0, p0, _, h0⟩ := matchPrefix_cons h
  obtain ⟨c1, l1, a1, e1, p1, _, h1⟩ := matchPrefix_cons h0
  obtain ⟨c2, l2, a2, e2, p2, _, h2⟩ := matchPrefix_cons h1
  obtain ⟨c3, l3, a3, e3, p3, _, h3⟩ := matchPrefix_cons h2
  obtain ⟨c4, l4, a4, e4, p4, _, h4⟩ := matchPrefix_cons h3
  obtain ⟨c5, l5, a5, e5, p5, _, h5⟩ := matchPrefix_cons h4
  obtain ⟨c6, l6, a6, e6, p6, _, h6⟩ := matchPrefix_cons h5
  obtain ⟨c7, l7, a7, e7, p7, _, h7⟩ := matchPrefix_cons h6
  obtain ⟨c8, l8, a8, e8, p8, _, h8⟩ := matchPrefix_cons h7
  obtain ⟨c9, l9, a9, e9, p9, _, h9⟩ := matchPrefix_cons h8
  obtain ⟨c10, l10, a10, e10, p10, _, h10⟩ := matchPrefix_cons h9
  obtain ⟨c11, l11, a11, e11, p11, _, h11⟩ := matchPrefix_cons h10
  obtain ⟨c12, l12, a12, e12, p12, _, h12⟩ := matchPrefix_cons h11
  obtain ⟨c13, l13, a13, e13, p13, _, h13⟩ := matchPrefix_cons h12
  obtain ⟨c14, l14, a14, e14, p14, _, h14⟩ := matchPrefix_cons h13
  obtain ⟨c15, l15, a15, e15, p15, _, h15⟩ := matchPrefix_cons h14
  obtain ⟨c16, l16, a16, e16, p16, _, h16⟩ := matchPrefix_cons h15
  obtain ⟨c17, l17, a17, e17, p17, _, h17⟩ := matchPrefix_cons h16
  obtain ⟨c18, l18, a18, e18, p18, _, h18⟩ := matchPrefix_cons h17
  obtain ⟨c19, l19, a19, e19, p19, _, h19⟩ := matchPrefix_cons h18
  obtain ⟨c20, l20, a20, e20, p20, _, h20⟩ := matchPrefix_cons h19
  obtain ⟨c21, l21, a21, e21, p21, _, h21⟩ := matchPrefix_cons h20
  obtain ⟨c22, l22, a22, e22, p22, _, h22⟩ := matchPrefix_cons h21
  obtain ⟨c23, l23, a23, e23, p23, _, h23⟩ := matchPrefix_cons h22
  obtain ⟨c24, l24, a24, e24, p24, _, h24⟩ := matchPrefix_cons h23
  have e25 := matchPrefix_nil h24
  subst e25
  subst e24; subst e23; subst e22; subst e21; subst e20; subst e19; subst e18; subst e17; subst e16; subst e15; subst e14; subst e13; subst e12; subst e11; subst e10; subst e9; subst e8; subst e7; subst e6; subst e5; subst e4; subst e3; subst e2; subst e1; subst e0
  exact ⟨c0, c1, c2, c3, c4, c5, c6, c7, c8, c9, c10, c11, c12, c13, c14, c15, c16, c17, c18, c19, c20, c21, c22, c23, c24, rfl, p0, p1, p2, p3, p4, p5, p6, p7, p8, p9, p10, p11, p12, p13, p14, p15, p16, p17, p18, p19, p20, p21, p22, p23, p24⟩

/-! ### character classes -/

theorem isDigit_ne_space {c : Char} (h : c.isDigit = true) : c ≠ ' ' := by
  intro e; subst e; revert h; decide
theorem isDigit_ne_minus {c : Char} (h : c.isDigit = true) : c ≠ '-' := by
  intro e; subst e; revert h; decide
theorem isDigit_ne_rparen {c : Char} (h : c.isDigit = true) : c ≠ ')' := by
  intro e; subst e; revert h; decide
theorem isDigit_ne_lparen {c : Char} (h : c.isDigit = true) : c ≠ '(' := by
  intro e; subst e; revert h; decide
theorem isC_eq {x c : Char} (h : isC x c = true) : c = x := by simpa [isC] using h
theorem isSign_cases {c : Char} (h : isSign c = true) : c = '+' ∨ c = '-' := by
  simpa [isSign] using h

/-! ### `tailAt` -/

theorem dropSpaces1_ne (d : Char) (r : Str) (h : d ≠ ' ') : dropSpaces1 (d :: r) = none := by
  unfold dropSpaces1
  split
  · rename_i heq; injection heq with h1 _; exact absurd h1 h
  · rfl

theorem dropSpaces1_nil : dropSpaces1 [] = none := rfl

theorem tailAt_head_ne (d : Char) (r : Str) (h : d ≠ ' ') : tailAt (d :: r) = none := by
  simp [tailAt, dropSpaces1_ne d r h]

theorem tailAt_nil : tailAt [] = none := by simp [tailAt, dropSpaces1_nil]

theorem dropWhile_spaces (n : Nat) (d : Char) (Y : Str) (h : d ≠ ' ') :
    (spaces n ++ d :: Y).dropWhile (· == ' ') = d :: Y := by
  induction n with
  | zero => simp [spaces, h]
  | succ n ih => simpa [spaces, List.replicate_succ, List.dropWhile] using ih

theorem dropSpaces1_spaces (n : Nat) (d : Char) (Y : Str) (h : d ≠ ' ') :
    dropSpaces1 (spaces (n + 1) ++ d :: Y) = some (d :: Y) := by
  have : spaces (n + 1) ++ d :: Y = ' ' :: (spaces n ++ d :: Y) := by
    simp [spaces, List.replicate_succ]
  rw [this]
  simp only [dropSpaces1]
  rw [dropWhile_spaces n d Y h]

/-! ### `splitLast` (greedy author) -/

theorem splitLast_cons_none (c : Char) (rest : Str) (h1 : splitLast rest = none)
    (h2 : c = ' ' ∨ tailAt rest = none) : splitLast (c :: rest) = none := by
  simp only [splitLast, h1]
  rcases h2 with h | h
  · simp [h]
  · simp [h]

theorem splitLast_spaces (n : Nat) (X : Str) (h : splitLast X = none) :
    splitLast (spaces n ++ X) = none := by
  induction n with
  | zero => simpa [spaces] using h
  | succ n ih =>
    have : spaces (n + 1) ++ X = ' ' :: (spaces n ++ X) := by simp [spaces, List.replicate_succ]
    rw [this]
    exact splitLast_cons_none _ _ ih (Or.inl rfl)

theorem noTail_tailAt (code : Str) (h : noTail code = true) : tailAt code = none := by
  cases code with
  | nil => exact tailAt_nil
  | cons c cs =>
    simp only [noTail, Bool.and_eq_true, Option.isNone_iff_eq_none] at h
    exact h.1

theorem splitLast_code (code : Str) (h : noTail code = true) : splitLast code = none := by
  induction code with
  | nil => rfl
  | cons c cs ih =>
    simp only [noTail, Bool.and_eq_true, Option.isNone_iff_eq_none] at h
    exact splitLast_cons_none c cs (ih h.2) (Or.inr (noTail_tailAt cs h.2))

theorem splitLast_digits (ds : Str) (hd : ∀ c ∈ ds, c.isDigit = true) (code : Str)
    (h : noTail code = true) : splitLast (ds ++ ')' :: code) = none := by
  induction ds with
  | nil =>
    exact splitLast_cons_none _ _ (splitLast_code code h) (Or.inr (noTail_tailAt code h))
  | cons d ds ih =>
    have ih' := ih (fun c hc => hd c (List.mem_cons_of_mem _ hc))
    refine splitLast_cons_none d _ ih' (Or.inr ?_)
    cases ds with
    | nil => exact tailAt_head_ne _ _ (by decide)
    | cons d' ds' => exact tailAt_head_ne _ _ (isDigit_ne_space (hd d' (by simp)))

/-- A digit run followed by `)` never has the timestamp shape. -/
theorem matchPrefix_digits_none (ds : Str) (hne : ds ≠ []) (hd : ∀ c ∈ ds, c.isDigit = true) (code : Str) :
    matchPrefix tsPattern (ds ++ ')' :: code) = none := by
  have hr : Char.isDigit ')' = false := by decide
  have hr2 : isC '-' ')' = false := by decide
  rcases ds with _ | ⟨d0, _ | ⟨d1, _ | ⟨d2, _ | ⟨d3, _ | ⟨d4, ds'⟩⟩⟩⟩⟩
  · exact absurd rfl hne
  · have h0 := hd d0 (by simp)
    simp [matchPrefix, tsPattern, h0, hr]
  · have h0 := hd d0 (by simp); have h1 := hd d1 (by simp)
    simp [matchPrefix, tsPattern, h0, h1, hr]
  · have h0 := hd d0 (by simp); have h1 := hd d1 (by simp); have h2 := hd d2 (by simp)
    simp [matchPrefix, tsPattern, h0, h1, h2, hr]
  · have h0 := hd d0 (by simp); have h1 := hd d1 (by simp); have h2 := hd d2 (by simp)
    have h3 := hd d3 (by simp)
    simp [matchPrefix, tsPattern, h0, h1, h2, h3, hr2]
  · have h0 := hd d0 (by simp); have h1 := hd d1 (by simp); have h2 := hd d2 (by simp)
    have h3 := hd d3 (by simp); have h4 := hd d4 (by simp)
    have : isC '-' d4 = false := by
      have := isDigit_ne_minus h4
      simp [isC, this]
    simp [matchPrefix, tsPattern, h0, h1, h2, h3, this]

theorem tailAt_blank_digit_digit_colon (a b c : Char) (X : Str) (ha : a.isDigit = true)
    (hb : b.isDigit = true) (hc : c = ':') : tailAt (' ' :: a :: b :: c :: X) = none := by
  subst hc
  have nd : Char.isDigit ':' = false := by decide
  have h1 : dropSpaces1 (' ' :: a :: b :: ':' :: X) = some (a :: b :: ':' :: X) := by
    have := dropSpaces1_spaces 0 a (b :: ':' :: X) (isDigit_ne_space ha)
    simpa [spaces] using this
  have h2 : matchPrefix tsPattern (a :: b :: ':' :: X) = none := by
    simp [matchPrefix, tsPattern, ha, hb, nd]
  simp [tailAt, h1, h2]

theorem tailAt_blank_sign (a : Char) (X : Str) (ha : isSign a = true) : tailAt (' ' :: a :: X) = none := by
  have hne : a ≠ ' ' := by rcases isSign_cases ha with e | e <;> rw [e] <;> decide
  have hnd : Char.isDigit a = false := by rcases isSign_cases ha with e | e <;> rw [e] <;> decide
  have h1 : dropSpaces1 (' ' :: a :: X) = some (a :: X) := by
    have := dropSpaces1_spaces 0 a X hne
    simpa [spaces] using this
  have h2 : matchPrefix tsPattern (a :: X) = none := by
    simp [matchPrefix, tsPattern, hnd]
  simp [tailAt, h1, h2]

theorem splitLast_ts (c0 c1 c2 c3 c4 c5 c6 c7 c8 c9 c10 c11 c12 c13 c14 c15 c16 c17 c18 c19 c20 c21 c22 c23 c24 : Char)
    (p0 : Char.isDigit c0 = true) (p1 : Char.isDigit c1 = true) (p2 : Char.isDigit c2 = true) (p3 : Char.isDigit c3 = true) (p4 : isC '-' c4 = true) (p5 : Char.isDigit c5 = true) (p6 : Char.isDigit c6 = true) (p7 : isC '-' c7 = true) (p8 : Char.isDigit c8 = true) (p9 : Char.isDigit c9 = true) (p10 : isC ' ' c10 = true) (p11 : Char.isDigit c11 = true) (p12 : Char.isDigit c12 = true) (p13 : isC ':' c13 = true) (p14 : Char.isDigit c14 = true) (p15 : Char.isDigit c15 = true) (p16 : isC ':' c16 = true) (p17 : Char.isDigit c17 = true) (p18 : Char.isDigit c18 = true) (p19 : isC ' ' c19 = true) (p20 : isSign c20 = true) (p21 : Char.isDigit c21 = true) (p22 : Char.isDigit c22 = true) (p23 : Char.isDigit c23 = true) (p24 : Char.isDigit c24 = true)
    (R : Str) (hR : splitLast R = none) (tR : tailAt R = none) :
    splitLast (c0 :: c1 :: c2 :: c3 :: c4 :: c5 :: c6 :: c7 :: c8 :: c9 :: c10 :: c11 :: c12 :: c13 :: c14 :: c15 :: c16 :: c17 :: c18 :: c19 :: c20 :: c21 :: c22 :: c23 :: c24 :: R) = none := by
  have e10 := isC_eq p10; have e13 := isC_eq p13; have e19 := isC_eq p19
  have s24 := splitLast_cons_none c24 R hR (Or.inr tR)
  have s23 := splitLast_cons_none c23 _ s24 (Or.inr (tailAt_head_ne c24 _ (isDigit_ne_space p24)))
  have s22 := splitLast_cons_none c22 _ s23 (Or.inr (tailAt_head_ne c23 _ (isDigit_ne_space p23)))
  have s21 := splitLast_cons_none c21 _ s22 (Or.inr (tailAt_head_ne c22 _ (isDigit_ne_space p22)))
  have s20 := splitLast_cons_none c20 _ s21 (Or.inr (tailAt_head_ne c21 _ (isDigit_ne_space p21)))
  have s19 := splitLast_cons_none c19 _ s20 (Or.inr (tailAt_head_ne c20 _ (by rcases isSign_cases p20 with e | e <;> rw [e] <;> decide)))
  have t19 : tailAt (c19 :: c20 :: c21 :: c22 :: c23 :: c24 :: R) = none := by
    rw [e19]; exact tailAt_blank_sign _ _ p20
  have s18 := splitLast_cons_none c18 _ s19 (Or.inr t19)
  have s17 := splitLast_cons_none c17 _ s18 (Or.inr (tailAt_head_ne c18 _ (isDigit_ne_space p18)))
  have s16 := splitLast_cons_none c16 _ s17 (Or.inr (tailAt_head_ne c17 _ (isDigit_ne_space p17)))
  have s15 := splitLast_cons_none c15 _ s16 (Or.inr (tailAt_head_ne c16 _ (by rw [isC_eq p16]; decide)))
  have s14 := splitLast_cons_none c14 _ s15 (Or.inr (tailAt_head_ne c15 _ (isDigit_ne_space p15)))
  have s13 := splitLast_cons_none c13 _ s14 (Or.inr (tailAt_head_ne c14 _ (isDigit_ne_space p14)))
  have s12 := splitLast_cons_none c12 _ s13 (Or.inr (tailAt_head_ne c13 _ (by rw [isC_eq p13]; decide)))
  have s11 := splitLast_cons_none c11 _ s12 (Or.inr (tailAt_head_ne c12 _ (isDigit_ne_space p12)))
  have s10 := splitLast_cons_none c10 _ s11 (Or.inr (tailAt_head_ne c11 _ (isDigit_ne_space p11)))
  have t10 : tailAt (c10 :: c11 :: c12 :: c13 :: c14 :: c15 :: c16 :: c17 :: c18 :: c19 :: c20 :: c21 :: c22 :: c23 :: c24 :: R) = none := by
    rw [e10]; exact tailAt_blank_digit_digit_colon _ _ _ _ p11 p12 e13
  have s9 := splitLast_cons_none c9 _ s10 (Or.inr t10)
  have s8 := splitLast_cons_none c8 _ s9 (Or.inr (tailAt_head_ne c9 _ (isDigit_ne_space p9)))
  have s7 := splitLast_cons_none c7 _ s8 (Or.inr (tailAt_head_ne c8 _ (isDigit_ne_space p8)))
  have s6 := splitLast_cons_none c6 _ s7 (Or.inr (tailAt_head_ne c7 _ (by rw [isC_eq p7]; decide)))
  have s5 := splitLast_cons_none c5 _ s6 (Or.inr (tailAt_head_ne c6 _ (isDigit_ne_space p6)))
  have s4 := splitLast_cons_none c4 _ s5 (Or.inr (tailAt_head_ne c5 _ (isDigit_ne_space p5)))
  have s3 := splitLast_cons_none c3 _ s4 (Or.inr (tailAt_head_ne c4 _ (by rw [isC_eq p4]; decide)))
  have s2 := splitLast_cons_none c2 _ s3 (Or.inr (tailAt_head_ne c3 _ (isDigit_ne_space p3)))
  have s1 := splitLast_cons_none c1 _ s2 (Or.inr (tailAt_head_ne c2 _ (isDigit_ne_space p2)))
  have s0 := splitLast_cons_none c0 _ s1 (Or.inr (tailAt_head_ne c1 _ (isDigit_ne_space p1)))
  exact s0

theorem takeWhile_digits (ds : Str) (hd : ∀ c ∈ ds, c.isDigit = true) (code : Str) :
    (ds ++ ')' :: code).takeWhile Char.isDigit = ds ∧
    (ds ++ ')' :: code).dropWhile Char.isDigit = ')' :: code := by
  induction ds with
  | nil =>
    have : Char.isDigit ')' = false := by decide
    simp [List.takeWhile, List.dropWhile, this]
  | cons d ds ih =>
    have h := hd d (by simp)
    have ih' := ih (fun c hc => hd c (List.mem_cons_of_mem _ hc))
    simp [List.takeWhile, List.dropWhile, h, ih'.1, ih'.2]

/-- The tail of a generated line is recognised at the blanks that follow the author. -/
theorem tailAt_gen (ts ds code : Str) (hts : tsShape ts = true) (hne : ds ≠ [])
    (hd : ∀ c ∈ ds, c.isDigit = true) (a b : Nat) :
    tailAt (spaces (a + 1) ++ (ts ++ (spaces (b + 1) ++ (ds ++ ')' :: code)))) = some ⟨ts, ds, code⟩ := by
  obtain ⟨m, hm⟩ := tsShape_some ts hts
  have happ := matchPrefix_append tsPattern ts m (spaces (b + 1) ++ (ds ++ ')' :: code)) hm
  obtain ⟨c0, c1, c2, c3, c4, c5, c6, c7, c8, c9, c10, c11, c12, c13, c14, c15, c16, c17, c18, c19,
    c20, c21, c22, c23, c24, ets, p0, _⟩ := tsShape_destruct ts hts
  cases ds with
  | nil => exact absurd rfl hne
  | cons d ds' =>
    have hd0 := hd d (by simp)
    have h1 : dropSpaces1 (spaces (a + 1) ++ (ts ++ (spaces (b + 1) ++ (d :: ds' ++ ')' :: code)))) =
        some (ts ++ (spaces (b + 1) ++ (d :: ds' ++ ')' :: code))) := by
      rw [ets]
      exact dropSpaces1_spaces a c0 _ (isDigit_ne_space p0)
    have h3 : dropSpaces1 (spaces (b + 1) ++ (d :: ds' ++ ')' :: code)) = some (d :: ds' ++ ')' :: code) :=
      dropSpaces1_spaces b d _ (isDigit_ne_space hd0)
    have h4 := takeWhile_digits (d :: ds') hd code
    simp only [tailAt, h1, happ, h3]
    rw [h4.1, h4.2]
    simp

/-- ... and nowhere later, if the code contains no look-alike. -/
theorem splitLast_gen (ts ds code : Str) (hts : tsShape ts = true) (hne : ds ≠ [])
    (hd : ∀ c ∈ ds, c.isDigit = true) (hcode : noTail code = true) (a b : Nat) :
    splitLast (spaces (a + 1) ++ (ts ++ (spaces (b + 1) ++ (ds ++ ')' :: code)))) = none := by
  obtain ⟨c0, c1, c2, c3, c4, c5, c6, c7, c8, c9, c10, c11, c12, c13, c14, c15, c16, c17, c18, c19,
    c20, c21, c22, c23, c24, ets, p0, p1, p2, p3, p4, p5, p6, p7, p8, p9, p10, p11, p12, p13, p14,
    p15, p16, p17, p18, p19, p20, p21, p22, p23, p24⟩ := tsShape_destruct ts hts
  apply splitLast_spaces
  rw [ets]
  have hR : splitLast (spaces (b + 1) ++ (ds ++ ')' :: code)) = none :=
    splitLast_spaces _ _ (splitLast_digits ds hd code hcode)
  have tR : tailAt (spaces (b + 1) ++ (ds ++ ')' :: code)) = none := by
    cases ds with
    | nil => exact absurd rfl hne
    | cons d ds' =>
      have h3 : dropSpaces1 (spaces (b + 1) ++ (d :: ds' ++ ')' :: code)) = some (d :: ds' ++ ')' :: code) :=
        dropSpaces1_spaces b d _ (isDigit_ne_space (hd d (by simp)))
      have h4 := matchPrefix_digits_none (d :: ds') (by simp) hd code
      simp only [tailAt, h3, h4]
  exact splitLast_ts c0 c1 c2 c3 c4 c5 c6 c7 c8 c9 c10 c11 c12 c13 c14 c15 c16 c17 c18 c19 c20 c21 c22
    c23 c24 p0 p1 p2 p3 p4 p5 p6 p7 p8 p9 p10 p11 p12 p13 p14 p15 p16 p17 p18 p19 p20 p21 p22 p23 p24
    _ hR tR

/-- Greedy author: with no later candidate, the split is at the end of the author text. -/
theorem splitLast_author (a' : Str) (hne : a' ≠ []) (hlast : a'.getLast? ≠ some ' ') (S : Str)
    (t0 : Tail) (h1 : tailAt S = some t0) (h2 : splitLast S = none) :
    splitLast (a' ++ S) = some (a', t0) := by
  induction a' with
  | nil => exact absurd rfl hne
  | cons c rest ih =>
    cases rest with
    | nil =>
      have hc : c ≠ ' ' := by
        intro e; apply hlast; simp [e]
      simp [splitLast, h2, hc, h1]
    | cons c' rest' =>
      have ih' := ih (by simp) (by simpa [List.getLast?_cons_cons] using hlast)
      simp only [List.cons_append] at ih' ⊢
      simp only [splitLast]
      simp only [splitLast] at ih'
      rw [ih']

/-! ### commit and file column -/

theorem takeUpTo_all (p : Char → Bool) (n : Nat) (h : Str) (c : Char) (X : Str)
    (hall : ∀ x ∈ h, p x = true) (hlen : h.length ≤ n) (hc : p c = false) :
    takeUpTo p n (h ++ c :: X) = (h, c :: X) := by
  induction h generalizing n with
  | nil =>
    cases n with
    | zero => simp [takeUpTo]
    | succ n => simp [takeUpTo, hc]
  | cons x xs ih =>
    cases n with
    | zero => simp at hlen
    | succ n =>
      have hx := hall x (by simp)
      have ih' := ih n (fun y hy => hall y (List.mem_cons_of_mem _ hy)) (by simpa using hlen)
      simp [takeUpTo, hx, ih']

theorem span_paren (F T : Str) (hF : '(' ∉ F) :
    (F ++ ' ' :: '(' :: T).takeWhile (· != '(') = F ++ [' '] ∧
    (F ++ ' ' :: '(' :: T).dropWhile (· != '(') = '(' :: T := by
  induction F with
  | nil => simp [List.takeWhile, List.dropWhile]
  | cons x xs ih =>
    have hx : x ≠ '(' := fun e => hF (by simp [e])
    have ih' := ih (fun h => hF (List.mem_cons_of_mem _ h))
    simp [List.takeWhile, List.dropWhile, hx, ih'.1, ih'.2]

theorem afterCommit_gen (F T : Str) (hF : '(' ∉ F) : afterCommit (F ++ ' ' :: '(' :: T) = some T := by
  have h := span_paren F T hF
  simp [afterCommit, h.1, h.2]

/-- A commit column as git prints it: optional `^` (boundary commit), then 4 to 40 lower-case
hex digits. -/
def validCommit (c : Str) : Prop :=
  ∃ h, (c = h ∨ c = '^' :: h) ∧ 4 ≤ h.length ∧ h.length ≤ 40 ∧ ∀ x ∈ h, isHexLower x = true

theorem parseCommit_gen (c : Str) (hc : validCommit c) (X : Str) :
    parseCommit (c ++ ' ' :: X) = some (c, ' ' :: X) := by
  obtain ⟨h, hch, h4, h40, hall⟩ := hc
  have hsp : isHexLower ' ' = false := by decide
  have ht := takeUpTo_all isHexLower 40 h ' ' X hall h40 hsp
  rcases hch with e | e
  · subst e
    cases c with
    | nil => simp at h4
    | cons x xs =>
      have hx : x ≠ '^' := by
        intro e; have := hall x (by simp); rw [e] at this; revert this; decide
      unfold parseCommit
      split
      · rename_i heq
        simp only [List.cons_append] at heq
        injection heq with h1 _
        exact absurd h1 hx
      · simp only [ht]
        have : ¬ (x :: xs).length < 4 := by omega
        rw [if_neg this]
  · subst e
    simp only [List.cons_append, parseCommit, ht]
    have : ¬ h.length < 4 := by omega
    rw [if_neg this]

/-- Core of the round trip, with the file column `F` (empty, or a blank and the file name). -/
theorem parse_fmt_core (commit author ts : Str) (n : Nat) (code : Str) (F : Str) (padA padB : Nat)
    (hc : validCommit commit) (hF : '(' ∉ F) (hF2 : F = [] ∨ ∃ f, F = ' ' :: f)
    (ha : 2 ≤ author.length) (ha0 : author.head? ≠ some ' ') (ha1 : author.getLast? ≠ some ' ')
    (hts : tsShape ts = true) (htv : tsValid ts = true) (htn : normTs ts = ts)
    (hn : n < 2 ^ 64) (hcode : noTail code = true) :
    parseBlame 0 (commit ++ (F ++ ' ' :: '(' :: (author ++
      (spaces (padA + 1) ++ (ts ++ (spaces (padB + 1) ++ (Nat.toDigits 10 n ++ ')' :: code)))))))
      = some ⟨commit, author, ts, n, code⟩ := by
  have hds_ne : Nat.toDigits 10 n ≠ [] := Nat.toDigits_ne_nil
  have hds : ∀ c ∈ Nat.toDigits 10 n, c.isDigit = true :=
    fun c hc => Nat.isDigit_of_mem_toDigits (by decide) (by decide) hc
  have hS1 := tailAt_gen ts (Nat.toDigits 10 n) code hts hds_ne hds padA padB
  have hS2 := splitLast_gen ts (Nat.toDigits 10 n) code hts hds_ne hds hcode padA padB
  match author, ha, ha0, ha1 with
  | c0 :: c1 :: rest, _, ha0, ha1 =>
    have hc0 : c0 ≠ ' ' := by
      intro e; apply ha0; simp [e]
    have hlast : (c1 :: rest).getLast? ≠ some ' ' := by
      simpa [List.getLast?_cons_cons] using ha1
    have hsplit := splitLast_author (c1 :: rest) (by simp) hlast _ _ hS1 hS2
    have hY : ∃ X, F ++ ' ' :: '(' :: (c0 :: c1 :: rest ++
          (spaces (padA + 1) ++ (ts ++ (spaces (padB + 1) ++ (Nat.toDigits 10 n ++ ')' :: code))))) = ' ' :: X := by
      rcases hF2 with e | ⟨f, e⟩
      · subst e; exact ⟨_, rfl⟩
      · subst e; exact ⟨_, rfl⟩
    obtain ⟨X, hX⟩ := hY
    have hpc := parseCommit_gen commit hc X
    have hac := afterCommit_gen F (c0 :: c1 :: rest ++
          (spaces (padA + 1) ++ (ts ++ (spaces (padB + 1) ++ (Nat.toDigits 10 n ++ ')' :: code))))) hF
    rw [hX]
    simp only [parseBlame, hpc]
    rw [← hX, hac]
    simp only [List.cons_append] at hsplit ⊢
    simp only [authorAndTail, hc0, if_false, if_true, hsplit, htv, Nat.ofDigitChars_ten_toDigits, hn, htn]

/-- `parse_git_blame_line` inverts the blame line format (author pattern: greedy, two or more
characters), provided the code contains no text that looks like the end of a blame prefix. -/
theorem parse_fmt_greedy (r : BlameRec) (file : Option Str) (padA padB : Nat)
    (hc : validCommit r.commit) (hf : ∀ f, file = some f → '(' ∉ f)
    (ha : 2 ≤ r.author.length) (ha0 : r.author.head? ≠ some ' ') (ha1 : r.author.getLast? ≠ some ' ')
    (hts : tsShape r.ts = true) (htv : tsValid r.ts = true) (htn : normTs r.ts = r.ts)
    (hn : r.lineNumber < 2 ^ 64) (hcode : noTail r.code = true) :
    parseBlame 0 (fmtBlame r file padA padB) = some r := by
  obtain ⟨commit, author, ts, n, code⟩ := r
  simp only at hc ha ha0 ha1 hts htv htn hn hcode
  cases file with
  | none =>
    have := parse_fmt_core commit author ts n code [] padA padB hc (by simp) (Or.inl rfl)
      ha ha0 ha1 hts htv htn hn hcode
    simpa [fmtBlame] using this
  | some f =>
    have hF : '(' ∉ (' ' :: f) := by
      simp only [List.mem_cons, not_or]
      exact ⟨by decide, hf f rfl⟩
    have := parse_fmt_core commit author ts n code (' ' :: f) padA padB hc hF (Or.inr ⟨f, rfl⟩)
      ha ha0 ha1 hts htv htn hn hcode
    simpa [fmtBlame] using this

/-! ### shortest-match author (`authorMode = 1`) -/

/-- No blank of the author is directly followed by a digit (so no later word of the author can be
the start of a timestamp). -/
def noBlankDigit : Str → Bool
  | a :: b :: r => !(a == ' ' && b.isDigit) && noBlankDigit (b :: r)
  | _ => true

theorem noBlankDigit_tail (c : Char) (v : Str) (h : noBlankDigit (c :: v) = true) : noBlankDigit v = true := by
  cases v with
  | nil => rfl
  | cons b r =>
    simp only [noBlankDigit, Bool.and_eq_true] at h
    exact h.2

theorem noBlankDigit_suffix (u v : Str) (h : noBlankDigit (u ++ v) = true) : noBlankDigit v = true := by
  induction u with
  | nil => simpa using h
  | cons c u ih => exact ih (noBlankDigit_tail c (u ++ v) h)

/-- After a blank, blanks and then a non-digit: no timestamp starts here. -/
theorem tailAt_blank_clean (v' S : Str) (hcl : noBlankDigit (' ' :: v') = true)
    (hlast : (' ' :: v').getLast? ≠ some ' ') : tailAt (' ' :: v' ++ S) = none := by
  induction v' with
  | nil => simp at hlast
  | cons b r ih =>
    by_cases hb : b = ' '
    · subst hb
      have hcl' := noBlankDigit_tail ' ' (' ' :: r) hcl
      have hlast' : (' ' :: r).getLast? ≠ some ' ' := by
        simpa [List.getLast?_cons_cons] using hlast
      have := ih hcl' hlast'
      -- one more leading blank does not change what follows the blanks
      simp only [tailAt, List.cons_append, dropSpaces1] at this ⊢
      simpa [List.dropWhile] using this
    · have hnd : b.isDigit = false := by
        simp only [noBlankDigit, Bool.and_eq_true] at hcl
        have := hcl.1
        simpa using this
      have h1 : dropSpaces1 (' ' :: b :: (r ++ S)) = some (b :: (r ++ S)) := by
        have := dropSpaces1_spaces 0 b (r ++ S) hb
        simpa [spaces] using this
      have h2 : matchPrefix tsPattern (b :: (r ++ S)) = none := by
        simp [matchPrefix, tsPattern, hnd]
      simp only [List.cons_append, tailAt, h1, h2]

theorem tailAt_clean (v S : Str) (hne : v ≠ []) (hcl : noBlankDigit v = true)
    (hlast : v.getLast? ≠ some ' ') : tailAt (v ++ S) = none := by
  cases v with
  | nil => exact absurd rfl hne
  | cons c v' =>
    by_cases hc : c = ' '
    · subst hc; exact tailAt_blank_clean v' S hcl hlast
    · exact tailAt_head_ne c _ hc

theorem splitFirst_author (a' : Str) (hne : a' ≠ []) (hlast : a'.getLast? ≠ some ' ')
    (hcl : noBlankDigit a' = true) (S : Str) (t0 : Tail) (h1 : tailAt S = some t0) :
    splitFirst (a' ++ S) = some (a', t0) := by
  induction a' with
  | nil => exact absurd rfl hne
  | cons c rest ih =>
    cases rest with
    | nil =>
      have hc : c ≠ ' ' := by
        intro e; apply hlast; simp [e]
      simp [splitFirst, hc, h1]
    | cons c' rest' =>
      have hlast' : (c' :: rest').getLast? ≠ some ' ' := by
        simpa [List.getLast?_cons_cons] using hlast
      have hcl' := noBlankDigit_tail c (c' :: rest') hcl
      have ih' := ih (by simp) hlast' hcl'
      have hnone : tailAt (c' :: rest' ++ S) = none := tailAt_clean (c' :: rest') S (by simp) hcl' hlast'
      simp only [List.cons_append] at ih' hnone ⊢
      by_cases hc : c = ' '
      · subst hc
        simp only [splitFirst]
        simp only [splitFirst] at ih'
        simp [ih']
      · simp only [splitFirst, hc, hnone]
        simp only [splitFirst] at ih'
        simp [ih']

/-- Core of the round trip for the shortest-match author pattern. -/
theorem parse_fmt_core_lazy (commit author ts : Str) (n : Nat) (code : Str) (F : Str) (padA padB : Nat)
    (hc : validCommit commit) (hF : '(' ∉ F) (hF2 : F = [] ∨ ∃ f, F = ' ' :: f)
    (ha : 1 ≤ author.length) (ha0 : author.head? ≠ some ' ') (ha1 : author.getLast? ≠ some ' ')
    (hcl : noBlankDigit author = true)
    (hts : tsShape ts = true) (htv : tsValid ts = true) (htn : normTs ts = ts) (hn : n < 2 ^ 64) :
    parseBlame 1 (commit ++ (F ++ ' ' :: '(' :: (author ++
      (spaces (padA + 1) ++ (ts ++ (spaces (padB + 1) ++ (Nat.toDigits 10 n ++ ')' :: code)))))))
      = some ⟨commit, author, ts, n, code⟩ := by
  have hds_ne : Nat.toDigits 10 n ≠ [] := Nat.toDigits_ne_nil
  have hds : ∀ c ∈ Nat.toDigits 10 n, c.isDigit = true :=
    fun c hc => Nat.isDigit_of_mem_toDigits (by decide) (by decide) hc
  have hS1 := tailAt_gen ts (Nat.toDigits 10 n) code hts hds_ne hds padA padB
  match author, ha, ha0, ha1, hcl with
  | c0 :: rest, _, ha0, ha1, hcl =>
    have hc0 : c0 ≠ ' ' := by
      intro e; apply ha0; simp [e]
    have hY : ∃ X, F ++ ' ' :: '(' :: (c0 :: rest ++
          (spaces (padA + 1) ++ (ts ++ (spaces (padB + 1) ++ (Nat.toDigits 10 n ++ ')' :: code))))) = ' ' :: X := by
      rcases hF2 with e | ⟨f, e⟩
      · subst e; exact ⟨_, rfl⟩
      · subst e; exact ⟨_, rfl⟩
    obtain ⟨X, hX⟩ := hY
    have hpc := parseCommit_gen commit hc X
    have hac := afterCommit_gen F (c0 :: rest ++
          (spaces (padA + 1) ++ (ts ++ (spaces (padB + 1) ++ (Nat.toDigits 10 n ++ ')' :: code))))) hF
    rw [hX]
    simp only [parseBlame, hpc]
    rw [← hX, hac]
    cases rest with
    | nil =>
      have hn' : n < 18446744073709551616 := by simpa using hn
      simp only [List.cons_append, List.nil_append]
      simp [authorAndTail, hc0, hS1, htv, Nat.ofDigitChars_ten_toDigits, hn', htn]
    | cons c1 rest' =>
      have hlast : (c1 :: rest').getLast? ≠ some ' ' := by
        simpa [List.getLast?_cons_cons] using ha1
      have hcl' := noBlankDigit_tail c0 (c1 :: rest') hcl
      have hnone : tailAt (c1 :: rest' ++ _) = none :=
        tailAt_clean (c1 :: rest') (spaces (padA + 1) ++ (ts ++ (spaces (padB + 1) ++ (Nat.toDigits 10 n ++ ')' :: code))))
          (by simp) hcl' hlast
      have hsplit := splitFirst_author (c1 :: rest') (by simp) hlast hcl' _ _ hS1
      simp only [List.cons_append] at hsplit hnone ⊢
      have hn' : n < 18446744073709551616 := by simpa using hn
      simp [authorAndTail, hc0, hnone, hsplit, htv, Nat.ofDigitChars_ten_toDigits, hn', htn]

/-- `parse_git_blame_line` inverts the blame line format (author pattern: shortest match, one or
more characters), provided no blank of the author is directly followed by a digit. The code is
arbitrary. -/
theorem parse_fmt_lazy (r : BlameRec) (file : Option Str) (padA padB : Nat)
    (hc : validCommit r.commit) (hf : ∀ f, file = some f → '(' ∉ f)
    (ha : 1 ≤ r.author.length) (ha0 : r.author.head? ≠ some ' ') (ha1 : r.author.getLast? ≠ some ' ')
    (hcl : noBlankDigit r.author = true)
    (hts : tsShape r.ts = true) (htv : tsValid r.ts = true) (htn : normTs r.ts = r.ts)
    (hn : r.lineNumber < 2 ^ 64) :
    parseBlame 1 (fmtBlame r file padA padB) = some r := by
  obtain ⟨commit, author, ts, n, code⟩ := r
  simp only at hc ha ha0 ha1 hcl hts htv htn hn
  cases file with
  | none =>
    have := parse_fmt_core_lazy commit author ts n code [] padA padB hc (by simp) (Or.inl rfl)
      ha ha0 ha1 hcl hts htv htn hn
    simpa [fmtBlame] using this
  | some f =>
    have hF : '(' ∉ (' ' :: f) := by
      simp only [List.mem_cons, not_or]
      exact ⟨by decide, hf f rfl⟩
    have := parse_fmt_core_lazy commit author ts n code (' ' :: f) padA padB hc hF (Or.inr ⟨f, rfl⟩)
      ha ha0 ha1 hcl hts htv htn hn
    simpa [fmtBlame] using this

end Blame
