import DeltaModel.InputPath
/-!
Lemmas about the pipe / reader LTS of `DeltaModel/InputPath.lean` (C11, the input side).
-/
namespace InputPath

theorem feed_append (d : Nat) (st : List Nat × List (List Nat)) (a b : List Nat) :
    feed d st (a ++ b) = feed d (feed d st a) b := by
  induction a generalizing st with
  | nil => simp [feed]
  | cons x xs ih =>
    obtain ⟨cur, h⟩ := st
    simp only [List.cons_append, feed]
    split <;> exact ih _

theorem split_none {d : Nat} {buf : List Nat} (h : splitAtDelim d buf = none) (cur : List Nat) (hd : List (List Nat)) :
    feed d (cur, hd) buf = (cur ++ buf, hd) := by
  induction buf generalizing cur with
  | nil => simp [feed]
  | cons x xs ih =>
    simp only [splitAtDelim] at h
    split at h
    · cases h
    · rename_i hx
      split at h
      · cases h
      · rename_i hn
        simp only [feed, hx, if_false]
        rw [ih hn]; simp

theorem split_some {d : Nat} {buf l r : List Nat} (h : splitAtDelim d buf = some (l, r)) (cur : List Nat)
    (hd : List (List Nat)) : buf = l ++ r ∧ l ≠ [] ∧ feed d (cur, hd) l = ([], hd ++ [cur ++ l]) := by
  induction buf generalizing cur l with
  | nil => simp [splitAtDelim] at h
  | cons x xs ih =>
    simp only [splitAtDelim] at h
    split at h
    · rename_i hx
      cases h
      simp [feed, hx]
    · rename_i hx
      split at h
      · rename_i l' r' hs
        cases h
        obtain ⟨e, _, f⟩ := ih hs (cur ++ [x])
        refine ⟨by rw [e]; rfl, by simp, ?_⟩
        simp only [feed, hx, if_false]
        rw [f]; simp
      · cases h

theorem clip_pos (w a n : Nat) : 1 ≤ clip w a n := by unfold clip; omega
theorem clip_le (w a n : Nat) (h : 1 ≤ a) : clip w a n ≤ a := by unfold clip; omega

/-- the invariant of a program without eager read -/
structure Inv (p : Prog) (s : S) : Prop where
  noEager : s.eager = none
  running : s.done = false → ∃ consumed, consumed ++ s.buf ++ s.pipe = s.sent ∧ feed p.delim ([], []) consumed = (s.cur, s.handed)
  finished : s.done = true → s.closed = true ∧ s.buf = [] ∧ s.pipe = [] ∧ s.cur = [] ∧
    s.handed = completeLines p.delim s.sent ++ (if partialLine p.delim s.sent = [] then [] else [partialLine p.delim s.sent])

theorem inv_init {p : Prog} (hp : p.eager = none) : Inv p (init p) :=
  ⟨hp, fun _ => ⟨[], rfl, rfl⟩, fun h => by simp [init] at h⟩

theorem cstepLines_frame {p : Prog} {n : Nat} {s s' : S} (e : cstepLines p n s = some s') :
    s'.sent = s.sent ∧ s'.closed = s.closed ∧ s'.eager = s.eager := by
  unfold cstepLines at e
  iterate 6 (all_goals (first | (cases e; done) | (simp only [Option.some.injEq] at e; subst e; exact ⟨rfl, rfl, rfl⟩) | split at e | skip))

theorem cstepEager_frame {p : Prog} {n : Nat} {s s' : S} {g : Eager} (e : cstepEager p n s g = some s') :
    s'.sent = s.sent ∧ s'.closed = s.closed ∧ s'.handed = s.handed ∧ s'.done = s.done := by
  unfold cstepEager at e
  iterate 6 (all_goals (first | (cases e; done) | (simp only [Option.some.injEq] at e; subst e; exact ⟨rfl, rfl, rfl, rfl⟩) | split at e | skip))

theorem cstep_frame {p : Prog} {n : Nat} {s s' : S} (e : cstep p n s = some s') :
    s'.sent = s.sent ∧ s'.closed = s.closed := by
  unfold cstep at e
  split at e
  · cases e
  · split at e
    · exact ⟨(cstepEager_frame e).1, (cstepEager_frame e).2.1⟩
    · exact ⟨(cstepLines_frame e).1, (cstepLines_frame e).2.1⟩

theorem cstep_lines {p : Prog} {n : Nat} {s : S} (hd : s.done = false) (ne : s.eager = none) :
    cstep p n s = cstepLines p n s := by simp [cstep, hd, ne]

theorem cstep_eager {p : Prog} {n : Nat} {s : S} {g : Eager} (hd : s.done = false) (he : s.eager = some g) :
    cstep p n s = cstepEager p n s g := by simp [cstep, hd, he]

theorem cstep_done {p : Prog} {n : Nat} {s : S} (hd : s.done = true) : cstep p n s = none := by simp [cstep, hd]

theorem inv_cstep {p : Prog} {n : Nat} {s s' : S} (i : Inv p s) (e : cstep p n s = some s') : Inv p s' := by
  have ne := i.noEager
  cases hd : s.done with
  | true => rw [cstep_done hd] at e; cases e
  | false =>
    rw [cstep_lines hd ne] at e
    obtain ⟨c, hc, hf⟩ := i.running hd
    unfold cstepLines at e
    split at e
    · rename_i hb
      split at e
      · rename_i hp
        split at e
        · rename_i hcl
          simp only [Option.some.injEq] at e; subst e
          rw [hb, hp] at hc
          simp only [List.append_nil] at hc
          subst hc
          refine ⟨ne, fun h => by simp at h, fun _ => ⟨hcl, hb, hp, rfl, ?_⟩⟩
          simp only [completeLines, partialLine, hf]
          split <;> simp_all
        · cases e
      · rename_i x xs hp
        simp only [Option.some.injEq] at e; subst e
        refine ⟨ne, fun _ => ⟨c, ?_, hf⟩, fun h => by simp [hd] at h⟩
        simp only
        rw [← hc, hb, List.append_nil, List.append_assoc, List.take_append_drop]
    · rename_i x xs hb
      split at e
      · rename_i l r hs
        simp only [Option.some.injEq] at e; subst e
        obtain ⟨e1, _, e2⟩ := split_some hs s.cur s.handed
        refine ⟨ne, fun _ => ⟨c ++ l, ?_, ?_⟩, fun h => by simp [hd] at h⟩
        · simp only; rw [← hc, e1]; simp
        · simp only; rw [feed_append, hf, e2]
      · rename_i hs
        simp only [Option.some.injEq] at e; subst e
        refine ⟨ne, fun _ => ⟨c ++ s.buf, ?_, ?_⟩, fun h => by simp [hd] at h⟩
        · simp only; rw [← hc]; simp
        · simp only; rw [feed_append, hf, split_none hs]

theorem inv_apply {p : Prog} {s : S} (i : Inv p s) (ev : Ev) : Inv p (apply p s ev) := by
  cases ev with
  | write c =>
    simp only [apply]
    split
    · exact i
    · rename_i hcl
      refine ⟨i.noEager, fun hd => ?_, fun hd => ?_⟩
      · obtain ⟨c0, hc, hf⟩ := i.running hd
        exact ⟨c0, by simp only; rw [← hc]; simp, hf⟩
      · exact absurd (i.finished hd).1 hcl
  | close =>
    refine ⟨i.noEager, i.running, fun hd => ?_⟩
    obtain ⟨_, a, b, c, d⟩ := i.finished hd
    exact ⟨rfl, a, b, c, d⟩
  | cons n =>
    simp only [apply]
    cases e : cstep p n s with
    | none => exact i
    | some s' => exact inv_cstep i e

theorem inv_exec {p : Prog} {s : S} (i : Inv p s) (evs : List Ev) : Inv p (exec p s evs) := by
  induction evs generalizing s with
  | nil => exact i
  | cons ev evs ih => exact ih (inv_apply i ev)

/-- whether the consumer can move does not depend on the scheduler's choice of read size -/
theorem cstep_none_indep {p : Prog} {n n' : Nat} {s : S} (e : cstep p n s = none) : cstep p n' s = none := by
  unfold cstep at e ⊢
  split
  · rfl
  · rename_i hd
    simp only [hd] at e
    split
    · rename_i g hg
      rw [hg] at e
      simp only at e
      unfold cstepEager at e ⊢
      iterate 6 (all_goals (first | (cases e; done) | (simp_all; done) | split at e | skip))
    · rename_i hg
      rw [hg] at e
      simp only at e
      unfold cstepLines at e ⊢
      iterate 6 (all_goals (first | (cases e; done) | (simp_all; done) | split at e | skip))

/-- the measure that decreases with every consumer step (no eager read) -/
def mu (s : S) : Nat := 2 * s.pipe.length + s.buf.length + (if s.done then 0 else 1)

theorem mu_cstep {p : Prog} {n : Nat} {s s' : S} (ne : s.eager = none) (e : cstep p n s = some s') : mu s' < mu s := by
  cases hd : s.done with
  | true => rw [cstep_done hd] at e; cases e
  | false =>
    rw [cstep_lines hd ne] at e
    unfold cstepLines at e
    split at e
    · rename_i hb
      split at e
      · split at e
        · simp only [Option.some.injEq] at e; subst e
          simp [mu, hd]
        · cases e
      · rename_i x xs hp
        simp only [Option.some.injEq] at e; subst e
        have h1 := clip_pos p.cap s.pipe.length n
        have h2 := clip_le p.cap s.pipe.length n (by rw [hp]; simp)
        simp only [mu, hd, hb, List.length_take, List.length_drop, List.length_nil]
        omega
    · rename_i x xs hb
      split at e
      · rename_i l r hs
        simp only [Option.some.injEq] at e; subst e
        obtain ⟨e1, e0, _⟩ := split_some hs [] []
        have : 0 < l.length := List.length_pos_iff.mpr e0
        simp only [mu, hd, e1, List.length_append]
        omega
      · simp only [Option.some.injEq] at e; subst e
        simp [mu, hd, hb]

theorem settle_inv {p : Prog} {hint : Nat → Nat} (f : Nat) {s : S} (i : Inv p s) :
    Inv p (settle p hint f s) ∧ (settle p hint f s).sent = s.sent ∧ (settle p hint f s).closed = s.closed := by
  induction f generalizing s with
  | zero => exact ⟨i, rfl, rfl⟩
  | succ f ih =>
    simp only [settle]
    cases e : cstep p (hint f) s with
    | none => exact ⟨i, rfl, rfl⟩
    | some s' =>
      obtain ⟨a, b, c⟩ := ih (inv_cstep i e)
      obtain ⟨b', c'⟩ := cstep_frame e
      exact ⟨a, b.trans b', c.trans c'⟩

theorem settle_blocked {p : Prog} {hint : Nat → Nat} (f : Nat) {s : S} (ne : s.eager = none) (h : mu s ≤ f) (n : Nat) :
    cstep p n (settle p hint f s) = none := by
  induction f generalizing s with
  | zero =>
    have : s.done = true := by
      cases hd : s.done with
      | true => rfl
      | false => simp [mu, hd] at h
    simp [settle, cstep, this]
  | succ f ih =>
    simp only [settle]
    cases e : cstep p (hint f) s with
    | none => exact cstep_none_indep e
    | some s' =>
      have := mu_cstep ne e
      exact ih ((inv_eager e ne)) (by omega)
where
  inv_eager {p : Prog} {n : Nat} {s s' : S} (e : cstep p n s = some s') (ne : s.eager = none) : s'.eager = none := by
    cases hd : s.done with
    | true => rw [cstep_done hd] at e; cases e
    | false => rw [cstep_lines hd ne] at e; exact (cstepLines_frame e).2.2.trans ne

theorem mu_le_fuel (s : S) : mu s ≤ fuelFor s := by
  unfold mu fuelFor; split <;> omega

/-- what a consumer that cannot move has done -/
theorem blocked_spec {p : Prog} {s : S} (i : Inv p s) {n : Nat} (e : cstep p n s = none) :
    s.buf = [] ∧ s.pipe = [] ∧
    (s.closed = false → s.done = false ∧ s.handed = completeLines p.delim s.sent ∧ s.cur = partialLine p.delim s.sent) ∧
    (s.closed = true → s.done = true ∧ s.cur = [] ∧
      s.handed = completeLines p.delim s.sent ++ (if partialLine p.delim s.sent = [] then [] else [partialLine p.delim s.sent])) := by
  cases hd : s.done with
  | true =>
    obtain ⟨a, b, c, d, f⟩ := i.finished hd
    exact ⟨b, c, fun h => by simp [a] at h, fun _ => ⟨rfl, d, f⟩⟩
  | false =>
    obtain ⟨c, hc, hf⟩ := i.running hd
    rw [cstep_lines hd i.noEager] at e
    unfold cstepLines at e
    split at e
    · rename_i hb
      split at e
      · rename_i hp
        split at e
        · cases e
        · rename_i hcl
          have hcl : s.closed = false := by simpa using hcl
          rw [hb, hp] at hc
          simp only [List.append_nil] at hc
          subst hc
          refine ⟨hb, hp, fun _ => ⟨rfl, ?_, ?_⟩, fun h => by simp [hcl] at h⟩
          · simp [completeLines, hf]
          · simp [partialLine, hf]
      · cases e
    · split at e <;> cases e

/-- "every line is consumed as soon as it has been written", for program `p`, schedule `evs` (writes of chunks of any
size at any time, consumer steps with any read size, possibly a close) and read sizes `hint` during the pause: when the
producer pauses after `evs`, the consumer — left alone — comes to rest (`cstep = none` whatever the next read size: it is
blocked in `read`, or has seen the end of input) with nothing in the pipe and nothing in its buffer; if the pipe is
open it has handed on exactly the complete lines of the bytes written so far and holds the unterminated rest as the
beginning of the next line; if the pipe is closed it has finished and has handed on that rest as the last line. -/
def ConsumedAsWritten (p : Prog) (evs : List Ev) (hint : Nat → Nat) : Prop :=
  let s := exec p (init p) evs
  let s' := settle p hint (fuelFor s) s
  (∀ n, cstep p n s' = none) ∧ s'.sent = s.sent ∧ s'.closed = s.closed ∧ s'.buf = [] ∧ s'.pipe = [] ∧
  (s.closed = false → s'.done = false ∧ s'.handed = completeLines p.delim s.sent ∧ s'.cur = partialLine p.delim s.sent) ∧
  (s.closed = true → s'.done = true ∧ s'.cur = [] ∧
    s'.handed = completeLines p.delim s.sent ++ (if partialLine p.delim s.sent = [] then [] else [partialLine p.delim s.sent]))

/-- **the general statement**: it holds for every program without an eager read in front, every schedule, every choice
of read sizes. -/
theorem consumed_as_written {p : Prog} (hp : p.eager = none) (evs : List Ev) (hint : Nat → Nat) :
    ConsumedAsWritten p evs hint := by
  unfold ConsumedAsWritten
  intro s s'
  have i : Inv p s := inv_exec (inv_init hp) evs
  obtain ⟨i', hs, hc⟩ := settle_inv (hint := hint) (fuelFor s) i
  have hb : ∀ n, cstep p n s' = none := fun n => settle_blocked (fuelFor s) i.noEager (mu_le_fuel s) n
  obtain ⟨b1, b2, b3, b4⟩ := blocked_spec i' (hb 0)
  refine ⟨hb, hs, hc, b1, b2, ?_, ?_⟩
  · intro h; have := b3 (hc.trans h); rw [hs] at this; exact this
  · intro h; have := b4 (hc.trans h); rw [hs] at this; exact this

-- ---------------------------------------------------------------------------------------------- an eager read in front

/-- invariant of a program that starts with `take(N).read_to_end`: while fewer than N bytes have been written (and
the pipe is open) the eager read is still running and nothing has been handed on -/
def EInv (N : Nat) (s : S) : Prop :=
  s.closed = false ∧
    ((s.eager = some (.upTo N) ∧ s.handed = [] ∧ s.done = false ∧ s.acc ++ s.pipe = s.sent) ∨ N ≤ s.sent.length)

theorem einv_apply {p : Prog} {N : Nat} {s : S} (i : EInv N s) (ev : Ev) (hne : ev ≠ .close) : EInv N (apply p s ev) := by
  obtain ⟨hc, h⟩ := i
  cases ev with
  | close => exact absurd rfl hne
  | write c =>
    have ea : apply p s (.write c) = { s with sent := s.sent ++ c, pipe := s.pipe ++ c } := by simp [apply, hc]
    rw [ea]
    refine ⟨hc, ?_⟩
    rcases h with ⟨a, b, c', d⟩ | h
    · exact .inl ⟨a, b, c', by simp only; rw [← d]; simp⟩
    · exact .inr (by simp only [List.length_append]; omega)
  | cons n =>
    cases e : cstep p n s with
    | none => simp only [apply, e, Option.getD_none]; exact ⟨hc, h⟩
    | some s' =>
      simp only [apply, e, Option.getD_some]
      obtain ⟨fs, fc⟩ := cstep_frame e
      refine ⟨fc.trans hc, ?_⟩
      rcases h with ⟨a, b, c', d⟩ | h
      · rw [cstep_eager c' a] at e
        unfold cstepEager at e
        split at e
        · rename_i hw
          simp only [wantOf] at hw
          refine .inr ?_
          rw [fs, ← d, List.length_append]; omega
        · split at e
          · simp [hc] at e
          · simp only [Option.some.injEq] at e; subst e
            refine .inl ⟨a, b, c', ?_⟩
            simp only
            rw [← d, List.append_assoc, List.take_append_drop]
      · exact .inr (by rw [fs]; exact h)

theorem einv_exec {p : Prog} {N : Nat} {s : S} (i : EInv N s) (evs : List Ev) (hne : ∀ ev ∈ evs, ev ≠ .close) :
    EInv N (exec p s evs) := by
  induction evs generalizing s with
  | nil => exact i
  | cons ev evs ih =>
    exact ih (einv_apply i ev (hne ev (by simp))) (fun e he => hne e (by simp [he]))

/-- **an eager read in front holds every line back**: a program that starts with `take(N).read_to_end(..)` (the shape of
the seeded change C11-w6-01, N = 8000) has handed nothing to the state machine as long as fewer than N bytes have been
written and the pipe is open — however many complete lines these bytes contain, and for every schedule. -/
theorem eager_read_hands_nothing {p : Prog} {N : Nat} (hp : p.eager = some (.upTo N)) (evs : List Ev)
    (hne : ∀ ev ∈ evs, ev ≠ .close) (hlt : (exec p (init p) evs).sent.length < N) :
    (exec p (init p) evs).handed = [] ∧ (exec p (init p) evs).done = false := by
  have i : EInv N (init p) := ⟨rfl, .inl ⟨hp, rfl, rfl, rfl⟩⟩
  obtain ⟨_, ⟨_, b, c, _⟩ | h⟩ := einv_exec (p := p) i evs hne
  · exact ⟨b, c⟩
  · omega

end InputPath
