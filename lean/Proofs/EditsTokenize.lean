import DeltaModel.Edits
/-! `tokenize`: the tokens partition the line, the first token is empty, and it cannot fail on
spans that are ordered and in range (what `Regex::find_iter` yields). -/
namespace Edits

theorem slice_ok {β : Type} {l : List β} {a b : Nat} {r : List β} (h : slice l a b = .ok r) :
    a ≤ b ∧ b ≤ l.length ∧ r = (l.drop a).take (b - a) := by
  unfold slice at h
  split at h
  · rename_i hc
    exact ⟨hc.1, hc.2, by injection h with h; exact h.symm⟩
  · cases h

theorem slice_eq_ok {β : Type} (l : List β) {a b : Nat} (hab : a ≤ b) (hb : b ≤ l.length) :
    slice l a b = .ok ((l.drop a).take (b - a)) := by
  unfold slice; rw [if_pos ⟨hab, hb⟩]

theorem take_append_slice {β : Type} (l : List β) {a b : Nat} (hab : a ≤ b) :
    l.take a ++ (l.drop a).take (b - a) = l.take b := by
  have : b = a + (b - a) := by omega
  conv => rhs; rw [this, List.take_add]

theorem flatten_map_singleton {β : Type} (l : List β) : (l.map fun g => [g]).flatten = l := by
  induction l with
  | nil => rfl
  | cons a l ih => simp [ih]

/-- Spans as `find_iter` yields them: ordered, non-overlapping, within the line. -/
def SpansOk (len : Nat) : Nat → List (Nat × Nat) → Prop
  | _, [] => True
  | off, (s, e) :: ms => off ≤ s ∧ s ≤ e ∧ e ≤ len ∧ SpansOk len e ms

theorem tokenizeLoop_inv (line : List G) :
    ∀ (ms : List (Nat × Nat)) (off : Nat) (toks : List Tok) (off' : Nat) (toks' : List Tok),
      tokenizeLoop line ms off toks = .ok (off', toks') →
      toks.flatten = line.take off → off ≤ line.length → toks ≠ [] →
      toks'.flatten = line.take off' ∧ off' ≤ line.length ∧ toks'.head? = toks.head? ∧ toks' ≠ [] := by
  intro ms
  induction ms with
  | nil =>
    intro off toks off' toks' h hf hl hne
    simp only [tokenizeLoop, Except.ok.injEq, Prod.mk.injEq] at h
    obtain ⟨rfl, rfl⟩ := h
    exact ⟨hf, hl, rfl, hne⟩
  | cons se ms ih =>
    intro off toks off' toks' h hf hl hne
    obtain ⟨s, e⟩ := se
    simp only [tokenizeLoop] at h
    split at h
    · rename_i gap m hg hm
      obtain ⟨h1, h2, rfl⟩ := slice_ok hg
      obtain ⟨h3, h4, rfl⟩ := slice_ok hm
      have hne1 : (if off = 0 ∧ s > 0 then toks ++ [[]] else toks) ≠ [] := by
        split <;> simp [hne]
      have hfl1 : (if off = 0 ∧ s > 0 then toks ++ [[]] else toks).flatten = line.take off := by
        split <;> simp [hf]
      have hhd1 : (if off = 0 ∧ s > 0 then toks ++ [[]] else toks).head? = toks.head? := by
        split
        · cases toks with
          | nil => exact absurd rfl hne
          | cons a t => rfl
        · rfl
      have := ih e _ off' toks' h (by
        rw [List.flatten_append, List.flatten_append, hfl1, flatten_map_singleton]
        simp only [List.flatten_cons, List.flatten_nil, List.append_nil]
        rw [take_append_slice line h1, take_append_slice line h3]) h4 (by simp)
      refine ⟨this.1, this.2.1, ?_, this.2.2.2⟩
      rw [this.2.2.1, ← hhd1]
      generalize (if off = 0 ∧ s > 0 then toks ++ [[]] else toks) = T at hne1 ⊢
      cases T with
      | nil => exact absurd rfl hne1
      | cons a t => rfl
    · cases h

/-- `tokenize_partition`: a successful tokenisation concatenates to the line and starts with
the empty token. -/
theorem tokenize_partition_aux (line : List G) (spans : List (Nat × Nat)) (toks : List Tok)
    (h : tokenize line spans = .ok toks) : toks.flatten = line ∧ toks.head? = some [] := by
  unfold tokenize at h
  split at h
  · cases h
  · rename_i off toks0 hloop
    have inv := tokenizeLoop_inv line spans 0 [[]] off toks0 hloop (by simp) (by omega) (by simp)
    split at h
    · rename_i hlt
      have hfl1 : (if off = 0 then toks0 ++ [[]] else toks0).flatten = line.take off := by
        split <;> simp [inv.1]
      have hhd : (if off = 0 then toks0 ++ [[]] else toks0).head? = some [] := by
        split
        · cases toks0 with
          | nil => exact absurd rfl inv.2.2.2
          | cons a t => simpa using inv.2.2.1
        · simpa using inv.2.2.1
      simp only at h
      generalize (if off = 0 then toks0 ++ [[]] else toks0) = T at h hfl1 hhd
      cases hs : slice line off line.length with
      | error e => rw [hs] at h; cases h
      | ok tail =>
        rw [hs] at h
        obtain ⟨h1, h2, rfl⟩ := slice_ok hs
        injection h with h
        subst h
        constructor
        · rw [List.flatten_append, hfl1, flatten_map_singleton, take_append_slice line h1]
          simp
        · cases T with
          | nil => simp at hhd
          | cons a t => simpa using hhd
    · rename_i hge
      injection h with h
      subst h
      constructor
      · rw [inv.1]; exact List.take_of_length_le (by omega)
      · simpa using inv.2.2.1

theorem tokenizeLoop_total (line : List G) :
    ∀ (ms : List (Nat × Nat)) (off : Nat) (toks : List Tok), SpansOk line.length off ms →
      ∃ r, tokenizeLoop line ms off toks = .ok r := by
  intro ms
  induction ms with
  | nil => intro off toks _; exact ⟨_, rfl⟩
  | cons se ms ih =>
    intro off toks h
    obtain ⟨s, e⟩ := se
    obtain ⟨h1, h2, h3, h4⟩ := h
    simp only [tokenizeLoop]
    rw [slice_eq_ok line h1 (by omega), slice_eq_ok line h2 h3]
    exact ih e _ h4

/-- `tokenize` cannot hit a slice panic on well-formed spans. -/
theorem tokenize_total (line : List G) (spans : List (Nat × Nat)) (h : SpansOk line.length 0 spans) :
    ∃ toks, tokenize line spans = .ok toks := by
  obtain ⟨⟨off, toks0⟩, hr⟩ := tokenizeLoop_total line spans 0 [[]] h
  have inv := tokenizeLoop_inv line spans 0 [[]] off toks0 hr (by simp) (by omega) (by simp)
  unfold tokenize
  rw [hr]
  simp only
  split
  · rw [slice_eq_ok line (by omega) (by omega)]
    exact ⟨_, rfl⟩
  · exact ⟨_, rfl⟩

end Edits
