import DeltaModel.Options
import DeltaModel.FeatureGather
/-! The walk of `DeltaModel/FeatureGather.lean`, run with the shape of the pinned source and the builtin gatherers of C13's
model, computes what `Options.gatherR` computes whenever it returns. -/
namespace FeatureGather
open Options

theorem foldOpt_foldl (step : List Name → Name → Option (List Name)) (step' : List Name → Name → List Name)
    (cs : List Name) (h : ∀ a c a', c ∈ cs → step a c = some a' → step' a c = a') (acc r : List Name)
    (hr : foldOpt step cs acc = some r) : cs.foldl step' acc = r := by
  induction cs generalizing acc with
  | nil => simp [foldOpt] at hr; simp [hr]
  | cons c cs ih =>
    rw [foldOpt] at hr
    split at hr
    · cases hr
    · rename_i a ha
      rw [List.foldl_cons, h acc c a (List.mem_cons_self ..) ha]
      exact ih (fun a c' a' hc => h a c' a' (List.mem_cons_of_mem _ hc)) a hr

/-- `walk`, instantiated with C13's model functions, agrees with `Options.gatherR`. -/
theorem walk_eq_gatherR (bs : Builtins) (π : List Name) (fb : Nat) (g : GitCfg) (n : Nat) (f : Name) (acc r : List Name)
    (h : walk ⟨false, true⟩ (fun f => (lookup f bs).isSome) (gatherB bs π fb) (fun f => gatherFlags bs π fb g (some f))
      (fun f => secFeatures g (some f)) n f acc = some r) :
    gatherR bs π fb g n f acc = r := by
  induction n generalizing f acc r with
  | zero => simp [walk] at h
  | succ n ih =>
    rw [walk] at h
    split at h
    · cases h
    · rename_i a ha
      cases h
      rw [gatherR]
      congr 1
      have := foldOpt_foldl _ (fun a c => if a.contains c then a else gatherR bs π fb g n c a) _
        (by
          intro a c a' _ hs
          by_cases hc : c ∈ a
          · simp [hc] at hs ⊢; exact hs
          · simp [hc] at hs ⊢
            exact ih c a a' hs) _ _ ha
      simpa [enter] using this

end FeatureGather
