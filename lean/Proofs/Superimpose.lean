import DeltaModel.Superimpose
/-!
Helper lemmas for C15 about `DeltaModel/Superimpose.lean` (core Lean only).
-/
namespace Superimpose

/-! ### explode / text -/

theorem explode_nil {σ : Type} : explode ([] : List (σ × List Char)) = [] := rfl

theorem explode_cons {σ : Type} (s : σ) (cs : List Char) (rest : List (σ × List Char)) :
    explode ((s, cs) :: rest) = cs.map (fun c => (s, c)) ++ explode rest := by
  simp [explode]

theorem text_cons {σ : Type} (s : σ) (cs : List Char) (rest : List (σ × List Char)) :
    text ((s, cs) :: rest) = cs ++ text rest := by
  simp [text]

theorem explode_map_snd {σ : Type} (secs : List (σ × List Char)) :
    (explode secs).map Prod.snd = text secs := by
  induction secs with
  | nil => rfl
  | cons x rest ih =>
    obtain ⟨s, cs⟩ := x
    rw [explode_cons, text_cons, List.map_append, ih]
    simp [Function.comp_def]

theorem explode_length {σ : Type} (secs : List (σ × List Char)) :
    (explode secs).length = (text secs).length := by
  rw [← explode_map_snd, List.length_map]

/-- Re-styling sections commutes with `explode`. -/
theorem explode_map_style {σ τ : Type} (f : σ → τ) (gs : List (σ × List Char)) :
    explode (gs.map fun g => (f g.1, g.2)) = (explode gs).map fun x => (f x.1, x.2) := by
  induction gs with
  | nil => rfl
  | cons x rest ih =>
    obtain ⟨s, cs⟩ := x
    rw [List.map_cons, explode_cons, explode_cons, ih, List.map_append]
    simp [Function.comp_def]

/-! ### dropLastIf -/

theorem dropLastIf_append {β : Type} (p : β → Bool) (a b : List β) (hb : b ≠ []) :
    dropLastIf p (a ++ b) = a ++ dropLastIf p b := by
  induction a with
  | nil => rfl
  | cons x xs ih =>
    cases h : xs ++ b with
    | nil => simp_all
    | cons y ys =>
      rw [List.cons_append, h, dropLastIf, ← h, ih, List.cons_append]

theorem dropLastIf_map {β γ : Type} (p : β → Bool) (q : γ → Bool) (f : β → γ)
    (h : ∀ x, q (f x) = p x) (l : List β) :
    dropLastIf q (l.map f) = (dropLastIf p l).map f := by
  induction l with
  | nil => rfl
  | cons x xs ih =>
    cases xs with
    | nil => simp only [List.map_cons, List.map_nil, dropLastIf, h]; split <;> rfl
    | cons y ys =>
      simp only [List.map_cons, dropLastIf] at ih ⊢
      rw [ih]

/-- `dropLastIf` yields a prefix: positions keep their contents. -/
theorem dropLastIf_getElem? {β : Type} (p : β → Bool) (l : List β) (i : Nat) (x : β)
    (h : (dropLastIf p l)[i]? = some x) : l[i]? = some x := by
  induction l generalizing i with
  | nil => simp [dropLastIf] at h
  | cons a as ih =>
    cases as with
    | nil =>
      simp only [dropLastIf] at h
      split at h
      · simp at h
      · exact h
    | cons b bs =>
      simp only [dropLastIf] at h
      cases i with
      | zero => simpa using h
      | succ j =>
        simp only [List.getElem?_cons_succ] at h ⊢
        exact ih j h

theorem dropLastIf_length_le {β : Type} (p : β → Bool) (l : List β) :
    (dropLastIf p l).length ≤ l.length := by
  induction l with
  | nil => simp [dropLastIf]
  | cons a as ih =>
    cases as with
    | nil => simp only [dropLastIf]; split <;> simp
    | cons b bs => simp only [dropLastIf, List.length_cons] at ih ⊢; omega

/-! ### group / trimLast / coalesce -/

theorem explode_group {π : Type} [DecidableEq π] (cur : π) (s : List Char) (l : List (π × Char)) :
    explode (group cur s l) = s.map (fun c => (cur, c)) ++ l := by
  induction l generalizing cur s with
  | nil => simp [group, explode]
  | cons x rest ih =>
    obtain ⟨p, c⟩ := x
    unfold group
    split
    · rw [explode_cons, ih]; simp
    · rename_i h
      have hp : p = cur := by simpa using h
      rw [ih]; simp [hp]

theorem group_nonempty {π : Type} [DecidableEq π] (cur : π) (s : List Char) (l : List (π × Char))
    (hs : s ≠ []) : ∀ g ∈ group cur s l, g.2 ≠ [] := by
  induction l generalizing cur s with
  | nil => intro g hg; simp [group] at hg; subst hg; exact hs
  | cons x rest ih =>
    obtain ⟨p, c⟩ := x
    unfold group
    split
    · intro g hg
      rcases List.mem_cons.mp hg with rfl | hg
      · exact hs
      · exact ih p [c] (by simp) g hg
    · exact ih cur (s ++ [c]) (by simp)

/-- Adjacent sections carry different keys. -/
def AdjNe {π : Type} : List (π × List Char) → Prop
  | a :: b :: rest => a.1 ≠ b.1 ∧ AdjNe (b :: rest)
  | _ => True

/-- Adjacent sections produced by the loop carry different style pairs: the merge is maximal. -/
theorem group_adjacent_ne {π : Type} [DecidableEq π] (cur : π) (s : List Char)
    (l : List (π × Char)) :
    (∃ s' rest', group cur s l = (cur, s') :: rest') ∧ AdjNe (group cur s l) := by
  induction l generalizing cur s with
  | nil => exact ⟨⟨s, [], rfl⟩, by simp [group, AdjNe]⟩
  | cons x rest ih =>
    obtain ⟨p, c⟩ := x
    unfold group
    split
    · rename_i h
      obtain ⟨⟨s', rest', hg⟩, hc⟩ := ih p [c]
      refine ⟨⟨s, _, rfl⟩, ?_⟩
      rw [hg] at hc ⊢
      exact ⟨fun e => h e.symm, hc⟩
    · exact ih cur (s ++ [c])

theorem explode_trimLast {π : Type} (gs : List (π × List Char)) (h : ∀ g ∈ gs, g.2 ≠ []) :
    explode (trimLast gs) = dropLastIf (fun x => isNl x.2) (explode gs) := by
  induction gs with
  | nil => rfl
  | cons x rest ih =>
    obtain ⟨p, s⟩ := x
    cases rest with
    | nil =>
      simp only [trimLast, explode_cons, explode_nil, List.append_nil]
      exact (dropLastIf_map isNl (fun x : π × Char => isNl x.2) (fun c => (p, c)) (fun _ => rfl) s).symm
    | cons y ys =>
      have hne : explode (y :: ys) ≠ [] := by
        obtain ⟨q, t⟩ := y
        have ht : t ≠ [] := h (q, t) (by simp)
        rw [explode_cons]
        cases t with
        | nil => exact absurd rfl ht
        | cons c cs => simp
      have e1 : explode ((p, s) :: y :: ys) = s.map (fun c => (p, c)) ++ explode (y :: ys) :=
        explode_cons _ _ _
      simp only [trimLast]
      rw [e1, dropLastIf_append _ _ _ hne, explode_cons,
        ih (fun g hg => h g (List.mem_cons_of_mem _ hg))]

/-- `coalesce` changes neither the characters nor the style attached to each character
(other than dropping one final newline). -/
theorem explode_coalesce (env : Env) (l : List (Pair × Char)) :
    explode (coalesce env l) =
      dropLastIf (fun x => isNl x.2)
        (l.map fun x => (makeSuperimposedStyle env x.1.1 x.1.2, x.2)) := by
  cases l with
  | nil => rfl
  | cons x rest =>
    obtain ⟨p, c⟩ := x
    simp only [coalesce]
    rw [explode_map_style (fun q : Pair => makeSuperimposedStyle env q.1 q.2),
      explode_trimLast _ (group_nonempty p [c] rest (by simp)), explode_group]
    exact (dropLastIf_map (fun x : Pair × Char => isNl x.2) (fun x : Style × Char => isNl x.2)
      (fun x => (makeSuperimposedStyle env x.1.1 x.1.2, x.2)) (fun _ => rfl) _).symm

/-! ### superimpose (zip + character check) -/

theorem superimpose_ok (xs : List (SynStyle × Char)) (ys : List (Style × Char))
    (r : List (Pair × Char)) (h : superimpose xs ys = .ok r) :
    r = (List.zip xs ys).map (fun xy => ((xy.1.1, xy.2.1), xy.1.2)) := by
  induction xs generalizing ys r with
  | nil => simp [superimpose] at h; simp [h]
  | cons x xs ih =>
    cases ys with
    | nil => simp [superimpose] at h; simp [h]
    | cons y ys =>
      obtain ⟨t, c1⟩ := x
      obtain ⟨d, c2⟩ := y
      simp only [superimpose] at h
      split at h
      · cases h
      · split at h
        · rename_i r' hr'
          cases h
          simp [ih ys r' hr']
        · cases h

/-- No panic when both inputs spell the same text (the syntect output partitions the line). -/
theorem superimpose_ok_of_chars_eq (xs : List (SynStyle × Char)) (ys : List (Style × Char))
    (h : xs.map Prod.snd = ys.map Prod.snd) : ∃ r, superimpose xs ys = .ok r := by
  induction xs generalizing ys with
  | nil => exact ⟨[], by simp [superimpose]⟩
  | cons x xs ih =>
    cases ys with
    | nil => simp at h
    | cons y ys =>
      obtain ⟨t, c1⟩ := x
      obtain ⟨d, c2⟩ := y
      simp only [List.map_cons, List.cons.injEq] at h
      obtain ⟨r, hr⟩ := ih ys h.2
      exact ⟨((t, d), c1) :: r, by simp [superimpose, h.1, hr]⟩

/-- The panic branch is taken exactly when some position of the common prefix differs. -/
theorem superimpose_error_iff (xs : List (SynStyle × Char)) (ys : List (Style × Char)) :
    (∃ e, superimpose xs ys = .error e) ↔ ∃ xy ∈ List.zip xs ys, xy.1.2 ≠ xy.2.2 := by
  induction xs generalizing ys with
  | nil => simp [superimpose]
  | cons x xs ih =>
    cases ys with
    | nil => simp [superimpose]
    | cons y ys =>
      obtain ⟨t, c1⟩ := x
      obtain ⟨d, c2⟩ := y
      simp only [superimpose, List.zip_cons_cons, List.mem_cons, exists_eq_or_imp]
      by_cases hc : c1 = c2
      · subst hc
        simp only [ne_eq, not_true_eq_false, ↓reduceIte, false_or]
        rw [← ih ys]
        cases hs : superimpose xs ys <;> simp
      · simp [hc]

theorem cells_eq_map (env : Env) (xs : List (SynStyle × Char)) (ys : List (Style × Char)) :
    cells env xs ys =
      ((List.zip xs ys).map (fun xy => ((xy.1.1, xy.2.1), xy.1.2))).map
        fun x => (makeSuperimposedStyle env x.1.1 x.1.2, x.2) := by
  simp [cells, Function.comp_def]

/-- The per-character content of the result of `superimpose_style_sections`. -/
theorem explode_superimposeStyleSections (env : Env) (syn : List (SynStyle × List Char))
    (diff : List (Style × List Char)) (out : List (Style × List Char))
    (h : superimposeStyleSections env syn diff = .ok out) :
    explode out = dropLastIf (fun x => isNl x.2) (cells env (explode syn) (explode diff)) := by
  unfold superimposeStyleSections at h
  split at h
  · rename_i l hl
    cases h
    rw [explode_coalesce, cells_eq_map, superimpose_ok _ _ _ hl]
  · cases h

/-! ### cells -/

theorem cells_getElem? (env : Env) (xs : List (SynStyle × Char)) (ys : List (Style × Char))
    (i : Nat) (s : Style) (c : Char) (h : (cells env xs ys)[i]? = some (s, c)) :
    ∃ t d c', xs[i]? = some (t, c) ∧ ys[i]? = some (d, c') ∧ s = makeSuperimposedStyle env t d := by
  simp only [cells, List.getElem?_map, Option.map_eq_some_iff] at h
  obtain ⟨⟨⟨t, c1⟩, ⟨d, c2⟩⟩, hz, he⟩ := h
  rw [List.getElem?_zip_eq_some] at hz
  simp only [Prod.mk.injEq] at he
  exact ⟨t, d, c2, by rw [hz.1, he.2], hz.2, he.1.symm⟩

theorem cells_map_snd (env : Env) (xs : List (SynStyle × Char)) (ys : List (Style × Char))
    (h : xs.length = ys.length) : (cells env xs ys).map Prod.snd = xs.map Prod.snd := by
  induction xs generalizing ys with
  | nil => simp [cells]
  | cons x xs ih =>
    cases ys with
    | nil => simp at h
    | cons y ys =>
      simp only [List.length_cons, Nat.add_right_cancel_iff] at h
      have := ih ys h
      simp only [cells, List.map_map] at this ⊢
      simp [this]

/-- With the foreground erased, the cells are those of the diff sections alone. -/
theorem cells_map_erase (env : Env) (f : Style → Style)
    (hf : ∀ t d, f (makeSuperimposedStyle env t d) = f d)
    (xs : List (SynStyle × Char)) (ys : List (Style × Char))
    (h : xs.map Prod.snd = ys.map Prod.snd) :
    (cells env xs ys).map (fun x => (f x.1, x.2)) = ys.map (fun y => (f y.1, y.2)) := by
  induction xs generalizing ys with
  | nil => cases ys <;> simp_all [cells]
  | cons x xs ih =>
    cases ys with
    | nil => simp at h
    | cons y ys =>
      simp only [List.map_cons, List.cons.injEq] at h
      have := ih ys h.2
      simp only [cells, List.map_map] at this ⊢
      simp [this, hf, h.1]

/-! ### get_syntax -/

theorem extension_eq (p : List Char) :
    extension p = (fileName p).bind extensionOfName := by
  unfold extension
  cases fileName p <;> rfl

end Superimpose

namespace Superimpose

theorem splitSlash_ne_nil (p : List Char) : splitSlash p ≠ [] := by
  cases p with
  | nil => simp [splitSlash]
  | cons c cs =>
    unfold splitSlash
    split
    · simp
    · split <;> simp

/-- A path `dir/name` splits into the components of `dir` followed by those of `name`. -/
theorem splitSlash_append_slash (a b : List Char) :
    splitSlash (a ++ '/' :: b) = splitSlash a ++ splitSlash b := by
  induction a with
  | nil => simp [splitSlash]
  | cons c cs ih =>
    by_cases hc : c = '/'
    · simp [splitSlash, hc, ih]
    · simp only [List.cons_append, splitSlash, hc, if_false, ih]
      cases h : splitSlash cs with
      | nil => exact absurd h (splitSlash_ne_nil cs)
      | cons x xs => simp

theorem splitSlash_no_slash (n : List Char) (h : '/' ∉ n) : splitSlash n = [n] := by
  induction n with
  | nil => rfl
  | cons c cs ih =>
    have hc : c ≠ '/' := fun e => h (e ▸ List.mem_cons_self)
    have hcs : '/' ∉ cs := fun m => h (List.mem_cons_of_mem _ m)
    simp [splitSlash, hc, ih hcs]

/-- The directory part of a path is irrelevant to `Path::file_name`. -/
theorem fileName_dir (dir name : List Char) (hs : '/' ∉ name) (h1 : name ≠ [])
    (h2 : name ≠ ['.']) : fileName (dir ++ '/' :: name) = fileName name := by
  unfold fileName
  rw [splitSlash_append_slash, splitSlash_no_slash name hs, List.filter_append]
  have : List.filter (fun c => decide (c ≠ [] ∧ c ≠ ['.'])) [name] = [name] := by
    simp [h1, h2]
  rw [this, List.getLast?_append]
  simp

end Superimpose
