import DeltaModel.Align
/-! `run_length_encode`: expanding the runs gives back the sequence; every run is non-empty;
neighbouring runs carry different elements. -/
namespace Align

variable {β : Type} [DecidableEq β]

def expandRuns (runs : List (β × Nat)) : List β := runs.flatMap fun r => List.replicate r.2 r.1

theorem expand_rleAux (curr : β) (count : Nat) (l : List β) :
    expandRuns (rleAux curr count l) = List.replicate count curr ++ l := by
  induction l generalizing curr count with
  | nil => simp [rleAux, expandRuns]
  | cons a rest ih =>
    unfold rleAux
    split
    · rename_i h; subst h
      rw [ih]
      simp [List.replicate_succ', List.append_assoc]
    · simp only [expandRuns, List.flatMap_cons] at ih ⊢
      rw [ih]; simp

theorem expand_runLengthEncode (l : List β) : expandRuns (runLengthEncode l) = l := by
  cases l with
  | nil => rfl
  | cons a rest => simp [runLengthEncode, expand_rleAux]

theorem rleAux_pos (curr : β) (count : Nat) (hc : 0 < count) (l : List β) :
    ∀ r ∈ rleAux curr count l, 0 < r.2 := by
  induction l generalizing curr count with
  | nil => simp [rleAux]; exact hc
  | cons a rest ih =>
    unfold rleAux
    split
    · exact ih curr (count + 1) (by omega)
    · intro r hr
      simp only [List.mem_cons] at hr
      rcases hr with rfl | hr
      · exact hc
      · exact ih a 1 (by omega) r hr

theorem runLengthEncode_pos (l : List β) : ∀ r ∈ runLengthEncode l, 0 < r.2 := by
  cases l with
  | nil => simp [runLengthEncode]
  | cons a rest => exact rleAux_pos a 1 (by omega) rest

theorem rleAux_replicate (curr : β) (count n : Nat) (rest : List β) :
    rleAux curr count (List.replicate n curr ++ rest) = rleAux curr (count + n) rest := by
  induction n generalizing count with
  | zero => simp
  | succ n ih =>
    rw [List.replicate_succ, List.cons_append, rleAux, if_pos rfl, ih]
    congr 1; omega

theorem rleAux_ne (curr a : β) (count : Nat) (rest : List β) (h : a ≠ curr) :
    rleAux curr count (a :: rest) = (curr, count) :: rleAux a 1 rest := by
  rw [rleAux, if_neg h]

end Align
