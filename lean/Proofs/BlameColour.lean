import DeltaModel.Blame
/-!
Lemmas about the colour memo of the blame handler (`Blame.step`, `Blame.run`):
the invariant "the previous key is in the memo (and the memo is empty before the first line)",
and what one step does under it.
-/
namespace Blame

/-! ### association list -/

theorem lookup_insert_self (m : KeyMap) (k : Key) (c : Colour) : lookup (insert m k c) k = some c := by
  induction m with
  | nil => simp [insert, lookup]
  | cons kv rest ih =>
    obtain ⟨k', c'⟩ := kv
    by_cases h : k' = k
    · simp [insert, lookup, h]
    · simp [insert, lookup, h, ih]

theorem lookup_insert_other (m : KeyMap) (k k' : Key) (c : Colour) (h : k' ≠ k) :
    lookup (insert m k c) k' = lookup m k' := by
  induction m with
  | nil =>
    have : k ≠ k' := fun e => h e.symm
    simp [insert, lookup, this]
  | cons kv rest ih =>
    obtain ⟨k'', c''⟩ := kv
    by_cases h1 : k'' = k
    · subst h1
      have : k'' ≠ k' := fun e => h e.symm
      simp [insert, lookup, this]
    · by_cases h2 : k'' = k'
      · subst h2
        simp [insert, lookup, h1]
      · simp [insert, lookup, h1, h2, ih]

theorem lookup_nil (k : Key) : lookup [] k = none := rfl

/-! ### the generated `get_color` table on the combinations that can occur -/

def actionFor (t p r : Bool) : Option Nat :=
  (armFor Generated.Blame.getColorArms 0 t p r).map (·.2)

theorem arm_TTT : actionFor true true true = some 0 := by decide
theorem arm_FTF : actionFor false true false = some 1 := by decide
theorem arm_FFF : actionFor false false false = some 2 := by decide
theorem arm_TTF : actionFor true true false = some 3 := by decide
theorem offsets_eq : Generated.Blame.nextColorOffsets = (0, 1) := by decide

theorem armFor_of_action {t p r : Bool} {a : Nat} (h : actionFor t p r = some a) :
    ∃ i, armFor Generated.Blame.getColorArms 0 t p r = some (i, a) := by
  unfold actionFor at h
  cases hh : armFor Generated.Blame.getColorArms 0 t p r with
  | none => simp [hh] at h
  | some x =>
    obtain ⟨i, b⟩ := x
    simp [hh] at h
    exact ⟨i, by rw [h]⟩

/-! ### palette -/

theorem palAt_ok (pal : List Colour) (hpal : pal ≠ []) (i : Nat) :
    ∃ c, palAt pal i = .ok c ∧ pal[i % pal.length]? = some c := by
  have hlen : 0 < pal.length := List.length_pos_iff.mpr hpal
  have hlt : i % pal.length < pal.length := Nat.mod_lt _ hlen
  refine ⟨pal[i % pal.length], ?_, ?_⟩
  · simp [palAt, List.getElem?_eq_getElem hlt]
  · simp [List.getElem?_eq_getElem hlt]

theorem getNextColor_ok (pal : List Colour) (hpal : pal ≠ []) (n : Nat) (o : Option Colour) :
    ∃ c, getNextColor pal n o = .ok c := by
  obtain ⟨c0, h0, _⟩ := palAt_ok pal hpal (n + Generated.Blame.nextColorOffsets.1)
  obtain ⟨c1, h1, _⟩ := palAt_ok pal hpal (n + Generated.Blame.nextColorOffsets.2)
  unfold getNextColor
  rw [h0]
  by_cases h : some c0 ≠ o
  · exact ⟨c0, by simp [h]⟩
  · exact ⟨c1, by simp [h, h1]⟩

/-- With two or more pairwise distinct palette entries the next colour is never the excluded one. -/
theorem getNextColor_ne (pal : List Colour) (hd : pal.Nodup) (h2 : 2 ≤ pal.length) (n : Nat)
    (o c : Colour) (h : getNextColor pal n (some o) = .ok c) : c ≠ o := by
  have hpal : pal ≠ [] := by
    intro e; simp [e] at h2
  obtain ⟨c0, h0, g0⟩ := palAt_ok pal hpal (n + 0)
  obtain ⟨c1, h1, g1⟩ := palAt_ok pal hpal (n + 1)
  unfold getNextColor at h
  rw [offsets_eq] at h
  simp only [h0] at h
  by_cases hc : some c0 ≠ some o
  · simp [hc] at h
    intro e
    apply hc
    rw [h, e]
  · simp only [hc, if_false, h1] at h
    have e0 : c0 = o := by
      have := Classical.not_not.mp hc
      exact Option.some.inj this
    have e1 : c1 = c := by
      injection h
    intro e
    -- c1 = c0 although the indices differ
    have hidx : (n + 0) % pal.length ≠ (n + 1) % pal.length := by
      intro hh
      have hl : 0 < pal.length := by omega
      have h3 := Nat.mod_lt (n + 0) hl
      have : (n + 1) % pal.length = ((n + 0) % pal.length + 1) % pal.length := by
        rw [Nat.add_mod n 1, Nat.add_zero]
        conv => rhs; rw [Nat.add_mod]
        simp
      rw [this] at hh
      by_cases hq : (n + 0) % pal.length + 1 < pal.length
      · rw [Nat.mod_eq_of_lt hq] at hh; omega
      · have : (n + 0) % pal.length + 1 = pal.length := by omega
        rw [this, Nat.mod_self] at hh; omega
    have hlt0 : (n + 0) % pal.length < pal.length := Nat.mod_lt _ (by omega)
    have : pal[(n + 0) % pal.length]? = pal[(n + 1) % pal.length]? := by
      rw [g0, g1, e1, e, e0]
    exact hidx ((List.getElem?_inj hlt0 hd).mp this)

/-! ### the invariant -/

/-- Before the first blame line the memo is empty; afterwards it contains the previous key. -/
def Inv (s : CState) : Prop :=
  match s.prev with
  | none => s.map = []
  | some p => ∃ c, lookup s.map p = some c

theorem inv_init : Inv {} := by simp [Inv]

/-- What one step on a line not coloured by git does, under the invariant. -/
theorem step_spec (pal : List Colour) (hpal : pal ≠ []) (s : CState) (hs : Inv s) (k : Key) :
    ∃ c, step pal s k false =
        .ok ({ map := insert s.map k c, prev := some k }, ⟨some c, decide (s.prev = some k)⟩) ∧
      getColor pal s.map k s.prev (decide (s.prev = some k)) = .ok c := by
  have key : ∃ c, getColor pal s.map k s.prev (decide (s.prev = some k)) = .ok c := by
    unfold Inv at hs
    cases hp : s.prev with
    | none =>
      rw [hp] at hs
      simp only at hs
      obtain ⟨i, hi⟩ := armFor_of_action arm_FFF
      obtain ⟨c, hc⟩ := getNextColor_ok pal hpal 0 none
      refine ⟨c, ?_⟩
      simp [getColor, prevColour, hs, lookup_nil, hi, hc]
    | some p =>
      rw [hp] at hs
      obtain ⟨cp, hcp⟩ := hs
      by_cases hpk : p = k
      · subst hpk
        obtain ⟨i, hi⟩ := armFor_of_action arm_TTT
        exact ⟨cp, by simp [getColor, prevColour, hcp, hi]⟩
      · have hne : ¬ (some p = some k) := fun e => hpk (Option.some.inj e)
        cases hk : lookup s.map k with
        | none =>
          obtain ⟨i, hi⟩ := armFor_of_action arm_FTF
          obtain ⟨c, hc⟩ := getNextColor_ok pal hpal s.map.length (some cp)
          exact ⟨c, by simp [getColor, prevColour, hcp, hk, hpk, hi, hc]⟩
        | some ck =>
          obtain ⟨i, hi⟩ := armFor_of_action arm_TTF
          by_cases hcol : ck = cp
          · subst hcol
            obtain ⟨c, hc⟩ := getNextColor_ok pal hpal s.map.length (some ck)
            exact ⟨c, by simp [getColor, prevColour, hcp, hk, hpk, hi, hc]⟩
          · exact ⟨ck, by simp [getColor, prevColour, hcp, hk, hpk, hi, hcol]⟩
  obtain ⟨c, hc⟩ := key
  exact ⟨c, by simp [step, hc], hc⟩

theorem inv_after (m : KeyMap) (k : Key) (c : Colour) :
    Inv { map := insert m k c, prev := some k } := by
  simp [Inv, lookup_insert_self]

/-- Repeated key: the same colour again. -/
theorem getColor_repeat (pal : List Colour) (m : KeyMap) (k : Key) (ck : Colour)
    (hk : lookup m k = some ck) : getColor pal m k (some k) true = .ok ck := by
  obtain ⟨i, hi⟩ := armFor_of_action arm_TTT
  simp [getColor, prevColour, hk, hi]

/-- A key different from the previous one never gets the previous key's colour
(palette of two or more pairwise distinct entries). -/
theorem getColor_differs (pal : List Colour) (hd : pal.Nodup) (h2 : 2 ≤ pal.length)
    (m : KeyMap) (p k : Key) (cp c : Colour) (hcp : lookup m p = some cp)
    (h : getColor pal m k (some p) false = .ok c) : c ≠ cp := by
  cases hk : lookup m k with
  | none =>
    obtain ⟨i, hi⟩ := armFor_of_action arm_FTF
    simp [getColor, prevColour, hcp, hk, hi] at h
    exact getNextColor_ne pal hd h2 _ _ _ h
  | some ck =>
    obtain ⟨i, hi⟩ := armFor_of_action arm_TTF
    by_cases hcol : ck = cp
    · subst hcol
      simp [getColor, prevColour, hcp, hk, hi] at h
      exact getNextColor_ne pal hd h2 _ _ _ h
    · simp [getColor, prevColour, hcp, hk, hi, hcol] at h
      rw [← h]; exact hcol

/-- A key seen before keeps its colour if that differs from the colour of the line above. -/
theorem getColor_stable (pal : List Colour) (m : KeyMap) (p k : Key) (cp ck : Colour)
    (hcp : lookup m p = some cp) (hk : lookup m k = some ck) (hne : ck ≠ cp) :
    getColor pal m k (some p) false = .ok ck := by
  obtain ⟨i, hi⟩ := armFor_of_action arm_TTF
  simp [getColor, prevColour, hcp, hk, hi, hne]

/-! ### runs -/

theorem run_append (pal : List Colour) (s : CState) (a b : List (Key × Bool)) :
    run pal s (a ++ b) =
      match run pal s a with
      | .error e => .error e
      | .ok (s1, pa) =>
        match run pal s1 b with
        | .error e => .error e
        | .ok (s2, pb) => .ok (s2, pa ++ pb) := by
  induction a generalizing s with
  | nil =>
    simp only [List.nil_append, run]
    cases run pal s b with
    | error e => rfl
    | ok x => obtain ⟨s2, pb⟩ := x; rfl
  | cons kg rest ih =>
    obtain ⟨k, g⟩ := kg
    simp only [List.cons_append, run]
    cases step pal s k g with
    | error e => rfl
    | ok x =>
      obtain ⟨s', p⟩ := x
      simp only [ih]
      cases run pal s' rest with
      | error e => rfl
      | ok y =>
        obtain ⟨s1, pa⟩ := y
        simp only
        cases run pal s1 b with
        | error e => rfl
        | ok z => obtain ⟨s2, pb⟩ := z; rfl

/-- A run over lines not coloured by git never fails, keeps the invariant, produces one paint
per line, each with a palette colour; keys that do not occur keep their memo entry. -/
theorem run_plain (pal : List Colour) (hpal : pal ≠ []) (hist : List Key) (s : CState) (hs : Inv s) :
    ∃ s' ps, run pal s (plain hist) = .ok (s', ps) ∧ Inv s' ∧ ps.length = hist.length ∧
      (∀ p ∈ ps, ∃ c, p.colour = some c) ∧
      (∀ k, k ∉ hist → lookup s'.map k = lookup s.map k) ∧
      (hist = [] → s' = s) ∧ (∀ l, hist.getLast? = some l → s'.prev = some l) := by
  induction hist generalizing s with
  | nil => exact ⟨s, [], rfl, hs, rfl, by simp, by simp, by simp, by simp⟩
  | cons k rest ih =>
    obtain ⟨c, hstep, _⟩ := step_spec pal hpal s hs k
    obtain ⟨s', ps, hrun, hinv, hlen, hcol, hkeep, hnil, hlast⟩ :=
      ih { map := insert s.map k c, prev := some k } (inv_after _ _ _)
    refine ⟨s', ⟨some c, decide (s.prev = some k)⟩ :: ps, ?_, hinv, by simp [hlen], ?_, ?_, by simp, ?_⟩
    · simp [plain, run, hstep] at hrun ⊢
      simp [hrun]
    · intro p hp
      cases hp with
      | head => exact ⟨c, rfl⟩
      | tail _ h => exact hcol p h
    · intro k' hk'
      have h1 : k' ≠ k := fun e => hk' (by simp [e])
      have h2 : k' ∉ rest := fun e => hk' (by simp [e])
      rw [hkeep k' h2]
      exact lookup_insert_other _ _ _ _ h1
    · intro l hl
      cases rest with
      | nil =>
        simp at hl
        have := hnil rfl
        rw [this, ← hl]
      | cons r rs =>
        apply hlast
        simpa [List.getLast?_cons_cons] using hl

theorem plain_append (a b : List Key) : plain (a ++ b) = plain a ++ plain b := by
  simp [plain]

theorem plain_cons (k : Key) (rest : List Key) : plain (k :: rest) = (k, false) :: plain rest := rfl

/-- Two consecutive lines `x`, `y` (not coloured by git) from a state satisfying the invariant:
the paints, and the `get_color` call that produced the second one. -/
theorem run_two (pal : List Colour) (hpal : pal ≠ []) (s1 : CState) (hs : Inv s1) (x y : Key)
    (post : List Key) :
    ∃ cx cy s' ps,
      run pal s1 (plain (x :: y :: post)) =
        .ok (s', ⟨some cx, decide (s1.prev = some x)⟩ :: ⟨some cy, decide (x = y)⟩ :: ps) ∧
      getColor pal (insert s1.map x cx) y (some x) (decide (x = y)) = .ok cy ∧
      ps.length = post.length := by
  obtain ⟨cx, hx, _⟩ := step_spec pal hpal s1 hs x
  obtain ⟨cy, hy, hg⟩ := step_spec pal hpal { map := insert s1.map x cx, prev := some x } (inv_after _ _ _) y
  obtain ⟨s', ps, hrun, _, hlen, _⟩ :=
    run_plain pal hpal post { map := insert (insert s1.map x cx) y cy, prev := some y } (inv_after _ _ _)
  refine ⟨cx, cy, s', ps, ?_, ?_, hlen⟩
  · simp only [plain_cons, run, hx, hy, hrun]
    simp
  · simpa using hg

/-- The same, at an arbitrary position of a history that starts from the initial state. -/
theorem run_two_at (pal : List Colour) (hpal : pal ≠ []) (pre : List Key) (x y : Key) (post : List Key)
    (s1 : CState) (ps1 : List Paint) (h1 : run pal {} (plain pre) = .ok (s1, ps1)) (hs : Inv s1) :
    ∃ cx cy s' ps a b,
      run pal {} (plain (pre ++ x :: y :: post)) = .ok (s', ps1 ++ a :: b :: ps) ∧
      a.colour = some cx ∧ b.colour = some cy ∧ b.isRepeat = decide (x = y) ∧
      getColor pal (insert s1.map x cx) y (some x) (decide (x = y)) = .ok cy := by
  obtain ⟨cx, cy, s', ps, hrun, hg, _⟩ := run_two pal hpal s1 hs x y post
  refine ⟨cx, cy, s', ps, ⟨some cx, decide (s1.prev = some x)⟩, ⟨some cy, decide (x = y)⟩,
    ?_, rfl, rfl, rfl, hg⟩
  rw [plain_append, run_append, h1]
  simp only [hrun]

/-! ### streams that mix lines coloured by git with uncoloured ones -/

/-- The arm chosen for a combination exists, is not `delta_unreachable`, and only uses what its
pattern binds. -/
def armOk (t p r : Bool) : Bool :=
  match armFor Generated.Blame.getColorArms 0 t p r with
  | some (_, 0) => t
  | some (_, 1) => p
  | some (_, 2) => true
  | some (_, 3) => t && p
  | _ => false

/-- The `get_color` match has no `delta_unreachable` arm left (all eight combinations). -/
def armsTotal : Bool :=
  armOk false false false && armOk false false true && armOk false true false && armOk false true true &&
  armOk true false false && armOk true false true && armOk true true false && armOk true true true

theorem armOk_all (h : armsTotal = true) (t p r : Bool) : armOk t p r = true := by
  simp only [armsTotal, Bool.and_eq_true] at h
  obtain ⟨⟨⟨⟨⟨⟨⟨h0, h1⟩, h2⟩, h3⟩, h4⟩, h5⟩, h6⟩, h7⟩ := h
  cases t <;> cases p <;> cases r <;> assumption

theorem getColor_total (h : armsTotal = true) (pal : List Colour) (hpal : pal ≠ []) (m : KeyMap)
    (key : Key) (prev : Option Key) (rep : Bool) : ∃ c, getColor pal m key prev rep = .ok c := by
  unfold getColor
  generalize lookup m key = kc
  generalize prevColour m prev = pc
  have hok := armOk_all h kc.isSome pc.isSome rep
  unfold armOk at hok
  cases harm : armFor Generated.Blame.getColorArms 0 kc.isSome pc.isSome rep with
  | none => simp [harm] at hok
  | some ia =>
    obtain ⟨i, act⟩ := ia
    simp only [harm] at hok ⊢
    match act, hok with
    | 0, hok =>
      cases kc with
      | none => simp at hok
      | some k => exact ⟨k, rfl⟩
    | 1, hok =>
      cases pc with
      | none => simp at hok
      | some p =>
        obtain ⟨c, hc⟩ := getNextColor_ok pal hpal m.length (some p)
        exact ⟨c, by simp [hc]⟩
    | 2, _ =>
      obtain ⟨c, hc⟩ := getNextColor_ok pal hpal m.length none
      exact ⟨c, by simp [hc]⟩
    | 3, hok =>
      cases kc with
      | none => simp at hok
      | some k =>
        cases pc with
        | none => simp at hok
        | some p =>
          by_cases hkp : k = p
          · subst hkp
            obtain ⟨c, hc⟩ := getNextColor_ok pal hpal m.length (some k)
            exact ⟨c, by simp [hc]⟩
          · exact ⟨k, by simp [hkp]⟩
    | n + 4, hok => simp at hok

/-- With a total `get_color`, no stream — whatever mix of lines coloured by git — can fail. -/
theorem run_total_of_armsTotal (h : armsTotal = true) (pal : List Colour) (hpal : pal ≠ [])
    (hist : List (Key × Bool)) (s : CState) :
    ∃ s' ps, run pal s hist = .ok (s', ps) ∧ ps.length = hist.length := by
  induction hist generalizing s with
  | nil => exact ⟨s, [], rfl, rfl⟩
  | cons kg rest ih =>
    obtain ⟨k, g⟩ := kg
    cases g with
    | true =>
      obtain ⟨s', ps, hr, hl⟩ := ih { s with prev := some k }
      exact ⟨s', ⟨none, decide (s.prev = some k)⟩ :: ps, by simp [run, step, hr], by simp [hl]⟩
    | false =>
      obtain ⟨c, hc⟩ := getColor_total h pal hpal s.map k s.prev (decide (s.prev = some k))
      obtain ⟨s', ps, hr, hl⟩ := ih { map := insert s.map k c, prev := some k }
      exact ⟨s', ⟨some c, decide (s.prev = some k)⟩ :: ps, by simp [run, step, hc, hr], by simp [hl]⟩

theorem getElem?_append_cons_cons {α} (l1 : List α) (a b : α) (l2 : List α) :
    (l1 ++ a :: b :: l2)[l1.length]? = some a ∧ (l1 ++ a :: b :: l2)[l1.length + 1]? = some b := by
  constructor
  · simp
  · rw [List.getElem?_append_right (by omega)]
    simp

end Blame
