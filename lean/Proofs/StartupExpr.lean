import DeltaModel.StartupExpr
/-!
Soundness of the interval evaluation of checked `usize` arithmetic (`DeltaModel/StartupExpr.lean`):
if `range envR e = some (lo, hi)` then for EVERY assignment of the variables inside `envR` the
evaluation of `e` hits no panic point (overflow, underflow, division by zero) and its value lies in
`[lo, hi]`. Unbounded: the variables range over intervals as large as `[0, usize::MAX]`.
-/
namespace Startup

theorem applyOp_sound (op : Op) {x y la ha lb hb lo hi : Nat}
    (hx1 : la ≤ x) (hx2 : x ≤ ha) (hy1 : lb ≤ y) (hy2 : y ≤ hb)
    (h : rangeOp op (la, ha) (lb, hb) = some (lo, hi)) :
    ∃ v, applyOp op x y = .ok v ∧ lo ≤ v ∧ v ≤ hi := by
  cases op <;> simp only [rangeOp] at h
  · -- add
    split at h
    · rename_i hb'
      simp only [Option.some.injEq, Prod.mk.injEq] at h
      refine ⟨x + y, ?_, by omega, by omega⟩
      simp only [applyOp]; rw [if_pos (by omega)]
    · cases h
  · -- sub
    split at h
    · simp only [Option.some.injEq, Prod.mk.injEq] at h
      refine ⟨x - y, ?_, by omega, by omega⟩
      simp only [applyOp]; rw [if_pos (by omega)]
    · cases h
  · -- mul
    split at h
    · rename_i hb'
      simp only [Option.some.injEq, Prod.mk.injEq] at h
      have h1 : x * y ≤ ha * hb := Nat.mul_le_mul hx2 hy2
      have h2 : la * lb ≤ x * y := Nat.mul_le_mul hx1 hy1
      refine ⟨x * y, ?_, by omega, by omega⟩
      simp only [applyOp]; rw [if_pos (by omega)]
    · cases h
  · -- div
    split at h
    · rename_i hb'
      simp only [Option.some.injEq, Prod.mk.injEq] at h
      have h1 : x / y ≤ ha / lb := Nat.div_le_div hx2 hy1 (by omega)
      have h2 : la / hb ≤ x / y := Nat.div_le_div hx1 hy2 (by omega)
      refine ⟨x / y, ?_, by omega, by omega⟩
      simp only [applyOp]; rw [if_pos (by omega)]
    · cases h
  · -- satAdd
    simp only [Option.some.injEq, Prod.mk.injEq] at h
    refine ⟨Nat.min (x + y) usizeMax, rfl, ?_, ?_⟩
    · rw [← h.1]; simp only [Nat.min_def]; split <;> split <;> omega
    · rw [← h.2]; simp only [Nat.min_def]; split <;> split <;> omega
  · -- satSub
    simp only [Option.some.injEq, Prod.mk.injEq] at h
    exact ⟨x - y, rfl, by omega, by omega⟩
  · -- satMul
    simp only [Option.some.injEq, Prod.mk.injEq] at h
    have h1 : x * y ≤ ha * hb := Nat.mul_le_mul hx2 hy2
    have h2 : la * lb ≤ x * y := Nat.mul_le_mul hx1 hy1
    refine ⟨Nat.min (x * y) usizeMax, rfl, ?_, ?_⟩
    · rw [← h.1]; simp only [Nat.min_def]; split <;> split <;> omega
    · rw [← h.2]; simp only [Nat.min_def]; split <;> split <;> omega
  · -- max
    simp only [Option.some.injEq, Prod.mk.injEq] at h
    refine ⟨Nat.max x y, rfl, ?_, ?_⟩
    · rw [← h.1]; simp only [Nat.max_def]; split <;> split <;> omega
    · rw [← h.2]; simp only [Nat.max_def]; split <;> split <;> omega
  · -- min
    simp only [Option.some.injEq, Prod.mk.injEq] at h
    refine ⟨Nat.min x y, rfl, ?_, ?_⟩
    · rw [← h.1]; simp only [Nat.min_def]; split <;> split <;> omega
    · rw [← h.2]; simp only [Nat.min_def]; split <;> split <;> omega

theorem bin_sound (op : Op) {ra rb : Res Nat} {ia ib : Option (Nat × Nat)} {lo hi : Nat}
    (ha : ∀ l h, ia = some (l, h) → ∃ v, ra = .ok v ∧ l ≤ v ∧ v ≤ h)
    (hb : ∀ l h, ib = some (l, h) → ∃ v, rb = .ok v ∧ l ≤ v ∧ v ≤ h)
    (h : rbin op ia ib = some (lo, hi)) :
    ∃ v, bin op ra rb = .ok v ∧ lo ≤ v ∧ v ≤ hi := by
  unfold rbin at h
  match ia, ib, h with
  | some (la, ha'), some (lb, hb'), h =>
    obtain ⟨x, rx, hx1, hx2⟩ := ha la ha' rfl
    obtain ⟨y, ry, hy1, hy2⟩ := hb lb hb' rfl
    subst rx; subst ry
    exact applyOp_sound op hx1 hx2 hy1 hy2 h

theorem inEnv_get {env : List Nat} {envR : List (Nat × Nat)} (h : InEnv env envR) {i : Nat} {lo hi : Nat}
    (hi' : envR[i]? = some (lo, hi)) : ∃ v, env[i]? = some v ∧ lo ≤ v ∧ v ≤ hi := by
  induction env generalizing envR i with
  | nil => cases envR <;> simp_all [InEnv]
  | cons v vs ih =>
    cases envR with
    | nil => simp [InEnv] at h
    | cons r rs =>
      obtain ⟨l, h'⟩ := r
      simp only [InEnv] at h
      cases i with
      | zero =>
        simp only [List.getElem?_cons_zero, Option.some.injEq, Prod.mk.injEq] at hi'
        exact ⟨v, by simp, by omega, by omega⟩
      | succ i =>
        simp only [List.getElem?_cons_succ] at hi' ⊢
        exact ih h.2.2 hi'

/-- **Interval soundness.** -/
theorem range_sound {env : List Nat} {envR : List (Nat × Nat)} (hin : InEnv env envR) (e : Expr) :
    ∀ lo hi, range envR e = some (lo, hi) → ∃ v, eval env e = .ok v ∧ lo ≤ v ∧ v ≤ hi := by
  induction e with
  | var i =>
    intro lo hi h
    simp only [range] at h
    split at h
    · rename_i l h' hget
      split at h
      · rename_i hle
        simp only [Option.some.injEq, Prod.mk.injEq] at h
        obtain ⟨v, hv, h1, h2⟩ := inEnv_get hin hget
        refine ⟨v, ?_, by omega, by omega⟩
        simp only [eval, hv]; rw [if_pos (by omega)]
      · cases h
    · cases h
  | lit n =>
    intro lo hi h
    simp only [range] at h
    split at h
    · simp only [Option.some.injEq, Prod.mk.injEq] at h
      refine ⟨n, ?_, by omega, by omega⟩
      simp only [eval]; rw [if_pos (by assumption)]
    · cases h
  | add a b iha ihb => intro lo hi h; exact bin_sound .add iha ihb h
  | sub a b iha ihb => intro lo hi h; exact bin_sound .sub iha ihb h
  | mul a b iha ihb => intro lo hi h; exact bin_sound .mul iha ihb h
  | div a b iha ihb => intro lo hi h; exact bin_sound .div iha ihb h
  | satAdd a b iha ihb => intro lo hi h; exact bin_sound .satAdd iha ihb h
  | satSub a b iha ihb => intro lo hi h; exact bin_sound .satSub iha ihb h
  | satMul a b iha ihb => intro lo hi h; exact bin_sound .satMul iha ihb h
  | max a b iha ihb => intro lo hi h; exact bin_sound .max iha ihb h
  | min a b iha ihb => intro lo hi h; exact bin_sound .min iha ihb h

/-- no panic point can be hit when the interval evaluation succeeds -/
theorem eval_ok_of_range {env : List Nat} {envR : List (Nat × Nat)} (hin : InEnv env envR) (e : Expr)
    (h : (range envR e).isSome = true) : ∃ v, eval env e = .ok v := by
  match hr : range envR e, h with
  | some (lo, hi), _ =>
    obtain ⟨v, hv, _⟩ := range_sound hin e lo hi hr
    exact ⟨v, hv⟩

/-- decision lists: if every arm is panic free on the box and the last arm is unconditional, the
`match` as a whole is -/
theorem evalArms_ok_of_range {env : List Nat} {envR : List (Nat × Nat)} (hin : InEnv env envR) :
    ∀ (arms : Arms), rangeArms envR arms = true → ∃ v, evalArms env arms = .ok v
  | [], h => by simp [rangeArms] at h
  | [(conds, e)], h => by
    simp only [rangeArms, Bool.and_eq_true, List.isEmpty_iff] at h
    obtain ⟨hc, hr⟩ := h
    subst hc
    simp only [evalArms, List.all_nil, if_true]
    exact eval_ok_of_range hin e hr
  | (conds, e) :: a2 :: rest, h => by
    simp only [rangeArms, Bool.and_eq_true] at h
    simp only [evalArms]
    split
    · exact eval_ok_of_range hin e h.1
    · exact evalArms_ok_of_range hin (a2 :: rest) h.2

end Startup
