import DeltaModel.Grep
/-!
Helper lemmas for C16: the coloured grep line format is read back exactly.
-/
namespace Grep

theorem stripPrefix_append (a b : List Char) : stripPrefix a (a ++ b) = some b := by
  induction a with
  | nil => simp [stripPrefix]
  | cons x xs ih => simp [stripPrefix, ih]

theorem takeWhile_append_cons (f : Char → Bool) (a : List Char) (c : Char) (b : List Char)
    (ha : ∀ x ∈ a, f x = true) (hc : f c = false) :
    (a ++ c :: b).takeWhile f = a := by
  induction a with
  | nil => simp [hc]
  | cons x xs ih =>
    have hx : f x = true := ha x (by simp)
    have := ih (fun y hy => ha y (by simp [hy]))
    simp [hx, this]

theorem dropWhile_append_cons (f : Char → Bool) (a : List Char) (c : Char) (b : List Char)
    (ha : ∀ x ∈ a, f x = true) (hc : f c = false) :
    (a ++ c :: b).dropWhile f = c :: b := by
  induction a with
  | nil => simp [hc]
  | cons x xs ih =>
    have hx : f x = true := ha x (by simp)
    have := ih (fun y hy => ha y (by simp [hy]))
    simp [hx, this]

theorem isDigit_esc : isDigit esc = false := by decide

theorem esc_ne_esc : (esc != esc) = false := by simp

theorem textKinds_eq : textKinds = [.match_, .context, .contextHeader] := by decide

theorem sep_match : Kind.sep .match_ = [':'] := by decide
theorem sep_context : Kind.sep .context = ['-'] := by decide
theorem sep_contextHeader : Kind.sep .contextHeader = ['='] := by decide

theorem kindOfSep_colon : kindOfSep ':' = some .match_ := by decide
theorem kindOfSep_dash : kindOfSep '-' = some .context := by decide
theorem kindOfSep_eq : kindOfSep '=' = some .contextHeader := by decide

theorem sgrPathOn_eq : sgrPathOn = [esc, '[', '3', '5', 'm'] := by decide
theorem sgrSepOn_eq : sgrSepOn = [esc, '[', '3', '6', 'm'] := by decide
theorem sgrNumOn_eq : sgrNumOn = [esc, '[', '3', '2', 'm'] := by decide
theorem sgrOff_eq : sgrOff = [esc, '[', 'm'] := by decide

theorem path_ne_esc (path : List Char) (h : path.contains esc = false) :
    ∀ x ∈ path, (x != esc) = true := by
  intro x hx
  simp only [bne_iff_ne, ne_eq]
  intro hxe
  subst hxe
  have : path.contains esc = true := by simp [hx]
  rw [h] at this
  exact Bool.noConfusion this

theorem digitsOk_spec (ds : List Char) (h : digitsOk ds = true) :
    (∃ d t, ds = d :: t) ∧ ∀ x ∈ ds, isDigit x = true := by
  unfold digitsOk at h
  simp only [Bool.and_eq_true, Bool.not_eq_true', List.all_eq_true] at h
  refine ⟨?_, h.2⟩
  cases ds with
  | nil => simp at h
  | cons d t => exact ⟨d, t, rfl⟩

/-- The numbered group is read back. -/
theorem colouredNum_fmt (s : Char) (ds code : List Char) (h : digitsOk ds = true) :
    colouredNum s (sgrNumOn ++ ds ++ sgrOff ++ sgrSepOn ++ [s] ++ sgrOff ++ code)
      = some (ds, code) := by
  obtain ⟨⟨d, t, hdt⟩, hall⟩ := digitsOk_spec ds h
  have e1 : sgrNumOn ++ ds ++ sgrOff ++ sgrSepOn ++ [s] ++ sgrOff ++ code
      = sgrNumOn ++ (ds ++ esc :: ('[' :: 'm' :: (sgrSepOn ++ [s] ++ sgrOff ++ code))) := by
    simp [sgrOff_eq, List.append_assoc]
  have e2 : esc :: ('[' :: 'm' :: (sgrSepOn ++ [s] ++ sgrOff ++ code))
      = (sgrOff ++ sgrSepOn ++ [s] ++ sgrOff) ++ code := by
    simp [sgrOff_eq, List.append_assoc]
  unfold colouredNum
  rw [e1, stripPrefix_append]
  simp only []
  rw [takeWhile_append_cons isDigit ds esc _ hall isDigit_esc,
    dropWhile_append_cons isDigit ds esc _ hall isDigit_esc, e2, stripPrefix_append]
  subst hdt
  rfl

/-- The frame around the optional numbered group is read back. -/
theorem parseColoured_frame (path : List Char) (s : Char) (kind : Kind) (r4 : List Char)
    (hne : ∀ x ∈ path, (x != esc) = true) (hks : kindOfSep s = some kind) :
    parseColoured (sgrPathOn ++ path ++ sgrOff ++ sgrSepOn ++ [s] ++ sgrOff ++ r4) =
      match colouredNum s r4 with
      | some (ds, code) =>
        if codeOk code then some { path := path, kind := kind, digits := some ds, code := code }
        else none
      | none =>
        if codeOk r4 then some { path := path, kind := kind, digits := none, code := r4 }
        else none := by
  have e1 : sgrPathOn ++ path ++ sgrOff ++ sgrSepOn ++ [s] ++ sgrOff ++ r4 =
      sgrPathOn ++ (path ++ esc :: ('[' :: 'm' :: (sgrSepOn ++ s :: (sgrOff ++ r4)))) := by
    simp [sgrOff_eq, List.append_assoc]
  have e2 : esc :: ('[' :: 'm' :: (sgrSepOn ++ s :: (sgrOff ++ r4)))
      = (sgrOff ++ sgrSepOn) ++ (s :: (sgrOff ++ r4)) := by
    simp [sgrOff_eq]
  unfold parseColoured
  rw [e1, stripPrefix_append]
  simp only []
  rw [takeWhile_append_cons (· != esc) path esc _ hne esc_ne_esc,
    dropWhile_append_cons (· != esc) path esc _ hne esc_ne_esc, e2, stripPrefix_append]
  simp only [hks, stripPrefix_append]
  cases colouredNum s r4 with
  | none => rfl
  | some r => rfl

theorem parseColoured_fmtColoured (p : Parsed)
    (hk : textKinds.contains p.kind = true)
    (hpath : p.path.contains esc = false)
    (hd : ∀ ds, p.digits = some ds → digitsOk ds = true)
    (hcode : codeOk p.code = true)
    (hamb : p.digits = none → ∀ s, p.kind.sep = [s] → colouredNum s p.code = none) :
    parseColoured (fmtColoured p) = some p := by
  obtain ⟨path, kind, digits, code⟩ := p
  simp only at hk hpath hd hcode hamb
  have hne := path_ne_esc path hpath
  -- one separator character `s`, recognised as `kind`
  have key : ∀ s, kind.sep = [s] → kindOfSep s = some kind →
      parseColoured (fmtColoured ⟨path, kind, digits, code⟩) = some ⟨path, kind, digits, code⟩ := by
    intro s hs hks
    cases digits with
    | none =>
      have hfmt : fmtColoured ⟨path, kind, none, code⟩ =
          sgrPathOn ++ path ++ sgrOff ++ sgrSepOn ++ [s] ++ sgrOff ++ code := by
        unfold fmtColoured
        simp only [hs]
        simp [List.append_assoc]
      rw [hfmt, parseColoured_frame path s kind code hne hks]
      have := hamb rfl s hs
      simp only [this, hcode, if_true]
    | some ds =>
      have hfmt : fmtColoured ⟨path, kind, some ds, code⟩ =
          sgrPathOn ++ path ++ sgrOff ++ sgrSepOn ++ [s] ++ sgrOff ++
            (sgrNumOn ++ ds ++ sgrOff ++ sgrSepOn ++ [s] ++ sgrOff ++ code) := by
        unfold fmtColoured
        simp only [hs]
        simp [List.append_assoc]
      rw [hfmt, parseColoured_frame path s kind _ hne hks]
      have h1 := colouredNum_fmt s ds code (hd ds rfl)
      simp only [h1, hcode, if_true]
  cases kind with
  | match_ => exact key ':' sep_match kindOfSep_colon
  | context => exact key '-' sep_context kindOfSep_dash
  | contextHeader => exact key '=' sep_contextHeader kindOfSep_eq
  | fileHeader => rw [textKinds_eq] at hk; exact absurd hk (by decide)
  | ignore => rw [textKinds_eq] at hk; exact absurd hk (by decide)

end Grep
