import DeltaModel.Generated.StyleSites
import DeltaModel.Generated.StyleRewrites
import Proofs.StyleDenote
/-!
Which colour depth each style option is parsed with: facts about the generated inventory of
call sites (`Generated.StyleSites.styleCallSites`, re-extracted from `src/parse_styles.rs`,
`src/parse_style.rs`, `src/color.rs`, `src/style.rs`, `src/handlers/blame.rs` on every run).
-/
namespace StyleSites
open Generated.StyleSites

/-- Value of a site's `true_color` argument when the configured flag (`opt.computed.true_color`)
is `configured`. `config.true_color` is that flag when `Config::from` initialises the field from it
(`configTrueColorIsComputed`, generated). `none`: not a closed expression (a forwarded parameter,
or decided elsewhere). -/
def evalDepth (arg : String) (configured : Bool) : Option Bool :=
  if arg = "opt.computed.true_color" then some configured
  else if (arg = "self.config.true_color" ∨ arg = "config.true_color") ∧ configTrueColorIsComputed = true
    then some configured
  else if arg = "true" ∨ arg = "true (fixed inside from_git_str)" then some true
  else if arg = "false" then some false
  else none

/-- Styles that are deliberately parsed in 24-bit mode whatever the configuration: `git-minus-style`
/ `git-plus-style` are git's own `color.diff.old/new`; they are never painted, only compared with
the SGR sequences found in git's raw output (`hunk.rs`: `line_has_style_other_than`), and git
writes `#rrggbb` colours as 24-bit sequences regardless of delta's colour depth. -/
def depthExceptions : List String := ["git-minus-style", "git-plus-style"]

/-- A helper call whose depth is a constant: it neither follows the configuration nor forwards its
caller's parameter nor leaves the decision to a callee that is itself in the inventory. -/
def literalHelper (s : Site) : Bool :=
  s.kind = "helper" ∧ (evalDepth s.trueColorArg false).isSome ∧
    evalDepth s.trueColorArg false = evalDepth s.trueColorArg true

/-- The helper sites allowed to fix the depth themselves (in-function, callee, style argument):
* `from_git_str` (parse_style.rs): git's own colour strings, see `depthExceptions`;
* the *key* of a `--map-styles` entry (`from_str` in `parse_styles_map`): it is compared with the SGR
  sequences of raw input, which are 24-bit capable whatever delta's depth;
* `parse_as_reference_to_git_config` → `from_git_str`: a style option that *refers* to a custom
  git-config key (`minus-style = foo-style`, `[delta] foo-style = "#123456"`). **Not legitimate**: the
  referenced style is painted, and is painted in 24-bit under `--true-color=never` (reachable since the
  repair d8feadd; reported by the binary oracle as `depth:gitconfig-reference-ignores-depth`, known
  finding, fix proposal notes/fix-gitconfig-style-reference-depth.diff). It stays listed here only so
  that the theorem holds on the tree as it is; after the repair the site forwards a parameter and
  the entry is dead.
(Before the repairs ca31cd5 / a0a88d2 the `--map-styles` replacement and `--blame-palette` were
literal `true` too; they now follow the configuration, see `map_styles_and_blame_palette_depth`.) -/
def allowedLiteralHelpers : List (String × String × String) :=
  [("from_git_str", "Self::from_str", "git_style_string"),
   ("parse_styles_map", "parse_as_style_or_reference_to_git_config", "from_str"),
   ("parse_as_reference_to_git_config", "Style::from_git_str", "&s")]

/-- **Every style option's call site passes the configured colour depth** (generated table). -/
theorem option_sites_pass_configured_depth :
    ∀ s ∈ styleCallSites, s.kind = "option" → s.name ∉ depthExceptions →
      s.trueColorArg = "opt.computed.true_color" := by decide

/-- The exceptions are exactly the `from_git_str` sites. -/
theorem exceptions_are_git_styles :
    ∀ s ∈ styleCallSites, s.kind = "option" → s.name ∈ depthExceptions →
      s.callee = "Style::from_git_str" ∧ s.uses = [] := by decide

/-- Every other helper forwards its own `true_color` parameter or delegates to a helper of the
inventory; the only literals are the listed ones. -/
theorem helpers_forward_depth :
    ∀ s ∈ styleCallSites, literalHelper s = true →
      (s.inFn, s.callee, s.styleArg) ∈ allowedLiteralHelpers := by decide

/-- Every `--…-style` option of cli.rs (decoration styles included) is parsed at some option site
(all of which pass the configured depth, by `option_sites_pass_configured_depth`). -/
theorem every_cli_style_option_has_a_site :
    ∀ o ∈ cliStyleOptions, ∃ s ∈ styleCallSites, s.kind = "option" ∧ o ∈ s.uses ∧
      s.trueColorArg = "opt.computed.true_color" := by decide

/-- The replacement style of a `--map-styles` entry and the colours of `--blame-palette` are parsed
at the configured depth (there is such a site for each, and every such site follows the
configuration). -/
theorem map_styles_and_blame_palette_depth :
    (∃ s ∈ styleCallSites, s.inFn = "parse_styles_map" ∧ s.styleArg = "to_str") ∧
    (∃ s ∈ styleCallSites, s.inFn = "blame_metadata_style" ∧ s.callee = "color::parse_color") ∧
    (∀ s ∈ styleCallSites,
      (s.inFn = "parse_styles_map" ∧ s.styleArg = "to_str") ∨ s.inFn = "blame_metadata_style" →
      ∀ configured, evalDepth s.trueColorArg configured = some configured) := by decide

/-- Lifted: at every (non-exception) option site the depth the parser runs with *is* the
configured one. -/
theorem site_depth (s : Site) (hs : s ∈ styleCallSites) (hk : s.kind = "option")
    (hx : s.name ∉ depthExceptions) (configured : Bool) :
    evalDepth s.trueColorArg configured = some configured := by
  rw [option_sites_pass_configured_depth s hs hk hx]
  simp [evalDepth]

end StyleSites

/-! ### `set_options`: which style strings may be rewritten after the command line was read -/
namespace StyleRewrites
open Generated.StyleRewrites

/-- The guard that protects a command-line value of `field`. -/
def ownGuard (field : String) : String :=
  "!config::user_supplied_option(\"" ++ field ++ "\", arg_matches)"

/-- The style fields `set_options` may overwrite, and nothing else. -/
def rewrittenFields : List String :=
  ["minus_style", "minus_emph_style", "whitespace_error_style",
   "file_decoration_style", "commit_decoration_style", "hunk_header_decoration_style"]

/-- The decoration styles forced to `none` under `--color-only` (by design: `git add -p` needs
output lines in 1-1 correspondence with git's; #274) — the only rewrite that also applies to a value
given on the command line. -/
def colorOnlyFields : List String :=
  ["file_decoration_style", "commit_decoration_style", "hunk_header_decoration_style"]

set_option maxRecDepth 8192 in
/-- **Exactly these rewrites exist** (generated inventory of `set_options`), and:
* every rewrite of a non-decoration style is guarded by `!user_supplied_option("<that same field>")`
  (= the value did not come from the command line) and happens *before* the `set_options!` macro loads
  git-config values — so a value the user gave on the command line or in git config is never rewritten;
* the side-by-side HACK (`normal …` → `syntax …`) touches only `minus_style` / `minus_emph_style`, each
  under its own guard;
* the only other rewrites are the three decoration styles under `opt.color_only`, to `"none"`. -/
theorem rewrites_are_exactly :
    styleRewrites.map (·.field) = rewrittenFields ∧
    userSuppliedMeansCommandLine = true ∧
    (∀ r ∈ styleRewrites, r.field ∉ colorOnlyFields →
      ownGuard r.field ∈ r.guards ∧ r.beforeGitConfig = true) ∧
    (∀ r ∈ styleRewrites, r.field ∈ colorOnlyFields →
      r.guards = ["opt.color_only"] ∧ r.value = "\"none\".to_string()") ∧
    (∀ r ∈ styleRewrites, ("format!(\"syntax {}\"".toList.isPrefixOf r.value.toList) = true →
      (r.field = "minus_style" ∨ r.field = "minus_emph_style") ∧
      "features.contains(&\"side-by-side\".to_string())" ∈ r.guards ∧ ownGuard r.field ∈ r.guards) := by
  decide

end StyleRewrites
