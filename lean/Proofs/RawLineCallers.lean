import Proofs.AnsiRaw
import DeltaModel.RawLineCallers
/-!
Lemmas about the callers of `maybe_raw_line` (`DeltaModel/RawLineCallers.lean`): the decision depends on
`non_raw_styles` only as a set; what a verified arm (`armOk`) hands to `keepsRawLine`.
-/
namespace Ansi
open Generated (HunkKind GitDefaultRef RawStyleRef RawArm)

theorem colorEq_refl (c : Option Color) : colorEq c c = true := by
  cases c with
  | none => rfl
  | some x => simp [colorEq]

/-- `ansi_term_style_equality` is reflexive. -/
theorem styleEq_refl (a : Style) : styleEq a a = true := by
  simp [styleEq, colorEq_refl]

theorem any_congr_mem {α : Type} (f : α → Bool) {l1 l2 : List α} (h : ∀ x, x ∈ l1 ↔ x ∈ l2) :
    l1.any f = l2.any f := by
  rw [Bool.eq_iff_iff, List.any_eq_true, List.any_eq_true]
  constructor
  · rintro ⟨x, hx, hf⟩; exact ⟨x, (h x).1 hx, hf⟩
  · rintro ⟨x, hx, hf⟩; exact ⟨x, (h x).2 hx, hf⟩

/-- `line_has_style_other_than` looks at `styles` as a set. -/
theorem lineHasStyleOtherThan_congr (s : Bytes) {l1 l2 : List Style} (h : ∀ x, x ∈ l1 ↔ x ∈ l2) :
    lineHasStyleOtherThan s l1 = lineHasStyleOtherThan s l2 := by
  simp only [lineHasStyleOtherThan, any_congr_mem _ h]

theorem keepsRawLine_congr (w i r : Bool) (s : Bytes) {l1 l2 : List Style} (h : ∀ x, x ∈ l1 ↔ x ∈ l2) :
    keepsRawLine w i r s l1 = keepsRawLine w i r s l2 := by
  simp only [keepsRawLine, lineHasStyleOtherThan_congr s h]

theorem armOk_spec {o : Option RawArm} {k : HunkKind} {want : List RawStyleRef} (h : armOk o k want = true) :
    ∃ a, o = some a ∧ a.state = k ∧ a.styleIsRawOf = k ∧ ∀ r, r ∈ a.nonRaw ↔ r ∈ want := by
  cases o with
  | none => simp [armOk] at h
  | some a =>
    simp only [armOk, Bool.and_eq_true, beq_iff_eq, List.all_eq_true, List.contains_iff_mem] at h
    obtain ⟨⟨⟨h1, h2⟩, h3⟩, h4⟩ := h
    exact ⟨a, rfl, h1, h2, fun r => ⟨h4 r, h3 r⟩⟩

/-- What a verified arm decides: `maybe_raw_line` with the state's own `is_raw` and the styles of `want`. -/
theorem hunkLineKeepsRaw_of_armOk {w : Bool} {c : Char} {combined : Bool} {k : HunkKind} {want : List RawStyleRef}
    (h : armOk (rawArmFor w c combined) k want = true) (i : Bool) (isRaw : HunkKind → Bool) (g : GitColors)
    (raw : Bytes) :
    hunkLineKeepsRaw w i isRaw g c combined raw =
      some (keepsRawLine w i (isRaw k) raw (want.map (resolveRawStyle g))) := by
  obtain ⟨a, ha, _, h2, h3⟩ := armOk_spec h
  simp only [hunkLineKeepsRaw, ha, Option.map_some, h2]
  congr 1
  apply keepsRawLine_congr
  intro x
  simp only [armStyles, List.mem_map]
  constructor
  · rintro ⟨r, hr, e⟩; exact ⟨r, (h3 r).1 hr, e⟩
  · rintro ⟨r, hr, e⟩; exact ⟨r, (h3 r).2 hr, e⟩

/-- No word-diff, no raw style: only inspection of the line's leading style can keep the raw line. -/
theorem emitRawLine_plain : ∀ i o : Bool, Generated.emitRawLine false i o false = (i && o) := by decide

/-- A line that starts with the SGR sequence `ESC [ body m`: kept raw iff raw lines are inspected and the
parsed style equals none of `styles`. -/
theorem keepsRawLine_sgr_prefix (i : Bool) (body : Bytes) (hb : SgrBody body) (rest : Bytes) (styles : List Style) :
    ∃ ps, csiKind body 0x6d = .sgr ps ∧
      keepsRawLine false i false (0x1b :: 0x5b :: (body ++ 0x6d :: rest)) styles =
        (i && !(styles.any fun st => styleEq (sgrToStyle ps) st)) := by
  obtain ⟨ps, h1, h2⟩ := lineHasStyleOtherThan_sgr_prefix body hb rest styles
  exact ⟨ps, h1, by simp only [keepsRawLine, emitRawLine_plain, h2]⟩

end Ansi
