import Proofs.PaintLine
import DeltaModel.ColorOnlyPaint
/-! What a terminal shows of the line `paint_lines` writes (`PaintLine.paintedLine`): the re-inserted prefix of the line's
own state, the texts of the sections, and what the fill step puts behind them — whatever the styles are. -/
namespace ColorOnlyPaintProofs
open Term Sgr SgrTerm Line LineProofs PaintLine PaintLineProofs ColorOnlyPaint

/-- A line is *shown as* `t`: read from the default state, the terminal returns to it and has displayed the characters `t`. -/
def Shows (line t : List Char) : Prop := ∃ cs, run init line = (init, cs) ∧ cs.map (·.ch) = t

theorem visible_of_shows (line t : List Char) (h : Shows line t) : visible line = t := by
  obtain ⟨cs, h1, h2⟩ := h
  simp [visible, cells, h1, h2]

/-! ### `ANSIStrings` over plain pieces -/

def ptext : PPiece → List Char
  | .plain gs => gchars gs
  | .linked _ gs => gchars gs

def isPlainPiece : PPiece → Prop
  | .plain _ => True
  | .linked _ _ => False

def textOf (xs : List (Sgr.Style × PPiece)) : List Char := xs.flatMap fun x => ptext x.2

theorem map_ch_cellsOf (st : Sgr.Style) (l : Option (List Char)) (t : List Char) :
    (cellsOf st l t).map (·.ch) = t := by
  induction t with
  | nil => rfl
  | cons c cs ih => simp only [cellsOf, List.map_cons, List.map_map] at ih ⊢; rw [ih]

theorem shows_strings (xs : List (Sgr.Style × PPiece)) (h : ∀ x ∈ xs, Style.wf x.1 ∧ PPiece.ok x.2)
    (hp : ∀ x ∈ xs, isPlainPiece x.2) : Shows (Line.paintLine (toPieces xs)) (textOf xs) := by
  unfold Line.paintLine toPieces
  have hr := run_renderStrings ((xs.map fun x => (x.1, x.2.toPiece)).map fun x => (x.1, x.2.chars))
    (by
      intro x hx
      simp only [List.map_map, List.mem_map, Function.comp] at hx
      obtain ⟨y, hy, rfl⟩ := hx
      exact (h y hy).1)
    (by
      intro x hx
      simp only [List.map_map, List.mem_map, Function.comp] at hx
      obtain ⟨y, hy, rfl⟩ := hx
      obtain ⟨s, p⟩ := y
      cases p with
      | plain gs => exact gchars_noesc gs (h _ hy).2
      | linked u gs => exact absurd (hp _ hy) (by simp [isPlainPiece]))
    init rfl rfl
  refine ⟨_, hr, ?_⟩
  clear hr
  induction xs with
  | nil => simp [textOf]
  | cons x xs ih =>
    obtain ⟨s, p⟩ := x
    have ih' := ih (fun x hx => h x (List.mem_cons_of_mem _ hx)) (fun x hx => hp x (List.mem_cons_of_mem _ hx))
    cases p with
    | plain gs =>
      simp only [List.map_cons, List.flatMap_cons, List.map_append, map_ch_cellsOf, textOf, ptext] at ih' ⊢
      rw [ih']
      simp [PPiece.toPiece, Piece.chars]
    | linked u gs => exact absurd (hp _ List.mem_cons_self) (by simp [isPlainPiece])

/-! ### The section loop of `paint_line` -/

theorem loopGo_text (g2 g3 : List String) (pfx : Option (Sgr.Style × PPiece)) (hpp : ∀ x, pfx = some x → isPlainPiece x.2)
    (handled : Bool) (secs : List (Sgr.Style × List G)) :
    textOf (loopGo [("prefix", g2), ("section", g3)] pfx handled secs) =
      (if handled || secs.isEmpty then [] else textOf pfx.toList) ++ sectionsText secs ∧
    ∀ x ∈ loopGo [("prefix", g2), ("section", g3)] pfx handled secs, isPlainPiece x.2 := by
  induction secs generalizing handled with
  | nil => simp [loopGo, textOf, sectionsText]
  | cons s rest ih =>
    obtain ⟨ih1, ih2⟩ := ih true
    have hb : loopBody [("prefix", g2), ("section", g3)] pfx handled s =
        (if handled then [] else pfx.toList) ++
          (if g3.contains "text-nonempty" && s.2.isEmpty then [] else [(s.1, PPiece.plain s.2)]) := by
      simp [loopBody]
    constructor
    · simp only [loopGo, hb, textOf, List.flatMap_append] at ih1 ⊢
      rw [ih1]
      simp only [sectionsText, List.flatMap_cons, Bool.true_or, if_true, List.nil_append, List.isEmpty_cons, Bool.or_false]
      have hsec : (List.flatMap (fun x => ptext x.2)
          (if g3.contains "text-nonempty" && s.2.isEmpty then [] else [(s.1, PPiece.plain s.2)])) = gchars s.2 := by
        split
        · rename_i hc
          simp only [Bool.and_eq_true, List.isEmpty_iff] at hc
          simp [hc.2, gchars]
        · simp [ptext]
      rw [hsec]
      cases handled <;> simp
    · intro x hx
      simp only [loopGo, hb, List.mem_append] at hx
      rcases hx with (hx | hx) | hx
      · split at hx
        · exact absurd hx (by simp)
        · cases pfx with
          | none => exact absurd hx (by simp)
          | some y =>
            simp only [Option.toList_some, List.mem_singleton] at hx
            subst hx
            exact hpp _ rfl
      · split at hx
        · exact absurd hx (by simp)
        · simp only [List.mem_singleton] at hx
          subst hx
          trivial
      · exact ih2 x hx

theorem pushes_shape : ∃ g1 g2 g3, Generated.PaintLine.pushes = [("gutter", g1), ("prefix", g2), ("section", g3)] :=
  ⟨_, _, _, rfl⟩

theorem gchars_asciiClusters (t : List Char) : gchars (asciiClusters t) = t := by
  induction t with
  | nil => rfl
  | cons c cs ih =>
    simp only [gchars, asciiClusters, List.map_cons, List.flatMap_cons] at ih ⊢
    rw [ih]
    rfl

/-- The strings `paint_line` hands to `ANSIStrings` when there is no gutter: all plain, spelling the prefix (once, in front
of the first section) and the section texts. -/
theorem stringsOf_text (inp : Input) (hg : inp.gutter = []) (pfx : Option (Sgr.Style × List Char)) :
    textOf (stringsOf Generated.PaintLine.pushes inp pfx) =
      (if inp.sections.isEmpty then [] else pfxText pfx) ++ sectionsText inp.sections ∧
    ∀ x ∈ stringsOf Generated.PaintLine.pushes inp pfx, isPlainPiece x.2 := by
  obtain ⟨g1, g2, g3, hs⟩ := pushes_shape
  rw [hs]
  have hst : stringsOf [("gutter", g1), ("prefix", g2), ("section", g3)] inp pfx =
      loopGo [("prefix", g2), ("section", g3)] (pfx.map fun (s, t) => (s, PPiece.plain (asciiClusters t))) false
        inp.sections := by
    simp [stringsOf, hg, List.filter]
  rw [hst]
  have := loopGo_text g2 g3 (pfx.map fun (s, t) => (s, PPiece.plain (asciiClusters t)))
    (by
      intro x hx
      cases pfx with
      | none => simp at hx
      | some y => simp at hx; subst hx; trivial)
    false inp.sections
  refine ⟨?_, this.2⟩
  rw [this.1]
  cases pfx with
  | none => simp [pfxText, textOf]
  | some y =>
    obtain ⟨s, t⟩ := y
    simp [pfxText, textOf, ptext, gchars_asciiClusters]

/-! ### The fill step -/

theorem run_esc_csi0 (s : State) (x : Char) (hx : x = 'm' ∨ x = 'M' ∨ x = 'K') :
    (run s [ESC, '[', '0', x]).2 = [] := by
  obtain ⟨mode, rend, link⟩ := s
  rcases hx with h | h | h <;> subst h <;> cases mode <;>
    simp [run, step, afterEsc, isDigit, ESC, BEL]

theorem run_esc_csi1K (s : State) (hm : s.mode = .ground) : run s [ESC, '[', '1', 'K'] = (s, []) := by
  obtain ⟨mode, rend, link⟩ := s
  simp only at hm
  subst hm
  simp [run, step, afterEsc, isDigit, ESC]

theorem run_pair (s : State) (l : List Char) : run s l = (final s l, cells s l) := rfl

/-- `right_fill_background_color` shows nothing. -/
theorem shows_rightFill (line : List Char) (fill : Sgr.Style) (hwf : Style.wf fill) (t : List Char)
    (h : Shows line t) : Shows (rightFill line fill) t := by
  obtain ⟨c1, c2, _, c4⟩ := line_consts
  obtain ⟨cs, hr, hcs⟩ := h
  have hl1 : run init (line ++ renderStrings [(fill, [])]) = (init, cs) := by
    rw [renderStrings_single_nil, run_append, hr]
    simp only
    rw [run_paint fill [] hwf (by simp) init rfl rfl]
    simp [cellsOf]
  unfold rightFill
  simp only
  generalize line ++ renderStrings [(fill, [])] = l1 at hl1
  rw [c4, c1, c2]
  have htail : ∀ s : State, s.link = none →
      run s ([ESC, '[', '0', 'K'] ++ [ESC, '[', '0', 'm']) = (init, []) := by
    intro s hl
    rw [run_pair, final_el_reset s hl, cells_append, cells, cells, run_esc_csi0 s 'K' (by simp),
      run_esc_csi0 _ 'm' (by simp)]
    rfl
  split
  · next hs =>
    rw [List.isSuffixOf_iff_suffix] at hs
    obtain ⟨t', ht⟩ := hs
    have hmap : l1.map Char.toLower = t' ++ [ESC, '[', '0', 'm'] := by simpa [asciiLower] using ht.symm
    rw [List.map_eq_append_iff] at hmap
    obtain ⟨l2, u, hl, _, hu⟩ := hmap
    obtain ⟨a, b, c, d, hu4, ha, hb, hc, hd⟩ := map_eq_four hu
    subst hu4
    have ea : a = ESC := toLower_eq_nonletter a ESC (by decide) ha
    have eb : b = '[' := toLower_eq_nonletter b '[' (by decide) hb
    have ec : c = '0' := toLower_eq_nonletter c '0' (by decide) hc
    have ed : d = 'm' ∨ d = 'M' := toLower_eq_m d hd
    subst ea eb ec hl
    have hlen : [ESC, '[', '0', 'm'].length = 4 := rfl
    have htake : (l2 ++ [ESC, '[', '0', d]).take ((l2 ++ [ESC, '[', '0', d]).length - 4) = l2 := by
      simp
    rw [hlen, htake]
    have hd' : d = 'm' ∨ d = 'M' ∨ d = 'K' := by rcases ed with h | h <;> simp [h]
    rw [run_append] at hl1
    have h2 : (run init l2).2 = cs := by
      have := congrArg Prod.snd hl1
      simpa [run_esc_csi0 _ d hd'] using this
    have h1 : ((run init l2).1).link = none := by
      have := congrArg Prod.fst hl1
      simp only at this
      have hf := final_esc_csi0 (run init l2).1 d hd'
      unfold final at hf
      rw [hf] at this
      have := congrArg State.link this
      simpa [init] using this
    refine ⟨cs, ?_, hcs⟩
    rw [List.append_assoc, run_append, htail _ h1, h2]
    simp
  · refine ⟨cs, ?_, hcs⟩
    rw [List.append_assoc, run_append, hl1]
    simp only
    rw [htail init rfl]
    simp

theorem shows_paint_after (line : List Char) (st : Sgr.Style) (hwf : Style.wf st) (t m : List Char) (hm : ESC ∉ m)
    (h : Shows line t) : Shows (line ++ Sgr.paint st m) (t ++ m) := by
  obtain ⟨cs, hr, hcs⟩ := h
  refine ⟨cs ++ cellsOf st none m, ?_, by simp [hcs, map_ch_cellsOf]⟩
  rw [run_append, hr]
  simp only
  rw [run_paint st m hwf hm init rfl rfl]
  rfl

theorem shows_markEmpty_bol (line : List Char) (st : Sgr.Style) (hwf : Style.wf st) (t : List Char)
    (h : Shows line t) : Shows (markEmpty line st none) t := by
  obtain ⟨_, _, c3, _⟩ := line_consts
  obtain ⟨cs, hr, hcs⟩ := h
  refine ⟨cs, ?_, hcs⟩
  unfold markEmpty
  simp only [Option.getD_none, c3, Sgr.paint]
  rw [run_append, hr]
  simp only
  rw [run_append, run_append, run_pre st hwf init rfl]
  simp only
  rw [run_esc_csi1K _ rfl]
  simp only
  rw [run_suf st _ rfl (by simp [init, ofStyle])]
  simp [init]

theorem noesc_replicate (n : Nat) : ESC ∉ List.replicate n ' ' := by
  intro hmem
  have := List.eq_of_mem_replicate hmem
  exact absurd this (by decide)

theorem shows_chainAct (cfg : Cfg) (inp : Input) (hes : ∀ s, inp.emptyStyle = some s → Style.wf s)
    (fs : Sgr.Style) (hfs : Style.wf fs) (tw : Nat) (line t : List Char) (hl : Shows line t) (a : String)
    (out : List Char) (h : chainAct cfg inp fs tw line a = .ok out) : Shows out (t ++ actTrail cfg inp tw a) := by
  unfold chainAct at h
  unfold actTrail
  split at h
  · rename_i ha
    subst ha
    simp only [Except.ok.injEq] at h
    subst h
    simpa using shows_rightFill line fs hfs t hl
  split at h
  · rename_i _ ha
    subst ha
    simp only [Except.ok.injEq] at h
    subst h
    simpa [spacesFill] using shows_paint_after line fs hfs t _ (noesc_replicate _) hl
  split at h
  · rename_i _ _ ha
    subst ha
    split at h
    · exact absurd h (by simp)
    · simp only [Except.ok.injEq] at h
      subst h
      simpa [spacesFill] using shows_paint_after line fs hfs t _ (noesc_replicate _) hl
  split at h
  · rename_i _ _ _ ha
    subst ha
    split at h
    · rename_i es hes'
      simp only [Except.ok.injEq] at h
      subst h
      simp only [hes']
      have hw := hes es hes'
      by_cases hln : cfg.lineNumbers = true
      · simpa [hln, markEmpty] using shows_paint_after line es hw t _ marker_noesc hl
      · have hln' : cfg.lineNumbers = false := by simpa using hln
        simpa [hln'] using shows_markEmpty_bol line es hw t hl
    · rename_i hnone
      simp only [Except.ok.injEq] at h
      subst h
      simpa [hnone] using hl
  split at h
  · rename_i _ _ _ _ ha
    subst ha
    simp only [Except.ok.injEq] at h
    subst h
    simpa using hl
  · exact absurd h (by simp)

theorem shows_chainGo (cfg : Cfg) (inp : Input) (hes : ∀ s, inp.emptyStyle = some s → Style.wf s)
    (mode : Option FillMethod) (fs : Sgr.Style) (hfs : Style.wf fs) (e : Bool) (tw : Nat) (line t : List Char)
    (hl : Shows line t) (chain : List (String × String)) (out : List Char)
    (h : chainGo cfg inp mode fs e tw line chain = .ok out) :
    Shows out (t ++ chainTrail cfg inp mode e tw chain) := by
  induction chain with
  | nil =>
    simp only [chainGo, Except.ok.injEq] at h
    subst h
    simpa [chainTrail] using hl
  | cons x rest ih =>
    obtain ⟨c, a⟩ := x
    simp only [chainGo] at h
    simp only [chainTrail]
    split at h
    · exact absurd h (by simp)
    · rename_i hc
      simp only [hc]
      exact shows_chainAct cfg inp hes fs hfs tw line t hl a out h
    · rename_i hc
      simp only [hc]
      exact ih h

/-! ### The painted line -/

/-- **What the line `paint_lines` writes shows**: the prefix `painted_prefix` gives for the line's own state (in front of the
first section), the section texts, and the trail of the fill step — for every Config, state, section list, fill request. -/
theorem paintedLine_shows (cfg : Cfg) (hcfg : Cfg.wf cfg) (inp : Input) (hin : Input.ok inp) (hg : inp.gutter = [])
    (out : List Char) (h : paintedLine cfg inp = .ok out) :
    visible out = (if inp.sections.isEmpty then [] else shownPrefix cfg inp.st) ++ sectionsText inp.sections ++
      lineTrail cfg inp := by
  apply visible_of_shows
  unfold paintedLine at h
  unfold lineTrail
  split at h
  · exact absurd h (by simp)
  · rename_i strings le hpl
    split at h
    · exact absurd h (by simp)
    · rename_i mode fs hfd
      have hfs := fillDecision_wf cfg hcfg inp hin.2.2.1 mode fs hfd
      have hok := (paintLine_selfContained cfg hcfg inp hin strings le hpl).1
      simp only [hpl, hfd]
      have hstr : ∃ pfx, paintedPrefix cfg inp.st = .ok pfx ∧ strings = stringsOf Generated.PaintLine.pushes inp pfx := by
        unfold PaintLine.paintLine at hpl
        split at hpl
        · exact absurd hpl (by simp)
        · rename_i pfx hp
          split at hpl
          · simp only [Except.ok.injEq, Prod.mk.injEq] at hpl
            exact ⟨pfx, hp, hpl.1.symm⟩
          · exact absurd hpl (by simp)
      obtain ⟨pfx, hp, rfl⟩ := hstr
      have ht := stringsOf_text inp hg pfx
      have hshow := shows_strings _ hok ht.2
      rw [ht.1] at hshow
      have hsp : shownPrefix cfg inp.st = pfxText pfx := by simp [shownPrefix, hp]
      rw [hsp]
      exact shows_chainGo cfg inp hin.2.2.2.1 mode fs hfs le _ _ _ hshow _ out h

/-- Without the space fill and without `--line-numbers` nothing is shown behind the text. -/
theorem lineTrail_nil (cfg : Cfg) (inp : Input) (hln : cfg.lineNumbers = false) (hns : noSpaceFill cfg inp = true) :
    lineTrail cfg inp = [] := by
  unfold lineTrail
  split
  · rename_i strings e mode fs hpl hfd
    have hm : mode ≠ some .spaces := by
      intro hm
      subst hm
      simp [noSpaceFill, hfd] at hns
    cases mode with
    | none =>
      cases e <;> cases hes : inp.emptyStyle <;>
        simp [Generated.PaintLine.fillChain, chainTrail, chainCond, actTrail, hln, hes]
    | some m =>
      cases m with
      | ansi => simp [Generated.PaintLine.fillChain, chainTrail, chainCond, actTrail]
      | spaces => exact absurd rfl hm
  · rfl

/-- **The bytes painted for a hunk line, escape sequences stripped, are the prefix of the line's own state followed by the
section texts.** -/
theorem paintedLine_visible_exact (cfg : Cfg) (hcfg : Cfg.wf cfg) (inp : Input) (hin : Input.ok inp) (hg : inp.gutter = [])
    (hln : cfg.lineNumbers = false) (hns : noSpaceFill cfg inp = true) (hsec : inp.sections ≠ [])
    (out : List Char) (h : paintedLine cfg inp = .ok out) :
    visible out = shownPrefix cfg inp.st ++ sectionsText inp.sections := by
  rw [paintedLine_shows cfg hcfg inp hin hg out h, lineTrail_nil cfg inp hln hns]
  have : inp.sections.isEmpty = false := by
    cases hs : inp.sections with
    | nil => exact absurd hs hsec
    | cons _ _ => rfl
  simp [this]

/-! ### The prefix of the model of `painted_prefix` is the prefix of the machine's row -/

theorem shownPrefix_machine (pc : PaintLine.Cfg) (mc : Machine.Cfg) (hk : pc.keepMarkers = mc.keepMarkers)
    (k : Machine.LineKind) (dt : Machine.DiffType) (raw : Bool) :
    (∃ p, paintedPrefix pc (stOf k dt raw) = .ok p) ∧
      shownPrefix pc (stOf k dt raw) = Machine.paintedPrefix mc k dt := by
  have hkeep : ∀ b, mc.keepMarkers = b → pc.keepMarkers = b := fun b hb => hk.trans hb
  cases hb : mc.keepMarkers <;> have hpk := hkeep _ hb <;> cases k <;>
    (first
      | (cases dt with
         | unified =>
           simp [shownPrefix, pfxText, stOf, signOf, Machine.paintedPrefix, hb, PaintLine.paintedPrefix,
             paintedPrefixGo, Generated.PaintLine.prefixArms, prefixPat, prefixExpr, prefixExprTable, List.lookup,
             cfgStyleOf, PaintLine.prefixText, hpk]
         | combined mp c =>
           cases mp <;> cases c <;>
           simp [shownPrefix, pfxText, stOf, signOf, Machine.paintedPrefix, hb, PaintLine.paintedPrefix,
             paintedPrefixGo, Generated.PaintLine.prefixArms, prefixPat, prefixExpr, prefixExprTable, List.lookup,
             cfgStyleOf, PaintLine.prefixText, hpk]))

/-! ### The loop of `paint_lines` -/

theorem prefix_per_line : prefixPerLine = true := by decide

theorem mapM_cons_ok {α β : Type} (f : α → Except String β) (x : α) (xs : List α) (ys : List β)
    (h : (x :: xs).mapM f = .ok ys) : ∃ y ys', ys = y :: ys' ∧ f x = .ok y ∧ xs.mapM f = .ok ys' := by
  rw [List.mapM_cons] at h
  cases hx : f x with
  | error e => simp [hx, bind, Except.bind] at h
  | ok y =>
    cases hxs : xs.mapM f with
    | error e => simp [hx, hxs, bind, Except.bind] at h
    | ok ys' =>
      simp [hx, hxs, bind, Except.bind, pure, Except.pure] at h
      exact ⟨y, ys', h.symm, rfl, rfl⟩

/-- Every line of a block painted by `paint_lines` shows the prefix of **its own** state and its own text. -/
theorem paintedBlock_shows (cfg : Cfg) (hcfg : Cfg.wf cfg) (hln : cfg.lineNumbers = false) (lines : List Input)
    (hl : ∀ inp ∈ lines, Input.ok inp ∧ inp.gutter = [] ∧ noSpaceFill cfg inp = true ∧ inp.sections ≠ [])
    (outs : List (List Char)) (h : paintedBlock cfg lines = .ok outs) :
    outs.map visible = lines.map fun inp => shownPrefix cfg inp.st ++ sectionsText inp.sections := by
  unfold paintedBlock at h
  rw [prefix_per_line] at h
  simp only [if_true] at h
  induction lines generalizing outs with
  | nil =>
    simp [List.mapM_nil, pure, Except.pure] at h
    subst h
    rfl
  | cons inp lines' ih =>
    obtain ⟨out, outs', rfl, hx, hxs⟩ := mapM_cons_ok _ _ _ _ h
    obtain ⟨h1, h2, h3, h4⟩ := hl inp List.mem_cons_self
    simp only [List.map_cons]
    rw [paintedLine_visible_exact cfg hcfg inp h1 h2 hln h3 h4 out hx,
      ih (fun i hi => hl i (List.mem_cons_of_mem _ hi)) outs' hxs]

/-- A line written raw that has no escape sequence shows itself. -/
theorem visible_raw (l : List Char) (h : ESC ∉ l) : visible l = l := by
  simp only [visible, cells, run_text init l rfl h, List.map_map]
  induction l with
  | nil => rfl
  | cons c cs ih => simp only [List.map_cons, Function.comp] at ih ⊢; rw [ih (fun m => h (List.mem_cons_of_mem _ m))]

/-! ### Who asks for the space fill -/

theorem decisionExpr_mode (cfg : Cfg) (bg : BgShouldFill) (e : String) (m : Option FillMethod)
    (h : decisionExpr cfg bg e = .ok m) : m = none ∨ m = bgMode bg := by
  unfold decisionExpr at h
  split at h
  · simp only [Except.ok.injEq] at h; exact Or.inl h.symm
  split at h
  · simp only [Except.ok.injEq] at h; exact Or.inr h.symm
  split at h
  · simp only [Except.ok.injEq] at h
    subst h
    cases cfg.bgExtends <;> simp
  · exact absurd h (by simp)

theorem decisionGo_mode (cfg : Cfg) (hasBg : Bool) (bg : BgShouldFill) (arms : List (List String × String))
    (m : Option FillMethod) (h : decisionGo cfg hasBg bg arms = .ok m) : m = none ∨ m = bgMode bg := by
  induction arms with
  | nil => simp [decisionGo] at h
  | cons a rest ih =>
    obtain ⟨p, e⟩ := a
    simp only [decisionGo] at h
    split at h
    · exact absurd h (by simp)
    · exact decisionExpr_mode cfg bg e m h
    · exact ih h

/-- A caller that does not ask for the space fill never gets it. -/
theorem noSpaceFill_of_request (cfg : Cfg) (inp : Input) (h : inp.bg ≠ .with_ .spaces) : noSpaceFill cfg inp = true := by
  unfold noSpaceFill
  split
  · rename_i fs hfd
    exfalso
    unfold fillDecision at hfd
    split at hfd
    · exact absurd hfd (by simp)
    · split at hfd
      · exact absurd hfd (by simp)
      · split at hfd
        · split at hfd
          · exact absurd hfd (by simp)
          · rename_i m hgo
            simp only [Except.ok.injEq, Prod.mk.injEq] at hfd
            obtain ⟨hm, _⟩ := hfd
            subst hm
            rcases decisionGo_mode _ _ _ _ _ hgo with h1 | h1
            · exact absurd h1 (by simp)
            · cases hb : inp.bg with
              | no => rw [hb] at h1; simp [bgMode] at h1
              | with_ mm =>
                rw [hb] at h1
                simp only [bgMode, Option.some.injEq] at h1
                subst h1
                exact h hb
        · exact absurd hfd (by simp)
  · rfl

end ColorOnlyPaintProofs
