import Proofs.SgrCsi
/-!
What the terminal makes of `ansi_term`'s output: `write_prefix` overlays a style on the current
rendition, `RESET` restores the default, `Difference::between` bridges two styles.
`ofStyle` is the meaning of an `ansi_term::Style` as a terminal rendition (ECMA-48 names).
-/
namespace SgrTerm
open Term Sgr Generated.StyleTables

/-- The terminal colour an `ansi_term` colour selects (`Red` and `Fixed(1)` are both palette
entry 1). -/
def tcolor : Sgr.Color → TColor
  | .basic n => .idx n
  | .fixed n => .idx n
  | .rgb r g b => .rgb r g b

/-- Rendition after a style's prefix is applied on top of `r`. -/
def overlay (r : Rendition) (st : Sgr.Style) : Rendition :=
  { fg := match st.fg with
      | some c => some (tcolor c)
      | none => r.fg,
    bg := match st.bg with
      | some c => some (tcolor c)
      | none => r.bg,
    bold := r.bold || st.bold, faint := r.faint || st.dimmed, italic := r.italic || st.italic,
    underline := r.underline || st.underline, blink := r.blink || st.blink,
    inverse := r.inverse || st.reverse, conceal := r.conceal || st.hidden,
    crossed := r.crossed || st.strike }

/-- The rendition a style denotes. -/
def ofStyle (st : Sgr.Style) : Rendition := overlay {} st

def Color.wf : Sgr.Color → Prop
  | .basic n => n < 8
  | _ => True

/-- Values that exist in Rust: a basic colour is one of the eight variants. -/
def Style.wf (st : Sgr.Style) : Prop :=
  (∀ c, st.fg = some c → Color.wf c) ∧ (∀ c, st.bg = some c → Color.wf c)

/-! ### The generated tables, as the proofs need them -/

theorem attrCodes_eq : attrCodes =
    [(.bold, 1), (.dimmed, 2), (.italic, 3), (.underline, 4), (.blink, 5), (.reverse, 7),
     (.hidden, 8), (.strike, 9)] := by decide

theorem colorOrder_eq : sgrColorOrder = ["background", "foreground"] := by decide

theorem fgNamed : ∀ n, n < 8 → namedCode sgrFgNamed n = some (30 + n) := by decide
theorem bgNamed : ∀ n, n < 8 → namedCode sgrBgNamed n = some (40 + n) := by decide
theorem fgFixed_eq : sgrFgFixed = [38, 5] := by decide
theorem fgRgb_eq : sgrFgRgb = [38, 2] := by decide
theorem bgFixed_eq : sgrBgFixed = [48, 5] := by decide
theorem bgRgb_eq : sgrBgRgb = [48, 2] := by decide
theorem reset_eq : Sgr.reset = csi [0] 'm' := by decide
theorem resetAttrs_eq : resetAttrs = Attr.all := by decide
theorem extraAttrs_eq : extraAttrs = Attr.all := by decide

/-! ### One SGR command at a time -/

def setAttr (r : Rendition) : Attr → Rendition
  | .bold => { r with bold := true }
  | .dimmed => { r with faint := true }
  | .italic => { r with italic := true }
  | .underline => { r with underline := true }
  | .blink => { r with blink := true }
  | .reverse => { r with inverse := true }
  | .hidden => { r with conceal := true }
  | .strike => { r with crossed := true }

/-- Every code in `write_prefix`'s attribute table means, to the terminal, "set that attribute". -/
theorem attrCodes_meaning : ∀ e ∈ attrCodes, e.2 ≠ 38 ∧ e.2 ≠ 48 ∧
    ∀ r, applyOne r e.2 = setAttr r e.1 := by
  rw [attrCodes_eq]
  intro e he
  simp at he
  rcases he with h | h | h | h | h | h | h | h <;> subst h <;>
    exact ⟨by decide, by decide, fun r => rfl⟩

theorem applySgr_nil (r : Rendition) : applySgr r [] = r := by simp [applySgr, applySgrAux]

theorem applySgr_single (r : Rendition) (c : Nat) (rest : List Nat) (h1 : c ≠ 38) (h2 : c ≠ 48) :
    applySgr r (c :: rest) = applySgr (applyOne r c) rest := by
  simp [applySgr, applySgrAux, h1, h2]

/-- The attribute part of a prefix, for any table whose codes mean "set the attribute". -/
theorem applySgr_attrs (L : List (Attr × Nat)) (st : Sgr.Style) (rest : List Nat)
    (hL : ∀ e ∈ L, e.2 ≠ 38 ∧ e.2 ≠ 48 ∧ ∀ r, applyOne r e.2 = setAttr r e.1) (r : Rendition) :
    applySgr r ((L.filterMap fun (a, c) => if st.get a then some [c] else none).flatten ++ rest) =
      applySgr (L.foldl (fun r e => if st.get e.1 then setAttr r e.1 else r) r) rest := by
  induction L generalizing r with
  | nil => simp
  | cons e L ih =>
    obtain ⟨a, c⟩ := e
    have hL' : ∀ e ∈ L, e.2 ≠ 38 ∧ e.2 ≠ 48 ∧ ∀ r, applyOne r e.2 = setAttr r e.1 :=
      fun e he => hL e (List.mem_cons_of_mem _ he)
    obtain ⟨h1, h2, h3⟩ := hL (a, c) List.mem_cons_self
    cases hg : st.get a with
    | false => simp [List.filterMap_cons, hg, ih hL']
    | true =>
      simp only [List.filterMap_cons, hg, if_true, List.flatten_cons, List.cons_append,
        List.nil_append, List.foldl_cons, List.singleton_append]
      rw [applySgr_single r c _ h1 h2, h3, ih hL']

/-- `r` with the attributes of `st` switched on. -/
def overlayAttrs (r : Rendition) (st : Sgr.Style) : Rendition :=
  { r with bold := r.bold || st.bold, faint := r.faint || st.dimmed,
           italic := r.italic || st.italic, underline := r.underline || st.underline,
           blink := r.blink || st.blink, inverse := r.inverse || st.reverse,
           conceal := r.conceal || st.hidden, crossed := r.crossed || st.strike }

theorem fold_attrs (r : Rendition) (st : Sgr.Style) :
    attrCodes.foldl (fun r e => if st.get e.1 then setAttr r e.1 else r) r = overlayAttrs r st := by
  rw [attrCodes_eq]
  obtain ⟨fg, bg, b, d, i, u, bl, rv, h, sk⟩ := st
  simp only [List.foldl, Style.get, overlayAttrs]
  cases b <;> cases d <;> cases i <;> cases u <;> cases bl <;> cases rv <;> cases h <;> cases sk <;>
    simp [setAttr]

theorem applySgr_bg (r : Rendition) (c : Sgr.Color) (hc : Color.wf c) (rest : List Nat) :
    applySgr r (bgParams c ++ rest) = applySgr { r with bg := some (tcolor c) } rest := by
  cases c with
  | basic n =>
    have hn : n < 8 := hc
    simp only [bgParams, colorParams, bgNamed n hn, List.singleton_append]
    have : applyOne r (40 + n) = { r with bg := some (.idx n) } := by
      match n, hn with
      | 0, _ | 1, _ | 2, _ | 3, _ | 4, _ | 5, _ | 6, _ | 7, _ => rfl
    rw [applySgr_single r (40 + n) rest (by omega) (by omega), this]
    rfl
  | fixed n => simp [bgParams, colorParams, bgFixed_eq, applySgr, applySgrAux, setLayer, tcolor]
  | rgb a b c => simp [bgParams, colorParams, bgRgb_eq, applySgr, applySgrAux, setLayer, tcolor]

theorem applySgr_fg (r : Rendition) (c : Sgr.Color) (hc : Color.wf c) (rest : List Nat) :
    applySgr r (fgParams c ++ rest) = applySgr { r with fg := some (tcolor c) } rest := by
  cases c with
  | basic n =>
    have hn : n < 8 := hc
    simp only [fgParams, colorParams, fgNamed n hn, List.singleton_append]
    have : applyOne r (30 + n) = { r with fg := some (.idx n) } := by
      match n, hn with
      | 0, _ | 1, _ | 2, _ | 3, _ | 4, _ | 5, _ | 6, _ | 7, _ => rfl
    rw [applySgr_single r (30 + n) rest (by omega) (by omega), this]
    rfl
  | fixed n => simp [fgParams, colorParams, fgFixed_eq, applySgr, applySgrAux, setLayer, tcolor]
  | rgb a b c => simp [fgParams, colorParams, fgRgb_eq, applySgr, applySgrAux, setLayer, tcolor]

/-- The parameters of `write_prefix`, applied by the terminal, overlay the style. -/
theorem applySgr_prefix (r : Rendition) (st : Sgr.Style) (hwf : Style.wf st) :
    applySgr r (prefixCmds st).flatten = overlay r st := by
  obtain ⟨hf, hb⟩ := hwf
  unfold prefixCmds attrCmds
  rw [List.flatten_append, applySgr_attrs attrCodes st _ attrCodes_meaning, fold_attrs, colorOrder_eq]
  simp only [List.flatMap_cons, List.flatMap_nil, layerCmds, List.append_nil]
  generalize hr : overlayAttrs r st = r'
  have hov : overlay r st = { r' with fg := (match st.fg with | some c => some (tcolor c) | none => r'.fg),
                                       bg := (match st.bg with | some c => some (tcolor c) | none => r'.bg) } := by
    subst hr; simp [overlay, overlayAttrs]
  rw [hov]
  cases hbg : st.bg with
  | none =>
    cases hfg : st.fg with
    | none => simp [applySgr_nil]
    | some c =>
      have := applySgr_fg r' c (hf c hfg) []
      simp only [List.append_nil] at this
      simp [this, applySgr_nil]
  | some cb =>
    cases hfg : st.fg with
    | none =>
      have := applySgr_bg r' cb (hb cb hbg) []
      simp only [List.append_nil] at this
      simp [this, applySgr_nil]
    | some c =>
      have h1 := applySgr_bg r' cb (hb cb hbg) (fgParams c)
      have h2 := fun r'' => applySgr_fg r'' c (hf c hfg) []
      simp only [List.append_nil] at h2
      simp [h1, h2, applySgr_nil]

end SgrTerm
