import Proofs.WholeDiffSbsStep
import Proofs.WholeDiff
set_option linter.unusedSimpArgs false
set_option linter.unusedVariables false
/-!
Helper lemmas for C05, whole runs in the side-by-side view, part 3: hunk and file boundaries, the whole run.

Invariant across items: `Settles al s V` — if the input ended now (`finS`: flush, everything painted goes out) the
rows would *show* `V` (`view`: header rows as they are, panel rows by the two numbers they show, with the width /
plus-file they were painted under); `Ready s`: the lines still buffered fit.
-/
namespace LineNumbers.WholeSbs
open Generated.HunkInit Generated.SbsDispatch Generated.LineNum LineNumbers.Whole

/-! ### specification -/

/-- a hunk of a two-way diff: header `@@ -a[,b] +c[,d] @@frag`, and per line its kind and what the painters are told -/
structure SHunk where
  a : Nat
  b : Option Nat
  c : Nat
  d : Option Nat
  frag : List Char
  lines : List LK

/-- digits of the largest number the header announces -/
def SHunk.width (h : SHunk) : Nat := (digits (max (h.a + h.b.getD 1) (h.c + h.d.getD 1))).length

/-- hypotheses on a hunk: it has a line, its code fragment does not start with `@`, every line occupies at least one
    display row, the numbers announced and reached fit `usize` with one to spare -/
def SHunk.wf (h : SHunk) : Prop :=
  h.lines ≠ [] ∧ h.frag.head? ≠ some '@' ∧ (∀ x ∈ h.lines, 1 ≤ x.2.rows) ∧
  h.a + max (h.b.getD 1) (cntOld h.lines) + 1 ≤ usizeMax ∧ h.c + max (h.d.getD 1) (cntNew h.lines) + 1 ≤ usizeMax

instance (h : SHunk) : Decidable h.wf := by unfold SHunk.wf; exact inferInstance

def SHunk.items (h : SHunk) : List SItem :=
  .header (fmtHunkHeader h.a h.b h.c h.d h.frag) :: h.lines.map (fun x => SItem.line (some x.1) x.2)

/-- what a row shows -/
inductive SView where
  | header (path : String) (number : Nat)
  /-- the number in the left panel's `{nm}` cell and in the right panel's `{np}` cell (`none`: no gutters) -/
  | line (shown : Option (Option Nat × Option Nat)) (width : Nat) (plusFile : String)
  deriving DecidableEq, Repr

def view : SORow → SView
  | .header p n => .header p n
  | .line r w pf => .line r.shown w pf

/-- the rows of a hunk painted as the blocks `bs` -/
def hunkView (al : AlignOf) (mf pf : String) (h : SHunk) (bs : List SBlock) : List SView :=
  .header (headerPath mf pf) h.c :: (specRows al h.a h.c bs).map (fun x => SView.line (some x) h.width pf)

/-- a hunk is shown: header row (this file's path, this header's new-file start), then the rows of a sequence of
    blocks — unchanged lines and subhunks — that is the hunk's lines in input order, numbered from this header's
    starts, in fields of this header's width -/
def HunkShown (al : AlignOf) (mf pf : String) (h : SHunk) (v : List SView) : Prop :=
  ∃ bs, flatAll bs = h.lines ∧ (∀ b ∈ bs, b.wf) ∧ v = hunkView al mf pf h bs

def HunksShown (al : AlignOf) (mf pf : String) : List SHunk → List SView → Prop
  | [], v => v = []
  | h :: hs, v => ∃ v1 v2, v = v1 ++ v2 ∧ HunkShown al mf pf h v1 ∧ HunksShown al mf pf hs v2

structure SFileSec where
  minusFile : String
  plusFile : String
  hunks : List SHunk

def hunksItemsS : List SHunk → List SItem
  | [] => []
  | h :: hs => h.items ++ hunksItemsS hs

def SFileSec.items (f : SFileSec) : List SItem := .names f.minusFile f.plusFile :: hunksItemsS f.hunks

def diffItemsS : List SFileSec → List SItem
  | [] => []
  | f :: fs => f.items ++ diffItemsS fs

def DiffShown (al : AlignOf) : List SFileSec → List SView → Prop
  | [], v => v = []
  | f :: fs, v => ∃ v1 v2, v = v1 ++ v2 ∧ HunksShown al f.minusFile f.plusFile f.hunks v1 ∧ DiffShown al fs v2

/-! ### statements by name -/

theorem hloS_test (b : Nat) (al : AlignOf) (k : Option Kind) (l : SLine) (s : WS) :
    hunkLineOpS b al k l s "test_hunk_line" = .ok s := rfl
theorem hloS_bound (b : Nat) (al : AlignOf) (k : Option Kind) (l : SLine) (s : WS) :
    hunkLineOpS b al k l s "buffer_bound" = liftS (preFlushS b al) s := rfl
theorem hloS_header (b : Nat) (al : AlignOf) (k : Option Kind) (l : SLine) (s : WS) :
    hunkLineOpS b al k l s "emit_hunk_header_line" =
      (match s.pending with | none => .ok s | some pairs => emitHeaderS al pairs s) := rfl
theorem hloS_push (b : Nat) (al : AlignOf) (k : Option Kind) (l : SLine) (s : WS) :
    hunkLineOpS b al k l s "new_line_state" =
      (match pushLineS al s.u l k with | .error e => .error e | .ok u => .ok { s with u := u, pending := none }) := rfl
theorem hloS_emit (b : Nat) (al : AlignOf) (k : Option Kind) (l : SLine) (s : WS) :
    hunkLineOpS b al k l s "emit" = .ok s := rfl

theorem ehoS_flush (al : AlignOf) (p : List (Nat × Nat)) (s : WS) :
    emitHeaderOpS al p s "paint_buffered_minus_and_plus_lines" = liftS (flushS al) s := rfl
theorem ehoS_hl (al : AlignOf) (p : List (Nat × Nat)) (s : WS) : emitHeaderOpS al p s "set_highlighter" = .ok s := rfl
theorem ehoS_emit (al : AlignOf) (p : List (Nat × Nat)) (s : WS) : emitHeaderOpS al p s "emit" = .ok s := rfl
theorem ehoS_init (al : AlignOf) (p : List (Nat × Nat)) (s : WS) :
    emitHeaderOpS al p s "initialize_hunk" =
      (if initArgs.1 = "line_numbers_and_hunk_lengths" then
        match argFileS s initArgs.2 with
        | .error e => .error e
        | .ok f => initializeHunkDataS s p f
      else .error ("model does not know the argument " ++ initArgs.1)) := rfl
theorem ehoS_write (al : AlignOf) (p : List (Nat × Nat)) (s : WS) :
    emitHeaderOpS al p s "write_header" =
      (match headerNumber p with
       | .error e => .error e
       | .ok n => .ok { drainS s with out := (drainS s).out ++ [SORow.header (headerPath s.minusFile s.plusFile) n] }) := rfl

/-! ### lines after the first -/

theorem hunkLineS_plain (b : Nat) (al : AlignOf) (k : Kind) (l : SLine) (s : WS) (hin : s.inHunk = true)
    (hp : s.pending = none) :
    hunkLineS b al (some k) l s =
      (match stepLineS b al s.u (some k) l with | .error e => .error e | .ok u => .ok { s with u := u }) := by
  unfold hunkLineS stepLineS
  simp only [hin, Bool.not_true, Bool.false_eq_true, if_false, hunkLineOrder_eq, hunkLineOpsS, hloS_test,
    hloS_bound, liftS]
  cases h1 : preFlushS b al s.u with
  | error e => rfl
  | ok u1 =>
    simp only [hloS_header, hp, hloS_push]
    cases h2 : pushLineS al u1 l (some k) with
    | error e => rfl
    | ok u2 => simp only [hloS_emit]

theorem lines_plain_S (b : Nat) (al : AlignOf) : ∀ (ls : List LK) (s : WS), s.inHunk = true → s.pending = none →
    stepItemsS b al s (ls.map (fun x => SItem.line (some x.1) x.2)) =
      (match stepLinesS b al s.u ls with | .error e => .error e | .ok u => .ok { s with u := u })
  | [], s, _, _ => by simp [stepItemsS, stepLinesS]
  | (k, l) :: ls, s, hin, hp => by
    simp only [List.map_cons, stepItemsS, stepItemS, hunkLineS_plain b al k l s hin hp, stepLinesS]
    cases h1 : stepLineS b al s.u (some k) l with
    | error e => rfl
    | ok u1 =>
      simp only []
      rw [lines_plain_S b al ls { s with u := u1 } hin hp]

/-! ### the invariant -/

def Ready (s : WS) : Prop := BufOk s.u 0 0

def Settles (al : AlignOf) (s : WS) (V : List SView) : Prop := ∃ rows, finS al s = .ok rows ∧ rows.map view = V

theorem view_lines (xs : List SbsRow) (w : Nat) (pf : String) :
    (xs.map (fun x => SORow.line x w pf)).map view = (xs.map SbsRow.shown).map (fun o => SView.line o w pf) := by
  simp [List.map_map, Function.comp_def, view]

/-- what the run settles to, in terms of ANY rows that show what the pending flush must show -/
theorem settles_iff (al : AlignOf) (hal : ValidAlign al) (s : WS) (hr : Ready s) (r : List SbsRow)
    (hs : r.map SbsRow.shown = (specRows al s.u.c.left s.u.c.right [.sub s.u.minusBuf s.u.plusBuf]).map some)
    (V : List SView) :
    Settles al s V ↔ V = s.out.map view ++ ((s.u.out ++ r).map SbsRow.shown).map (fun o => SView.line o s.width s.lnPlusFile) := by
  obtain ⟨r0, hf, hs0⟩ := flushS_spec al hal s.u 0 0 hr
  have hfin : finS al s = .ok (s.out ++ (s.u.out ++ r0).map (fun x => SORow.line x s.width s.lnPlusFile)) := by
    simp [finS, liftS, hf, drainS, flushed]
  have hv : (s.out ++ (s.u.out ++ r0).map (fun x => SORow.line x s.width s.lnPlusFile)).map view =
      s.out.map view ++ ((s.u.out ++ r).map SbsRow.shown).map (fun o => SView.line o s.width s.lnPlusFile) := by
    simp only [List.map_append, view_lines, hs0, hs]
  constructor
  · rintro ⟨rows, e, rfl⟩
    rw [hfin] at e
    cases e
    exact hv
  · rintro rfl
    exact ⟨_, hfin, hv⟩

/-! ### the first line of a hunk -/

/-- the state after `emit_hunk_header_line` for the header `[(a, b), (c, d)]`, `r` being the rows the flush painted -/
def afterHeaderS (s : WS) (r : List SbsRow) (a b c d : Nat) : WS :=
  { s with
    u := ⟨⟨a, c⟩, [], [], s.u.prevPlus, []⟩,
    width := (digits (max (a + b) (c + d))).length,
    lnPlusFile := s.plusFile,
    pending := none,
    out := s.out ++ (s.u.out ++ r).map (fun x => SORow.line x s.width s.lnPlusFile) ++
      [SORow.header (headerPath s.minusFile s.plusFile) c] }

theorem preFlushS_empty (b : Nat) (al : AlignOf) (u : SU) (hm : u.minusBuf = []) (hp : u.plusBuf = []) :
    preFlushS b al u = .ok u := by
  unfold preFlushS
  split
  · exact flushS_empty al u hm hp
  · rfl

theorem first_line_S (bsz : Nat) (al : AlignOf) (hal : ValidAlign al) (k : Kind) (l : SLine) (s : WS) (a b c d : Nat)
    (r : List SbsRow) (hf : flushS al s.u = .ok (flushed s.u r))
    (hin : s.inHunk = true) (hp : s.pending = some [(a, b), (c, d)])
    (hab : a + b ≤ usizeMax) (hcd : c + d ≤ usizeMax) :
    hunkLineS bsz al (some k) l s =
      (match stepLineS bsz al (afterHeaderS s r a b c d).u (some k) l with
       | .error e => .error e
       | .ok u => .ok { afterHeaderS s r a b c d with u := u }) := by
  have hff : flushS al (flushed s.u r) = .ok (flushed s.u r) := flushS_empty al _ rfl rfl
  have hpre : ∃ u1, preFlushS bsz al s.u = .ok u1 ∧ flushS al u1 = .ok (flushed s.u r) := by
    unfold preFlushS
    split
    · exact ⟨_, hf, hff⟩
    · exact ⟨_, rfl, hf⟩
  obtain ⟨u1, hpf, hfl⟩ := hpre
  unfold hunkLineS
  simp only [hin, Bool.not_true, Bool.false_eq_true, if_false, hunkLineOrder_eq, hunkLineOpsS, hloS_test,
    hloS_bound, liftS, hpf, hloS_header, hp, emitHeaderS, emitHeaderOrder_eq, emitHeaderOpsS, ehoS_flush, hfl,
    ehoS_hl, ehoS_emit, ehoS_init, initArgs_eq, argFileS, if_true, initializeHunkDataS,
    initializeHunk_two a b c d hab hcd, assigns_all, drainS, ehoS_write, headerNumber_two, hloS_push, hloS_emit]
  unfold stepLineS
  rw [preFlushS_empty bsz al (afterHeaderS s r a b c d).u rfl rfl]
  simp only [afterHeaderS, flushed, List.map_nil, List.append_nil]
  cases pushLineS al ⟨⟨a, c⟩, [], [], s.u.prevPlus, []⟩ l (some k) <;> simp [hin]

theorem stepItemsS_append (b : Nat) (al : AlignOf) : ∀ (xs ys : List SItem) (s : WS),
    stepItemsS b al s (xs ++ ys) =
      (match stepItemsS b al s xs with | .error e => .error e | .ok s1 => stepItemsS b al s1 ys)
  | [], ys, s => rfl
  | x :: xs, ys, s => by
    simp only [List.cons_append, stepItemsS]
    cases stepItemS b al s x with
    | error e => rfl
    | ok s1 => exact stepItemsS_append b al xs ys s1

/-! ### one hunk, from any state -/

theorem hunk_spec_S (bsz : Nat) (al : AlignOf) (hal : ValidAlign al) (h : SHunk) (hw : h.wf) (s : WS) (hr : Ready s) :
    ∃ s', stepItemsS bsz al s h.items = .ok s' ∧ Ready s' ∧ s'.minusFile = s.minusFile ∧ s'.plusFile = s.plusFile ∧
      ∀ V, Settles al s V → ∃ v, HunkShown al s.minusFile s.plusFile h v ∧ Settles al s' (V ++ v) := by
  obtain ⟨hne, hfrag, hrows, ha, hc⟩ := hw
  cases hls : h.lines with
  | nil => exact absurd hls hne
  | cons kl rest =>
    obtain ⟨k, l⟩ := kl
    have hab : h.a + h.b.getD 1 ≤ usizeMax := by omega
    have hcd : h.c + h.d.getD 1 ≤ usizeMax := by omega
    have hparse := parseHunkHeader_fmt h.a h.b h.c h.d h.frag hfrag (by omega)
      (by intro x hx; rw [hx] at hab; simp at hab; omega) (by omega)
      (by intro x hx; rw [hx] at hcd; simp at hcd; omega)
    -- the header line is parked
    let s1 : WS := { s with pending := some [(h.a, h.b.getD 1), (h.c, h.d.getD 1)], inHunk := true,
                            u := { s.u with prevPlus := false } }
    have hr1 : Ready s1 := ⟨hr.rowsM, hr.rowsP, hr.left, hr.right⟩
    obtain ⟨r, hf, hs⟩ := flushS_spec al hal s1.u 0 0 hr1
    have hfirst := first_line_S bsz al hal k l s1 h.a (h.b.getD 1) h.c (h.d.getD 1) r hf rfl rfl hab hcd
    -- the lines from the fresh state
    have hcnt : cntOld h.lines ≤ max (h.b.getD 1) (cntOld h.lines) ∧ cntNew h.lines ≤ max (h.d.getD 1) (cntNew h.lines) :=
      ⟨Nat.le_max_right _ _, Nat.le_max_right _ _⟩
    obtain ⟨u', bs, hrun, hinv', adv, ok'⟩ := stepLinesS_spec bsz al hal h.lines
      (afterHeaderS s1 r h.a (h.b.getD 1) h.c (h.d.getD 1)).u 0 0 hrows (by intro hp; exact absurd rfl hp)
      ⟨(by intro x hx; simp [afterHeaderS] at hx), (by intro x hx; simp [afterHeaderS] at hx),
       (by simp [afterHeaderS]; omega), (by simp [afterHeaderS]; omega)⟩
    rw [hls] at hrun
    have hrun' := hrun
    simp only [stepLinesS] at hrun'
    cases hu1 : stepLineS bsz al (afterHeaderS s1 r h.a (h.b.getD 1) h.c (h.d.getD 1)).u (some k) l with
    | error e => rw [hu1] at hrun'; cases hrun'
    | ok u1 =>
      rw [hu1] at hrun'
      simp only [] at hrun'
      let s' : WS := { afterHeaderS s1 r h.a (h.b.getD 1) h.c (h.d.getD 1) with u := u' }
      refine ⟨s', ?_, ok', rfl, rfl, ?_⟩
      · simp only [SHunk.items, hls, List.map_cons, stepItemsS, stepItemS, headerLineS, hparse, headerLineOps_eq, if_true]
        show (match hunkLineS bsz al (some k) l s1 with
          | Except.error e => Except.error e
          | Except.ok s' => stepItemsS bsz al s' (rest.map fun (x : LK) => SItem.line (some x.1) x.2)) = _
        rw [hfirst, hu1]
        simp only []
        rw [lines_plain_S bsz al rest _ rfl rfl, hrun']
      · intro V hV
        -- what the earlier input settles to: the same flush, seen from `s1`
        have hV1 : V = s.out.map view ++
            ((s.u.out ++ r).map SbsRow.shown).map (fun o => SView.line o s.width s.lnPlusFile) :=
          (settles_iff al hal s hr r hs V).mp hV
        -- the final flush of this hunk's lines
        obtain ⟨r', hf', hs'⟩ := flushS_spec al hal u' 0 0 ok'
        have advf := Adv.trans adv (adv_flush al u' r' ⟨ok'.rowsM, ok'.rowsP⟩ hs')
        have hflat : flatAll (bs ++ [.sub u'.minusBuf u'.plusBuf]) = h.lines := by
          have := advf.flat
          simpa [flushed, pend, afterHeaderS] using this
        have hout : (u'.out ++ r').map SbsRow.shown =
            (specRows al h.a h.c (bs ++ [.sub u'.minusBuf u'.plusBuf])).map some := by
          have := advf.out
          simpa [flushed, afterHeaderS] using this
        refine ⟨hunkView al s.minusFile s.plusFile h (bs ++ [.sub u'.minusBuf u'.plusBuf]),
          ⟨_, hflat, advf.wf, rfl⟩, ?_⟩
        rw [settles_iff al hal s' ok' r' hs']
        rw [hout, hV1]
        simp [s', s1, afterHeaderS, hunkView, view, view_lines, SHunk.width, List.map_append, List.map_map,
          Function.comp_def, List.append_assoc]

/-! ### file sections, the whole run -/

theorem names_spec_S (bsz : Nat) (al : AlignOf) (hal : ValidAlign al) (mf pf : String) (s : WS) (hr : Ready s) :
    ∃ s', stepItemS bsz al s (.names mf pf) = .ok s' ∧ Ready s' ∧ s'.minusFile = mf ∧ s'.plusFile = pf ∧
      ∀ V, Settles al s V → Settles al s' V := by
  obtain ⟨r, hf, hs⟩ := flushS_spec al hal s.u 0 0 hr
  let s' : WS := { s with u := { flushed s.u r with prevPlus := false }, minusFile := mf, plusFile := pf,
                          pending := none, inHunk := false }
  have hr' : Ready s' := by
    have := bufOk_flushed s.u r 0 0 hr
    exact ⟨this.rowsM, this.rowsP, this.left, this.right⟩
  have hv0 := validFrom_zero (al [] []) (hal [] [])
  have hs0 : ([] : List SbsRow).map SbsRow.shown =
      (specRows al s'.u.c.left s'.u.c.right [.sub s'.u.minusBuf s'.u.plusBuf]).map some := by
    simp [s', flushed, specRows, blocksOf, SBlock.toBlock, hunkSpec, blockSpec, sbsSpec, hv0]
  refine ⟨s', by simp only [stepItemS, liftS, hf, s'], hr', rfl, rfl, ?_⟩
  intro V hV
  rw [settles_iff al hal s hr r hs] at hV
  rw [settles_iff al hal s' hr' [] hs0, hV]
  simp [s', flushed]

theorem hunks_spec_S (bsz : Nat) (al : AlignOf) (hal : ValidAlign al) : ∀ (hs : List SHunk), (∀ h ∈ hs, h.wf) →
    ∀ (s : WS), Ready s →
    ∃ s', stepItemsS bsz al s (hunksItemsS hs) = .ok s' ∧ Ready s' ∧ s'.minusFile = s.minusFile ∧
      s'.plusFile = s.plusFile ∧
      ∀ V, Settles al s V → ∃ v, HunksShown al s.minusFile s.plusFile hs v ∧ Settles al s' (V ++ v)
  | [], _, s, hr => ⟨s, rfl, hr, rfl, rfl, fun V hV => ⟨[], rfl, by simpa using hV⟩⟩
  | h :: hs, hw, s, hr => by
    obtain ⟨s1, e1, hr1, hm1, hp1, st1⟩ := hunk_spec_S bsz al hal h (hw h (List.mem_cons_self ..)) s hr
    obtain ⟨s2, e2, hr2, hm2, hp2, st2⟩ := hunks_spec_S bsz al hal hs (fun x hx => hw x (List.mem_cons_of_mem _ hx)) s1 hr1
    refine ⟨s2, ?_, hr2, by rw [hm2, hm1], by rw [hp2, hp1], ?_⟩
    · simp only [hunksItemsS]
      rw [stepItemsS_append, e1]
      exact e2
    · intro V hV
      obtain ⟨v1, hv1, hV1⟩ := st1 V hV
      obtain ⟨v2, hv2, hV2⟩ := st2 _ hV1
      rw [hm1, hp1] at hv2
      exact ⟨v1 ++ v2, ⟨v1, v2, rfl, hv1, hv2⟩, by simpa [List.append_assoc] using hV2⟩

theorem files_spec_S (bsz : Nat) (al : AlignOf) (hal : ValidAlign al) : ∀ (fs : List SFileSec),
    (∀ f ∈ fs, ∀ h ∈ f.hunks, h.wf) → ∀ (s : WS), Ready s →
    ∃ s', stepItemsS bsz al s (diffItemsS fs) = .ok s' ∧ Ready s' ∧
      ∀ V, Settles al s V → ∃ v, DiffShown al fs v ∧ Settles al s' (V ++ v)
  | [], _, s, hr => ⟨s, rfl, hr, fun V hV => ⟨[], rfl, by simpa using hV⟩⟩
  | f :: fs, hw, s, hr => by
    obtain ⟨s1, e1, hr1, hm1, hp1, st1⟩ := names_spec_S bsz al hal f.minusFile f.plusFile s hr
    obtain ⟨s2, e2, hr2, _, _, st2⟩ := hunks_spec_S bsz al hal f.hunks (hw f (List.mem_cons_self ..)) s1 hr1
    obtain ⟨s3, e3, hr3, st3⟩ := files_spec_S bsz al hal fs (fun x hx => hw x (List.mem_cons_of_mem _ hx)) s2 hr2
    refine ⟨s3, ?_, hr3, ?_⟩
    · simp only [diffItemsS, SFileSec.items, List.cons_append, stepItemsS, e1]
      rw [stepItemsS_append, e2]
      exact e3
    · intro V hV
      obtain ⟨v2, hv2, hV2⟩ := st2 V (st1 V hV)
      obtain ⟨v3, hv3, hV3⟩ := st3 _ hV2
      rw [hm1, hp1] at hv2
      exact ⟨v2 ++ v3, ⟨v2, v3, rfl, hv2, hv3⟩, by simpa [List.append_assoc] using hV3⟩

/-- **whole diffs, side-by-side view** -/
theorem runWholeSbs_spec (bsz : Nat) (al : AlignOf) (hal : ValidAlign al) (fs : List SFileSec)
    (hw : ∀ f ∈ fs, ∀ h ∈ f.hunks, h.wf) :
    ∃ rows, runWholeSbs bsz al (diffItemsS fs) = .ok rows ∧ DiffShown al fs (rows.map view) := by
  have hr0 : Ready ({} : WS) := ⟨(by intro l hl; cases hl), (by intro l hl; cases hl), (by decide), (by decide)⟩
  have h0 : Settles al ({} : WS) [] := ⟨[], by simp [finS, liftS, flushS_empty, drainS], rfl⟩
  obtain ⟨s1, e1, hr1, st1⟩ := files_spec_S bsz al hal fs hw {} hr0
  obtain ⟨v, hv, rows, hfin, hrows⟩ := st1 [] h0
  refine ⟨rows, by simp only [runWholeSbs, e1, hfin], ?_⟩
  rw [hrows]
  simpa using hv

end LineNumbers.WholeSbs
