import Proofs.LineNumbersPad
set_option linter.unusedSimpArgs false
set_option linter.unusedVariables false
/-!
Helper lemmas for C05, part 5: the hunk-header parser on well-formed two-way headers
(`parse (fmt r) = r`), the number and path shown in the hunk-header box, `initialize_hunk`.
-/
namespace LineNumbers
open Generated.LineNum

/-- The model's regex texts are the ones in the source. A changed pattern breaks this file. -/
theorem hunk_header_regex_pinned : hunkHeaderRegex = "@+ ([^@]+)@+(.*\\s?)" := rfl
theorem coordinate_regex_pinned : coordinateRegex = "(?x)[-+](\\d+)(?:,(\\d+))?" := rfl
theorem placeholder_regex_pinned :
    placeholderRegex = "(?x)\\{{({})(?::(?:([^<^>])?([<^>]))?(\\d+)?(?:\\.(\\d+))?(?:_?([A-Za-z][0-9A-Za-z_-]*))?)?\\}}" := rfl

theorem isUniDigit_of_isDigit (c : Char) (h : c.isDigit = true) : isUniDigit c = true := by
  simp [isUniDigit, h]

theorem digits_all_uni (n : Nat) : ∀ c ∈ digits n, isUniDigit c = true :=
  fun c hc => isUniDigit_of_isDigit c (digits_all_isDigit n c hc)

theorem digits_ne_nil (n : Nat) : digits n ≠ [] := by
  intro h
  have := digits_length_pos n
  simp [h] at this

/-- `\d+` stops exactly at the end of a digit string that is followed by a non-digit. -/
theorem span_digits (n : Nat) (c : Char) (rest : List Char) (hc : isUniDigit c = false) :
    spanTD isUniDigit (digits n ++ c :: rest) = (digits n, c :: rest) := by
  simp [spanTD, List.takeWhile_append_of_pos (digits_all_uni n), List.dropWhile_append_of_pos (digits_all_uni n), hc]

theorem span_digits_end (n : Nat) : spanTD isUniDigit (digits n) = (digits n, []) := by
  have h1 := List.takeWhile_append_of_pos (l₂ := []) (digits_all_uni n)
  have h2 := List.dropWhile_append_of_pos (l₂ := []) (digits_all_uni n)
  simp only [List.append_nil, List.takeWhile_nil, List.dropWhile_nil] at h1 h2
  simp [spanTD, h1, h2]

theorem parseUsize_digits (n : Nat) (h : n ≤ usizeMax) : parseUsize (digits n) = .ok n := by
  have hall : (digits n).all Char.isDigit = true := by
    rw [List.all_eq_true]
    exact digits_all_isDigit n
  simp [parseUsize, hall, digits_value n, h]

/-! ### one coordinate -/

def lenPart : Option Nat → List Char
  | some n => ',' :: digits n
  | none => []

theorem fmtCoord_eq (sign : Char) (n : Nat) (len : Option Nat) :
    fmtCoord sign n len = sign :: (digits n ++ lenPart len) := by
  cases len <;> simp [fmtCoord, lenPart]

/-- A coordinate followed by a space is read back as `(start, length or 1)`. -/
theorem coords_one (fuel : Nat) (sign : Char) (hs : sign = '-' ∨ sign = '+') (n : Nat) (len : Option Nat)
    (tail : List Char) (hn : n ≤ usizeMax) (hl : ∀ k, len = some k → k ≤ usizeMax) :
    coordsF (fuel + 1) (sign :: (digits n ++ lenPart len) ++ ' ' :: tail) =
      match coordsF fuel (' ' :: tail) with
      | .error e => .error e
      | .ok more => .ok ((n, len.getD 1) :: more) := by
  have hsp : isUniDigit ' ' = false := by decide
  have hcm : isUniDigit ',' = false := by decide
  cases len with
  | none =>
    simp only [lenPart, List.append_nil, List.cons_append]
    simp only [coordsF, hs, if_true]
    rw [span_digits n ' ' tail hsp]
    simp [digits_ne_nil, parseUsize_digits n hn]
    try (cases coordsF fuel (' ' :: tail) <;> rfl)
  | some k =>
    have hk := hl k rfl
    simp only [lenPart, List.cons_append, List.append_assoc]
    simp only [coordsF, hs, if_true]
    rw [span_digits n ',' _ hcm]
    simp only [List.isEmpty_eq_false_iff.mpr (digits_ne_nil n)]
    rw [span_digits k ' ' tail hsp]
    simp [digits_ne_nil, parseUsize_digits n hn, parseUsize_digits k hk]
    try (cases coordsF fuel (' ' :: tail) <;> rfl)

theorem coords_space (fuel : Nat) (tail : List Char) :
    coordsF (fuel + 1) (' ' :: tail) = coordsF fuel tail := by
  simp [coordsF]

/-- The coordinate text of a two-way header (capture 1 of the header regex). -/
def coordText (a : Nat) (b : Option Nat) (c : Nat) (d : Option Nat) : List Char :=
  fmtCoord '-' a b ++ [' '] ++ fmtCoord '+' c d ++ [' ']

theorem coords_two (f : Nat) (a : Nat) (b : Option Nat) (c : Nat) (d : Option Nat)
    (ha : a ≤ usizeMax) (hb : ∀ k, b = some k → k ≤ usizeMax)
    (hc : c ≤ usizeMax) (hd : ∀ k, d = some k → k ≤ usizeMax) :
    coordsF (f + 5) (coordText a b c d) = .ok [(a, b.getD 1), (c, d.getD 1)] := by
  have e : coordText a b c d =
      '-' :: (digits a ++ lenPart b) ++ ' ' :: ('+' :: (digits c ++ lenPart d) ++ ' ' :: []) := by
    simp [coordText, fmtCoord_eq, List.append_assoc]
  rw [e, coords_one (f + 4) '-' (Or.inl rfl) a b _ ha hb, coords_space (f + 3),
    coords_one (f + 2) '+' (Or.inr rfl) c d [] hc hd, coords_space (f + 1)]
  simp [coordsF]

theorem coordText_length (a : Nat) (b : Option Nat) (c : Nat) (d : Option Nat) :
    4 ≤ (coordText a b c d).length := by
  have h1 := digits_length_pos a
  have h2 := digits_length_pos c
  simp [coordText, fmtCoord_eq]
  omega

/-! ### the header regex -/

theorem digits_no_at (n : Nat) : ∀ ch ∈ digits n, ch ≠ '@' := by
  intro ch hc h
  have := digits_all_isDigit n ch hc
  subst h
  exact absurd this (by decide)

theorem lenPart_no_at (len : Option Nat) : ∀ ch ∈ lenPart len, ch ≠ '@' := by
  intro ch hc
  cases len with
  | none => simp [lenPart] at hc
  | some k =>
    simp only [lenPart, List.mem_cons] at hc
    rcases hc with h | h
    · subst h; decide
    · exact digits_no_at k ch h

theorem coordText_no_at (a : Nat) (b : Option Nat) (c : Nat) (d : Option Nat) :
    ∀ ch ∈ coordText a b c d, ch ≠ '@' := by
  intro ch hc
  simp only [coordText, fmtCoord_eq, List.mem_append, List.mem_cons, List.mem_singleton, List.not_mem_nil,
    or_false] at hc
  rcases hc with (((h | h | h) | h) | (h | h | h)) | h
  all_goals first
    | (subst h; decide)
    | exact digits_no_at _ ch h
    | exact lenPart_no_at _ ch h

theorem coordText_ne_nil (a : Nat) (b : Option Nat) (c : Nat) (d : Option Nat) : coordText a b c d ≠ [] := by
  intro h
  have := coordText_length a b c d
  simp [h] at this

theorem fmtHunkHeader_eq (a : Nat) (b : Option Nat) (c : Nat) (d : Option Nat) (frag : List Char) :
    fmtHunkHeader a b c d frag = '@' :: '@' :: ' ' :: (coordText a b c d ++ '@' :: '@' :: frag) := by
  simp [fmtHunkHeader, coordText, List.append_assoc]

/-- The header regex on a well-formed two-way header: capture 1 is the coordinate text, capture 2
    the code fragment (which must not begin with `@`, or `@+` would swallow that too). -/
theorem findHeader_fmt (a : Nat) (b : Option Nat) (c : Nat) (d : Option Nat) (frag : List Char)
    (hfrag : frag.head? ≠ some '@') :
    findHeader (fmtHunkHeader a b c d frag) = some (coordText a b c d, frag) := by
  rw [fmtHunkHeader_eq]
  have hmid := coordText_no_at a b c d
  have hne := coordText_ne_nil a b c d
  have hfr : spanTD (· = '@') ('@' :: '@' :: frag) = (['@', '@'], frag) := by
    cases frag with
    | nil => simp [spanTD]
    | cons f fs =>
      have : f ≠ '@' := by simpa using hfrag
      simp [spanTD, this]
  have hmid' : ∀ ch ∈ coordText a b c d, (fun x => decide (x ≠ '@')) ch = true := by
    intro ch h
    simpa using hmid ch h
  have hsp : spanTD (fun x => decide (x ≠ '@')) (coordText a b c d ++ '@' :: '@' :: frag)
      = (coordText a b c d, '@' :: '@' :: frag) := by
    simp only [spanTD]
    rw [List.takeWhile_append_of_pos hmid', List.dropWhile_append_of_pos hmid']
    simp
  simp only [findHeader, matchHeaderAt]
  have h0 : spanTD (· = '@') ('@' :: '@' :: ' ' :: (coordText a b c d ++ '@' :: '@' :: frag))
      = (['@', '@'], ' ' :: (coordText a b c d ++ '@' :: '@' :: frag)) := by
    simp [spanTD]
  rw [h0]
  simp only [List.isEmpty_cons, Bool.false_eq_true, if_false]
  rw [hsp]
  simp only [List.isEmpty_eq_false_iff.mpr hne, Bool.false_eq_true, if_false]
  rw [hfr]
  simp

/-- `parse_hunk_header` inverts the two-way header format. -/
theorem parseHunkHeader_fmt (a : Nat) (b : Option Nat) (c : Nat) (d : Option Nat) (frag : List Char)
    (hfrag : frag.head? ≠ some '@')
    (ha : a ≤ usizeMax) (hb : ∀ k, b = some k → k ≤ usizeMax)
    (hc : c ≤ usizeMax) (hd : ∀ k, d = some k → k ≤ usizeMax) :
    parseHunkHeader (fmtHunkHeader a b c d frag) = .ok (some (frag, [(a, b.getD 1), (c, d.getD 1)])) := by
  have hlen := coordText_length a b c d
  obtain ⟨f, hf⟩ : ∃ f, (coordText a b c d).length + 1 = f + 5 := ⟨(coordText a b c d).length - 4, by omega⟩
  simp [parseHunkHeader, findHeader_fmt a b c d frag hfrag, hf, coords_two f a b c d ha hb hc hd]

/-! ### what is done with the parsed pairs -/

theorem headerNumber_two (a b c d : Nat) : headerNumber [(a, b), (c, d)] = .ok c := by
  simp [headerNumber, headerNumberRule]

theorem initializeHunk_two (a b c d : Nat) (h1 : a + b ≤ usizeMax) (h2 : c + d ≤ usizeMax) :
    initializeHunk [(a, b), (c, d)] = .ok (⟨a, c⟩, (digits (max (a + b) (c + d))).length) := by
  simp [initializeHunk, initUsesLast, maxSum, addUsize, addUsizeSat, h1, h2]

theorem headerPath_eq (minusFile plusFile : String) :
    headerPath minusFile plusFile = if plusFile = "/dev/null" then minusFile else plusFile := by
  simp [headerPath, headerPathRule]

end LineNumbers
