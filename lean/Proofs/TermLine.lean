import Proofs.TermSeq
/-!
The line transformers of `Sgr.lean` (`Line` namespace) keep a line self-contained.
-/
namespace LineProofs
open Term Sgr SgrTerm Line Generated.StyleTables

/-- Text that leaves a link-free ground state exactly as it found it: plain text, or plain
text wrapped in an OSC 8 hyperlink. -/
def Neutral (t : List Char) : Prop :=
  ∀ s : State, s.mode = .ground → s.link = none → final s t = s

theorem neutral_text (t : List Char) (h : ESC ∉ t) : Neutral t := by
  intro s hm _
  simp [final, run_text s t hm h]

theorem neutral_nil : Neutral [] := neutral_text [] (by simp)

theorem neutral_append (a b : List Char) (ha : Neutral a) (hb : Neutral b) : Neutral (a ++ b) := by
  intro s hm hl
  rw [final_append, ha s hm hl, hb s hm hl]

/-! ### Hyperlinks -/

theorem osc8_consts : osc8Before.toList = [ESC, ']', '8', ';', ';'] ∧ osc8Middle.toList = [ESC, '\\'] ∧
    osc8After.toList = [ESC, ']', '8', ';', ';'] ++ [] ++ [ESC, '\\'] := by decide

/-- `format_osc8_hyperlink url text`: opens the link, shows `text`, closes the link. -/
theorem run_link (url text : List Char) (h1 : ESC ∉ url) (h2 : BEL ∉ url) (s : State)
    (hm : s.mode = .ground)
    (ht : (final { s with link := linkOf url } text).mode = .ground) :
    run s (Line.link url text) =
      ({ final { s with link := linkOf url } text with link := none },
       cells { s with link := linkOf url } text) := by
  obtain ⟨c1, c2, c3⟩ := osc8_consts
  have hopen := run_osc8 s url h1 h2 hm
  have hclose := run_osc8 (final { s with link := linkOf url } text) [] (by simp) (by simp) ht
  unfold Line.link
  rw [c1, c2, c3]
  rw [show [ESC, ']', '8', ';', ';'] ++ url ++ [ESC, '\\'] ++ text ++ ([ESC, ']', '8', ';', ';'] ++ [] ++ [ESC, '\\'])
      = ([ESC, ']', '8', ';', ';'] ++ url ++ [ESC, '\\']) ++ (text ++ ([ESC, ']', '8', ';', ';'] ++ [] ++ [ESC, '\\'])) by simp]
  rw [run_append, hopen]
  simp only [List.nil_append]
  rw [run_append]
  simp only [final] at hclose
  rw [hclose]
  simp [linkOf, final, cells]

/-- A hyperlink around plain text is neutral. -/
theorem neutral_link (url text : List Char) (h1 : ESC ∉ url) (h2 : BEL ∉ url) (ht : ESC ∉ text) :
    Neutral (Line.link url text) := by
  intro s hm hl
  have hf : final { s with link := linkOf url } text = { s with link := linkOf url } := by
    simp [final, run_text { s with link := linkOf url } text hm ht]
  have := run_link url text h1 h2 s hm (by rw [hf]; exact hm)
  simp only [final] at hf ⊢
  rw [this]
  simp only [final, hf]
  cases s; simp_all

/-! ### `ANSIStrings` over neutral texts -/

theorem final_pre (st : Sgr.Style) (hwf : Style.wf st) (s : State) (hm : s.mode = .ground) :
    final s (pre st) = { s with rend := overlay s.rend st } := by
  simp [final, run_pre st hwf s hm]

theorem final_reset (s : State) (hm : s.mode = .ground) : final s Sgr.reset = { s with rend := {} } := by
  simp [final, run_reset s hm]

theorem final_inf (a b : Sgr.Style) (hb : Style.wf b) (s : State) (hm : s.mode = .ground)
    (hr : s.rend = ofStyle a) : final s (inf a b) = { s with rend := ofStyle b } := by
  simp [final, run_inf a b hb (fun e h => between_extra_wf a b e hb h) s hm hr]

/-- A neutral text does not disturb a state that only differs from a link-free ground state in
its rendition. -/
theorem neutral_final (t : List Char) (h : Neutral t) (s : State) (hm : s.mode = .ground)
    (hl : s.link = none) : final s t = s := h s hm hl

theorem final_renderTail (xs : List (Sgr.Style × List Char)) (prev : Sgr.Style)
    (hwf : ∀ x ∈ xs, Style.wf x.1) (hn : ∀ x ∈ xs, Neutral x.2)
    (s : State) (hm : s.mode = .ground) (hl : s.link = none) (hr : s.rend = ofStyle prev) :
    final s (renderTail prev xs) = { s with rend := {} } := by
  induction xs generalizing prev s with
  | nil =>
    simp only [renderTail]
    have := run_suf prev s hm hr
    simpa [suf, final] using congrArg Prod.fst this
  | cons x xs ih =>
    obtain ⟨st, t⟩ := x
    have hst : Style.wf st := hwf (st, t) List.mem_cons_self
    have ht : Neutral t := hn (st, t) List.mem_cons_self
    simp only [renderTail]
    rw [final_append, final_append, final_inf prev st hst s hm hr,
      ht { s with rend := ofStyle st } hm hl]
    exact ih st (fun x hx => hwf x (List.mem_cons_of_mem _ hx))
      (fun x hx => hn x (List.mem_cons_of_mem _ hx)) { s with rend := ofStyle st } hm hl rfl

/-- `ANSIStrings` over neutral texts (plain or hyperlinked), from a default state: back in the
default state. -/
theorem final_renderStrings (xs : List (Sgr.Style × List Char))
    (hwf : ∀ x ∈ xs, Style.wf x.1) (hn : ∀ x ∈ xs, Neutral x.2)
    (s : State) (hm : s.mode = .ground) (hl : s.link = none) (hr : s.rend = {}) :
    final s (renderStrings xs) = s := by
  cases xs with
  | nil => simp [renderStrings, final, run]
  | cons x xs =>
    obtain ⟨st, t⟩ := x
    have hst : Style.wf st := hwf (st, t) List.mem_cons_self
    have ht : Neutral t := hn (st, t) List.mem_cons_self
    simp only [renderStrings]
    rw [final_append, final_append, final_pre st hst s hm,
      ht { s with rend := overlay s.rend st } hm hl,
      final_renderTail xs st (fun x hx => hwf x (List.mem_cons_of_mem _ hx))
        (fun x hx => hn x (List.mem_cons_of_mem _ hx)) { s with rend := overlay s.rend st } hm hl
        (by simp only [hr]; rfl)]
    cases s; simp_all

theorem selfContained_renderStrings (xs : List (Sgr.Style × List Char))
    (hwf : ∀ x ∈ xs, Style.wf x.1) (hn : ∀ x ∈ xs, Neutral x.2) :
    selfContained (renderStrings xs) :=
  final_renderStrings xs hwf hn init rfl rfl rfl

theorem selfContained_paint (st : Sgr.Style) (t : List Char) (hwf : Style.wf st) (ht : Neutral t) :
    selfContained (paint st t) := by
  have := selfContained_renderStrings [(st, t)] (by simpa using hwf) (by simpa using ht)
  simpa [renderStrings, renderTail, paint, suf] using this

theorem selfContained_append (a b : List Char) (ha : selfContained a) (hb : selfContained b) :
    selfContained (a ++ b) := by
  unfold selfContained at *
  rw [final_append, ha, hb]

end LineProofs
