import DeltaModel.LineNumbers
/-!
Helper lemmas for C05, part 1: decimal digits, `log10_plus_1`, `pad`.
-/
namespace LineNumbers
open Generated.LineNum

/-! ### digits -/

theorem digitsF_fuel2 : ∀ (f1 f2 n : Nat), n < f1 → n < f2 → digitsF f1 n = digitsF f2 n := by
  intro f1
  induction f1 with
  | zero => intro f2 n h; omega
  | succ f ih =>
    intro f2 n h h'
    cases f2 with
    | zero => omega
    | succ g =>
      by_cases h10 : n < 10
      · simp [digitsF, h10]
      · simp only [digitsF, h10, if_false]
        rw [ih g (n / 10) (by omega) (by omega)]

theorem digitsF_fuel (fuel n : Nat) (h : n < fuel) : digitsF fuel n = digitsF (n + 1) n :=
  digitsF_fuel2 fuel (n + 1) n h (by omega)

theorem digits_lt (n : Nat) (h : n < 10) : digits n = [digitChar n] := by
  simp [digits, digitsF, h]

theorem digits_ge (n : Nat) (h : 10 ≤ n) : digits n = digits (n / 10) ++ [digitChar (n % 10)] := by
  have h10 : ¬ n < 10 := by omega
  unfold digits
  rw [digitsF_fuel2 (n / 10 + 1) n (n / 10) (by omega) (by omega)]
  simp only [digitsF, h10, if_false]

theorem digits_length_pos (n : Nat) : 0 < (digits n).length := by
  by_cases h : n < 10
  · simp [digits_lt n h]
  · simp [digits_ge n (by omega)]

theorem digits_length_ge (n : Nat) (h : 10 ≤ n) : (digits n).length = (digits (n / 10)).length + 1 := by
  simp [digits_ge n h]

theorem digitChar_cases (d : Nat) (h : d < 10) :
    digitChar d = '0' ∨ digitChar d = '1' ∨ digitChar d = '2' ∨ digitChar d = '3' ∨ digitChar d = '4' ∨
    digitChar d = '5' ∨ digitChar d = '6' ∨ digitChar d = '7' ∨ digitChar d = '8' ∨ digitChar d = '9' := by
  have : d = 0 ∨ d = 1 ∨ d = 2 ∨ d = 3 ∨ d = 4 ∨ d = 5 ∨ d = 6 ∨ d = 7 ∨ d = 8 ∨ d = 9 := by omega
  rcases this with h | h | h | h | h | h | h | h | h | h <;> subst h <;> decide

theorem digitChar_isDigit (d : Nat) (h : d < 10) : (digitChar d).isDigit = true := by
  rcases digitChar_cases d h with h | h | h | h | h | h | h | h | h | h <;> rw [h] <;> decide

theorem digitChar_ne_space (d : Nat) (h : d < 10) : digitChar d ≠ ' ' := by
  rcases digitChar_cases d h with h | h | h | h | h | h | h | h | h | h <;> rw [h] <;> decide

theorem digitChar_val (d : Nat) (h : d < 10) : (digitChar d).toNat - 48 = d := by
  have : d = 0 ∨ d = 1 ∨ d = 2 ∨ d = 3 ∨ d = 4 ∨ d = 5 ∨ d = 6 ∨ d = 7 ∨ d = 8 ∨ d = 9 := by omega
  rcases this with h | h | h | h | h | h | h | h | h | h <;> subst h <;> decide

/-- Every character of `digits n` is an ASCII digit. -/
theorem digits_all_isDigit (n : Nat) : ∀ c ∈ digits n, c.isDigit = true := by
  induction n using Nat.strongRecOn with
  | _ n ih =>
    by_cases h : n < 10
    · intro c hc
      rw [digits_lt n h] at hc
      simp at hc
      subst hc
      exact digitChar_isDigit n h
    · intro c hc
      rw [digits_ge n (by omega)] at hc
      simp at hc
      rcases hc with hc | hc
      · exact ih (n / 10) (by omega) c hc
      · subst hc
        exact digitChar_isDigit _ (by omega)

theorem digits_no_space (n : Nat) : ∀ c ∈ digits n, c ≠ ' ' := by
  intro c hc h
  have := digits_all_isDigit n c hc
  subst h
  exact absurd this (by decide)

/-- Reading the digits back gives the number (`str::parse` after `Display`). -/
theorem digits_value (n : Nat) :
    (digits n).foldl (fun a c => 10 * a + (c.toNat - 48)) 0 = n := by
  induction n using Nat.strongRecOn with
  | _ n ih =>
    by_cases h : n < 10
    · rw [digits_lt n h]
      simp [digitChar_val n h]
    · rw [digits_ge n (by omega), List.foldl_append, ih (n / 10) (by omega)]
      simp [digitChar_val (n % 10) (by omega)]
      omega

theorem digitChar_eq_core (d : Nat) (h : d < 10) : digitChar d = Nat.digitChar d := by
  have : d = 0 ∨ d = 1 ∨ d = 2 ∨ d = 3 ∨ d = 4 ∨ d = 5 ∨ d = 6 ∨ d = 7 ∨ d = 8 ∨ d = 9 := by omega
  rcases this with h | h | h | h | h | h | h | h | h | h <;> subst h <;> decide

/-- The model's digit string is Lean's decimal representation of the number. -/
theorem digits_eq_toDigits (n : Nat) : digits n = Nat.toDigits 10 n := by
  induction n using Nat.strongRecOn with
  | _ n ih =>
    by_cases h : n < 10
    · rw [digits_lt n h, Nat.toDigits_of_lt_base h, digitChar_eq_core n h]
    · rw [digits_ge n (by omega), Nat.toDigits_of_base_le (by decide) (by omega), ih (n / 10) (by omega),
        digitChar_eq_core (n % 10) (by omega)]

theorem digits_eq_repr (n : Nat) : digits n = (Nat.repr n).toList := by
  rw [digits_eq_toDigits, Nat.toList_repr]

/-! ### `log10_plus_1` -/

theorem log10F_eq : ∀ (fuel n len : Nat), n < fuel → log10F fuel n len = len + (digits n).length := by
  intro fuel
  induction fuel with
  | zero => intro n len h; omega
  | succ f ih =>
    intro n len h
    by_cases h1 : n ≤ 9
    · simp [log10F, log10Find, log10Thresholds, h1, digits_lt n (by omega)]
    · by_cases h2 : n ≤ 99
      · have e : (digits n).length = 2 := by
          rw [digits_length_ge n (by omega), digits_lt (n / 10) (by omega)]; rfl
        simp [log10F, log10Find, log10Thresholds, h1, h2, e]
      · by_cases h3 : n ≤ 999
        · have e : (digits n).length = 3 := by
            rw [digits_length_ge n (by omega), digits_length_ge (n / 10) (by omega),
              digits_lt (n / 10 / 10) (by omega)]; rfl
          simp [log10F, log10Find, log10Thresholds, h1, h2, h3, e]
        · by_cases h4 : n ≤ 9999
          · have e : (digits n).length = 4 := by
              rw [digits_length_ge n (by omega), digits_length_ge (n / 10) (by omega),
                digits_length_ge (n / 10 / 10) (by omega), digits_lt (n / 10 / 10 / 10) (by omega)]; rfl
            simp [log10F, log10Find, log10Thresholds, h1, h2, h3, h4, e]
          · have e : (digits n).length = (digits (n / 10000)).length + 4 := by
              rw [digits_length_ge n (by omega), digits_length_ge (n / 10) (by omega),
                digits_length_ge (n / 10 / 10) (by omega), digits_length_ge (n / 10 / 10 / 10) (by omega)]
              have : n / 10 / 10 / 10 / 10 = n / 10000 := by omega
              rw [this]
            have hf : n / 10000 < f := by omega
            simp [log10F, log10Find, log10Thresholds, log10Step, h1, h2, h3, h4, ih (n / 10000) (len + 4) hf, e]
            omega

/-- `log10_plus_1 n` is the number of decimal digits of `n` (the loop's fuel suffices). -/
theorem log10Plus1_eq (n : Nat) : log10Plus1 n = (digits n).length := by
  simp [log10Plus1, log10F_eq (n + 1) n 0 (by omega)]

/-! ### `pad` -/

theorem dropLast_append_replicate_succ (l : List Char) (k : Nat) :
    (l ++ List.replicate (k + 1) ' ').dropLast = l ++ List.replicate k ' ' := by
  have : List.replicate (k + 1) ' ' = List.replicate k ' ' ++ [' '] := by
    simp [List.replicate_succ']
  rw [this, ← List.append_assoc, List.dropLast_concat]

/-- `pad` puts the digits of `n`, unbroken, into a field of `max width (digits n)` characters, the
    rest being spaces. -/
theorem pad_shape (n width : Nat) (al : Align) :
    ∃ i j, pad n width al = List.replicate i ' ' ++ digits n ++ List.replicate j ' ' ∧
      i + (digits n).length + j = max width (digits n).length := by
  have hflag : (lookupNat al.code padArms).getD al.code = al.code := by
    cases al <;> rfl
  unfold pad
  simp only [hflag]
  by_cases hw : (digits n).length ≥ width
  · -- the number fills the field
    have hc : centerRightSpace n al width = false := by
      unfold centerRightSpace
      by_cases ha : al = .center
      · simp [ha, log10Plus1_eq]; omega
      · simp [ha]
    refine ⟨0, 0, ?_, ?_⟩
    · simp [hc, fmtPad, hw]
    · simp; omega
  · have hw' : ¬ (digits n).length ≥ width := hw
    cases al with
    | left =>
      refine ⟨0, width - (digits n).length, ?_, ?_⟩
      · simp [centerRightSpace, fmtPad, hw', Align.code]
      · simp; omega
    | right =>
      refine ⟨width - (digits n).length, 0, ?_, ?_⟩
      · simp [centerRightSpace, fmtPad, hw', Align.code]
      · simp; omega
    | center =>
      by_cases hp : width % 2 ≠ (digits n).length % 2
      · -- odd padding: the extra space goes to the left (centre-right)
        have hc : centerRightSpace n .center width = true := by
          simp [centerRightSpace, log10Plus1_eq]; omega
        have ht : width - (digits n).length - (width - (digits n).length) / 2
            = ((width - (digits n).length) / 2) + 1 := by omega
        refine ⟨(width - (digits n).length) / 2 + 1, (width - (digits n).length) / 2, ?_, ?_⟩
        · simp only [hc, fmtPad, hw', Align.code, if_true, if_false]
          rw [ht, ← List.cons_append, ← List.cons_append, dropLast_append_replicate_succ]
          simp [List.replicate_succ]
        · omega
      · have hc : centerRightSpace n .center width = false := by
          simp [centerRightSpace, log10Plus1_eq]; omega
        refine ⟨(width - (digits n).length) / 2,
          width - (digits n).length - (width - (digits n).length) / 2, ?_, ?_⟩
        · simp [hc, fmtPad, hw', Align.code]
        · omega

end LineNumbers
