import Proofs.StyleDisplay
/-! Every style the parser returns (with no default) is canonical: the round-trip theorem
applies to the whole image of `parse`. -/
namespace DeltaStyle
open Sgr (Attr Color)
open Generated.StyleTables

/-- What is assumed of `ansi_colours::ansi256_from_rgb`: a palette index outside the eight basic
colours (the crate only ever answers 16–255). -/
def OracleOk (env : Env) : Prop := ∀ r g b, 8 ≤ env.q r g b ∧ env.q r g b < 256

theorem char_le_toNat (c d : Char) (h : c ≤ d) : c.toNat ≤ d.toNat := by
  rw [Char.le_def, UInt32.le_iff_toNat_le] at h
  exact h

theorem hexVal_lt (c : Char) (v : Nat) (h : hexVal c = some v) : v < 16 := by
  unfold hexVal at h
  split at h
  · next hc => cases h; have := char_le_toNat _ _ hc.2; have : ('9' : Char).toNat = 57 := rfl; omega
  · split at h
    · next hc => cases h; have := char_le_toNat _ _ hc.2; have : ('f' : Char).toNat = 102 := rfl; omega
    · split at h
      · next hc => cases h; have := char_le_toNat _ _ hc.2; have : ('F' : Char).toNat = 70 := rfl; omega
      · cases h

theorem mapM_hexVal_lt (ds : List Char) (vs : List Nat) (h : ds.mapM hexVal = some vs) :
    ∀ v ∈ vs, v < 16 := by
  induction ds generalizing vs with
  | nil => simp at h; subst h; simp
  | cons d ds ih =>
    rw [List.mapM_cons] at h
    cases hd : hexVal d with
    | none => simp [hd] at h
    | some v =>
      cases hr : ds.mapM hexVal with
      | none => simp [hd, hr] at h
      | some rest =>
        simp [hd, hr] at h
        subst h
        intro x hx
        rcases List.mem_cons.mp hx with h | h
        · subst h; exact hexVal_lt d _ hd
        · exact ih rest hr x h

def SColor.bounded (c : SColor) : Prop := c.r < 256 ∧ c.g < 256 ∧ c.b < 256

theorem parseHexColor_bounded (w : List Char) (c : SColor) (h : parseHexColor w = some c) :
    c.bounded := by
  unfold parseHexColor at h
  split at h
  · next ds =>
    split at h
    · next r g b hm =>
      cases h
      have := mapM_hexVal_lt ds _ hm
      have h1 := this r (by simp); have h2 := this g (by simp); have h3 := this b (by simp)
      exact ⟨by show r < 256; omega, by show g < 256; omega, by show b < 256; omega⟩
    · next r1 r0 g1 g0 b1 b0 hm =>
      cases h
      have := mapM_hexVal_lt ds _ hm
      have a1 := this r1 (by simp); have a2 := this r0 (by simp); have a3 := this g1 (by simp)
      have a4 := this g0 (by simp); have a5 := this b1 (by simp); have a6 := this b0 (by simp)
      exact ⟨by show 16 * r1 + r0 < 256; omega, by show 16 * g1 + g0 < 256; omega,
             by show 16 * b1 + b0 < 256; omega⟩
    · next r1 r0 g1 g0 b1 b0 x1 x0 hm =>
      cases h
      have := mapM_hexVal_lt ds _ hm
      have a1 := this r1 (by simp); have a2 := this r0 (by simp); have a3 := this g1 (by simp)
      have a4 := this g0 (by simp); have a5 := this b1 (by simp); have a6 := this b0 (by simp)
      exact ⟨by show 16 * r1 + r0 < 256; omega, by show 16 * g1 + g0 < 256; omega,
             by show 16 * b1 + b0 < 256; omega⟩
    · cases h
  · cases h

theorem foldl_u8_none (vs : List Nat) : vs.foldl u8step none = none := by
  induction vs with
  | nil => rfl
  | cons v vs ih => simpa [List.foldl, u8step] using ih

theorem foldl_u8_le (vs : List Nat) (a n : Nat) (ha : a ≤ 255)
    (h : vs.foldl u8step (some a) = some n) : n ≤ 255 := by
  induction vs generalizing a with
  | nil => simp at h; omega
  | cons v vs ih =>
    simp only [List.foldl_cons] at h
    by_cases hle : 10 * a + v ≤ 255
    · have : u8step (some a) v = some (10 * a + v) := by simp [u8step, hle]
      rw [this] at h
      exact ih _ hle h
    · have : u8step (some a) v = none := by simp [u8step, hle]
      rw [this, foldl_u8_none] at h
      cases h

theorem parseU8_le (w : List Char) (n : Nat) (h : parseU8 w = some n) : n ≤ 255 := by
  unfold parseU8 at h
  split at h
  · cases h
  · cases hm : (stripPlus w).mapM decVal with
    | none => simp [hm] at h
    | some vs =>
      simp only [hm] at h
      exact foldl_u8_le vs 0 n (by omega) h

theorem lookup_mem {β : Type} (l : List (String × β)) (w : String) (v : β) (h : l.lookup w = some v) :
    (w, v) ∈ l := by
  induction l with
  | nil => simp [List.lookup] at h
  | cons e l ih =>
    obtain ⟨k, x⟩ := e
    simp only [List.lookup] at h
    split at h
    · next heq =>
      cases h
      have : w = k := by simpa using heq
      subst this
      exact List.mem_cons_self
    · exact List.mem_cons_of_mem _ (ih h)

theorem ansi16_lt : ∀ e ∈ ansi16Colors, e.2 < 256 := by decide

set_option maxRecDepth 8192 in
theorem css_lt : ∀ e ∈ cssColors, e.2.1 < 256 ∧ e.2.2.1 < 256 ∧ e.2.2.2 < 256 := by decide

theorem resolve_bounded (w : String) (c : SColor) (h : resolveColorWord w = some c) : c.bounded := by
  unfold resolveColorWord at h
  split at h
  · exact parseHexColor_bounded _ c h
  · split at h
    · next n hn =>
      cases h
      have := parseU8_le _ n hn
      exact ⟨by show n < 256; omega, by show 0 < 256; omega, by show 0 < 256; omega⟩
    · split at h
      · next n hn =>
        cases h
        have := ansi16_lt (w, n) (lookup_mem _ w n hn)
        exact ⟨this, by show 0 < 256; omega, by show 0 < 256; omega⟩
      · unfold cssLookup at h
        split at h
        · next k r g b hf =>
          cases h
          have hm := List.mem_of_find?_eq_some hf
          exact css_lt _ hm
        · cases h

theorem toAnsiColor_canon (env : Env) (ho : OracleOk env) (sc : SColor) (hb : sc.bounded)
    (c : Color) (h : toAnsiColor env sc = some c) : canonColor env c := by
  unfold toAnsiColor at h
  rw [toAnsiBasic_length] at h
  split at h
  · split at h
    · next hlt => cases h; exact hlt
    · next hge => cases h; exact ⟨by omega, hb.1⟩
  · split at h
    · cases h
    · split at h
      · next htc => cases h; exact ⟨htc, hb.1, hb.2.1, hb.2.2⟩
      · cases h; exact ho _ _ _

theorem parseColor_canon (env : Env) (ho : OracleOk env) (w : String) (o : Option Color)
    (h : parseColor env w = .ok o) : ∀ c, o = some c → canonColor env c := by
  intro c hc
  subst hc
  unfold parseColor at h
  split at h
  · exact absurd h (by simp)
  · cases hr : resolveColorWord w with
    | none => simp [hr] at h
    | some sc =>
      simp only [hr, Except.ok.injEq] at h
      exact toAnsiColor_canon env ho sc (resolve_bounded w sc hr) c h

theorem readFg_canon (env : Env) (ho : OracleOk env) (w : String) (c : Colours)
    (h : readFg env none w = .ok c) :
    (c.synt = true → c.fg = none) ∧ (∀ x, c.fg = some x → canonColor env x) ∧ c.bg = none := by
  unfold readFg at h
  split at h
  · cases h; simp
  · split at h
    · cases h; simp [defFg, defSyntax]
    · cases hp : parseColor env w with
      | error e => simp [hp] at h
      | ok o =>
        simp [hp] at h; cases h
        exact ⟨by simp, parseColor_canon env ho w o hp, rfl⟩

theorem readBg_canon (env : Env) (ho : OracleOk env) (c0 : Colours) (w : String) (c : Colours)
    (h : readBg env none c0 w = .ok c) :
    c.synt = c0.synt ∧ c.fg = c0.fg ∧ (∀ x, c.bg = some x → canonColor env x) := by
  unfold readBg at h
  split at h
  · cases h
  · split at h
    · cases h; simp [defBg]
    · cases hp : parseColor env w with
      | error e => simp [hp] at h
      | ok o =>
        simp [hp] at h; cases h
        exact ⟨rfl, rfl, parseColor_canon env ho w o hp⟩

theorem readColours_canon (env : Env) (ho : OracleOk env) (cws : List String) (c : Colours)
    (h : readColours env none cws = .ok c) :
    (c.synt = true → c.fg = none) ∧ (∀ x, c.fg = some x → canonColor env x) ∧
      (∀ x, c.bg = some x → canonColor env x) := by
  match cws with
  | [] => simp [readColours] at h; cases h; simp
  | [f] =>
    obtain ⟨h1, h2, h3⟩ := readFg_canon env ho f c (by simpa [readColours] using h)
    exact ⟨h1, h2, by simp [h3]⟩
  | [f, b] =>
    simp only [readColours] at h
    cases hf : readFg env none f with
    | error e => simp [hf] at h
    | ok c0 =>
      simp only [hf] at h
      obtain ⟨h1, h2, _⟩ := readFg_canon env ho f c0 hf
      obtain ⟨g1, g2, g3⟩ := readBg_canon env ho c0 b c h
      exact ⟨by rw [g1, g2]; exact h1, by rw [g2]; exact h2, g3⟩
  | f :: b :: t :: rest =>
    simp only [readColours] at h
    cases hf : readFg env none f with
    | error e => simp [hf] at h
    | ok c0 =>
      simp only [hf] at h
      cases hb : readBg env none c0 b <;> simp [hb] at h

/-- The image of `parse` (no default) consists of canonical styles. -/
theorem parseAnsi_canon (env : Env) (ho : OracleOk env) (s : List Char) (p : Parsed)
    (h : parseAnsi env none s = .ok p) : Canon env p := by
  rw [parseAnsi_eq_denote] at h
  unfold denote denoteWords at h
  cases hc : readColours env none (colourWords (words s)) with
  | error e => simp [hc] at h
  | ok c =>
    simp only [hc] at h
    cases h
    obtain ⟨h1, h2, h3⟩ := readColours_canon env ho _ c hc
    exact ⟨h1, h2, h3⟩

end DeltaStyle
