import Proofs.EditsTokenize
import Proofs.AlignRle
import Proofs.AlignValid
/-!
`annotate`: given a valid edit script (run-length encoded) between the token texts, the loop
cannot fail, the sections of each side concatenate to the line, and deleting the emphasised
sections from both sides leaves the same text.
-/
set_option linter.unusedSimpArgs false
set_option linter.unusedVariables false
namespace Edits
open Align Generated.Align

/-- Clusters of a list of sections. -/
def secsG (secs : List Section) : List G := secs.flatMap (·.gs)

/-- Text of the sections whose tag is not `emph`. -/
def keptText (emph : Tag) (secs : List Section) : List Char :=
  (secs.filter (fun s => s.tag ≠ emph)).flatMap (fun s => text s.gs)

theorem text_append (a b : List G) : text (a ++ b) = text a ++ text b := by
  simp [text]

theorem text_flatten (l : List (List G)) : text l.flatten = (l.map text).flatten := by
  induction l with
  | nil => rfl
  | cons a l ih => simp [text_append, ih]

theorem secsG_append (a b : List Section) : secsG (a ++ b) = secsG a ++ secsG b := by
  simp [secsG]

theorem keptText_append (e : Tag) (a b : List Section) :
    keptText e (a ++ b) = keptText e a ++ keptText e b := by
  simp [keptText]

theorem keptText_single (e : Tag) (s : Section) :
    keptText e [s] = if s.tag ≠ e then text s.gs else [] := by
  unfold keptText
  by_cases h : s.tag = e <;> simp [h]

/-! ### trimming -/

theorem dropWhile_all {β : Type} (p : β → Bool) (l : List β) (h : ∀ x ∈ l, p x = true) :
    l.dropWhile p = [] := by
  induction l with
  | nil => rfl
  | cons a l ih =>
    rw [List.dropWhile_cons, if_pos (h a (by simp))]
    exact ih fun x hx => h x (by simp [hx])

theorem trimEnd_prefix (l : List G) : trimEnd l ++ l.drop (trimEnd l).length = l := by
  unfold trimEnd
  have h := List.takeWhile_append_dropWhile (p := fun g : G => g.ws) (l := l.reverse)
  have h2 : (l.reverse.dropWhile (·.ws)).reverse ++ (l.reverse.takeWhile (·.ws)).reverse = l := by
    rw [← List.reverse_append, h, List.reverse_reverse]
  have hd : l.drop (l.reverse.dropWhile (·.ws)).reverse.length = (l.reverse.takeWhile (·.ws)).reverse := by
    have := congrArg (List.drop (l.reverse.dropWhile (·.ws)).reverse.length) h2
    rw [List.drop_left] at this
    exact this.symm
  rw [hd, h2]

theorem isSpace_trim (l : List G) (h : isSpace l = true) : trim l = [] := by
  unfold trim trimStart
  have : l.dropWhile (·.ws) = [] := by
    apply dropWhile_all
    intro g hg
    unfold isSpace at h
    exact List.all_eq_true.mp h g hg
  rw [this]; rfl

theorem isSpace_contribution (l : List G) (h : isSpace l = true) : distanceContribution l = 0 := by
  unfold distanceContribution
  rw [isSpace_trim l h]
  simp [width]

/-- With the repaired `distance_contribution` a section that contributes nothing is blank after
trimming (not merely of display width 0). -/
theorem contribution_zero_blank (l : List G) (hflag : nonBlankCountsAtLeastOne = true)
    (h : distanceContribution l = 0) : trim l = [] := by
  unfold distanceContribution at h
  simp only [hflag, if_true] at h
  by_cases ht : trim l = []
  · exact ht
  · simp only [ht, if_false] at h
    omega

theorem isSpace_trimEnd (l : List G) (h : isSpace l = true) : trimEnd l = [] := by
  unfold trimEnd
  have : l.reverse.dropWhile (·.ws) = [] := by
    apply dropWhile_all
    intro g hg
    unfold isSpace at h
    exact List.all_eq_true.mp h g (by simpa using hg)
  rw [this]; rfl

theorem contents_some (l nw : List G) (h : contentsBeforeTrailingWhitespace l = some nw) :
    nw = trimEnd l := by
  unfold contentsBeforeTrailingWhitespace at h
  simp only at h
  split at h
  · injection h with h; exact h.symm
  · cases h

theorem plusSections_secsG (ptag : Tag) (psec : List G) : secsG (plusSections ptag psec) = psec := by
  unfold plusSections
  split
  · rename_i nw h
    have := contents_some _ _ h
    subst this
    simp [secsG, trimEnd_prefix]
  · simp [secsG]

theorem plusSections_tag (ptag : Tag) (psec : List G) : ∀ s ∈ plusSections ptag psec, s.tag = ptag := by
  unfold plusSections
  split <;> simp

theorem plusSections_kept (e ptag : Tag) (psec : List G) :
    keptText e (plusSections ptag psec) = if ptag ≠ e then text psec else [] := by
  have hg := plusSections_secsG ptag psec
  unfold plusSections at hg ⊢
  split at hg <;> rename_i h
  · by_cases hp : ptag = e
    · simp [keptText, hp]
    · simp only [keptText, ne_eq, hp, not_false_eq_true, decide_true, List.filter_cons_of_pos,
        List.filter_nil, if_true]
      simp only [secsG, List.flatMap_cons, List.flatMap_nil, List.append_nil] at hg
      simp only [List.flatMap_cons, List.flatMap_nil, List.append_nil, ← text_append, hg]
  · exact keptText_single e ⟨ptag, psec⟩

theorem plusSections_space (ptag : Tag) (psec : List G) (h : isSpace psec = true) :
    plusSections ptag psec = [⟨ptag, psec⟩] := by
  unfold plusSections contentsBeforeTrailingWhitespace
  simp [isSpace_trimEnd psec h]

/-! ### peeling runs off a valid script between mapped sequences -/

section peel
variable {β γ : Type}

theorem noop_inv {ops : List Op} {X Y : List γ} (h : ValidScript (.noOp :: ops) X Y) :
    ∃ a X' Y', X = a :: X' ∧ Y = a :: Y' ∧ ValidScript ops X' Y' := by
  cases h with
  | noop a h => exact ⟨a, _, _, rfl, rfl, h⟩

theorem del_inv {ops : List Op} {X Y : List γ} (h : ValidScript (.deletion :: ops) X Y) :
    ∃ a X', X = a :: X' ∧ ValidScript ops X' Y := by
  cases h with
  | del a h => exact ⟨a, _, rfl, h⟩

theorem ins_inv {ops : List Op} {X Y : List γ} (h : ValidScript (.insertion :: ops) X Y) :
    ∃ b Y', Y = b :: Y' ∧ ValidScript ops X Y' := by
  cases h with
  | ins b h => exact ⟨b, _, rfl, h⟩

theorem nil_inv {X Y : List γ} (h : ValidScript [] X Y) : X = [] ∧ Y = [] := by
  cases h; exact ⟨rfl, rfl⟩

theorem peel_noop (f : β → γ) (n : Nat) (s : List Op) (x y : List β)
    (h : ValidScript (List.replicate n .noOp ++ s) (x.map f) (y.map f)) :
    ∃ xa xr ya yr, x = xa ++ xr ∧ y = ya ++ yr ∧ xa.length = n ∧ ya.length = n ∧
      xa.map f = ya.map f ∧ ValidScript s (xr.map f) (yr.map f) := by
  induction n generalizing x y with
  | zero => exact ⟨[], x, [], y, rfl, rfl, rfl, rfl, rfl, by simpa using h⟩
  | succ n ih =>
    rw [List.replicate_succ, List.cons_append] at h
    obtain ⟨c, X', Y', hX, hY, h'⟩ := noop_inv h
    obtain ⟨a, x', rfl, ha, hx'⟩ := List.map_eq_cons_iff.mp hX
    obtain ⟨b, y', rfl, hb, hy'⟩ := List.map_eq_cons_iff.mp hY
    subst hx' hy'
    obtain ⟨xa, xr, ya, yr, rfl, rfl, h1, h2, h3, h4⟩ := ih x' y' h'
    exact ⟨a :: xa, xr, b :: ya, yr, rfl, rfl, by simp [h1], by simp [h2], by simp [ha, hb, h3], h4⟩

theorem peel_del (f : β → γ) (n : Nat) (s : List Op) (x : List β) (Y : List γ)
    (h : ValidScript (List.replicate n .deletion ++ s) (x.map f) Y) :
    ∃ xa xr, x = xa ++ xr ∧ xa.length = n ∧ ValidScript s (xr.map f) Y := by
  induction n generalizing x with
  | zero => exact ⟨[], x, rfl, rfl, by simpa using h⟩
  | succ n ih =>
    rw [List.replicate_succ, List.cons_append] at h
    obtain ⟨c, X', hX, h'⟩ := del_inv h
    obtain ⟨a, x', rfl, ha, hx'⟩ := List.map_eq_cons_iff.mp hX
    subst hx'
    obtain ⟨xa, xr, rfl, h1, h4⟩ := ih x' h'
    exact ⟨a :: xa, xr, rfl, by simp [h1], h4⟩

theorem peel_ins (f : β → γ) (n : Nat) (s : List Op) (X : List γ) (y : List β)
    (h : ValidScript (List.replicate n .insertion ++ s) X (y.map f)) :
    ∃ ya yr, y = ya ++ yr ∧ ya.length = n ∧ ValidScript s X (yr.map f) := by
  induction n generalizing y with
  | zero => exact ⟨[], y, rfl, rfl, by simpa using h⟩
  | succ n ih =>
    rw [List.replicate_succ, List.cons_append] at h
    obtain ⟨c, Y', hY, h'⟩ := ins_inv h
    obtain ⟨b, y', rfl, hb, hy'⟩ := List.map_eq_cons_iff.mp hY
    subst hy'
    obtain ⟨ya, yr, rfl, h1, h4⟩ := ih y' h'
    exact ⟨b :: ya, yr, rfl, by simp [h1], h4⟩

end peel

/-- `get_section` on a decomposition `done ++ run ++ rest` of the token vector. -/
theorem getSection_ok (xd xa xr : List Tok) :
    getSection xa.length xd.flatten.length xd.length (xd ++ xa ++ xr) (xd ++ xa ++ xr).flatten
      = .ok (xa.flatten, (xd ++ xa).flatten.length, (xd ++ xa).length) := by
  unfold getSection
  have h1 : slice (xd ++ xa ++ xr) xd.length (xd.length + xa.length) = .ok xa := by
    rw [slice_eq_ok _ (by omega) (by simp)]
    congr 1
    rw [List.append_assoc, List.drop_left]
    simp
  rw [h1]
  simp only
  have h2 : (xa.map List.length).sum = xa.flatten.length := by rw [List.length_flatten]
  rw [h2]
  have h3 : slice (xd ++ xa ++ xr).flatten xd.flatten.length (xd.flatten.length + xa.flatten.length)
      = .ok xa.flatten := by
    rw [slice_eq_ok _ (by omega) (by simp)]
    congr 1
    rw [List.flatten_append, List.flatten_append, List.append_assoc, List.drop_left]
    simp
  rw [h3]
  simp

theorem getSection_ok' (xd xa xr : List Tok) (n mo xo : Nat) (hn : n = xa.length)
    (hmo : mo = xd.flatten.length) (hxo : xo = xd.length) :
    getSection n mo xo (xd ++ (xa ++ xr)) (xd ++ (xa ++ xr)).flatten
      = .ok (xa.flatten, (xd ++ xa).flatten.length, (xd ++ xa).length) := by
  subst hn hmo hxo
  rw [← List.append_assoc]
  exact getSection_ok xd xa xr

/-- Whitespace class of a token is determined by its text (true of real text: DESIGN 3.1). -/
def WsCons (x y : List Tok) : Prop :=
  ∀ a ∈ x, ∀ b ∈ y, text a = text b → a.all (·.ws) = b.all (·.ws)

theorem isSpace_flatten (l : List Tok) : isSpace l.flatten = l.all (fun tok => tok.all (·.ws)) := by
  unfold isSpace
  induction l with
  | nil => rfl
  | cons a l ih => simp [List.all_append, ih]

theorem all_ws_congr (xa ya : List Tok) (h : tokTexts xa = tokTexts ya)
    (hc : ∀ a ∈ xa, ∀ b ∈ ya, text a = text b → a.all (·.ws) = b.all (·.ws)) :
    xa.all (fun tok => tok.all (·.ws)) = ya.all (fun tok => tok.all (·.ws)) := by
  induction xa generalizing ya with
  | nil =>
    cases ya with
    | nil => rfl
    | cons b ya => simp [tokTexts] at h
  | cons a xa ih =>
    cases ya with
    | nil => simp [tokTexts] at h
    | cons b ya =>
      simp only [tokTexts, List.map_cons, List.cons.injEq] at h
      simp only [List.all_cons]
      rw [hc a (by simp) b (by simp) h.1, ih ya h.2 (fun a' ha' b' hb' => hc a' (by simp [ha']) b' (by simp [hb']))]

theorem coalesceTest_ok (t : Tags) (isSp : Bool) (mPrev pPrev : Tag) (xOff xLen yOff yLen : Nat)
    (hx : xLen ≠ 0) (hy : yLen ≠ 0) :
    ∃ co, coalesceTest t isSp mPrev pPrev xOff xLen yOff yLen = .ok co ∧
      (co = true → isSp = true ∧
        ((mPrev = t.del ∧ pPrev = t.ins) ∨ (mPrev = t.noopDel ∧ pPrev = t.noopIns))) := by
  unfold coalesceTest
  cases isSp with
  | false => exact ⟨false, by simp, by simp⟩
  | true =>
    simp only [Bool.not_true, Bool.false_eq_true, if_false, hx, hy]
    split
    · rename_i h1
      split
      · exact ⟨true, rfl, fun _ => ⟨trivial, Or.inl h1⟩⟩
      · split
        · exact ⟨true, rfl, fun _ => ⟨trivial, Or.inl h1⟩⟩
        · exact ⟨_, rfl, fun h => ⟨trivial, Or.inr (by simpa using h)⟩⟩
    · exact ⟨_, rfl, fun h => ⟨trivial, Or.inr (by simpa using h)⟩⟩

/-- Invariant of the `annotate` loop after the token prefixes `xd`, `yd` have been consumed. -/
structure InvD (t : Tags) (x y xd yd : List Tok) (st : AState) : Prop where
  xo : st.xOff = xd.length
  yo : st.yOff = yd.length
  mo : st.mOff = xd.flatten.length
  po : st.pOff = yd.flatten.length
  am : secsG st.am = xd.flatten
  ap : secsG st.ap = yd.flatten
  nd : st.numer ≤ st.denom
  kept : t.noopDel ≠ t.del → t.noopIns ≠ t.ins → keptText t.del st.am = keptText t.ins st.ap
  em : t.noopDel ≠ t.del → ∀ s ∈ st.am, s.tag = t.del → distanceContribution s.gs ≤ st.numer
  ep : t.noopIns ≠ t.ins → WsCons x y → ∀ s ∈ st.ap, s.tag = t.ins → distanceContribution s.gs ≤ st.numer

theorem step_del (t : Tags) (xd xa xr yd : List Tok) (y : List Tok) (st : AState)
    (inv : InvD t (xd ++ (xa ++ xr)) y xd yd st) :
    ∃ st1, annotateStep t (xd ++ (xa ++ xr)) y (xd ++ (xa ++ xr)).flatten y.flatten st (.deletion, xa.length)
        = .ok st1 ∧ InvD t (xd ++ (xa ++ xr)) y (xd ++ xa) yd st1 := by
  simp only [annotateStep]
  rw [getSection_ok' xd xa xr _ _ _ rfl inv.mo inv.xo]
  refine ⟨_, rfl, ?_⟩
  constructor
  · rfl
  · exact inv.yo
  · rfl
  · exact inv.po
  · simp only [secsG_append, inv.am, List.flatten_append]; simp [secsG]
  · exact inv.ap
  · have := inv.nd; simp only; omega
  · intro h1 h2
    simp only [keptText_append, keptText_single, ne_eq, not_true_eq_false, if_false, List.append_nil]
    exact inv.kept h1 h2
  · intro h1 s hs htag
    simp only [List.mem_append, List.mem_singleton] at hs
    rcases hs with hs | rfl
    · have := inv.em h1 s hs htag; simp only; omega
    · simp only; omega
  · intro h1 hw s hs htag
    have := inv.ep h1 hw s hs htag; simp only; omega

theorem step_ins (t : Tags) (x : List Tok) (xd yd ya yr : List Tok) (st : AState)
    (inv : InvD t x (yd ++ (ya ++ yr)) xd yd st) :
    ∃ st1, annotateStep t x (yd ++ (ya ++ yr)) x.flatten (yd ++ (ya ++ yr)).flatten st (.insertion, ya.length)
        = .ok st1 ∧ InvD t x (yd ++ (ya ++ yr)) xd (yd ++ ya) st1 := by
  simp only [annotateStep]
  rw [getSection_ok' yd ya yr _ _ _ rfl inv.po inv.yo]
  refine ⟨_, rfl, ?_⟩
  constructor
  · exact inv.xo
  · rfl
  · exact inv.mo
  · rfl
  · exact inv.am
  · simp only [secsG_append, inv.ap, List.flatten_append]; simp [secsG]
  · have := inv.nd; simp only; omega
  · intro h1 h2
    simp only [keptText_append, keptText_single, ne_eq, not_true_eq_false, if_false, List.append_nil]
    exact inv.kept h1 h2
  · intro h1 s hs htag
    have := inv.em h1 s hs htag; simp only; omega
  · intro h1 hw s hs htag
    simp only [List.mem_append, List.mem_singleton] at hs
    rcases hs with hs | rfl
    · have := inv.ep h1 hw s hs htag; simp only; omega
    · simp only; omega

theorem step_noop (t : Tags) (xd xa xr yd ya yr : List Tok) (st : AState)
    (hlen : xa.length = ya.length) (htxt : tokTexts xa = tokTexts ya)
    (hx : xd ++ (xa ++ xr) ≠ []) (hy : yd ++ (ya ++ yr) ≠ [])
    (inv : InvD t (xd ++ (xa ++ xr)) (yd ++ (ya ++ yr)) xd yd st) :
    ∃ st1, annotateStep t (xd ++ (xa ++ xr)) (yd ++ (ya ++ yr)) (xd ++ (xa ++ xr)).flatten
        (yd ++ (ya ++ yr)).flatten st (.noOp, xa.length) = .ok st1 ∧
      InvD t (xd ++ (xa ++ xr)) (yd ++ (ya ++ yr)) (xd ++ xa) (yd ++ ya) st1 := by
  simp only [annotateStep]
  rw [getSection_ok' xd xa xr _ _ _ rfl inv.mo inv.xo]
  simp only
  obtain ⟨co, hco, hcop⟩ := coalesceTest_ok t (isSpace xa.flatten) st.mPrev st.pPrev (xd ++ xa).length
    (xd ++ (xa ++ xr)).length st.yOff (yd ++ (ya ++ yr)).length
    (by simpa using hx) (by simpa using hy)
  rw [hco]
  simp only
  rw [getSection_ok' yd ya yr _ _ _ hlen inv.po inv.yo]
  simp only
  have htext : text xa.flatten = text ya.flatten := by
    rw [text_flatten, text_flatten]
    exact congrArg List.flatten htxt
  refine ⟨_, rfl, ?_⟩
  constructor
  · rfl
  · rfl
  · rfl
  · rfl
  · simp only [secsG_append, inv.am, List.flatten_append]; simp [secsG]
  · simp only [secsG_append, inv.ap, List.flatten_append]
    congr 1
    exact plusSections_secsG _ ya.flatten
  · have := inv.nd; simp only; omega
  · intro h1 h2
    simp only [keptText_append, keptText_single]
    rw [plusSections_kept, inv.kept h1 h2, htext]
    congr 1
    cases co with
    | false => simp [h1, h2]
    | true =>
      rcases (hcop rfl).2 with ⟨hm, hp⟩ | ⟨hm, hp⟩
      · simp [hm, hp]
      · simp [hm, hp, h1, h2]
  · intro h1 s hs htag
    simp only [List.mem_append, List.mem_singleton] at hs
    rcases hs with hs | rfl
    · exact inv.em h1 s hs htag
    · simp only at htag ⊢
      cases co with
      | false => simp at htag; exact absurd htag h1
      | true =>
        rw [isSpace_contribution _ (hcop rfl).1]; omega
  · intro h1 hw s hs htag
    simp only [List.mem_append] at hs
    rcases hs with hs | hs
    · exact inv.ep h1 hw s hs htag
    · have hs' : s ∈ plusSections (if co = true then st.pPrev else t.noopIns) ya.flatten := hs
      have htag' := plusSections_tag _ _ s hs'
      cases co with
      | false => simp at htag'; rw [htag'] at htag; exact absurd htag h1
      | true =>
        have hsp : isSpace ya.flatten = true := by
          rw [isSpace_flatten, ← all_ws_congr xa ya htxt (fun a ha b hb => hw a (by simp [ha]) b (by simp [hb])),
            ← isSpace_flatten]
          exact (hcop rfl).1
        rw [plusSections_space _ _ hsp] at hs'
        simp only [List.mem_singleton] at hs'
        subst hs'
        rw [isSpace_contribution _ hsp]; omega

theorem expandRuns_cons (o : Op) (n : Nat) (rs : List (Op × Nat)) :
    expandRuns ((o, n) :: rs) = List.replicate n o ++ expandRuns rs := by
  simp [expandRuns]

/-- The `annotate` loop over a valid (run-length encoded) script cannot fail and keeps the
invariant; at the end both token vectors are consumed. -/
theorem annotateLoop_inv (t : Tags) (x y : List Tok) (hx : x ≠ []) (hy : y ≠ []) :
    ∀ (runs : List (Op × Nat)) (xd xr yd yr : List Tok) (st : AState),
      x = xd ++ xr → y = yd ++ yr →
      ValidScript (expandRuns runs) (tokTexts xr) (tokTexts yr) →
      InvD t x y xd yd st →
      ∃ st', annotateLoop t x y x.flatten y.flatten runs st = .ok st' ∧ InvD t x y x y st' := by
  intro runs
  induction runs with
  | nil =>
    intro xd xr yd yr st hxe hye hv inv
    obtain ⟨h1, h2⟩ := nil_inv hv
    simp only [tokTexts, List.map_eq_nil_iff] at h1 h2
    subst h1 h2
    simp only [List.append_nil] at hxe hye
    subst hxe hye
    exact ⟨st, rfl, inv⟩
  | cons r rs ih =>
    intro xd xr yd yr st hxe hye hv inv
    obtain ⟨o, n⟩ := r
    rw [expandRuns_cons] at hv
    simp only [annotateLoop]
    cases o with
    | noOp =>
      obtain ⟨xa, xr', ya, yr', rfl, rfl, h1, h2, h3, h4⟩ := peel_noop text n _ xr yr hv
      subst hxe hye
      subst h1
      obtain ⟨st1, hs, inv1⟩ := step_noop t xd xa xr' yd ya yr' st h2.symm h3 hx hy inv
      rw [hs]
      exact ih (xd ++ xa) xr' (yd ++ ya) yr' st1 (by simp) (by simp) h4 inv1
    | deletion =>
      obtain ⟨xa, xr', rfl, h1, h4⟩ := peel_del text n _ xr (tokTexts yr) hv
      subst hxe h1
      obtain ⟨st1, hs, inv1⟩ := step_del t xd xa xr' yd y st inv
      rw [hs]
      exact ih (xd ++ xa) xr' yd yr st1 (by simp) hye h4 inv1
    | insertion =>
      obtain ⟨ya, yr', rfl, h1, h4⟩ := peel_ins text n _ (tokTexts xr) yr hv
      subst hye h1
      obtain ⟨st1, hs, inv1⟩ := step_ins t x xd yd ya yr' st inv
      rw [hs]
      exact ih xd xr (yd ++ ya) yr' st1 hxe (by simp) h4 inv1

theorem initState_inv (t : Tags) (x y : List Tok) : InvD t x y [] [] (initState t) := by
  constructor <;> simp [initState, secsG, keptText]

/-- `annotateOps` on a valid script between token vectors that partition the two lines. -/
theorem annotateOps_spec (t : Tags) (x y : List Tok) (hx : x ≠ []) (hy : y ≠ [])
    (runs : List (Op × Nat)) (hv : ValidScript (expandRuns runs) (tokTexts x) (tokTexts y)) :
    ∃ a, annotateOps t x y runs x.flatten y.flatten = .ok a ∧
      secsG a.minus = x.flatten ∧ secsG a.plus = y.flatten ∧ a.numer ≤ a.denom ∧
      (t.noopDel ≠ t.del → t.noopIns ≠ t.ins → keptText t.del a.minus = keptText t.ins a.plus) ∧
      (t.noopDel ≠ t.del → ∀ s ∈ a.minus, s.tag = t.del → distanceContribution s.gs ≤ a.numer) ∧
      (t.noopIns ≠ t.ins → WsCons x y → ∀ s ∈ a.plus, s.tag = t.ins → distanceContribution s.gs ≤ a.numer) := by
  obtain ⟨st', hl, inv⟩ := annotateLoop_inv t x y hx hy runs [] x [] y (initState t) rfl rfl hv
    (initState_inv t x y)
  unfold annotateOps
  rw [hl]
  exact ⟨_, rfl, inv.am, inv.ap, inv.nd, inv.kept, inv.em, inv.ep⟩

/-- Properties of one annotated pair (what `annotate` guarantees). -/
structure PairSpec (t : Tags) (m p : Line) (x y : List Tok) (a : Annotated) : Prop where
  minus_partition : secsG a.minus = m.gs
  plus_partition : secsG a.plus = p.gs
  numer_le : a.numer ≤ a.denom
  sound : t.noopDel ≠ t.del → t.noopIns ≠ t.ins → keptText t.del a.minus = keptText t.ins a.plus
  emph_minus : t.noopDel ≠ t.del → ∀ s ∈ a.minus, s.tag = t.del → distanceContribution s.gs ≤ a.numer
  emph_plus : t.noopIns ≠ t.ins → WsCons x y → ∀ s ∈ a.plus, s.tag = t.ins → distanceContribution s.gs ≤ a.numer

theorem head_nil_cons {x : List Tok} (h : x.head? = some []) : ∃ x', x = [] :: x' := by
  cases x with
  | nil => simp at h
  | cons a x' => simp at h; exact ⟨x', by rw [h]⟩

/-- Once both lines tokenise, `annotatePair` cannot fail and satisfies `PairSpec`. -/
theorem annotatePair_of_tokens (t : Tags) (m p : Line) (x y : List Tok)
    (hx : tokenize m.gs m.spans = .ok x) (hy : tokenize p.gs p.spans = .ok y) :
    ∃ a, annotatePair t m p = .ok a ∧ PairSpec t m p x y a := by
  obtain ⟨hxf, hxh⟩ := tokenize_partition_aux _ _ _ hx
  obtain ⟨hyf, hyh⟩ := tokenize_partition_aux _ _ _ hy
  obtain ⟨x', rfl⟩ := head_nil_cons hxh
  obtain ⟨y', rfl⟩ := head_nil_cons hyh
  unfold annotatePair
  rw [hx, hy]
  simp only
  unfold coalescedOperations
  rw [operations_eq]
  simp only
  have hv : ValidScript (expandRuns (runLengthEncode (opsSpec (tokTexts ([] :: x')) (tokTexts ([] :: y')))))
      (tokTexts ([] :: x')) (tokTexts ([] :: y')) := by
    rw [expand_runLengthEncode]
    have : ∀ z : List Tok, tokTexts ([] :: z) = ([] : List Char) :: tokTexts z := fun z => by
      simp [tokTexts, text]
    rw [this, this]
    exact opsSpec_valid [] _ _
  obtain ⟨a, ha, h1, h2, h3, h4, h5, h6⟩ := annotateOps_spec t ([] :: x') ([] :: y') (by simp) (by simp) _ hv
  simp only [hxf, hyf] at ha h1 h2
  exact ⟨a, ha, ⟨h1, h2, h3, h4, h5, h6⟩⟩

/-- If `annotatePair` succeeds, both lines tokenised. -/
theorem annotatePair_ok_tokens (t : Tags) (m p : Line) (a : Annotated) (h : annotatePair t m p = .ok a) :
    ∃ x y, tokenize m.gs m.spans = .ok x ∧ tokenize p.gs p.spans = .ok y := by
  unfold annotatePair at h
  split at h
  · rename_i x y hx hy; exact ⟨x, y, hx, hy⟩
  · cases h

/-! ### no edit operations ⇒ no emphasis -/

theorem annotateStep_noop_tags (t : Tags) (x y : List Tok) (ml pl : List G) (st st1 : AState) (n : Nat)
    (h : annotateStep t x y ml pl st (.noOp, n) = .ok st1)
    (hm : st.mPrev = t.noopDel) (hp : st.pPrev = t.noopIns)
    (ham : ∀ s ∈ st.am, s.tag = t.noopDel) (hap : ∀ s ∈ st.ap, s.tag = t.noopIns) :
    st1.mPrev = t.noopDel ∧ st1.pPrev = t.noopIns ∧
      (∀ s ∈ st1.am, s.tag = t.noopDel) ∧ (∀ s ∈ st1.ap, s.tag = t.noopIns) := by
  simp only [annotateStep] at h
  split at h
  · cases h
  · split at h
    · cases h
    · split at h
      · cases h
      · injection h with h
        subst h
        refine ⟨rfl, rfl, ?_, ?_⟩
        · intro s hs
          simp only [List.mem_append, List.mem_singleton] at hs
          rcases hs with hs | rfl
          · exact ham s hs
          · simp only [hm, ite_self]
        · intro s hs
          simp only [List.mem_append] at hs
          rcases hs with hs | hs
          · exact hap s hs
          · rw [plusSections_tag _ _ s hs]
            simp only [hp, ite_self]

theorem annotateLoop_noop_tags (t : Tags) (x y : List Tok) (ml pl : List G) :
    ∀ (runs : List (Op × Nat)) (st st' : AState), (∀ r ∈ runs, r.1 = .noOp) →
      annotateLoop t x y ml pl runs st = .ok st' →
      st.mPrev = t.noopDel → st.pPrev = t.noopIns →
      (∀ s ∈ st.am, s.tag = t.noopDel) → (∀ s ∈ st.ap, s.tag = t.noopIns) →
      (∀ s ∈ st'.am, s.tag = t.noopDel) ∧ (∀ s ∈ st'.ap, s.tag = t.noopIns) := by
  intro runs
  induction runs with
  | nil =>
    intro st st' _ h _ _ ham hap
    simp only [annotateLoop] at h
    injection h with h; subst h
    exact ⟨ham, hap⟩
  | cons r rs ih =>
    intro st st' hr h hm hp ham hap
    simp only [annotateLoop] at h
    split at h
    · cases h
    · rename_i st1 hs
      obtain ⟨o, n⟩ := r
      have ho : o = .noOp := hr (o, n) (by simp)
      subst ho
      obtain ⟨h1, h2, h3, h4⟩ := annotateStep_noop_tags t x y ml pl st st1 n hs hm hp ham hap
      exact ih st1 st' (fun r hr' => hr r (by simp [hr'])) h h1 h2 h3 h4

theorem runLengthEncode_replicate_noOp (n : Nat) :
    ∀ r ∈ runLengthEncode (List.replicate n Oper.noOp), r.1 = Oper.noOp := by
  cases n with
  | zero => simp [runLengthEncode]
  | succ n =>
    rw [List.replicate_succ, runLengthEncode]
    have := rleAux_replicate Oper.noOp 1 n []
    simp only [List.append_nil] at this
    rw [this]
    simp [rleAux]

/-- Lines whose token texts coincide get no section tagged with anything but the no-op tags. -/
theorem annotatePair_identical (t : Tags) (m p : Line) (x y : List Tok) (a : Annotated)
    (hx : tokenize m.gs m.spans = .ok x) (hy : tokenize p.gs p.spans = .ok y)
    (hxy : tokTexts x = tokTexts y) (h : annotatePair t m p = .ok a) :
    (∀ s ∈ a.minus, s.tag = t.noopDel) ∧ (∀ s ∈ a.plus, s.tag = t.noopIns) := by
  obtain ⟨_, hxh⟩ := tokenize_partition_aux _ _ _ hx
  have hne : tokTexts x ≠ [] := by
    obtain ⟨x', rfl⟩ := head_nil_cons hxh
    simp [tokTexts]
  unfold annotatePair at h
  rw [hx, hy] at h
  simp only at h
  unfold coalescedOperations at h
  rw [operations_eq, ← hxy, opsSpec_self _ hne] at h
  simp only at h
  unfold annotateOps at h
  split at h
  · cases h
  · rename_i st hl
    injection h with h
    subst h
    exact annotateLoop_noop_tags t x y m.gs p.gs _ _ st (runLengthEncode_replicate_noOp _) hl rfl rfl
      (by simp [initState]) (by simp [initState])

end Edits
