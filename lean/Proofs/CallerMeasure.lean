import Proofs.Caller
/-!
Termination measure of the calling-process protocol model: every step other than a spurious
wake-up strictly decreases `measure`; a spurious wake-up raises it by at most 3.
-/
namespace Caller

theorem measure_stepBg {cfg : Cfg} {s s' : State} (h : Inv cfg s)
    (hs : stepBg cfg s = some s') : measure s' < measure s := by
  have h9 := h.pendingBg
  have h11 := h.asleepBg
  have h3 := h.waitSet
  clear h
  obtain ⟨owner, cell, src, waiters, bpc, bsrc, mpc, qleft, results⟩ := s
  simp only at h9 h11 h3
  cases bpc <;> simp [stepBg] at hs
  all_goals (first | subst hs | obtain ⟨ho, rfl⟩ := hs)
  all_goals (cases mpc <;> cases src <;> cases cell <;>
    simp_all [measure, mrank, brank, notifyAll, BPc.storeAhead, BPc.notifyAhead])
  all_goals omega

theorem measure_stepMain {cfg : Cfg} {s s' : State} (h : Inv cfg s)
    (hs : stepMain cfg s = some s') : measure s' < measure s := by
  have h10 := h.sleepPending
  have h3 := h.waitSet
  clear h
  obtain ⟨owner, cell, src, waiters, bpc, bsrc, mpc, qleft, results⟩ := s
  obtain ⟨g, kn, nq⟩ := cfg
  simp only at h10 h3
  cases mpc <;> simp [stepMain] at hs
  all_goals (try cases kn <;> simp at hs)
  all_goals (first | subst hs | obtain ⟨ho, rfl⟩ := hs)
  all_goals (cases cell <;>
    simp_all [measure, mrank, brank, notifyAll, queryStart])
  all_goals (try omega)
  all_goals (by_cases hq : qleft = 0 <;> by_cases hq1 : qleft - 1 = 0 <;> simp [hq, hq1] <;> omega)

theorem measure_stepSpurious {s s' : State}
    (hs : stepSpurious s = some s') : measure s' ≤ measure s + 3 := by
  obtain ⟨owner, cell, src, waiters, bpc, bsrc, mpc, qleft, results⟩ := s
  cases mpc <;> simp [stepSpurious] at hs
  subst hs
  cases cell <;> simp [measure, mrank] <;> omega

/-- Every step that is not a spurious wake-up strictly decreases the measure. -/
theorem measure_step {cfg : Cfg} {s s' : State} {c : Choice} (h : Inv cfg s)
    (hc : c ≠ .spurious) (hs : step cfg s c = some s') : measure s' < measure s := by
  cases c <;> simp only [step] at hs
  · exact measure_stepBg h hs
  · exact measure_stepMain h hs
  · exact absurd rfl hc

/-- Length of any executable schedule, in terms of the measure and the spurious wake-ups. -/
theorem run_length {cfg : Cfg} : ∀ {cs : List Choice} {s s' : State},
    Inv cfg s → run cfg s cs = some s' →
    cs.length + measure s' ≤ measure s + 4 * countSpurious cs
  | [], s, s', _, hr => by
      simp only [run, Option.some.injEq] at hr
      subst hr
      simp [countSpurious]
  | c :: cs, s, s', h, hr => by
      simp only [run] at hr
      cases hst : step cfg s c with
      | none => simp [hst] at hr
      | some s1 =>
        rw [hst] at hr
        have ih := run_length (inv_step h hst) hr
        cases c with
        | spurious =>
          have := measure_stepSpurious (by simpa [step] using hst)
          simp only [List.length_cons, countSpurious]
          omega
        | bg =>
          have := measure_step h (by simp) hst
          simp only [List.length_cons, countSpurious]
          omega
        | main =>
          have := measure_step h (by simp) hst
          simp only [List.length_cons, countSpurious]
          omega

end Caller
