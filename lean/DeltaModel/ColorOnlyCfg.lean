import DeltaModel.Generated.ColorOnlyCfg
import DeltaModel.Machine
import DeltaModel.Options
/-!
# From the option values to the configuration the line state machine runs under (property C02)

Rust modelled:

* `src/options/set.rs`, the last statement of `set_options` (`setOptionsTail`): `if opt.color_only { opt.side_by_side =
  false; opt.<x>_decoration_style = "none" … }`. Guard and assignments are **generated**.
* `src/config.rs`, `impl From<cli::Opt> for Config` (`configFrom`), as far as the color-only theorems depend on it:
  the decoration strip at its head (`if opt.color_only { for name in [...] { styles[name].decoration_style =
  NoDecoration } }`: guard, names **generated**), every boolean `Config` field that is initialised by a boolean
  expression over option fields (`color_only`, `side_by_side`, `keep_plus_minus_markers`, `line_numbers`,
  `handle_merge_conflicts`, …: the expression trees are **generated**, `evalB` interprets them), `tab_cfg` (which option
  field: generated), the three header styles (which entry of `styles`, parsed from which option fields: generated).
* where the option fields come from (`optAfterMacro`): the value the `set_options!` macro resolved for the option, by
  the option-resolution model of C13 (`Options.effective`: command line, `[delta]` section, `GIT_CONFIG_PARAMETERS`,
  custom features, builtin features, `DELTA_FEATURES`), through the generated field → long-option table.

Parameters (not modelled here): the style parser (`parse : style string → decoration string → ElemStyle`; property
C12), `handlers::hunk::is_word_diff()` (`wd`: a fact about the calling process), the remaining fields of `Machine.Cfg`
(`base`).
-/
namespace ColorOnlyCfg
open Generated.ColorOnlyCfg

/-- the option fields `Config::from` reads, by field name -/
structure OptV where
  bool : String → Bool
  str : String → String
  nat : String → Nat

def evalB (o : OptV) (wd : Bool) : BExp → Bool
  | .opt f => o.bool f
  | .wordDiff => wd
  | .lit b => b
  | .not e => !evalB o wd e
  | .and a b => evalB o wd a && evalB o wd b
  | .or a b => evalB o wd a || evalB o wd b

def assignB (as : List (String × Bool)) (g : String → Bool) (f : String) : Bool :=
  match Options.lookup f as with
  | some b => b
  | none => g f

def assignS (as : List (String × String)) (g : String → String) (f : String) : String :=
  match Options.lookup f as with
  | some b => b
  | none => g f

/-- the last statement of `set_options` (the guard does not mention `is_word_diff()`: checked by the extractor) -/
def setOptionsTail (o : OptV) : OptV :=
  if evalB o false tailGuard then
    { o with bool := assignB tailBoolAssigns o.bool, str := assignS tailStrAssigns o.str }
  else o

/-- `style::DecorationStyle::<name>` the strip assigns -/
def stripDeco : Machine.Deco :=
  if stripValue = "NoDecoration" then .none else .box

/-- `styles[name]` at the struct literal of `Config::from`: parsed from the two option fields `parse_styles` uses for
it, then the decoration strip -/
def styleOf (parse : String → String → Machine.ElemStyle) (o : OptV) (wd : Bool) (name : String) : Machine.ElemStyle :=
  match Options.lookup name styleSources with
  | some (sf, df) =>
    let st := parse (o.str sf) (o.str df)
    if evalB o wd stripGuard && stripNames.contains name then { st with deco := stripDeco } else st
  | none => {}

/-- a boolean field of `Config` -/
def cfgBool (o : OptV) (wd : Bool) (field : String) : Bool :=
  match Options.lookup field cfgBoolFields with
  | some e => evalB o wd e
  | none => false

/-- the style field `<field>: styles["<name>"]` -/
def cfgStyle (parse : String → String → Machine.ElemStyle) (o : OptV) (wd : Bool) (field : String) : Machine.ElemStyle :=
  match Options.lookup field cfgStyleFields with
  | some name => styleOf parse o wd name
  | none => {}

/-- `Config::from(opt)`, the fields the machine model has -/
def configFrom (parse : String → String → Machine.ElemStyle) (o : OptV) (wd : Bool) (base : Machine.Cfg) : Machine.Cfg :=
  { base with
    colorOnly := cfgBool o wd "color_only"
    commitStyle := cfgStyle parse o wd "commit_style"
    fileStyle := cfgStyle parse o wd "file_style"
    hunkHeaderStyle := cfgStyle parse o wd "hunk_header_style"
    keepMarkers := cfgBool o wd "keep_plus_minus_markers"
    tab := o.nat cfgTabField
    mergeConflicts := cfgBool o wd "handle_merge_conflicts" }

/-- `config.side_by_side`, `config.line_numbers` (outside `Machine.Cfg`: the machine model is the unified view) -/
def sideBySide (o : OptV) (wd : Bool) : Bool := cfgBool o wd "side_by_side"
def lineNumbers (o : OptV) (wd : Bool) : Bool := cfgBool o wd "line_numbers"

/-- `set_options` (tail) followed by `Config::from` -/
def finalCfg (parse : String → String → Machine.ElemStyle) (o : OptV) (wd : Bool) (base : Machine.Cfg) : Machine.Cfg :=
  configFrom parse (setOptionsTail o) wd base

/-! ## The option fields after the `set_options!` macro, from the sources (C13's model) -/

def longOf (field : String) : String :=
  match Options.lookup field fieldLong with
  | some l => l
  | none => field

def parseNat (s : String) : Option Nat :=
  if !s.toList.isEmpty && s.toList.all Char.isDigit then
    some (s.toList.foldl (fun (n : Nat) (c : Char) => 10 * n + (c.toNat - '0'.toNat)) 0)
  else none

/-- `opt.<field>` after the `set_options!` macro, given the gathered features -/
def optAfterMacroWith (features : List Options.Name) (inp : Options.Inputs) : OptV :=
  { bool := fun f => Options.valIsTrue (Options.effectiveWith features inp (longOf f))
    str := fun f => (Options.valText (longOf f) (Options.effectiveWith features inp (longOf f))).getD ""
    nat := fun f =>
      match Options.effectiveWith features inp (longOf f) with
      | .dflt => tabDefault
      | v => ((Options.valText (longOf f) v).bind parseNat).getD tabDefault }

def optAfterMacro (π : List Options.Name) (inp : Options.Inputs) : OptV :=
  optAfterMacroWith (Options.gatherFeatures π inp) inp

/-- the configuration delta runs under, from the option sources -/
def cfgOfInputs (parse : String → String → Machine.ElemStyle) (π : List Options.Name) (inp : Options.Inputs) (wd : Bool)
    (base : Machine.Cfg) : Machine.Cfg :=
  finalCfg parse (optAfterMacro π inp) wd base

end ColorOnlyCfg
