import DeltaModel.Generated.Blame
import DeltaModel.Text
/-!
Model of /repo/src/handlers/blame.rs (git blame rendering).

* `parseBlame`   — hand parser with the leftmost-first behaviour of `BLAME_LINE_REGEX`
                   followed by the `chrono` / `usize` validity checks of `parse_git_blame_line`;
* `formatMeta`   — `format_blame_metadata` (the metadata string, which is also the colour key);
* `getColor`, `getNextColor`, `step`, `run` — the colour memo `blame_key_colors`
                   (a `HashMap` in Rust, an association list here) and the rule that picks a colour;
                   the match arms of `get_color` are *generated* from the source;
* `fmtLineNumber` — `format_blame_line_number`;
* `streamStep`, `stream` — `handle_blame_line` over a stream of lines.

Strings are `List Char`. Display widths come from the implementation (`cw : Char → Nat`, the
`unicode-width` table, passed in by the harness); chrono's rendering of the timestamp is the
parameter `tsOut`. Every Rust panic / `delta_unreachable` site is an explicit `Panic`.
-/
namespace Blame

abbrev Str := List Char

inductive Panic where
  /-- `delta_unreachable` in `get_color`; `arm` = index of the match arm -/
  | unreachable (arm : Nat)
  /-- no arm of the generated table matches (cannot happen for a Rust `match` that compiles) -/
  | noArm
  /-- `n_keys % 0` / index into an empty palette -/
  | emptyPalette
  /-- `field.chars().count() - width(field)` below zero (overflow checks on) -/
  | subOverflow
  /-- `format.alignment_spec.unwrap()` on `None` -/
  | alignNone
  /-- `line_number % 0` -/
  | modZero
  deriving DecidableEq, Repr

deriving instance DecidableEq for Except

/-! ## Colour assignment -/

abbrev Key := Str
abbrev Colour := Str
/-- `blame_key_colors`: only lookups, inserts and `len()` matter. -/
abbrev KeyMap := List (Key × Colour)

def lookup : KeyMap → Key → Option Colour
  | [], _ => none
  | (k', c) :: rest, k => if k' = k then some c else lookup rest k

/-- `HashMap::insert`: replace the value of an existing key, else add the key. -/
def insert : KeyMap → Key → Colour → KeyMap
  | [], k, c => [(k, c)]
  | (k', c') :: rest, k, c => if k' = k then (k, c) :: rest else (k', c') :: insert rest k c

def optMatches (p : Nat) (b : Bool) : Bool := p == 2 || (p == 1 && b) || (p == 0 && !b)

/-- First arm (index, action) of the generated `get_color` table that matches. -/
def armFor : List (Nat × Nat × Nat × Nat) → Nat → Bool → Bool → Bool → Option (Nat × Nat)
  | [], _, _, _, _ => none
  | (a, b, c, act) :: rest, i, t, p, r =>
    if optMatches a t && optMatches b p && optMatches c r then some (i, act)
    else armFor rest (i + 1) t p r

def palAt (pal : List Colour) (i : Nat) : Except Panic Colour :=
  match pal[i % pal.length]? with
  | some c => .ok c
  | none => .error .emptyPalette

/-- `get_next_color` -/
def getNextColor (pal : List Colour) (nKeys : Nat) (other : Option Colour) : Except Panic Colour :=
  match palAt pal (nKeys + Generated.Blame.nextColorOffsets.1) with
  | .error e => .error e
  | .ok c => if some c ≠ other then .ok c else palAt pal (nKeys + Generated.Blame.nextColorOffsets.2)

/-- `previous_key_color` -/
def prevColour (m : KeyMap) : Option Key → Option Colour
  | some p => lookup m p
  | none => none

/-- `get_color` -/
def getColor (pal : List Colour) (m : KeyMap) (key : Key) (prev : Option Key) (isRepeat : Bool) :
    Except Panic Colour :=
  let kc := lookup m key
  let pc := prevColour m prev
  match armFor Generated.Blame.getColorArms 0 kc.isSome pc.isSome isRepeat with
  | none => .error .noArm
  | some (i, act) =>
    match act, kc, pc with
    | 0, some k, _ => .ok k
    | 1, _, some p => getNextColor pal m.length (some p)
    | 2, _, _ => getNextColor pal m.length none
    | 3, some k, some p => if k ≠ p then .ok k else getNextColor pal m.length (some k)
    | 4, _, _ => .error (.unreachable i)
    | _, _, _ => .error .noArm

/-- The part of `StateMachine` the blame handler reads and writes. -/
structure CState where
  map : KeyMap := []
  /-- `State::Blame(key)`; `none` = `State::Unknown` -/
  prev : Option Key := none
  deriving DecidableEq, Repr

structure Paint where
  /-- background colour taken from the palette; `none`: the line keeps the style git gave it -/
  colour : Option Colour
  isRepeat : Bool
  deriving DecidableEq, Repr

/-- One blame line with metadata key `key`; `git`: the raw line carried its own (non-default)
style, which `blame_metadata_style` then honours without touching the memo. -/
def step (pal : List Colour) (s : CState) (key : Key) (git : Bool) : Except Panic (CState × Paint) :=
  let isRepeat := decide (s.prev = some key)
  if git then .ok ({ s with prev := some key }, ⟨none, isRepeat⟩)
  else
    match getColor pal s.map key s.prev isRepeat with
    | .error e => .error e
    | .ok c => .ok ({ map := insert s.map key c, prev := some key }, ⟨some c, isRepeat⟩)

def run (pal : List Colour) : CState → List (Key × Bool) → Except Panic (CState × List Paint)
  | s, [] => .ok (s, [])
  | s, (k, g) :: rest =>
    match step pal s k g with
    | .error e => .error e
    | .ok (s', p) =>
      match run pal s' rest with
      | .error e => .error e
      | .ok (s'', ps) => .ok (s'', p :: ps)

/-- The paints of a whole stream from the initial state (`none`: a panic point was reached). -/
def paintsOf (pal : List Colour) (hist : List (Key × Bool)) : Option (List Paint) :=
  match run pal {} hist with
  | .ok (_, ps) => some ps
  | .error _ => none

/-- A history of keys none of which is coloured by git. -/
def plain (hist : List Key) : List (Key × Bool) := hist.map fun k => (k, false)

/-! ## The blame line parser -/

def isHexLower (c : Char) : Bool := c.isDigit || ('a'.val ≤ c.val && c.val ≤ 'f'.val)

/-- At most `n` leading chars satisfying `p` (greedy bounded repetition). -/
def takeUpTo (p : Char → Bool) : Nat → Str → Str × Str
  | 0, l => ([], l)
  | _ + 1, [] => ([], [])
  | n + 1, c :: cs =>
    if p c then ((c :: (takeUpTo p n cs).1), (takeUpTo p n cs).2) else ([], c :: cs)

/-- `(\^?[0-9a-f]{4,40})` -/
def parseCommit (l : Str) : Option (Str × Str) :=
  match l with
  | '^' :: r =>
    let h := takeUpTo isHexLower 40 r
    if h.1.length < 4 then none else some ('^' :: h.1, h.2)
  | _ =>
    let h := takeUpTo isHexLower 40 l
    if h.1.length < 4 then none else some (h.1, h.2)

/-- `(?:[^(]+)?[ ]\(` : everything up to the first `(`, which a blank must precede. -/
def afterCommit (rest : Str) : Option Str :=
  match rest.dropWhile (· != '(') with
  | _ :: t => if (rest.takeWhile (· != '(')).getLast? = some ' ' then some t else none
  | [] => none

/-- Match a fixed-length sequence of character classes at the head of a list. -/
def matchPrefix : List (Char → Bool) → Str → Option (Str × Str)
  | [], l => some ([], l)
  | _ :: _, [] => none
  | p :: ps, c :: cs =>
    if p c then
      match matchPrefix ps cs with
      | some (a, r) => some (c :: a, r)
      | none => none
    else none

def isSign (c : Char) : Bool := c == '+' || c == '-'
def isC (x : Char) (c : Char) : Bool := c == x

/-- `[0-9]{4}-[0-9]{2}-[0-9]{2} [0-9]{2}:[0-9]{2}:[0-9]{2} [-+][0-9]{4}` -/
def tsPattern : List (Char → Bool) :=
  [Char.isDigit, Char.isDigit, Char.isDigit, Char.isDigit, isC '-', Char.isDigit, Char.isDigit,
   isC '-', Char.isDigit, Char.isDigit, isC ' ', Char.isDigit, Char.isDigit, isC ':',
   Char.isDigit, Char.isDigit, isC ':', Char.isDigit, Char.isDigit, isC ' ', isSign,
   Char.isDigit, Char.isDigit, Char.isDigit, Char.isDigit]

/-- `[ ]+` followed by something that is not a blank in every use below. -/
def dropSpaces1 : Str → Option Str
  | ' ' :: r => some (r.dropWhile (· == ' '))
  | _ => none

structure Tail where
  ts : Str
  num : Str
  code : Str
  deriving DecidableEq, Repr

/-- `[ ]+(timestamp)[ ]+([0-9]+)\)(.*)$` at the head of `l`. -/
def tailAt (l : Str) : Option Tail :=
  match dropSpaces1 l with
  | none => none
  | some r =>
    match matchPrefix tsPattern r with
    | none => none
    | some (ts, r2) =>
      match dropSpaces1 r2 with
      | none => none
      | some r3 =>
        match r3.takeWhile Char.isDigit, r3.dropWhile Char.isDigit with
        | d :: ds, ')' :: code => some ⟨ts, d :: ds, code⟩
        | _, _ => none

/-- Greedy `.*[^ ]`: the *last* position whose char is not a blank and after which the
tail matches. Returns the chars up to and including that position, and the tail. -/
def splitLast : Str → Option (Str × Tail)
  | [] => none
  | c :: rest =>
    match splitLast rest with
    | some (a, t) => some (c :: a, t)
    | none =>
      if c ≠ ' ' then
        match tailAt rest with
        | some t => some ([c], t)
        | none => none
      else none

/-- Lazy `.*?[^ ]`: the *first* such position. -/
def splitFirst : Str → Option (Str × Tail)
  | [] => none
  | c :: rest =>
    if c ≠ ' ' then
      match tailAt rest with
      | some t => some ([c], t)
      | none =>
        match splitFirst rest with
        | some (a, t) => some (c :: a, t)
        | none => none
    else
      match splitFirst rest with
      | some (a, t) => some (c :: a, t)
      | none => none

/-- The author group and what follows it. `mode` = `Generated.Blame.authorMode`:
0 : `[^ ].*[^ ]` (two or more chars, longest), 1 : `[^ ](?:.*?[^ ])??` (one or more, shortest). -/
def authorAndTail (mode : Nat) (t : Str) : Option (Str × Tail) :=
  match t with
  | [] => none
  | c0 :: t' =>
    if c0 = ' ' then none
    else if mode = 0 then
      match splitLast t' with
      | some (a, tl) => some (c0 :: a, tl)
      | none => none
    else
      match tailAt t' with
      | some tl => some ([c0], tl)
      | none =>
        match splitFirst t' with
        | some (a, tl) => some (c0 :: a, tl)
        | none => none

def dval (c : Char) : Nat := c.toNat - 48
def num2 (a b : Char) : Nat := dval a * 10 + dval b

def daysInMonth (y m : Nat) : Nat :=
  if m = 2 then (if (y % 4 = 0 ∧ y % 100 ≠ 0) ∨ y % 400 = 0 then 29 else 28)
  else if m = 4 ∨ m = 6 ∨ m = 9 ∨ m = 11 then 30
  else 31

/-- What `DateTime::parse_from_str(ts, "%Y-%m-%d %H:%M:%S %z")` accepts, given the shape. -/
def tsValid (ts : Str) : Bool :=
  match ts with
  | [y1, y2, y3, y4, _, m1, m2, _, d1, d2, _, h1, h2, _, i1, i2, _, s1, s2, _, _, z1, z2, z3, z4] =>
    let y := num2 y1 y2 * 100 + num2 y3 y4
    let m := num2 m1 m2
    let d := num2 d1 d2
    decide (1 ≤ m ∧ m ≤ 12 ∧ 1 ≤ d ∧ d ≤ daysInMonth y m ∧ num2 h1 h2 < 24 ∧ num2 i1 i2 < 60 ∧
      num2 s1 s2 ≤ 60 ∧ num2 z1 z2 < 24 ∧ num2 z3 z4 < 60)
  | _ => false

/-- The parsed time rendered with `%Y-%m-%d %H:%M:%S %z` again: only `-0000` changes (to `+0000`). -/
def normTs (ts : Str) : Str :=
  match ts with
  | [y1, y2, y3, y4, a, m1, m2, b, d1, d2, c, h1, h2, d, i1, i2, e, s1, s2, f, '-', '0', '0', '0', '0'] =>
    [y1, y2, y3, y4, a, m1, m2, b, d1, d2, c, h1, h2, d, i1, i2, e, s1, s2, f, '+', '0', '0', '0', '0']
  | _ => ts

structure BlameRec where
  /-- including the `^` of a boundary commit -/
  commit : Str
  author : Str
  /-- the time as `%Y-%m-%d %H:%M:%S %z` text -/
  ts : Str
  lineNumber : Nat
  /-- with its leading blank -/
  code : Str
  deriving DecidableEq, Repr

/-- `parse_git_blame_line` (with the default `--blame-timestamp-format`). -/
def parseBlame (mode : Nat) (line : Str) : Option BlameRec :=
  match parseCommit line with
  | none => none
  | some (commit, r1) =>
    match afterCommit r1 with
    | none => none
    | some t =>
      match authorAndTail mode t with
      | none => none
      | some (author, tl) =>
        if tsValid tl.ts then
          if Nat.ofDigitChars 10 tl.num 0 < 2 ^ 64 then
            some ⟨commit, author, normTs tl.ts, Nat.ofDigitChars 10 tl.num 0, tl.code⟩
          else none
        else none

def spaces (n : Nat) : Str := List.replicate n ' '

/-- A blame line as git prints it: optional file column, `padA + 1` blanks after the author,
`padB + 1` before the line number. -/
def fmtBlame (r : BlameRec) (file : Option Str) (padA padB : Nat) : Str :=
  r.commit ++ (match file with | some f => ' ' :: f | none => []) ++ ' ' :: '(' :: r.author ++
    spaces (padA + 1) ++ r.ts ++ spaces (padB + 1) ++ Nat.toDigits 10 r.lineNumber ++ ')' :: r.code

/-- `code` contains no text that itself looks like the end of a blame prefix
(`␣timestamp␣number)`): `tailAt` fails at every suffix. -/
def noTail : Str → Bool
  | [] => true
  | c :: cs => (tailAt (c :: cs)).isNone && noTail cs

/-! ## Metadata (`format_blame_metadata`) -/

inductive Align where
  | left | center | right
  deriving DecidableEq, Repr

inductive Field where
  | timestamp | author | commit
  deriving DecidableEq, Repr

/-- One element of `parse_line_number_format(blame_format, BLAME_PLACEHOLDER_REGEX)`. -/
structure Item where
  pre : Str
  ph : Option Field
  align : Option Align
  width : Option Nat
  prec : Option Nat
  suf : Str
  deriving DecidableEq, Repr

/-- `format::pad` for a string: truncate to `prec` chars, pad with blanks to `width` chars. -/
def padStr (s : Str) (width : Nat) (al : Align) (prec : Option Nat) : Str :=
  let t := match prec with
    | some p => s.take p
    | none => s
  let n := width - t.length
  match al with
  | .left => t ++ spaces n
  | .right => spaces n ++ t
  | .center => spaces (n / 2) ++ t ++ spaces (n - n / 2)

def strWidth (cw : Char → Nat) (s : Str) : Nat := (s.map cw).sum

/-- Width handed to `pad` for a field: `width + (chars - display width)`. -/
def padWidth (arith : Nat) (cw : Char → Nat) (width : Nat) (field : Str) : Except Panic Nat :=
  if arith = 0 then
    if strWidth cw field ≤ field.length then .ok (width + (field.length - strWidth cw field))
    else .error .subOverflow
  else .ok (width + field.length - strWidth cw field)

def fieldText (ph : Field) (ts author commit : Str) : Str :=
  match ph with
  | .timestamp => ts
  | .author => author
  | .commit => commit

def formatMetaGo (arith : Nat) (cw : Char → Nat) (ts author commit : Str) :
    List Item → Str → Str → Except Panic Str
  | [], acc, suffix => .ok (acc ++ suffix)
  | it :: rest, acc, _ =>
    match it.ph with
    | none => formatMetaGo arith cw ts author commit rest (acc ++ it.pre) it.suf
    | some ph =>
      let field := fieldText ph ts author commit
      match padWidth arith cw (it.width.getD Generated.Blame.defaultMetaWidth) field with
      | .error e => .error e
      | .ok w =>
        formatMetaGo arith cw ts author commit rest
          (acc ++ it.pre ++ padStr field w (it.align.getD .left) it.prec) it.suf

/-- `format_blame_metadata`; `ts` is the timestamp as rendered by chrono / chrono-humanize. -/
def formatMeta (arith : Nat) (cw : Char → Nat) (items : List Item) (ts author commit : Str) :
    Except Panic Str :=
  formatMetaGo arith cw ts author commit items [] []

/-- The default `--blame-format` (`Generated.Blame.defaultBlameFormat`) as
`parse_line_number_format` splits it (compared with the implementation's result on every run;
the suffix of an item is the whole rest of the format string, only the last one is printed). -/
def defaultItems : List Item :=
  [⟨[], some .timestamp, some .left, some 15, none, " {author:<15.14} {commit:<8}".toList⟩,
   ⟨[' '], some .author, some .left, some 15, some 14, " {commit:<8}".toList⟩,
   ⟨[' '], some .commit, some .left, some 8, none, []⟩]

/-! ## Line number (`format_blame_line_number`) -/

inductive SepKind where
  | on | perBlock | every (n : Nat)
  deriving DecidableEq, Repr

structure Sep where
  kind : SepKind
  pre : Str
  width : Option Nat
  align : Option Align
  suf : Str
  deriving DecidableEq, Repr

/-- `format::pad` for a `usize` (with the centre-right rule of `CenterRightNumbers`). -/
def padNum (n : Nat) (width : Nat) (al : Align) : Str :=
  let ds := Nat.toDigits 10 n
  let p := width - ds.length
  match al with
  | .left => ds ++ spaces p
  | .right => spaces p ++ ds
  | .center => if p % 2 = 1 then spaces (p / 2 + 1) ++ ds ++ spaces (p / 2)
               else spaces (p / 2) ++ ds ++ spaces (p / 2)

/-- Is the number replaced by blanks? (`is_repeat && line_number % n != 0` short-circuits.) -/
def numberBlank (kind : SepKind) (n : Nat) (isRepeat : Bool) : Except Panic Bool :=
  match kind with
  | .on => .ok false
  | .perBlock => .ok isRepeat
  | .every k => if k = 0 then (if isRepeat then .error .modZero else .ok false)
                else .ok (isRepeat && n % k != 0)

def fmtLineNumber (sep : Sep) (n : Nat) (isRepeat : Bool) : Except Panic (Str × Str × Str) :=
  match numberBlank sep.kind n isRepeat with
  | .error e => .error e
  | .ok empty =>
    match sep.width with
    | none => .ok (sep.pre, [], sep.suf)
    | some w =>
      match sep.align with
      | none => .error .alignNone
      | some al =>
        let s := padNum n w al
        .ok (sep.pre, if empty then spaces s.length else s, sep.suf)

/-! ## `handle_blame_line` over a stream -/

structure StreamCfg where
  mode : Nat
  arith : Nat
  pal : List Colour
  items : List Item
  sep : Sep
  tab : Nat
  cw : Char → Nat
  /-- rendering of the parsed time by `--blame-timestamp-output-format` (chrono, trusted) -/
  tsOut : Str → Str

structure Row where
  /-- the metadata column (blanks on a repeat) -/
  metaCol : Str
  pre : Str
  num : Str
  suf : Str
  code : Str
  deriving DecidableEq, Repr

def Row.text (r : Row) : Str := r.metaCol ++ r.pre ++ r.num ++ r.suf ++ r.code

inductive Out where
  /-- not a blame line: emitted unchanged, state untouched -/
  | raw
  | row (colour : Option Colour) (isRepeat : Bool) (key : Key) (r : Row)
  deriving DecidableEq, Repr

def streamStep (cfg : StreamCfg) (s : CState) (line : Str) (git : Bool) :
    Except Panic (CState × Out) :=
  match parseBlame cfg.mode line with
  | none => .ok (s, .raw)
  | some r =>
    match formatMeta cfg.arith cfg.cw cfg.items (cfg.tsOut r.ts) r.author r.commit with
    | .error e => .error e
    | .ok key =>
      match step cfg.pal s key git with
      | .error e => .error e
      | .ok (s', paint) =>
        match fmtLineNumber cfg.sep r.lineNumber paint.isRepeat with
        | .error e => .error e
        | .ok (pre, num, suf) =>
          .ok (s', .row paint.colour paint.isRepeat key
            ⟨if paint.isRepeat then spaces (strWidth cfg.cw key) else key, pre, num, suf,
             Text.expand cfg.tab r.code⟩)

def stream (cfg : StreamCfg) : CState → List (Str × Bool) → Except Panic (List Out)
  | _, [] => .ok []
  | s, (l, g) :: rest =>
    match streamStep cfg s l g with
    | .error e => .error e
    | .ok (s', o) =>
      match stream cfg s' rest with
      | .error e => .error e
      | .ok os => .ok (o :: os)

end Blame
