import DeltaModel.Blame
import DeltaModel.Generated.BlameFormat
/-!
Model of the placeholder grammar of `--blame-format` (src/format.rs):

* `matchAfterBrace`, `findPlaceholder` — the regex built by `make_placeholder_regex(labels)`,
  re-implemented by hand as ordered alternatives (leftmost-first, greedy), one function per
  group of the pattern:

      \{(LABELS)(?::(?:([^<^>])?([<^>]))?(\d+)?(?:\.(\d+))?(?:_?([A-Za-z][0-9A-Za-z_-]*))?)?\}

  The character classes, the label lists, the `Align::try_from` table, the capture group each
  field is read from and the blame field each label prints are *generated* from the source
  (`Generated/BlameFormat.lean`); the pattern text itself is pinned by `C17.placeholder_regex_pinned`.
* `parseFormat`     — `parse_line_number_format(format_string, regex, false)`;
* `parseBlameFormat`— the same for `BLAME_PLACEHOLDER_REGEX`, as the `Item`s `formatMeta` consumes;
* `Spec`, `Spec.text`, `render` — the formatter the parser is proved against
  (`parseFormat labels (render pieces tail) = .ok (expected pieces tail)`).

The same regex and parser serve `--blame-separator-format` (label `n`) and
`--line-numbers-left-format` / `--line-numbers-right-format` (labels `nm`, `np`); the functions take
the label list as a parameter.

Text is `List Char` (the regex works on code points: `\d` is the Unicode class `Nd`, of which the
model knows ASCII and four other blocks; `[A-Za-z]` etc. are ASCII).
-/
namespace Blame
namespace PF
open Generated.BlameFormat

def inRanges (rs : List (Nat × Nat)) (c : Char) : Bool :=
  rs.any fun r => decide (r.1 ≤ c.toNat) && decide (c.toNat ≤ r.2)

/-- `\d`: ASCII digits and the Arabic-Indic, Extended Arabic-Indic, Devanagari and fullwidth
digits (the harness sends no other member of `Nd`). Only ASCII digits survive `parse::<usize>()`. -/
def digitClass : List (Nat × Nat) :=
  [(48, 57), (0x660, 0x669), (0x6F0, 0x6F9), (0x966, 0x96F), (0xFF10, 0xFF19)]

def isDigitC (c : Char) : Bool := inRanges digitClass c
def isAlignC (c : Char) : Bool := inRanges alignClass c
/-- `[^<^>]` -/
def isFillC (c : Char) : Bool := !inRanges fillExcluded c
def isTypeStart (c : Char) : Bool := inRanges typeStartClass c
def isTypeRest (c : Char) : Bool := inRanges typeRestClass c

/-- Raw captures: group 1 (label), 3 (alignment), 4 (width), 5 (precision), 6 (type). -/
structure Caps where
  label : Str
  alignC : Option Char
  widthS : Option Str
  precS : Option Str
  typeS : Str
  deriving DecidableEq, Repr

/-- `_?` followed by `[A-Za-z]`: the text from the type's first character on. -/
def typeBody (l : Str) : Option Str :=
  match l with
  | [] => none
  | c0 :: t =>
    let viaUnder : Option Str :=
      if c0 = '_' then
        match t with
        | c :: r => if isTypeStart c then some (c :: r) else none
        | [] => none
      else none
    match viaUnder with
    | some b => some b
    | none => if isTypeStart c0 then some (c0 :: t) else none

/-- `\}` -/
def closeBrace : Str → Option Str
  | c :: rest => if c = '}' then some rest else none
  | [] => none

/-- `(?:_?([A-Za-z][0-9A-Za-z_-]*))?\}`: with the type first, then without. (The greedy `*` never
has to give a character back: what follows it is `}`, which is not in the class — see
`C17.placeholder_classes_deterministic`.) -/
def matchTypeClose (l : Str) : Option (Str × Str) :=
  let withType : Option (Str × Str) := match typeBody l with
    | some (c :: r) =>
      match closeBrace (r.dropWhile isTypeRest) with
      | some rest => some (c :: r.takeWhile isTypeRest, rest)
      | none => none
    | _ => none
  match withType with
  | some x => some x
  | none =>
    match closeBrace l with
    | some rest => some ([], rest)
    | none => none

/-- `(?:\.(\d+))?` and what follows. -/
def matchPrec (l : Str) : Option (Option Str × Str × Str) :=
  let withPrec : Option (Option Str × Str × Str) := match l with
    | c :: r =>
      if c = '.' && !(r.takeWhile isDigitC).isEmpty then
        match matchTypeClose (r.dropWhile isDigitC) with
        | some (t, rest) => some (some (r.takeWhile isDigitC), t, rest)
        | none => none
      else none
    | [] => none
  match withPrec with
  | some x => some x
  | none =>
    match matchTypeClose l with
    | some (t, rest) => some (none, t, rest)
    | none => none

/-- `(\d+)?` and what follows: width and precision are two *independent* optional groups. -/
def matchWidth (l : Str) : Option (Option Str × Option Str × Str × Str) :=
  let withWidth : Option (Option Str × Option Str × Str × Str) :=
    if (l.takeWhile isDigitC).isEmpty then none
    else
      match matchPrec (l.dropWhile isDigitC) with
      | some (p, t, rest) => some (some (l.takeWhile isDigitC), p, t, rest)
      | none => none
  match withWidth with
  | some x => some x
  | none =>
    match matchPrec l with
    | some (p, t, rest) => some (none, p, t, rest)
    | none => none

def specWith (label : Str) (ac : Option Char) (l : Str) : Option (Caps × Str) :=
  match matchWidth l with
  | some (w, p, t, rest) => some (⟨label, ac, w, p, t⟩, rest)
  | none => none

/-- After the `:` — `(?:([^<^>])?([<^>]))?`: fill and alignment, alignment alone, neither. -/
def matchSpec (label : Str) (l : Str) : Option (Caps × Str) :=
  let alt1 : Option (Caps × Str) := match l with
    | c1 :: r1 =>
      if isFillC c1 then
        match r1 with
        | c2 :: r => if isAlignC c2 then specWith label (some c2) r else none
        | [] => none
      else none
    | [] => none
  match alt1 with
  | some x => some x
  | none =>
    let alt2 : Option (Caps × Str) := match l with
      | c1 :: r => if isAlignC c1 then specWith label (some c1) r else none
      | [] => none
    match alt2 with
    | some x => some x
    | none => specWith label none l

def dropPrefix? : Str → Str → Option Str
  | l, [] => some l
  | [], _ :: _ => none
  | c :: l, d :: p => if c = d then dropPrefix? l p else none

/-- The regex anchored right after a `{`: the labels in alternation order, then `(?::spec)?\}`. -/
def matchAfterBrace (labels : List Str) (l : Str) : Option (Caps × Str) :=
  match labels with
  | [] => none
  | lab :: more =>
    let here : Option (Caps × Str) := match dropPrefix? l lab with
      | some (c :: rest) =>
        if c = ':' then matchSpec lab rest
        else if c = '}' then some (⟨lab, none, none, none, []⟩, rest)
        else none
      | _ => none
    match here with
    | some x => some x
    | none => matchAfterBrace more l

/-- Leftmost match in `l`: (text before it, captures, text after it). -/
def findPlaceholder (labels : List Str) : Str → Option (Str × Caps × Str)
  | [] => none
  | c :: rest =>
    match (if c = '{' then matchAfterBrace labels rest else none) with
    | some (caps, after) => some ([], caps, after)
    | none =>
      match findPlaceholder labels rest with
      | some (pre, caps, after) => some (c :: pre, caps, after)
      | none => none

/-! ### `parse_line_number_format` -/

inductive FmtErr where
  /-- `fatal("Invalid width in format string")` -/
  | badWidth
  /-- `fatal("Invalid precision in format string")` -/
  | badPrecision
  /-- `unreachable!("Unexpected git blame input")` in `format_blame_metadata` -/
  | unknownLabel
  deriving DecidableEq, Repr

def usizeMax : Nat := 2 ^ 64 - 1

/-- `str::parse::<usize>()` on a `\d+` capture. -/
def parseUsize (ds : Str) : Option Nat :=
  if ds.all Char.isDigit && decide (Nat.ofDigitChars 10 ds 0 ≤ usizeMax) then
    some (Nat.ofDigitChars 10 ds 0)
  else none

def lookupNat : List (Nat × Nat) → Nat → Option Nat
  | [], _ => none
  | (k, v) :: rest, x => if k = x then some v else lookupNat rest x

def alignOfCode : Nat → Option Align
  | 0 => some .left
  | 1 => some .center
  | 2 => some .right
  | _ => none

/-- `Align::try_from(Some(c))` -/
def alignOfChar (c : Char) : Option Align := (lookupNat alignTable c.toNat).bind alignOfCode

/-- `FormatStringPlaceholderData` (lengths omitted). -/
structure PItem where
  pre : Str
  label : Option Str
  align : Option Align
  width : Option Nat
  prec : Option Nat
  ty : Str
  suf : Str
  deriving DecidableEq, Repr

def mkItem (pre : Str) (caps : Caps) (suf : Str) : Except FmtErr PItem :=
  let w : Except FmtErr (Option Nat) := match caps.widthS with
    | none => .ok none
    | some ds => match parseUsize ds with
      | some n => .ok (some n)
      | none => .error .badWidth
  match w with
  | .error e => .error e
  | .ok w =>
    let p : Except FmtErr (Option Nat) := match caps.precS with
      | none => .ok none
      | some ds => match parseUsize ds with
        | some n => .ok (some n)
        | none => .error .badPrecision
    match p with
    | .error e => .error e
    | .ok p => .ok ⟨pre, some caps.label, caps.alignC.bind alignOfChar, w, p, caps.typeS, suf⟩

/-- The `captures_iter` loop; every match consumes at least `{}` so `fuel = length + 1` suffices. -/
def parseFormatF (labels : List Str) : Nat → Str → Except FmtErr (List PItem)
  | 0, _ => .ok []
  | fuel + 1, l =>
    match findPlaceholder labels l with
    | none => .ok []
    | some (pre, caps, after) =>
      match mkItem pre caps after with
      | .error e => .error e
      | .ok it =>
        match parseFormatF labels fuel after with
        | .error e => .error e
        | .ok rest => .ok (it :: rest)

/-- `format::parse_line_number_format(format_string, regex, false)`; never empty. -/
def parseFormat (labels : List Str) (l : Str) : Except FmtErr (List PItem) :=
  match parseFormatF labels (l.length + 1) l with
  | .error e => .error e
  | .ok [] => .ok [⟨[], none, none, none, none, [], l⟩]
  | .ok items => .ok items

/-! ### the blame format -/

def lookupLabel : List (Str × Nat) → Str → Option Nat
  | [], _ => none
  | (k, v) :: rest, x => if k = x then some v else lookupLabel rest x

def fieldOfCode : Nat → Option Field
  | 0 => some .timestamp
  | 1 => some .author
  | 2 => some .commit
  | _ => none

/-- Which field of the blame line `format_blame_metadata` prints for a label. -/
def fieldOfLabel (lab : Str) : Option Field := (lookupLabel blameFieldOf lab).bind fieldOfCode

def toItem (p : PItem) : Except FmtErr Item :=
  match p.label with
  | none => .ok ⟨p.pre, none, p.align, p.width, p.prec, p.suf⟩
  | some lab =>
    match fieldOfLabel lab with
    | some f => .ok ⟨p.pre, some f, p.align, p.width, p.prec, p.suf⟩
    | none => .error .unknownLabel

def toItems : List PItem → Except FmtErr (List Item)
  | [] => .ok []
  | p :: ps =>
    match toItem p with
    | .error e => .error e
    | .ok it =>
      match toItems ps with
      | .error e => .error e
      | .ok its => .ok (it :: its)

/-- `parse_line_number_format(&config.blame_format, &BLAME_PLACEHOLDER_REGEX, false)` as
`format_blame_metadata` reads it. -/
def parseBlameFormat (fmt : Str) : Except FmtErr (List Item) :=
  match parseFormat blameLabels fmt with
  | .error e => .error e
  | .ok ps => toItems ps

/-! ### the formatter: format strings written from their meaning -/

/-- One placeholder as a user writes it: `{label:[[fill]align][width][.precision][[_]type]}`.
Every part is optional and independent of the others (a fill only counts with an alignment). -/
structure Spec where
  label : Str
  fill : Option Char := none
  align : Option Align := none
  width : Option Nat := none
  prec : Option Nat := none
  under : Bool := false
  ty : Str := []
  deriving DecidableEq, Repr

def alignChar : Align → Char
  | .left => '<'
  | .center => '^'
  | .right => '>'

def Spec.alignText (s : Spec) : Str :=
  match s.align with
  | none => []
  | some a => (match s.fill with | some f => [f] | none => []) ++ [alignChar a]

def Spec.widthText (s : Spec) : Str :=
  match s.width with
  | some w => Nat.toDigits 10 w
  | none => []

def Spec.precText (s : Spec) : Str :=
  match s.prec with
  | some p => '.' :: Nat.toDigits 10 p
  | none => []

def Spec.typeText (s : Spec) : Str :=
  match s.ty with
  | [] => []
  | t => (if s.under then ['_'] else []) ++ t

/-- What stands between `:` and `}`. -/
def Spec.body (s : Spec) : Str := s.alignText ++ (s.widthText ++ (s.precText ++ s.typeText))

def Spec.text (s : Spec) : Str :=
  '{' :: (s.label ++ ((match s.body with | [] => [] | b => ':' :: b) ++ ['}']))

/-- Literal text followed by a placeholder. -/
structure Piece where
  lit : Str
  spec : Spec
  deriving DecidableEq, Repr

/-- `lit₁{spec₁}lit₂{spec₂}…tail` -/
def render : List Piece → Str → Str
  | [], tail => tail
  | p :: ps, tail => p.lit ++ (p.spec.text ++ render ps tail)

def itemsOf : List Piece → Str → List PItem
  | [], _ => []
  | p :: ps, tail =>
    ⟨p.lit, some p.spec.label, p.spec.align, p.spec.width, p.spec.prec, p.spec.ty, render ps tail⟩ ::
      itemsOf ps tail

/-- What `parse_line_number_format` has to return for `render ps tail`. -/
def expected (ps : List Piece) (tail : Str) : List PItem :=
  match ps with
  | [] => [⟨[], none, none, none, none, [], tail⟩]
  | _ => itemsOf ps tail

/-- Labels are non-empty and contain neither `:` nor `}`. -/
def labelsOk (labels : List Str) : Bool :=
  labels.all fun lab => !lab.isEmpty && lab.all fun c => c != ':' && c != '}'

/-- No label starts with `d`. -/
def noStart (labels : List Str) (d : Char) : Bool :=
  labels.all fun lab => match lab with | [] => false | x :: _ => x != d

/-- Literal text in which no placeholder can start: every `{` is followed (inside the literal) by a
character no label starts with. -/
def litOk (labels : List Str) : Str → Bool
  | [] => true
  | c :: rest =>
    (c != '{' || (match rest with | [] => false | d :: _ => noStart labels d)) && litOk labels rest

def tyOk : Str → Bool
  | [] => true
  | c :: r => isTypeStart c && r.all isTypeRest

def optLe : Option Nat → Bool
  | none => true
  | some n => decide (n ≤ usizeMax)

def Spec.ok (labels : List Str) (s : Spec) : Bool :=
  labels.contains s.label && (match s.fill with | some f => isFillC f | none => true) &&
    optLe s.width && optLe s.prec && tyOk s.ty

end PF
end Blame
