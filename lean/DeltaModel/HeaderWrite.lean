import DeltaModel.Machine
import DeltaModel.Generated.HeaderWrite
/-!
`write_generic_diff_header_header_line` (src/handlers/diff_header.rs) as the translator reads it
(`Generated/HeaderWrite.lean`, `body`): an interpreter of the generated statement list.

The function is the one place through which every file header line is drawn and the only consumer of
`StateMachine::mode_info` (`Generated.HeaderWrite.modeInfoSites`). What the interpreter tracks is exactly what the
machine model `Machine.writeGeneric` says about it: which rows are written, in which order, with which
addendum, and what `mode_info` holds when the function returns. `Proofs/HeaderWrite.lean` proves that the generated
body does what `Machine.writeGeneric` does, for every configuration and every machine; so the statement that clears
`mode_info`, and its guard, are read from the source and not assumed.

Anything the translator did not understand (`.unknown`, `.other`) makes the run `understood = false`.
-/
namespace HeaderWrite
open Machine Headers Generated.HeaderWrite

/-- what the function writes: the blank line, the header drawn with an addendum -/
inductive Ev
  | blank
  | draw (addendum : Str)
  deriving DecidableEq, Repr

structure St where
  modeInfo : Str
  env : List (String × Str) := []
  drawFn : Bool := false           -- `draw_fn` / `pad` are bound, from the decoration of the file style
  out : List Ev := []
  understood : Bool := true
  deriving DecidableEq, Repr

/-- `&&` / `||` / `!` over the four known atoms (all pure); `none`: not understood -/
def evalCond (cfg : Cfg) (mi : Str) : Cond → Option Bool
  | .fileOmitted => some cfg.fileStyle.isOmitted
  | .fileRaw => some cfg.fileStyle.isRaw
  | .colorOnly => some cfg.colorOnly
  | .modeInfoEmpty => some mi.isEmpty
  | .not c => (evalCond cfg mi c).map (!·)
  | .and a b =>
    match evalCond cfg mi a with
    | some true => evalCond cfg mi b
    | some false => some false
    | none => none
  | .or a b =>
    match evalCond cfg mi a with
    | some true => some true
    | some false => evalCond cfg mi b
    | none => none
  | .other _ => none

def lookup (env : List (String × Str)) (n : String) : Option Str :=
  match env.find? (fun p => p.1 == n) with
  | some p => some p.2
  | none => none

/-- value of a string expression and `mode_info` after its evaluation (`std::mem::take` empties it) -/
def evalA (cfg : Cfg) (env : List (String × Str)) (mi : Str) : AExpr → Option (Str × Str)
  | .empty => some ([], mi)
  | .take => some (mi, [])
  | .modeInfo => some (mi, mi)
  | .var n => (lookup env n).map (fun v => (v, mi))
  | .ite c t e =>
    match evalCond cfg mi c with
    | some true => evalA cfg env mi t
    | some false => evalA cfg env mi e
    | none => none
  | .other _ => none

def notUnderstood (s : St) : St := { s with understood := false }

mutual
/-- one statement; the `Bool`: the function has returned -/
def execStmt (cfg : Cfg) : St → Stmt → St × Bool
  | s, .ret => (s, true)
  | s, .getDrawFn d =>
    if d = "config.file_style.decoration_style" then ({ s with drawFn := true }, false) else (notUnderstood s, false)
  | s, .blank => ({ s with out := s.out ++ [.blank] }, false)
  | s, .draw w t r a width style deco =>
    -- the header text and the raw text are the two parameters, padded as the draw function asks; written to the
    -- painter's writer in the file style
    if w = "painter.writer" ∧ t = .padded "line" ∧ r = .padded "raw_line" ∧ width = "&config.decorations_width"
        ∧ style = "config.file_style" ∧ deco = "decoration_ansi_term_style" ∧ s.drawFn = true then
      match evalA cfg s.env s.modeInfo a with
      | some (v, mi) => ({ s with out := s.out ++ [.draw v], modeInfo := mi }, false)
      | none => (notUnderstood s, false)
    else (notUnderstood s, false)
  | s, .clear => ({ s with modeInfo := [] }, false)
  | s, .bind n e =>
    match evalA cfg s.env s.modeInfo e with
    | some (v, mi) => ({ s with env := (n, v) :: s.env, modeInfo := mi }, false)
    | none => (notUnderstood s, false)
  | s, .ite c t e =>
    match evalCond cfg s.modeInfo c with
    | some true => execStmts cfg s t
    | some false => execStmts cfg s e
    | none => (notUnderstood s, false)
  | s, .unknown _ => (notUnderstood s, false)
def execStmts (cfg : Cfg) : St → List Stmt → St × Bool
  | s, [] => (s, false)
  | s, x :: rest =>
    if (execStmt cfg s x).2 then execStmt cfg s x else execStmts cfg (execStmt cfg s x).1 rest
end

/-- the generated body run on a machine whose `mode_info` is `mi` -/
def run (cfg : Cfg) (mi : Str) : St := (execStmts cfg { modeInfo := mi } body).1

/-- the rows of the events, as `Machine.writeGeneric` writes them -/
def rowsOfEvents (cfg : Cfg) (text raw : Str) (src : Nat) : List Ev → List Row
  | [] => []
  | .blank :: rest => { kind := .blank, text := [], src := src } :: rowsOfEvents cfg text raw src rest
  | .draw a :: rest => drawRows cfg.fileStyle .file text raw a src ++ rowsOfEvents cfg text raw src rest

/-- the machine after the generated body has run on it -/
def apply (cfg : Cfg) (m : M) (text raw : Str) : M :=
  { direct m (rowsOfEvents cfg text raw m.n (run cfg m.modeInfo).out) with modeInfo := (run cfg m.modeInfo).modeInfo }

end HeaderWrite
