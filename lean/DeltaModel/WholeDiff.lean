import DeltaModel.LineNumbers
import DeltaModel.Generated.HunkInit
/-!
Whole diffs (property C05): many files, many hunks, one run.

`DeltaModel/LineNumbers.lean` numbers ONE hunk from given start counters. Here is what happens between
hunks: `StateMachine::handle_hunk_header_line` only parks the parsed `@@` line in the state;
`handle_hunk_line`, for the first line that follows, calls `emit_hunk_header_line`, which paints the lines
still buffered from the previous hunk, then calls `LineNumbersData::initialize_hunk` (counters, width of the
number fields, plus-file name — all three from *this* header and the *current* file names) and writes the
header row. The statement order of `handle_hunk_line` and of `emit_hunk_header_line`, the list of fields
`initialize_hunk` assigns, its arguments, and the inventory of its callers are regenerated from the source
(`Generated/HunkInit.lean`); the functions below interpret them.

Rust modelled: `features/line_numbers.rs` `initialize_hunk` (all fields), `handlers/hunk_header.rs`
`handle_hunk_header_line` / `emit_hunk_header_line`, `handlers/hunk.rs` `handle_hunk_line` (order of its
statements; the arms are those of `LineNumbers.stepLineU` plus the `_` arm), the flush of the line buffers
at a file header and at the end of input. Unified view (`delta -n`).
-/
namespace LineNumbers.Whole
open Generated.HunkInit

/-- one row of the output, as far as numbering goes -/
inductive ORow where
  /-- hunk-header row: the path and the line number `emit_hunk_header_line` prints (when the style has them) -/
  | header (path : String) (number : Nat)
  /-- a hunk line: its gutter cell (`none`: a line that gets no gutter, e.g. `\ No newline at end of file`),
      painted while `hunk_max_line_number_width = width` and `LineNumbersData.plus_file = plusFile` -/
  | line (cell : Option Cell) (width : Nat) (plusFile : String)
  deriving DecidableEq, Repr

/-- the state threaded through a whole run -/
structure WState where
  /-- `LineNumbersData.line_number`, number of buffered minus / plus lines, "state is `HunkPlus`", and the
      cells painted since the line-number data were last initialised -/
  u : UState := ⟨⟨0, 0⟩, 0, 0, false, []⟩
  /-- `LineNumbersData.hunk_max_line_number_width` -/
  width : Nat := 0
  /-- `LineNumbersData.plus_file` -/
  lnPlusFile : String := ""
  /-- `StateMachine.minus_file`, `.plus_file` -/
  minusFile : String := ""
  plusFile : String := ""
  /-- `state = HunkHeader(_, parsed, _, _)`: a header waiting to be written -/
  pending : Option (List (Nat × Nat)) := none
  /-- `test_hunk_line()` -/
  inHunk : Bool := false
  out : List ORow := []

/-- rows painted so far get the width / plus-file they were painted under -/
def drain (s : WState) : WState :=
  { s with out := s.out ++ s.u.out.map (fun c => ORow.line c s.width s.lnPlusFile), u := { s.u with out := [] } }

def liftU (f : UState → Except String UState) (s : WState) : Except String WState :=
  match f s.u with
  | .error e => .error e
  | .ok u => .ok { s with u := u }

/-- is the field assigned by `initialize_hunk`? (generated list) -/
def assigns (field : String) : Bool := initAssigns.any (fun a => a.1 == field)

/-- the value of a call argument, by its source text -/
def argFile (s : WState) (arg : String) : Except String String :=
  if arg = "self.plus_file" then .ok s.plusFile
  else if arg = "self.minus_file" then .ok s.minusFile
  else .error ("model does not know the argument " ++ arg)

/-- `LineNumbersData::initialize_hunk(line_numbers, plus_file)` on the whole record: a field keeps its old
    value unless the source assigns it. -/
def initializeHunkData (s : WState) (pairs : List (Nat × Nat)) (plusFileArg : String) : Except String WState :=
  match initializeHunk pairs with
  | .error e => .error e
  | .ok (c, w) =>
    let s1 := drain s
    .ok { s1 with
      u := { s1.u with c := if assigns "line_number" then c else s1.u.c },
      width := if assigns "hunk_max_line_number_width" then w else s1.width,
      lnPlusFile := if assigns "plus_file" then plusFileArg else s1.lnPlusFile }

/-- one statement of `emit_hunk_header_line`, by name (`config.line_numbers` is on) -/
def emitHeaderOp (pairs : List (Nat × Nat)) (s : WState) : String → Except String WState
  | "paint_buffered_minus_and_plus_lines" => liftU flushU s
  | "set_highlighter" => .ok s
  | "emit" => .ok s
  | "initialize_hunk" =>
    if initArgs.1 = "line_numbers_and_hunk_lengths" then
      match argFile s initArgs.2 with
      | .error e => .error e
      | .ok f => initializeHunkData s pairs f
    else .error ("model does not know the argument " ++ initArgs.1)
  | "write_header" =>
    match headerNumber pairs with
    | .error e => .error e
    | .ok n => .ok { drain s with out := (drain s).out ++ [ORow.header (headerPath s.minusFile s.plusFile) n] }
  | other => .error ("model has no emit_hunk_header_line statement named " ++ other)

def emitHeaderOps (pairs : List (Nat × Nat)) : List String → WState → Except String WState
  | [], s => .ok s
  | op :: rest, s =>
    match emitHeaderOp pairs s op with
    | .error e => .error e
    | .ok s' => emitHeaderOps pairs rest s'

/-- `emit_hunk_header_line`: the generated statement order -/
def emitHeader (pairs : List (Nat × Nat)) (s : WState) : Except String WState :=
  emitHeaderOps pairs emitHeaderOrder s

/-- the buffer bound at the top of `handle_hunk_line` -/
def preFlush (bufSize : Nat) (u : UState) : Except String UState :=
  if overFull bufSize u.minusBuf || overFull bufSize u.plusBuf then flushU u else .ok u

/-- the `match new_line_state(..)` of `handle_hunk_line`: the three arms of `LineNumbers.stepLineU` and the
    `_` arm (a line that is no hunk line: buffered lines are painted, the line is written without a gutter) -/
def pushLine (u : UState) : Option Kind → Except String UState
  | some .minus =>
    match (if u.prevPlus then flushU u else .ok u) with
    | .error e => .error e
    | .ok s2 => .ok { s2 with minusBuf := s2.minusBuf + 1, prevPlus := false }
  | some .plus => .ok { u with plusBuf := u.plusBuf + 1, prevPlus := true }
  | some .ctx =>
    match flushU u with
    | .error e => .error e
    | .ok s2 =>
      match paintZeroU s2.c with
      | .error e => .error e
      | .ok (c, rows) => .ok { s2 with c := c, out := s2.out ++ rows, prevPlus := false }
  | none =>
    match flushU u with
    | .error e => .error e
    | .ok s2 => .ok { s2 with out := s2.out ++ [none], prevPlus := false }

/-- one statement of `handle_hunk_line`, by name -/
def hunkLineOp (bufSize : Nat) (k : Option Kind) (s : WState) : String → Except String WState
  | "test_hunk_line" => .ok s
  | "buffer_bound" => liftU (preFlush bufSize) s
  | "emit_hunk_header_line" =>
    match s.pending with
    | none => .ok s
    | some pairs => emitHeader pairs s
  | "new_line_state" =>
    match pushLine s.u k with
    | .error e => .error e
    | .ok u => .ok { s with u := u, pending := none }
  | "emit" => .ok s
  | other => .error ("model has no handle_hunk_line statement named " ++ other)

def hunkLineOps (bufSize : Nat) (k : Option Kind) : List String → WState → Except String WState
  | [], s => .ok s
  | op :: rest, s =>
    match hunkLineOp bufSize k s op with
    | .error e => .error e
    | .ok s' => hunkLineOps bufSize k rest s'

/-- `handle_hunk_line`: not in a hunk state → the line is not a hunk line (no row here); else the generated order -/
def hunkLine (bufSize : Nat) (k : Option Kind) (s : WState) : Except String WState :=
  if !s.inHunk then .ok s else hunkLineOps bufSize k hunkLineOrder s

/-- what reaches the machine -/
inductive Item where
  /-- the header lines of a file section, as far as they matter here: buffered lines are painted, the
      state leaves the hunk, `minus_file` / `plus_file` are set -/
  | names (minusFile plusFile : String)
  /-- a line starting with `@@` -/
  | header (line : List Char)
  /-- a line met in a hunk state: removed / added / unchanged, or none of these -/
  | line (k : Option Kind)
  deriving DecidableEq, Repr

/-- `handle_hunk_header_line`: a line the parser accepts is parked in the state (nothing is painted, the
    line-number data are not touched: `headerLineOps`); any other `@@` line is, in a hunk, an ordinary
    non-hunk line -/
def headerLine (bufSize : Nat) (line : List Char) (s : WState) : Except String WState :=
  match parseHunkHeader line with
  | .error e => .error e
  | .ok none => hunkLine bufSize none s
  | .ok (some (_, pairs)) =>
    if headerLineOps = ["set_state_hunk_header"] then
      .ok { s with pending := some pairs, inHunk := true, u := { s.u with prevPlus := false } }
    else .error "model does not know what handle_hunk_header_line does"

def stepItem (bufSize : Nat) (s : WState) : Item → Except String WState
  | .names mf pf =>
    match liftU flushU s with
    | .error e => .error e
    | .ok s1 => .ok { s1 with minusFile := mf, plusFile := pf, pending := none, inHunk := false,
                              u := { s1.u with prevPlus := false } }
  | .header line => headerLine bufSize line s
  | .line k => hunkLine bufSize k s

def stepItems (bufSize : Nat) : WState → List Item → Except String WState
  | s, [] => .ok s
  | s, it :: rest =>
    match stepItem bufSize s it with
    | .error e => .error e
    | .ok s' => stepItems bufSize s' rest

/-- a whole run: all items, then the tail of `consume` (the buffered lines are painted) -/
def runWhole (bufSize : Nat) (items : List Item) : Except String (List ORow) :=
  match stepItems bufSize {} items with
  | .error e => .error e
  | .ok s =>
    match liftU flushU s with
    | .error e => .error e
    | .ok s' => .ok (drain s').out

end LineNumbers.Whole
