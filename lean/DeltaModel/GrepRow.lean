/-
Model of the layout of a classic-style grep row (/repo/src/handlers/grep.rs
`emit_classic_format_grep_line` ordinary arm, `_emit_classic_format_file_and_line_number`,
`_emit_classic_format_code`, `make_output_config`; /repo/src/paint.rs
`paint_file_path_with_line_number`): from a `Grep.Row.code (some path) ..` — the abstract row of
`Grep.emit` — to the cells written, each with the config style that paints it.

What is written in which order, which style paints which part, the markers, the padding table
and the `make_output_config` table are regenerated from the source
(`Generated/GrepRowShape.lean`) and interpreted here.

Not modelled here: rows of the ripgrep output style and the function-context header of the
classic style (both are written by the hunk-header helper
`write_line_of_code_with_optional_path_and_line_number`), hyperlinks, `file_regex_replacement`,
syntax highlighting of the code (the check runs with `--syntax-theme none`).
-/
import DeltaModel.Generated.GrepRowShape
import DeltaModel.RipGrepJson

namespace GrepRow

open Grep Generated.GrepRowShape

/-- The config style a cell is painted with; `plain` = written without a style. -/
inductive Paint where
  | file | number | plain | word | line | context | unknown
  deriving DecidableEq, Repr, Inhabited

/-- A config style name of the source as a `Paint`. -/
def paintOfStyle (s : String) : Paint :=
  if s = "grep_file_style" then .file
  else if s = "grep_line_number_style" then .number
  else if s = "grep_match_word_style" then .word
  else if s = "grep_match_line_style" then .line
  else if s = "grep_context_line_style" then .context
  else .unknown

abbrev Cell := Paint × Bytes

def bytes (s : String) : Bytes := RipGrepJson.bytesOfChars s.toList

/-- `GrepOutputConfig` -/
structure Out where
  headerAsHunk : Bool
  marker : Bool
  pad : Bool
  deriving DecidableEq, Repr

/-- `make_output_config` for a calling process (`GitGrep`, `OtherGrep`, …) with these options:
the first row of the regenerated table whose process matches and one of whose options is present. -/
def outputConfig (caller : String) (opts : List String) : Out :=
  match outputConfigTable.find? fun r => r.1 = "_" || (r.1 = caller && r.2.1.any opts.contains) with
  | some r => { headerAsHunk := r.2.2.1, marker := r.2.2.2.1, pad := r.2.2.2.2 }
  | none => { headerAsHunk := true, marker := false, pad := true }

structure Cfg where
  /-- `--navigate` -/
  navigate : Bool
  /-- `--grep-separator-symbol` -/
  sepSymbol : String
  out : Out
  deriving Repr

/-- The separator written after path and line number. -/
def sepOf (cfg : Cfg) (kind : Kind) : Bytes :=
  if cfg.sepSymbol = keepWord then RipGrepJson.bytesOfChars kind.sep else bytes cfg.sepSymbol

/-- `format!("{line_number}")` -/
def digitsOf (n : Nat) : Bytes := RipGrepJson.bytesOfChars (Nat.repr n).toList

/-- The blanks after a small line number. -/
def padOf (n : Nat) : Bytes :=
  match padTable.find? fun r => decide (n < r.1) with
  | some r => bytes r.2
  | none => []

/-- One part of `paint_file_path_with_line_number` as called for a classic row. -/
def prefixPart (cfg : Cfg) (kind : Kind) (path : List Char) (num : Option Nat) (part : String) : List Cell :=
  if part = "file" then [(paintOfStyle fileStyle, RipGrepJson.bytesOfChars path)]
  else if part = "separator" then (match num with | some _ => [(.plain, sepOf cfg kind)] | none => [])
  else if part = "number" then (match num with | some n => [(paintOfStyle numberStyle, digitsOf n)] | none => [])
  else if part = "terminator" then (if terminateWithSeparator then [(.plain, sepOf cfg kind)] else [])
  else if part = "padding" then
    (match num with
     | some n => if cfg.out.pad && padFlag = "pad_line_number" then [(.plain, padOf n)] else []
     | none => [])
  else []

/-- `_emit_classic_format_file_and_line_number` -/
def prefixCells (cfg : Cfg) (kind : Kind) (path : List Char) (num : Option Nat) : List Cell :=
  pushOrder.flatMap (prefixPart cfg kind path num)

/-- The navigate marker. -/
def markerCells (cfg : Cfg) (kind : Kind) : List Cell :=
  if cfg.navigate && cfg.out.marker then
    [(.plain, bytes (if kind = .match_ then markerMatch else markerOther))]
  else []

/-- `_emit_classic_format_code`: the sections of the code, each in its style. -/
def codeCells (kind : Kind) (secs : List (Bool × Bytes)) : List Cell :=
  secs.map fun s =>
    ((if kind = .match_ then (if s.1 then paintOfStyle wordStyle else paintOfStyle lineStyle)
      else paintOfStyle contextStyle), s.2)

def classicPart (cfg : Cfg) (kind : Kind) (path : List Char) (num : Option Nat)
    (secs : List (Bool × Bytes)) (part : String) : List Cell :=
  if part = "navigate_marker" then markerCells cfg kind
  else if part = "_emit_classic_format_file_and_line_number" then prefixCells cfg kind path num
  else if part = "_emit_classic_format_code" then codeCells kind secs
  else []

/-- The cells of a classic-style row, in the order written. -/
def classicRow (cfg : Cfg) (kind : Kind) (path : List Char) (num : Option Nat)
    (secs : List (Bool × Bytes)) : List Cell :=
  classicOrder.flatMap (classicPart cfg kind path num secs)

/-- The cells of a row of `Grep.emit`, when it is a classic-style hit row. -/
def rowCells (cfg : Cfg) : Row → Option (List Cell)
  | .code (some path) num kind secs _ => some (classicRow cfg kind path num secs)
  | _ => none

/-! ## Reading a row -/

def isCode (p : Paint) : Bool := p == .word || p == .line || p == .context

/-- What a reader sees: the texts in the path style, the texts in the line-number style, and the
text in the code styles. -/
def reading (cells : List Cell) : List Bytes × List Bytes × Bytes :=
  ((cells.filter fun c => c.1 == .file).map (·.2),
   (cells.filter fun c => c.1 == .number).map (·.2),
   (cells.filter fun c => isCode c.1).flatMap (·.2))

/-- The whole visible text of the row. -/
def rowText (cells : List Cell) : Bytes := cells.flatMap (·.2)

end GrepRow
