import DeltaModel.Wrap
/-
Model of the panel geometry of /repo/src/features/side_by_side.rs (`SideBySideData::new_sbs`,
`ansifill::UseFullPanelWidth::sbs_odd_fix`, `available_line_width`, `pad_panel_line_to_width`)
and of `truncate_str_impl` / `measure_text_width` in /repo/src/ansi/mod.rs.

A painted line enters as the items of `ansi_strings_iterator` (escape sequences and text runs,
obtained from the implementation), text runs pre-segmented into clusters with widths.
Core Lean only.
-/
namespace SideBySide
open Wrap (G gsWidth Err spaceG)

inductive Item
  | text (gs : List G)
  | ansi (s : String)
deriving Repr, DecidableEq

/-- `measure_text_width` (width additive over clusters: checked per case by the harness). -/
def measure : List Item → Nat
  | [] => 0
  | .text gs :: r => gsWidth gs + measure r
  | .ansi _ :: r => measure r

/-- The `for g in t.graphemes(true)` loop of `truncate_str_impl` for one text run. Returns the
clusters kept (plus possibly the fill character), the new value of `used`, and whether a
cluster did not fit (the `break`). A cluster wider than 2 columns that does not fit: the fallback
pushes the fill character `display_width.saturating_sub(used)` times (`used` is not advanced) — since
fix d6cf9d0; before it (`Generated.wrapTruncAssertsWideCluster`, read from the source on every run) the
`debug_assert!(width_of_grapheme <= 2)` in front of the fallback was a panic point of the dev profile. -/
def truncText (dw : Nat) (fill : Option G) : List G → Nat → Except Err (List G × Nat × Bool)
  | [], used => .ok ([], used, false)
  | g :: gs, used =>
    if dw < used + g.w then
      match fill with
      | some f =>
        if g.w = 2 ∧ used < dw then .ok ([f], used, true)
        else if 2 < g.w then
          if Generated.wrapTruncAssertsWideCluster = true then .error (.panic "strange grapheme width")
          else .ok (List.replicate (dw - used) f, used, true)
        else .ok ([], used, true)
      | none => .ok ([], used, true)
    else
      match truncText dw fill gs (used + g.w) with
      | .error e => .error e
      | .ok (out, u, c) => .ok (g :: out, u, c)

/-- The outer `for (t, is_ansi) in items` loop. On the pinned tree a `break` only leaves the
inner loop: later text runs are still visited with the same `used` (`stopFix = false`).
With notes/fix-truncate-after-cut.diff (`stopFix = true`) text after the cut is skipped. -/
def truncItems (stopFix : Bool) (dw : Nat) (fill : Option G) :
    List Item → Nat → Bool → Except Err (List Item)
  | [], _, _ => .ok []
  | .ansi a :: r, used, cut =>
    match truncItems stopFix dw fill r used cut with
    | .error e => .error e
    | .ok out => .ok (.ansi a :: out)
  | .text gs :: r, used, cut =>
    if stopFix = true ∧ cut = true then truncItems stopFix dw fill r used cut
    else
      match truncText dw fill gs used with
      | .error e => .error e
      | .ok (t, u, c) =>
        match truncItems stopFix dw fill r u (cut || c) with
        | .error e => .error e
        | .ok out => .ok (.text t :: out)

/-- `truncate_str_impl(s, display_width, tail, fill2w)`; `tail = []` is the empty string. -/
def truncateImplF (stopFix : Bool) (s : List Item) (dw : Nat) (tail : List Item) (fill : Option G) :
    Except Err (List Item) :=
  if measure s ≤ dw then .ok s
  else
    let resultTail : Except Err (List Item) :=
      if tail = [] then .ok []
      else if measure tail ≤ dw then .ok tail
      else truncItems stopFix dw fill tail 0 false
    match resultTail with
    | .error e => .error e
    | .ok rt =>
      match truncItems stopFix dw fill s (measure rt) false with
      | .error e => .error e
      | .ok body => .ok (body ++ rt)

/-- `truncate_str_impl` as the source is now. -/
def truncateImpl (s : List Item) (dw : Nat) (tail : List Item) (fill : Option G) :
    Except Err (List Item) :=
  truncateImplF Generated.wrapTruncStopsAfterCut s dw tail fill

/-- `truncate_str` -/
def truncateStr (s : List Item) (dw : Nat) (tail : List Item) : Except Err (List Item) :=
  truncateImpl s dw tail (some spaceG)

/-- `truncate_str_short` -/
def truncateStrShort (s : List Item) (dw : Nat) : Except Err (List Item) :=
  truncateImpl s dw [] none

/-- `SideBySideData::new_sbs` followed by `sbs_odd_fix`: (left, right) panel widths for
`--width w`; `ansiFill` = the `--line-fill-method` option is `ansi` (the default). -/
def panelWidths (w : Nat) (ansiFill : Bool) : Nat × Nat :=
  let p := w / Generated.panelDivisor
  (p, if ansiFill ∧ w % 2 = 1 then p + Generated.oddRightIncrement else p)

/-- `available_line_width` for one side: panel width minus gutter minus marker column. -/
def availableLineWidth (panel gutter : Nat) (keepMarkers : Bool) : Nat :=
  (panel - gutter) - (if keepMarkers then 1 else 0)

/-- How the panel is filled (`get_right_fill_style_for_panel`): the left panel is always
filled with spaces; the right panel with spaces, by an ANSI sequence (zero width), or not. -/
inductive Fill | spaces | ansiSeq (seq : String) | none
deriving Repr

/-- `pad_panel_line_to_width` after the empty-line marker: truncate to the panel width when
wider, then fill. Both tests use the width measured *before* truncation. -/
def padPanel (pw : Nat) (line tail : List Item) (fill : Fill) : Except Err (List Item) :=
  let tw := measure line
  let line' : Except Err (List Item) := if pw < tw then truncateStr line pw tail else .ok line
  match line' with
  | .error e => .error e
  | .ok l =>
    match fill with
    | .spaces => if pw ≤ tw then .ok l else .ok (l ++ [.text (List.replicate (pw - tw) spaceG)])
    | .ansiSeq q => .ok (l ++ [.ansi q])
    | .none => .ok l

/-- One output row of side-by-side: left panel then right panel. -/
def rowWidthOf (left right : List Item) : Nat := measure left + measure right

end SideBySide
