import DeltaModel.Proto
import DeltaModel.Style
import DeltaModel.Sgr
import DeltaModel.DrawText
/-!
Line-protocol runner of the decorated-header model (correspondence of C12 with the real binary). No `lean_exe`
is registered for it in the lakefile: the harness runs it with `lake env lean --run DeltaModel/DrawTextRun.lean`.

    drawtext.header <tc 0|1> <xstyle> <xdeco | -> <xtext> <xaddendum> <width | -> <pads 0|1>
      -> ok <index of the text line> <xline> <xline> …      (the lines the drawing function writes)
      -> FATAL                                              (the style strings are rejected)

The whole path of a header of delta: the style string and its decoration string are parsed by
`DeltaStyle.fromStrSpecial` (= `Style::from_str_with_handling_of_special_decoration_attributes`, the parser of
commit-style / file-style / hunk-header-style and the merge-conflict header styles), `get_draw_function` picks the
drawing function (`Draw.draw`) and whether the caller pads the text with a blank (box shapes, if `pads`), the box
characters are heavy iff the decoration style is bold, and the text is written by `Draw.textPiece`.
`width`: `Width::Fixed(n)` or `-` = `Width::Variable`. The text must be ASCII (its width is its length).
-/
namespace DrawTextRun
open Proto DeltaStyle

def light : Draw.BoxChars := ⟨'─', '┐', '│', '┘', '┴'⟩
def heavy : Draw.BoxChars := ⟨'━', '┓', '┃', '┛', '┻'⟩

/-- `get_draw_function`: the shape, the decoration's ansi style, and the `pad` flag it returns. -/
def shapeOf : Option (DecoKind × Sgr.Style) → Draw.Shape × Sgr.Style × Bool
  | none => (.noDecoration, {}, false)
  | some (.box, s) => (.box, s, true)
  | some (.boxul, s) => (.boxWithUnderline, s, true)
  | some (.boxol, s) => (.boxWithOverline, s, true)
  | some (.boxulol, s) => (.boxWithUnderOverline, s, true)
  | some (.ul, s) => (.underline, s, false)
  | some (.ol, s) => (.overline, s, false)
  | some (.ulol, s) => (.underOverline, s, false)

def charsOfField (f : String) : Option (List Char) := (stringOfField f).map String.toList
def hexOfChars (l : List Char) : String := hexOfString (String.ofList l)

def hasInfix (n : List Char) : List Char → Bool
  | [] => n.isEmpty
  | c :: cs => n.isPrefixOf (c :: cs) || hasInfix n cs

def indexOfText (needle : List Char) : List (List Char) → Nat → Nat
  | [], k => k
  | l :: rest, k => if hasInfix needle l then k else indexOfText needle rest (k + 1)

def header (fs : List String) : Option String := do
  match fs with
  | [tc, st, de, tx, ad, w, pads] =>
    let env : Env := ⟨tc == "1", fun _ _ _ => 0⟩
    let st ← charsOfField st
    let de ← if de == "-" then some none else (charsOfField de).map some
    let tx ← charsOfField tx
    let ad ← charsOfField ad
    let w ← if w == "-" then some none else w.toNat?.map some
    match fromStrSpecial env none st de with
    | .error _ => pure "FATAL"
    | .ok s =>
      let (shape, dsty, pad) := shapeOf s.deco
      let text := if pad && pads == "1" then tx ++ [' '] else tx
      let a : Draw.Args := { text := text, rawText := text, addendum := ad, textWidth := text.length, width := w, textStyle := s.ansi, textRaw := s.isRaw, deco := dsty, ch := if dsty.bold then heavy else light }
      let ls := Draw.lines (Draw.draw shape a)
      pure s!"ok {indexOfText tx ls 0} {" ".intercalate (ls.map hexOfChars)}"
  | _ => none

def step (req : String) : String :=
  match fields req with
  | "drawtext.header" :: fs => (header fs).getD "ERR bad request"
  | _ => "ERR unknown op"

end DrawTextRun

def main : IO Unit := Proto.serve DrawTextRun.step
