import DeltaModel.Generated.EmphPaint
/-!
Model of how an annotated hunk line gets the styles it is painted with (C06, "emphasis as displayed"):

* `src/parse_styles.rs` `parse_styles()` — the map of possibly unresolved styles (`StyleReference::Style` /
  `StyleReference::Reference`), `resolve_style_references`, and where the `is_emph` flag of the two
  within-line styles is set. The statement list of `parse_styles()` is **generated**
  (`Generated.EmphPaint.parseStylesSteps`) and interpreted here (`runSteps`);
* `src/config.rs` — `Config` style fields read `styles["<key>"]` (generated `configStyleKey`);
* `src/paint.rs` — `get_diff_style_sections` (which fields `infer_edits` receives: generated),
  `paint_minus_and_plus_lines` (the two calls of `update_diff_style_sections`: generated `updateCalls`) and
  `Painter::update_diff_style_sections` itself: the loop over the sections of a line with the guards of its
  two branches **generated** from the source (`wsErrCleared`, `wsErrBranch`, `nonEmphBranch`, …).

A delta `Style` is seen as `PStyle`: `look` stands for everything that is displayed (`ansi_term_style`,
decoration, the other flags), `isEmph` is the `is_emph` flag. Rust panic points (`unwrap()` on `None`,
`unwrap_or_else(panic)`, `styles["key"]` on a missing key) are explicit `Except` errors, `fatal(…)` likewise.
-/
set_option linter.unusedVariables false
namespace EmphPaint
open Generated.EmphPaint

structure PStyle where
  look : Nat
  isEmph : Bool
deriving DecidableEq, Repr, Inhabited

/-- `StyleReference`. -/
inductive StyleRef
  | style (s : PStyle)
  | ref (name : String)
deriving DecidableEq, Repr

abbrev StyleMap := List (String × StyleRef)
abbrev Resolved := List (String × PStyle)

/-- How an option value reaches `style_from_str`: a style string (parsed by `Style::from_str`, displayed as
`look`) or a string for which `is_style_reference` holds. -/
inductive Supplied
  | direct (look : Nat)
  | ref (name : String)
deriving DecidableEq, Repr

/-- `Style::from_str(…)`: the flag is the generated literal of the constructor. -/
def parsed (look : Nat) : PStyle := ⟨look, parsedStyleIsEmph⟩

/-- `style_from_str`. -/
def entryOf : Supplied → StyleRef
  | .direct l => .style (parsed l)
  | .ref n => .ref n

def without (node : String) (l : List String) : List String := l.filter (· != node)

/-- The `loop` of `resolve_style_references` from `node`; `unvisited` = keys of `edges` not yet in `visited`
(`!visited.insert(node)` can only fire on a reference entry: the other two arms leave the loop).
`git name` = `git_config.get("delta.<name>")` as a look (`parse_as_reference_to_git_config`).
Every step through a reference removes a key from `unvisited`: fuel `unvisited.length + 1` suffices
(`Proofs/EmphPaint.lean: followFuel_enough`). -/
def followFuel (edges : StyleMap) (git : String → Option Nat) : Nat → List String → String → Except String PStyle
  | 0, _, _ => .error "model: out of fuel"
  | fuel + 1, unvisited, node =>
    match edges.lookup node with
    | some (.style s) => .ok s
    | none =>
      match git node with
      | some l => .ok (parsed l)
      | none => .error "fatal: Style key not found in git config"
    | some (.ref child) =>
      if node ∈ unvisited then followFuel edges git fuel (without node unvisited) child
      else .error "fatal: Your delta styles form a cycle"

def follow (edges : StyleMap) (git : String → Option Nat) (unvisited : List String) (node : String) :
    Except String PStyle :=
  followFuel edges git (unvisited.length + 1) unvisited node

def keysOf (edges : StyleMap) : List String := edges.map (·.1)

def resolveKeys (edges : StyleMap) (git : String → Option Nat) : List String → Except String Resolved
  | [] => .ok []
  | k :: ks =>
    match follow edges git (keysOf edges) k with
    | .error e => .error e
    | .ok s =>
      match resolveKeys edges git ks with
      | .error e => .error e
      | .ok r => .ok ((k, s) :: r)

/-- `resolve_style_references`: every key of `edges` gets the style at the end of its chain. -/
def resolve (edges : StyleMap) (git : String → Option Nat) : Except String Resolved :=
  resolveKeys edges git (keysOf edges)

/-- `resolved_styles.get_mut(k)….is_emph = true`. -/
def setFlag (k : String) (r : Resolved) : Resolved :=
  r.map fun e => if e.1 == k then (e.1, { e.2 with isEmph := true }) else e

/-- `if let Some(StyleReference::Style(style)) = styles.get_mut(k) { style.is_emph = true }`. -/
def setFlagUnresolved (k : String) (m : StyleMap) : StyleMap :=
  m.map fun e =>
    if e.1 == k then
      match e.2 with
      | .style s => (e.1, .style { s with isEmph := true })
      | .ref n => (e.1, .ref n)
    else e

structure PState where
  edges : StyleMap
  resolved : Option Resolved

/-- The entries a `make_*_styles` function adds: those of its keys (generated `groupKeys`). -/
def groupEntries (supplied : List (String × Supplied)) (fn : String) : StyleMap :=
  (supplied.filter fun e => ((groupKeys.lookup fn).getD []).contains e.1).map fun e => (e.1, entryOf e.2)

def step (supplied : List (String × Supplied)) (git : String → Option Nat) (st : PState) :
    PStep → Except String PState
  | .make fn =>
    match st.resolved with
    | some _ => .error "model: `styles` is moved into resolve_style_references before this statement"
    | none => .ok { st with edges := groupEntries supplied fn ++ st.edges }
  | .resolve =>
    match resolve st.edges git with
    | .error e => .error e
    | .ok r => .ok { st with resolved := some r }
  | .setEmphResolved k =>
    match st.resolved with
    | none => .error "model: `resolved_styles` does not exist before resolve_style_references"
    | some r =>
      if (r.lookup k).isSome then .ok { st with resolved := some (setFlag k r) }
      else .error ("panic: " ++ k ++ " not found in resolved styles")
  | .setEmphUnresolved k =>
    match st.resolved with
    | some _ => .error "model: `styles` is moved into resolve_style_references before this statement"
    | none => .ok { st with edges := setFlagUnresolved k st.edges }

def runSteps (supplied : List (String × Supplied)) (git : String → Option Nat) :
    List PStep → PState → Except String PState
  | [], st => .ok st
  | s :: ss, st =>
    match step supplied git st s with
    | .error e => .error e
    | .ok st' => runSteps supplied git ss st'

/-- `parse_styles(opt)`: the generated statement list, interpreted. `supplied` = for every key the option
value as `style_from_str` sees it (command line, `[delta]` section, a feature, a default: all the same here). -/
def parseStyles (supplied : List (String × Supplied)) (git : String → Option Nat) : Except String Resolved :=
  match runSteps supplied git parseStylesSteps ⟨[], none⟩ with
  | .error e => .error e
  | .ok st =>
    match st.resolved with
    | some r => .ok r
    | none => .error "model: parse_styles returns no resolved map"

/-- `Config::from`: `<field>: styles["<key>"]` (a missing key panics). -/
def cfgField (styles : Resolved) (field : String) : Except String PStyle :=
  match configStyleKey.lookup field with
  | none => .error ("model: Config has no style field " ++ field)
  | some key =>
    match styles.lookup key with
    | some s => .ok s
    | none => .error ("panic: key not found: " ++ key)

/-! ### `Painter::update_diff_style_sections` -/

/-- One `(style, s)` section of a line: its style and `s.trim().is_empty()`. -/
structure PSec where
  style : PStyle
  blank : Bool
deriving DecidableEq, Repr

/-- `style_sections_contain_more_than_one_style`. -/
def moreThanOneStyle : List PSec → Bool
  | [] => false
  | s :: rest => decide ((s :: rest).length > 1) && (s :: rest).any (fun x => x.style != s.style)

def unwrap (o : Option PStyle) : Except String PStyle :=
  match o with
  | some s => .ok s
  | none => .error "panic: called `Option::unwrap()` on a `None` value"

/-- The new style of one section; `isWs` = `is_whitespace_error` after the reset test of this iteration. -/
def newStyle (ws ne : Option PStyle) (should mixed isWs : Bool) (sec : PSec) : Except String PStyle :=
  if wsErrBranch isWs sec.style.isEmph mixed then unwrap ws
  else if nonEmphBranch should sec.style.isEmph then
    match unwrap ne with
    | .error e => .error e
    | .ok n => if nonEmphBranchWsOverride && isWs then unwrap ws else .ok n
  else .ok sec.style

/-- The loop over the sections of one line, in visiting order. -/
def updateLoop (ws ne : Option PStyle) (should mixed : Bool) : Bool → List PSec → Except String (List PSec)
  | _, [] => .ok []
  | isWs, sec :: rest =>
    let isWs' := if wsErrCleared isWs sec.blank then false else isWs
    match newStyle ws ne should mixed isWs' sec with
    | .error e => .error e
    | .ok st =>
      match updateLoop ws ne should mixed isWs' rest with
      | .error e => .error e
      | .ok out => .ok (⟨st, sec.blank⟩ :: out)

/-- `update_diff_style_sections` for one line without a raw line (`ws` = `whitespace_error_style`,
`ne` = `non_emph_style`, `homolog` = `lines_have_homolog[i]`). -/
def updateLine (ws ne : Option PStyle) (homolog : Bool) (secs : List PSec) : Except String (List PSec) :=
  let mixed := moreThanOneStyle secs
  let should := shouldUpdateNonEmph ne.isSome homolog
  match updateLoop ws ne should mixed (wsErrInitial ws.isSome) (if sectionsReversed then secs.reverse else secs) with
  | .error e => .error e
  | .ok out => .ok (if sectionsReversed then out.reverse else out)

/-- The `whitespace_error_style` argument of one generated call site. -/
def wsArg (styles : Resolved) (c : UpdateCall) : Except String (Option PStyle) :=
  match c.wsErrField with
  | none => .ok none
  | some f =>
    match cfgField styles f with
    | .error e => .error e
    | .ok s => .ok (some s)

/-- Its `non_emph_style` argument: `if config.neA != config.neB { Some(config.nonEmphField) } else { None }`
(`!=` on `Style` compares all fields, the flag included). -/
def neArg (styles : Resolved) (c : UpdateCall) : Except String (Option PStyle) :=
  match cfgField styles c.neA with
  | .error e => .error e
  | .ok a =>
    match cfgField styles c.neB with
    | .error e => .error e
    | .ok b =>
      match cfgField styles c.nonEmphField with
      | .error e => .error e
      | .ok n => .ok (if a != b then some n else none)

inductive Side | minus | plus
deriving DecidableEq, Repr

def Side.name : Side → String
  | .minus => "Minus"
  | .plus => "Plus"

/-- The field `get_diff_style_sections` uses for the unchanged sections of a line of this side
(`*config.get_style(state)`) and the one it passes to `infer_edits` for the changed sections. -/
def lineField : Side → String
  | .minus => lineStyleFieldMinus
  | .plus => lineStyleFieldPlus

def emphField : Side → String
  | .minus => inferDeletionField
  | .plus => inferInsertionField

/-- A removed / added line from the options to what is painted: `secs` = per annotated section
(is it a changed section, is it blank). -/
def paintedLine (supplied : List (String × Supplied)) (git : String → Option Nat) (side : Side)
    (homolog : Bool) (secs : List (Bool × Bool)) : Except String (List PSec) :=
  match parseStyles supplied git with
  | .error e => .error e
  | .ok styles =>
    match updateCalls.find? (·.side == side.name) with
    | none => .error "model: no call of update_diff_style_sections for this side"
    | some c =>
      match cfgField styles (lineField side) with
      | .error e => .error e
      | .ok ls =>
        match cfgField styles (emphField side) with
        | .error e => .error e
        | .ok es =>
          match wsArg styles c with
          | .error e => .error e
          | .ok ws =>
            match neArg styles c with
            | .error e => .error e
            | .ok ne => updateLine ws ne homolog (secs.map fun s => ⟨if s.1 then es else ls, s.2⟩)

end EmphPaint
