import DeltaModel.Generated.WrapConsts
/-
Model of /repo/src/wrapping.rs: `wrap_line` (the stack machine over styled sections) and the
block-level alignment expansion of `wrap_minusplus_block` / `wrap_zero_block`.

Text enters pre-segmented (DESIGN.md 3.1): a section is a style tag and a list of extended
grapheme clusters, each with the display width the implementation computed for it.
Style values are opaque to `wrap_line` (it is generic in `S: Copy + Default`), so a style is
a `Nat` tag.  Core Lean only.
-/
namespace Wrap

/-- One extended grapheme cluster and its display width (`item.width()`). -/
structure G where
  s : String
  w : Nat
deriving DecidableEq, Repr, Inhabited

/-- A styled section `(S, &str)`: style tag and the clusters of its text. -/
abbrev Sec := Nat × List G
/-- `LineSections<S>`: one output row. -/
abbrev Row := List Sec

/-- `graphemes.iter().map(|(_, w)| w).sum()` -/
def gsWidth : List G → Nat
  | [] => 0
  | g :: gs => g.w + gsWidth gs

def rowWidth : Row → Nat
  | [] => 0
  | s :: r => gsWidth s.2 + rowWidth r

/-- `WrapConfig` (the fields `wrap_line` reads). `maxLines` is `--wrap-max-lines + 1`,
0 = unlimited (see `adapt_wrap_max_lines_argument`). -/
structure Cfg where
  leftSym : G
  rightSym : G
  rightPrefixSym : G
  permille : Nat
  maxLines : Nat
deriving Repr

inductive Stop | stackEmpty | lineLimit
deriving DecidableEq, Repr

/-- The mutable state of the loop: `result`, `curr_line` (segments and `len`), `stack`
(head = next section to pop; the Rust vector is this list reversed). -/
structure St where
  result : List Row
  curr : Row
  len : Nat
  stack : List Sec
deriving Repr

/-- `let max_lines = if line_width <= INLINE_SYMBOL_WIDTH_1 { 1 } else { wrap_config.max_lines }` -/
def effMax (cfg : Cfg) (lw : Nat) : Nat :=
  if lw ≤ Generated.inlineSymbolWidth1 then 1 else cfg.maxLines

/-- `line_limit_reached`: `max_lines > 0 && result.len() + 1 >= max_lines` -/
def limitReached (maxLines n : Nat) : Bool := decide (0 < maxLines) && decide (maxLines ≤ n + 1)

/-- The `for &(item_len, item_width) in graphemes` loop: take clusters while they fit. -/
def takeFit : Nat → List G → List G × List G
  | _, [] => ([], [])
  | wl, g :: gs =>
    if g.w ≤ wl then ((takeFit (wl - g.w) gs).1 |> (g :: ·), (takeFit (wl - g.w) gs).2)
    else ([], g :: gs)

/-- `stack.len() == 1 && *nl == "\n"` -/
def isLoneNl : List Sec → Bool
  | [(_, [g])] => g.s == "\n"
  | _ => false

inductive Step
  | done (s : Stop)
  | next (st : St)

/-- One iteration of the `loop { … }` in `wrap_line`. -/
def step (cfg : Cfg) (symStyle lw : Nat) (st : St) : Step :=
  match st.stack with
  | [] => .done .stackEmpty
  | (style, gs) :: rest =>
    if limitReached (effMax cfg lw) st.result.length then .done .lineLimit
    else
      let newLen := st.len + gsWidth gs
      if newLen < lw then
        .next { st with curr := st.curr ++ [(style, gs)], len := newLen, stack := rest }
      else if newLen = lw ∧ rest = [] then
        -- perfect fit, no need to make space for a wrap symbol
        .next { st with curr := st.curr ++ [(style, gs)], len := newLen, stack := rest }
      else if newLen = lw ∧ isLoneNl rest = true then
        -- a single "\n" left on the stack is pushed onto the current line
        .next { st with curr := st.curr ++ (style, gs) :: rest, len := newLen, stack := [] }
      else
        -- must split
        let widthLeft := (gsWidth gs - (newLen - lw)) - cfg.leftSym.w
        if widthLeft = 0 then
          .next { result := st.result ++ [st.curr ++ [(symStyle, [cfg.leftSym])]],
                  curr := [], len := 0, stack := (style, gs) :: rest }
        else
          .next { result := st.result ++
                    [st.curr ++ [(style, (takeFit widthLeft gs).1), (symStyle, [cfg.leftSym])]],
                  curr := [], len := 0, stack := (style, (takeFit widthLeft gs).2) :: rest }

/-- The loop, fuel bounded. `none` = fuel exhausted. -/
def loop (cfg : Cfg) (symStyle lw : Nat) : Nat → St → Option (St × Stop)
  | 0, _ => none
  | fuel + 1, st =>
    match step cfg symStyle lw st with
    | .done s => some (st, s)
    | .next st' => loop cfg symStyle lw fuel st'

def spaceG : G := ⟨" ", 1⟩

/-- The inserted spaces of a right-aligned row: sections of at most `SPACES.len()` blanks. -/
def padSecs (fill padLen : Nat) : List Sec :=
  List.replicate (padLen / Generated.spacesLen) (fill, List.replicate Generated.spacesLen spaceG) ++
    (if padLen % Generated.spacesLen = 0 then []
     else [(fill, List.replicate (padLen % Generated.spacesLen) spaceG)])

/-- `vec.last_mut().unwrap().1 = &wrap_config.right_symbol` on the last row of `result`. -/
def setLastText (g : G) (r : Row) : Row :=
  match r.getLast? with
  | none => r
  | some s => r.dropLast ++ [(s.1, [g])]

/-- `result.last_mut().unwrap().extend(…)` / modification of the last row. -/
def modifyLast (f : Row → Row) : List Row → List Row
  | [] => []
  | [r] => [f r]
  | r :: rs => r :: modifyLast f rs

/-- What the code after the loop produces, with the bookkeeping the theorems need:
`rows` is the return value of `wrap_line`; the first `nSym` rows end in an inserted wrap
symbol section; the last row starts with `nPad` inserted sections (right-align padding and
prefix symbol). -/
structure Out where
  rows : List Row
  nSym : Nat
  nPad : Nat
  stop : Stop
deriving Repr

inductive Err | hang | panic (msg : String)
deriving Repr, DecidableEq

/-- Right-align decision: `(result', curr', nPad)`; errors are the Rust panic points. -/
def rightAlign (cfg : Cfg) (fill symStyle lw : Nat) (st : St) : Except Err (List Row × Row × Nat) :=
  if st.result.length = 1 ∧ 0 < st.len then
    if lw = 0 then .error (.panic "attempt to divide by zero")
    else
      let currentPermille := (st.len * Generated.permilleFactor) / lw
      let padLen := lw - (st.len + cfg.rightPrefixSym.w)
      if currentPermille < cfg.permille ∧ 0 < padLen then
        match st.result with
        | [r] =>
          if r = [] then .error (.panic "wrap result must not be empty")
          else .ok ([setLastText cfg.rightSym r],
                    padSecs fill padLen ++ (symStyle, [cfg.rightPrefixSym]) :: st.curr,
                    (padSecs fill padLen).length + 1)
        | _ => .error (.panic "wrap result must not be empty")
      else .ok (st.result, st.curr, 0)
  else .ok (st.result, st.curr, 0)

/-- The code after the loop. -/
def finish (cfg : Cfg) (fill symStyle lw : Nat) (st : St) (stop : Stop) : Except Err Out :=
  match rightAlign cfg fill symStyle lw st with
  | .error e => .error e
  | .ok (result, curr, nPad) =>
    let r1 := if 0 < st.len then result ++ [curr] else result
    let r2 := if stop = .lineLimit ∧ r1.length ≠ effMax cfg lw then r1 ++ [[]] else r1
    let r3 :=
      if st.stack = [] then r2
      else modifyLast (· ++ st.stack) (if r2 = [] then [[]] else r2)
    .ok { rows := r3, nSym := st.result.length, nPad := nPad, stop := stop }

def secCount (line : List Sec) : Nat := line.length
def clusterCount : List Sec → Nat
  | [] => 0
  | s :: r => s.2.length + clusterCount r

/-- Fuel used by the executable model; `wrap_fuel_suffices` (Props/C07) shows it is enough
whenever the loop terminates at all (a line limit is set, or every cluster leaves room for
the wrap symbol). -/
def fuelFor (cfg : Cfg) (lw : Nat) (line : List Sec) : Nat :=
  2 * clusterCount line + 2 * secCount line + effMax cfg lw + 2

def initSt (line : List Sec) : St := { result := [], curr := [], len := 0, stack := line }

def symStyleOf (fill : Nat) (hint : Option Nat) : Nat :=
  match hint with
  | some h => h
  | none => fill

/-- `wrap_line` with the bookkeeping record. -/
def wrapFull (cfg : Cfg) (line : List Sec) (lw fill : Nat) (hint : Option Nat) : Except Err Out :=
  match loop cfg (symStyleOf fill hint) lw (fuelFor cfg lw line) (initSt line) with
  | none => .error .hang
  | some (st, stop) => finish cfg fill (symStyleOf fill hint) lw st stop

/-- `wrap_line`. -/
def wrapLine (cfg : Cfg) (line : List Sec) (lw fill : Nat) (hint : Option Nat) :
    Except Err (List Row) :=
  match wrapFull cfg line lw fill hint with
  | .error e => .error e
  | .ok o => .ok o.rows

/-! ## Block level: `wrap_minusplus_block` on row counts -/

abbrev Align := List (Option Nat × Option Nat)

/-- State of the alignment walk. `mc`/`pc`: remaining per-line row counts (the iterators),
`mOff`/`pOff`: `wrapped.len()` so far, `ms`/`ps`: `new_states` (true = the row starts a real
line, `HunkMinus`/`HunkPlus`; false = `Hunk…Wrapped`). -/
structure BSt where
  mExp : Nat
  pExp : Nat
  mOff : Nat
  pOff : Nat
  mc : List Nat
  pc : List Nat
  al : Align
  ms : List Bool
  ps : List Bool
deriving Repr

def initB (mc pc : List Nat) : BSt :=
  { mExp := 0, pExp := 0, mOff := 0, pOff := 0, mc := mc, pc := pc, al := [], ms := [], ps := [] }

def lineStates (n : Nat) : List Bool :=
  match n with
  | 0 => []
  | k + 1 => true :: List.replicate k false

/-- One `(minus, plus)` entry of the alignment. -/
def blockStep (b : BSt) : Option Nat × Option Nat → Except Err BSt
  | (some m, none) =>
    if m ≠ b.mExp then .error (.panic "bad alignment index [*l*] (-)") else
    match b.mc with
    | [] => .error (.panic "bad wrap info [*l*] (-)")
    | c :: mc =>
      .ok { b with mExp := b.mExp + 1, mOff := b.mOff + c, mc := mc,
                   al := b.al ++ (List.range' b.mOff c).map (fun i => (some i, none)),
                   ms := b.ms ++ lineStates c }
  | (none, some p) =>
    if p ≠ b.pExp then .error (.panic "bad alignment index (-) [*r*]") else
    match b.pc with
    | [] => .error (.panic "bad wrap info (-) [*r*]")
    | c :: pc =>
      .ok { b with pExp := b.pExp + 1, pOff := b.pOff + c, pc := pc,
                   al := b.al ++ (List.range' b.pOff c).map (fun i => (none, some i)),
                   ps := b.ps ++ lineStates c }
  | (some m, some p) =>
    if m ≠ b.mExp then .error (.panic "bad alignment index [*l*] (r)") else
    match b.mc with
    | [] => .error (.panic "bad wrap info [*l*] (r)")
    | cm :: mc =>
      if p ≠ b.pExp then .error (.panic "bad alignment index (l) [*r*]") else
      match b.pc with
      | [] => .error (.panic "bad wrap info (l) [*r*]")
      | cp :: pc =>
        let k := min cm cp
        .ok { b with mExp := b.mExp + 1, pExp := b.pExp + 1,
                     mOff := b.mOff + cm, pOff := b.pOff + cp, mc := mc, pc := pc,
                     al := b.al
                       ++ (List.range k).map (fun i => (some (b.mOff + i), some (b.pOff + i)))
                       ++ (List.range' (b.mOff + k) (cm - k)).map (fun i => (some i, none))
                       ++ (List.range' (b.pOff + k) (cp - k)).map (fun i => (none, some i)),
                     ms := b.ms ++ lineStates cm, ps := b.ps ++ lineStates cp }
  | (none, none) => .error (.panic "None-None alignment")

def blockLoop : BSt → Align → Except Err BSt
  | b, [] => .ok b
  | b, e :: es =>
    match blockStep b e with
    | .error x => .error x
    | .ok b' => blockLoop b' es

/-- `wrap_minusplus_block` reduced to row counts: new alignment and the per-side states. -/
def wrapBlock (al : Align) (mc pc : List Nat) : Except Err (Align × List Bool × List Bool) :=
  match blockLoop (initB mc pc) al with
  | .error x => .error x
  | .ok b => .ok (b.al, b.ms, b.ps)

/-- Rows of one line inside a block: `wrap_if_too_long` for the syntax and the diff
sectioning of the same text; `assert_eq!` on the two row counts. -/
def wrapIfTooLong (cfg : Cfg) (mustWrap : Bool) (line : List Sec) (lw fill : Nat)
    (hint : Option Nat) : Except Err (List Row) :=
  if mustWrap then wrapLine cfg line lw fill hint else .ok [line]

/-- `wrap_zero_block` states: the first row keeps `HunkZero`, the others are `HunkZeroWrapped`
(`states.resize_with(len, …)` also truncates to zero rows). -/
def zeroStates (n : Nat) : List Bool := lineStates n

end Wrap
