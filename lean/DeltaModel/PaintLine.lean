import DeltaModel.Sgr
import DeltaModel.Generated.PaintLine
/-!
## One painted output line, built inside the model (`Painter::paint_line` / `Painter::paint_lines`, `src/paint.rs`)

`paint_lines` writes, for every line of a hunk block, blame line, grep line, hunk-header code fragment …:

1. `paint_line`: a vector of `ansi_term` strings — the line-number fields in front (`gutter`), then for every
   superimposed (style, text) section: once, before the first section, the re-inserted `+`/`-`/space marker
   (`painted_prefix`: `--keep-plus-minus-markers`, or the merge prefix of a combined diff), and the section painted in
   its style when its text is not empty — rendered by `ANSIStrings` (`Sgr.renderStrings`);
2. the fill decision (`get_should_right_fill_background_color_and_fill_style`): the fill style is chosen by the state
   (non-emph style when the line has a homolog, last real section of a raw hunk line, first section of a blame line,
   else the null style), the fill happens when that style has a background colour (`get_background_color`: the
   foreground under `reverse`), the caller asks for it and `config.background_color_extends_to_terminal_width`;
3. an if-chain: ANSI fill (`Line.rightFill`) | space fill up to `available_terminal_width` (`Line.spacesFill`; text width
   = the clusters' widths, escape sequences count nothing) | empty-line marker (`Line.markEmpty`) when the line is empty
   and the caller has a marker style;
4. the line and a newline are pushed to the output buffer.

Input of the model: the state class, the strings of the gutter, the superimposed sections as (style, clusters), the
diff sections' styles, the flags. **No partition of a painted line is an input**: the model also produces the item list
(`lineItems`: escape sequences / text) that `truncate_str` and `pad_panel_line_to_width` work on.

Regenerated from the source and *consumed* here (`Generated.PaintLine`, `tools/extractors/paintline.py`): the order and the
guards of the pushes of `paint_line`, the if-chain of `paint_lines` with its conditions / actions and the arithmetic of the
space fill, the marker text, the arms of the fill-style `match` and of the final decision, the arms of `painted_prefix`, the
rule of `get_background_color`. An arm, condition or expression that this file does not know makes the model answer
`unmodelled` (the correspondence then disagrees). Besides, every statement of the functions read is compared with the form
modelled here (`shapeAsModelled`, locals renamed canonically).
-/
namespace PaintLine
open Sgr Line
open Generated.PaintLine

inductive Sign where
  | minus | zero | plus
  deriving DecidableEq, Repr

/-- What `paint_lines` and `painted_prefix` read from `State`. `raw` = the state keeps the raw line
(`HunkMinus(_, Some(raw))`); `mergePrefix = some p` = `DiffType::Combined(MergeParents::Prefix(p), InMergeConflict::No)`. -/
inductive St where
  | hunk (sign : Sign) (raw : Bool) (mergePrefix : Option (List Char))
  | wrapped (sign : Sign)
  | blame
  | other
  deriving DecidableEq, Repr

/-- The `Config` fields read (`ansi_term_style` of each style). -/
structure Cfg where
  minusStyle : Sgr.Style := {}
  zeroStyle : Sgr.Style := {}
  plusStyle : Sgr.Style := {}
  minusNonEmph : Sgr.Style := {}
  plusNonEmph : Sgr.Style := {}
  nullStyle : Sgr.Style := {}
  keepMarkers : Bool := false
  lineNumbers : Bool := false
  /-- `config.background_color_extends_to_terminal_width` -/
  bgExtends : Bool := true
  availWidth : Nat := 80
  deriving Repr

inductive FillMethod where
  | ansi | spaces
  deriving DecidableEq, Repr

inductive BgShouldFill where
  | no
  | with_ (m : FillMethod)
  deriving DecidableEq, Repr

/-- A text handed to `ansi_term`, as clusters: plain, or inside an OSC 8 hyperlink (line-number fields under
`--hyperlinks`). -/
inductive PPiece where
  | plain (gs : List G)
  | linked (url : List Char) (gs : List G)
  deriving DecidableEq, Repr

def gchars (gs : List G) : List Char := gs.flatMap fun g => g.s

def PPiece.toPiece : PPiece → Piece
  | .plain gs => .plain (gchars gs)
  | .linked u gs => .linked u (gchars gs)

structure Input where
  st : St
  /-- what `format_and_paint_line_numbers` returned ([] when line numbers are off or the state has none) -/
  gutter : List (Sgr.Style × PPiece) := []
  /-- `syntax_sections.is_empty()` -/
  syntaxEmpty : Bool := false
  /-- the superimposed sections (style, text as clusters) -/
  sections : List (Sgr.Style × List G) := []
  /-- the diff sections (style, text): only read for the fill style of raw hunk lines and blame lines -/
  diffSections : List (Sgr.Style × List Char) := []
  hasHomolog : Bool := false
  emptyStyle : Option Sgr.Style := none
  bg : BgShouldFill := .with_ .ansi
  deriving Repr

/-! ### `painted_prefix` -/

def cfgStyleOf (cfg : Cfg) (name : String) : Option Sgr.Style :=
  if name = "config.minus_style" then some cfg.minusStyle
  else if name = "config.zero_style" then some cfg.zeroStyle
  else if name = "config.plus_style" then some cfg.plusStyle
  else if name = "config.minus_non_emph_style" then some cfg.minusNonEmph
  else if name = "config.plus_non_emph_style" then some cfg.plusNonEmph
  else if name = "config.null_style" then some cfg.nullStyle
  else none

/-- Does an arm pattern of `painted_prefix` match? `none` = a pattern this model does not know. -/
def prefixPat (cfg : Cfg) (st : St) (p : String) : Option Bool :=
  let merge (sg : Sign) : Bool := match st with
    | .hunk s _ (some _) => decide (s = sg)
    | _ => false
  let keep (sg : Sign) : Bool := match st with
    | .hunk s _ _ => decide (s = sg) && cfg.keepMarkers
    | _ => false
  if p = "_" then some true
  else if p = "(HunkMinus(Combined(MergeParents::Prefix(prefix), InMergeConflict::No), _), _)" then some (merge .minus)
  else if p = "(HunkZero(Combined(MergeParents::Prefix(prefix), InMergeConflict::No), _), _)" then some (merge .zero)
  else if p = "(HunkPlus(Combined(MergeParents::Prefix(prefix), InMergeConflict::No), _), _)" then some (merge .plus)
  else if p = "(HunkMinus(_, _), true)" then some (keep .minus)
  else if p = "(HunkZero(_, _), true)" then some (keep .zero)
  else if p = "(HunkPlus(_, _), true)" then some (keep .plus)
  else none

/-- The expressions an arm of `painted_prefix` may return, as (text of the expression, style, what is painted):
`Some(config.X.paint(prefix))`, `Some(config.X.paint("c".to_string()))` for the three hunk-line styles. -/
def prefixExprTable : List (String × String × String) :=
  [("Some(config.minus_style.paint(prefix))", "config.minus_style", "prefix"),
   ("Some(config.zero_style.paint(prefix))", "config.zero_style", "prefix"),
   ("Some(config.plus_style.paint(prefix))", "config.plus_style", "prefix"),
   ("Some(config.minus_style.paint(\"-\".to_string()))", "config.minus_style", "-"),
   ("Some(config.minus_style.paint(\" \".to_string()))", "config.minus_style", " "),
   ("Some(config.minus_style.paint(\"+\".to_string()))", "config.minus_style", "+"),
   ("Some(config.zero_style.paint(\"-\".to_string()))", "config.zero_style", "-"),
   ("Some(config.zero_style.paint(\" \".to_string()))", "config.zero_style", " "),
   ("Some(config.zero_style.paint(\"+\".to_string()))", "config.zero_style", "+"),
   ("Some(config.plus_style.paint(\"-\".to_string()))", "config.plus_style", "-"),
   ("Some(config.plus_style.paint(\" \".to_string()))", "config.plus_style", " "),
   ("Some(config.plus_style.paint(\"+\".to_string()))", "config.plus_style", "+")]

def prefixText (st : St) (t : String) : Option (List Char) :=
  if t = "prefix" then
    (match st with
     | .hunk _ _ (some p) => some p
     | _ => none)
  else if t = "-" then some ['-']
  else if t = " " then some [' ']
  else if t = "+" then some ['+']
  else none

def prefixExpr (cfg : Cfg) (st : St) (e : String) : Except String (Option (Sgr.Style × List Char)) :=
  if e = "None" then .ok none
  else
    match prefixExprTable.lookup e with
    | some (s, t) =>
      (match cfgStyleOf cfg s, prefixText st t with
       | some sty, some v => .ok (some (sty, v))
       | _, _ => .error "unmodelled")
    | none => .error "unmodelled"

def paintedPrefixGo (cfg : Cfg) (st : St) : List (String × String) → Except String (Option (Sgr.Style × List Char))
  | [] => .error "panic: non-exhaustive"
  | (p, e) :: rest =>
    match prefixPat cfg st p with
    | none => .error "unmodelled"
    | some true => prefixExpr cfg st e
    | some false => paintedPrefixGo cfg st rest

/-- `painted_prefix(state, config)` over the generated arms. -/
def paintedPrefix (cfg : Cfg) (st : St) : Except String (Option (Sgr.Style × List Char)) :=
  paintedPrefixGo cfg st prefixArms

/-! ### `paint_line` -/

/-- One iteration of the section loop, the pushes in generated order. -/
def loopBody (inner : List (String × List String)) (pfx : Option (Sgr.Style × PPiece)) (handled : Bool)
    (sec : Sgr.Style × List G) : List (Sgr.Style × PPiece) :=
  inner.flatMap fun (what, guards) =>
    if what = "prefix" then (if handled then [] else pfx.toList)
    else if what = "section" then
      (if guards.contains "text-nonempty" && sec.2.isEmpty then [] else [(sec.1, .plain sec.2)])
    else []

def loopGo (inner : List (String × List String)) (pfx : Option (Sgr.Style × PPiece)) :
    Bool → List (Sgr.Style × List G) → List (Sgr.Style × PPiece)
  | _, [] => []
  | handled, s :: rest => loopBody inner pfx handled s ++ loopGo inner pfx true rest

/-- The marker as clusters (ASCII: one cluster of width 1 per character). -/
def asciiClusters (t : List Char) : List G := t.map fun c => ⟨[c], 1⟩

/-- The `ansi_strings` vector of `paint_line`, pushes in generated order (the gutter in front or behind the loop). -/
def stringsOf (ps : List (String × List String)) (inp : Input) (pfx : Option (Sgr.Style × List Char)) :
    List (Sgr.Style × PPiece) :=
  let pfx' := pfx.map fun (s, t) => (s, PPiece.plain (asciiClusters t))
  let inner := ps.filter fun p => p.1 != "gutter"
  let loop := loopGo inner pfx' false inp.sections
  match ps with
  | (w, _) :: _ => if w = "gutter" then inp.gutter ++ loop else loop ++ inp.gutter
  | [] => loop

/-- The items (`ansi_strings_iterator`'s view) of what `ANSIStrings` writes: every prefix / infix / suffix an escape item,
every text a text item, hyperlinked text between its opening and closing OSC 8 item. Empty sequences give no item. -/
def escItem (e : List Char) : List Item := if e.isEmpty then [] else [.esc e]

def pieceItems : PPiece → List Item
  | .plain gs => [.text gs]
  | .linked u gs =>
    [.esc (Generated.StyleTables.osc8Before.toList ++ u ++ Generated.StyleTables.osc8Middle.toList), .text gs,
     .esc Generated.StyleTables.osc8After.toList]

def itemsTail (prev : Sgr.Style) : List (Sgr.Style × PPiece) → List Item
  | [] => escItem (if prev.isPlain then [] else Sgr.reset)
  | (s, p) :: rest => escItem (Sgr.inf prev s) ++ pieceItems p ++ itemsTail s rest

def lineItems : List (Sgr.Style × PPiece) → List Item
  | [] => []
  | (s, p) :: rest => escItem (Sgr.pre s) ++ pieceItems p ++ itemsTail s rest

def toPieces (xs : List (Sgr.Style × PPiece)) : List (Sgr.Style × Piece) := xs.map fun x => (x.1, x.2.toPiece)

/-- `paint_line`: the painted string and `is_empty`. -/
def paintLine (cfg : Cfg) (inp : Input) : Except String (List (Sgr.Style × PPiece) × Bool) :=
  match paintedPrefix cfg inp.st with
  | .error e => .error e
  | .ok pfx =>
    if isEmptyExpr = "syntax_sections.is_empty()" then .ok (stringsOf pushes inp pfx, inp.syntaxEmpty)
    else .error "unmodelled"

/-! ### The fill decision -/

/-- One alternative of a `match state` pattern. -/
def statePat (st : St) (alt : String) : Option Bool :=
  let plain (sg : Sign) : Bool := match st with
    | .hunk s false _ => decide (s = sg)
    | _ => false
  let raw (sg : Sign) : Bool := match st with
    | .hunk s true _ => decide (s = sg)
    | _ => false
  if alt = "_" then some true
  else if alt = "State::Blame(_)" then some (st == .blame)
  else if alt = "State::HunkMinus(_, None)" then some (plain .minus)
  else if alt = "State::HunkZero(_, None)" then some (plain .zero)
  else if alt = "State::HunkPlus(_, None)" then some (plain .plus)
  else if alt = "State::HunkMinus(_, Some(_))" then some (raw .minus)
  else if alt = "State::HunkZero(_, Some(_))" then some (raw .zero)
  else if alt = "State::HunkPlus(_, Some(_))" then some (raw .plus)
  else if alt = "State::HunkMinusWrapped" then some (st == .wrapped .minus)
  else if alt = "State::HunkZeroWrapped" then some (st == .wrapped .zero)
  else if alt = "State::HunkPlusWrapped" then some (st == .wrapped .plus)
  else none

def anyAlt (st : St) : List String → Option Bool
  | [] => some false
  | a :: rest =>
    match statePat st a, anyAlt st rest with
    | some x, some y => some (x || y)
    | _, _ => none

/-- The last section that is not the terminating newline (`.rev().filter(|(_, s)| s != &"\n").next()`). -/
def lastReal (d : Sgr.Style) : List (Sgr.Style × List Char) → Sgr.Style
  | [] => d
  | (s, t) :: rest =>
    match rest.filter (fun x => x.2 != ['\n']) with
    | [] => if t != ['\n'] then s else d
    | _ => lastReal d rest

def fillStyleExpr (cfg : Cfg) (inp : Input) (e : String) : Except String Sgr.Style :=
  if e = "if let Some(true) = line_has_homolog { config.minus_non_emph_style } else { config.minus_style }" then
    .ok (if inp.hasHomolog then cfg.minusNonEmph else cfg.minusStyle)
  else if e = "if let Some(true) = line_has_homolog { config.plus_non_emph_style } else { config.plus_style }" then
    .ok (if inp.hasHomolog then cfg.plusNonEmph else cfg.plusStyle)
  else if e = "diff_sections.iter().rev().filter(|(_, v1)| v1 != &\"\\n\").map(|(v2, _)| *v2).next().unwrap_or(config.null_style)" then
    .ok (lastReal cfg.nullStyle inp.diffSections)
  else if e = "diff_sections[0].0" then
    (match inp.diffSections with
     | [] => .error "panic: index out of bounds"
     | x :: _ => .ok x.1)
  else match cfgStyleOf cfg e with
    | some s => .ok s
    | none => .error "unmodelled"

def fillStyleGo (cfg : Cfg) (inp : Input) : List (List String × String) → Except String Sgr.Style
  | [] => .error "panic: non-exhaustive"
  | (p, e) :: rest =>
    match anyAlt inp.st p with
    | none => .error "unmodelled"
    | some true => fillStyleExpr cfg inp e
    | some false => fillStyleGo cfg inp rest

def fillStyle (cfg : Cfg) (inp : Input) : Except String Sgr.Style := fillStyleGo cfg inp fillStyleArms

/-- `Style::get_background_color` by the generated rule [tested field, then, else]. -/
def colourField (st : Sgr.Style) (f : String) : Option (Option Sgr.Color) :=
  if f = "foreground" then some st.fg else if f = "background" then some st.bg else none

def backgroundColor (st : Sgr.Style) : Except String (Option Sgr.Color) :=
  match backgroundColorRule with
  | [t, a, b] =>
    (match Attr.ofField t, colourField st a, colourField st b with
     | some t, some a, some b => .ok (if st.get t then a else b)
     | _, _, _ => .error "unmodelled")
  | _ => .error "unmodelled"

def decisionPat (hasBg : Bool) (bg : BgShouldFill) (alt : String) : Option Bool :=
  if alt = "(false, _)" then some (!hasBg)
  else if alt = "(true, _)" then some hasBg
  else if alt = "(_, BgShouldFill::No)" then some (bg == .no)
  else if alt = "(_, BgShouldFill::With(bgmode))" then some (bg != .no)
  else if alt = "_" then some true
  else none

def decisionAny (hasBg : Bool) (bg : BgShouldFill) : List String → Option Bool
  | [] => some false
  | a :: rest =>
    match decisionPat hasBg bg a, decisionAny hasBg bg rest with
    | some x, some y => some (x || y)
    | _, _ => none

def bgMode : BgShouldFill → Option FillMethod
  | .no => none
  | .with_ m => some m

def decisionExpr (cfg : Cfg) (bg : BgShouldFill) (e : String) : Except String (Option FillMethod) :=
  if e = "(None, v0)" then .ok none
  else if e = "(Some(bgmode), v0)" then .ok (bgMode bg)
  else if e = "if config.background_color_extends_to_terminal_width { (Some(bgmode), v0) } else { (None, v0) }" then
    .ok (if cfg.bgExtends then bgMode bg else none)
  else .error "unmodelled"

def decisionGo (cfg : Cfg) (hasBg : Bool) (bg : BgShouldFill) :
    List (List String × String) → Except String (Option FillMethod)
  | [] => .error "panic: non-exhaustive"
  | (p, e) :: rest =>
    match decisionAny hasBg bg p with
    | none => .error "unmodelled"
    | some true => decisionExpr cfg bg e
    | some false => decisionGo cfg hasBg bg rest

/-- `get_should_right_fill_background_color_and_fill_style`. -/
def fillDecision (cfg : Cfg) (inp : Input) : Except String (Option FillMethod × Sgr.Style) :=
  match fillStyle cfg inp with
  | .error e => .error e
  | .ok fs =>
    match backgroundColor fs with
    | .error e => .error e
    | .ok c =>
      if fillDecisionScrutinee = "(v0.get_background_color().is_some(), background_color_extends_to_terminal_width)" then
        (match decisionGo cfg c.isSome inp.bg fillDecisionArms with
         | .error e => .error e
         | .ok m => .ok (m, fs))
      else .error "unmodelled"

/-! ### The if-chain of `paint_lines` -/

def chainCond (mode : Option FillMethod) (lineIsEmpty : Bool) (c : String) : Option Bool :=
  if c = "TryAnsiSequence" then some (mode == some .ansi)
  else if c = "Spaces" then some (mode == some .spaces)
  else if c = "line_is_empty" then some lineIsEmpty
  else none

/-- One action of the chain on the painted line; `tw` = `measure_text_width(&line)`. -/
def chainAct (cfg : Cfg) (inp : Input) (fs : Sgr.Style) (tw : Nat) (line : List Char) (a : String) :
    Except String (List Char) :=
  if a = "right_fill" then .ok (rightFill line fs)
  else if a = "spaces saturating_sub" then .ok (spacesFill line fs (cfg.availWidth - tw))
  else if a = "spaces checked_sub" then
    (if tw > cfg.availWidth then .error "panic: attempt to subtract with overflow"
     else .ok (spacesFill line fs (cfg.availWidth - tw)))
  else if a = "mark_empty" then
    (match inp.emptyStyle with
     | some es => .ok (markEmpty line es (if cfg.lineNumbers then some emptyMarkerWithLineNumbers.toList else none))
     | none => .ok line)
  else if a = "nothing" then .ok line
  else .error "unmodelled"

def chainGo (cfg : Cfg) (inp : Input) (mode : Option FillMethod) (fs : Sgr.Style) (lineIsEmpty : Bool) (tw : Nat)
    (line : List Char) : List (String × String) → Except String (List Char)
  | [] => .ok line
  | (c, a) :: rest =>
    match chainCond mode lineIsEmpty c with
    | none => .error "unmodelled"
    | some true => chainAct cfg inp fs tw line a
    | some false => chainGo cfg inp mode fs lineIsEmpty tw line rest

/-- **The bytes of one output line of `paint_lines`** (without the newline pushed after it). -/
def paintedLine (cfg : Cfg) (inp : Input) : Except String (List Char) :=
  match paintLine cfg inp with
  | .error e => .error e
  | .ok (strings, lineIsEmpty) =>
    match fillDecision cfg inp with
    | .error e => .error e
    | .ok (mode, fs) =>
      chainGo cfg inp mode fs lineIsEmpty (Line.width (lineItems strings)) (Line.paintLine (toPieces strings)) fillChain

/-! ### The statements of the source, as modelled -/

def modelledPaintLine : List String :=
  ["let mut v0 = Vec::new()",
   "let v1 = line_numbers_data.is_some()",
   "if v1: let v2 = !matches!(side_by_side_panel, Some(side_by_side::Left))",
   "if v1 / if let Some((v3, v4)) = line_numbers::linenumbers_and_styles(line_numbers_data.as_mut().unwrap(), state, config, v2): v0.extend(line_numbers::format_and_paint_line_numbers(line_numbers_data.as_ref().unwrap(), side_by_side_panel, v4, v3, config))",
   "let v5 = superimpose_style_sections(syntax_sections, diff_sections, config.true_color, config.null_syntect_style)",
   "let mut v6 = false",
   "for (v7, v8) in &v5 / if !v6 / if let Some(painted_prefix) = painted_prefix.take(): v0.push(painted_prefix)",
   "for (v7, v8) in &v5 / if !v8.is_empty(): v0.push(v7.paint(v8.as_str()))",
   "for (v7, v8) in &v5: v6 = true",
   "let v9 = syntax_sections.is_empty()",
   "(ansi_term::ANSIStrings(&v0).to_string(), v9)"]

def modelledPaintLinesLoop : List String :=
  ["let (mut v4, v5) = Painter::paint_line(v1, v2, v0, line_numbers_data, None, painted_prefix(v0.clone(), config), config)",
   "let (v6, v7) = Painter::get_should_right_fill_background_color_and_fill_style(v2, Some(v3), v0, background_color_extends_to_terminal_width, config)",
   "if let Some(BgFillMethod::TryAnsiSequence) = v6: Painter::right_fill_background_color(&mut v4, v7)",
   "else if let Some(BgFillMethod::Spaces) = v6: let v8 = ansi::measure_text_width(&v4)",
   "else if let Some(BgFillMethod::Spaces) = v6: v4.push_str(&v7.paint(\" \".repeat(config.available_terminal_width.saturating_sub(v8))).to_string())",
   "else if v5 / if let Some(empty_line_style) = empty_line_style: Painter::mark_empty_line(&empty_line_style, &mut v4, if config.line_numbers { Some(\" \") } else { None })",
   "output_buffer.push_str(&v4)",
   "output_buffer.push('\\n')"]

def modelledRightFill : List String :=
  ["line.push_str(&ansi_term::ANSIStrings(&[fill_style.paint(\"\")]).to_string())",
   "if line.to_lowercase().ends_with(&ansi::ANSI_SGR_RESET.to_lowercase()): line.truncate(line.len() - ansi::ANSI_SGR_RESET.len())",
   "line.push_str(ansi::ANSI_CSI_CLEAR_TO_EOL)",
   "line.push_str(ansi::ANSI_SGR_RESET)"]

def modelledMarkEmpty : List String :=
  ["line.push_str(&empty_line_style.paint(marker.unwrap_or(ansi::ANSI_CSI_CLEAR_TO_BOL)).to_string())"]

/-- The callers of `paint_lines`: the marker style is `None` or one of the two marker styles of the Config, the fill
request a constant or the caller's own parameter. -/
def modelledCalls : List (String × String × String) :=
  [("paint_zero_line", "None", "BgShouldFill::With(fill_method)"),
   ("syntax_highlight_and_paint_line", "None", "background_color_extends_to_terminal_width"),
   ("paint_minus_and_plus_lines", "Some(config.minus_empty_line_marker_style)", "BgShouldFill::default()"),
   ("paint_minus_and_plus_lines", "Some(config.plus_empty_line_marker_style)", "BgShouldFill::default()")]

/-- The source has exactly the modelled statements (locals renamed in order of binding), the modelled argument lists,
`Style::paint` is `ansi_term`'s paint of the `ansi_term_style`, and `paint_lines` is called from the modelled places. -/
def shapeAsModelled : Bool :=
  paintLineStmts == modelledPaintLine && paintLinesLoopStmts == modelledPaintLinesLoop &&
  rightFillStmts == modelledRightFill && markEmptyStmts == modelledMarkEmpty &&
  stylePaintStmts == ["self.ansi_term_style.paint(input)"] &&
  paintLineArgs == ["v1", "v2", "v0", "line_numbers_data", "None", "painted_prefix(v0.clone(), config)", "config"] &&
  fillDecisionArgs == ["v2", "Some(v3)", "v0", "background_color_extends_to_terminal_width", "config"] &&
  paintLinesCalls == modelledCalls

end PaintLine
