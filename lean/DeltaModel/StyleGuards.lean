import DeltaModel.Generated.StyleGuards
/-!
Model of **which configured style a piece of a hunk line is painted with, and under which conditions on the
configured styles themselves** (C12: "a style option is painted as given, whatever the other style options are").

* `src/style.rs` — `struct Style` and what `==` on two `Style` values compares (`Generated.StyleGuards.styleEqFields`:
  derived = every field, hand-written `impl PartialEq` = the fields its `eq` compares): `styleEq`;
* `src/parse_styles.rs` / `src/parse_style.rs` / `src/config.rs` — where `is_emph` is written and which `Config` field reads
  which key: `isEmphField`, `AsParsed`, `configOf`;
* `src/paint.rs` — `paint_minus_and_plus_lines`: the `whitespace_error_style` / `non_emph_style` arguments of the two calls
  of `update_diff_style_sections` are **generated expression trees** (`OptStyle`, `Guard`: comparisons between configured
  styles, flag reads, `&&`, `||`, `!`) evaluated here against a configuration (`evalGuard`, `evalOpt`);
  `update_diff_style_sections` itself (guards generated) and `style_sections_contain_more_than_one_style` (its comparison
  generated): `updateLine`, generic in the type of styles so that the same code runs on real styles (`paintedLine`) and
  on the *names* of the `Config` fields (`governs`: which option governs a section, a function of the structure of the
  line alone);
* `src/edits.rs` `annotate` — the comparisons between values of the annotation type (instantiated with `Style`).

A delta `Style` is a `GStyle`: one component per field of the struct; `ansi` / `deco` stand for the `ansi_term::Style`
and the `DecorationStyle` (compared structurally: both derive `PartialEq`). Rust panic points (`unwrap()` on `None`) are
explicit `Except` errors.
-/
set_option linter.unusedVariables false
namespace StyleGuards
open Generated.StyleGuards

/-- `struct Style`, field by field. -/
structure GStyle where
  ansi : Nat
  isEmph : Bool
  isOmitted : Bool
  isRaw : Bool
  isSyn : Bool
  deco : Nat
deriving DecidableEq, Repr, Inhabited

/-- The field names the model knows (must be `styleStructFields`: `C12.style_struct_as_modelled`). -/
def knownParts : List String :=
  ["ansi_term_style", "is_emph", "is_omitted", "is_raw", "is_syntax_highlighted", "decoration_style"]

/-- `a.<part> == b.<part>`. -/
def partEq (part : String) (a b : GStyle) : Bool :=
  if part == "ansi_term_style" then a.ansi == b.ansi
  else if part == "is_emph" then a.isEmph == b.isEmph
  else if part == "is_omitted" then a.isOmitted == b.isOmitted
  else if part == "is_raw" then a.isRaw == b.isRaw
  else if part == "is_syntax_highlighted" then a.isSyn == b.isSyn
  else if part == "decoration_style" then a.deco == b.deco
  else false

/-- `a == b` on two `Style` values compares the parts listed. -/
def styleEqOn (parts : List String) (a b : GStyle) : Bool := parts.all fun p => partEq p a b

/-- **`a == b` as the source defines it** (the generated list of compared fields). -/
def styleEq (a b : GStyle) : Bool := styleEqOn styleEqFields a b

/-- A boolean field of a style, by name. -/
def flagOf (part : String) (s : GStyle) : Bool :=
  if part == "is_emph" then s.isEmph
  else if part == "is_omitted" then s.isOmitted
  else if part == "is_raw" then s.isRaw
  else if part == "is_syntax_highlighted" then s.isSyn
  else false

/-- The style fields of `Config`, by field name. -/
abbrev Cfg := String → GStyle

/-! ### the configuration as `parse_styles()` and `Config::from` build it -/

/-- Does `parse_styles()` set `is_emph` on the style this `Config` field reads? (generated: key of the field, keys flagged) -/
def isEmphField (field : String) : Bool :=
  match configStyleKey.lookup field with
  | some key => emphFlagSets.any fun e => e.1 == key
  | none => false

/-- A configuration whose `is_emph` flags are as `parse_styles()` leaves them: set on the flagged keys, nowhere else
(every constructor writes `false`: `C12.is_emph_written_only_by_parse_styles`). Everything else is arbitrary. -/
def AsParsed (cfg : Cfg) : Prop := ∀ f, (cfg f).isEmph = isEmphField f

/-- `Config::from(parse_styles(opt))`: `given key` = the style the chain of references of `key` ends in (any style at
all), the flag is set on the flagged keys' own copies afterwards. -/
def configOf (given : String → GStyle) : Cfg := fun field =>
  match configStyleKey.lookup field with
  | some key => { given key with isEmph := emphFlagSets.any fun e => e.1 == key }
  | none => { given field with isEmph := false }

/-! ### conditions on configured styles -/

/-- Are the two operands equal? (`config.a == config.b` on whole styles, or on the same part of both.) -/
def evalCmp (cfg : Cfg) : Operand → Operand → Bool
  | .style a, .style b => styleEq (cfg a) (cfg b)
  | .part a p, .part b q => p == q && partEq p (cfg a) (cfg b)
  | _, _ => false

def evalGuard (cfg : Cfg) : Guard → Bool
  | .eq a b => evalCmp cfg a b
  | .ne a b => !evalCmp cfg a b
  | .flag f p => flagOf p (cfg f)
  | .lit b => b
  | .not g => !evalGuard cfg g
  | .and g h => evalGuard cfg g && evalGuard cfg h
  | .or g h => evalGuard cfg g || evalGuard cfg h

def evalOpt (cfg : Cfg) : OptStyle → Option GStyle
  | .none => none
  | .some f => some (cfg f)
  | .ite g t e => if evalGuard cfg g then evalOpt cfg t else evalOpt cfg e

/-- What can be said of a comparison for **every** configuration with the flags of `parse_styles()`: two whole styles
differ as soon as `==` looks at `is_emph` and exactly one of the two fields is flagged; a field equals itself. -/
def symCmp : Operand → Operand → Option Bool
  | .style a, .style b =>
    if a == b then (if styleEqFields.all (fun p => knownParts.contains p) then some true else none)
    else if styleEqFields.contains "is_emph" && (isEmphField a != isEmphField b) then some false
    else none
  | .part a p, .part b q =>
    if p == q && p == "is_emph" then some (isEmphField a == isEmphField b)
    else if p == q && a == b && knownParts.contains p then some true
    else none
  | _, _ => none

/-- The value of a guard that does not depend on the values of the configured styles (`none`: it may). -/
def symGuard : Guard → Option Bool
  | .eq a b => symCmp a b
  | .ne a b => (symCmp a b).map (!·)
  | .flag f p => if p == "is_emph" then some (isEmphField f) else none
  | .lit b => some b
  | .not g => (symGuard g).map (!·)
  | .and g h =>
    match symGuard g, symGuard h with
    | some false, _ => some false
    | _, some false => some false
    | some true, some true => some true
    | _, _ => none
  | .or g h =>
    match symGuard g, symGuard h with
    | some true, _ => some true
    | _, some true => some true
    | some false, some false => some false
    | _, _ => none

/-- The `Config` field an `Option<Style>` argument carries, when that does not depend on the values of the configured
styles (outer `none`: it may depend on them). -/
def symOpt : OptStyle → Option (Option String)
  | .none => some none
  | .some f => some (some f)
  | .ite g t e =>
    match symGuard g with
    | some true => symOpt t
    | some false => symOpt e
    | none => none

/-! ### `Painter::update_diff_style_sections`, generic in the type of styles -/

/-- What the loop needs of a style: its `is_emph` flag, and the comparison of `style_sections_contain_more_than_one_style`
(`true` = "counts as another style"). -/
structure Ops (σ : Type) where
  isEmph : σ → Bool
  differs : σ → σ → Bool

/-- `style_sections_contain_more_than_one_style`. -/
def moreThanOne {σ} (o : Ops σ) : List (σ × Bool) → Bool
  | [] => false
  | s :: rest => decide ((s :: rest).length > 1) && (s :: rest).any (fun x => o.differs x.1 s.1)

def unwrap {σ} (x : Option σ) : Except String σ :=
  match x with
  | some s => .ok s
  | none => .error "panic: called `Option::unwrap()` on a `None` value"

/-- The new style of one section; `isWs` = `is_whitespace_error` after the reset test of this iteration. -/
def newStyle {σ} (o : Ops σ) (ws ne : Option σ) (should mixed isWs : Bool) (sec : σ × Bool) : Except String σ :=
  if wsErrBranch isWs (o.isEmph sec.1) mixed then unwrap ws
  else if nonEmphBranch should (o.isEmph sec.1) then
    match unwrap ne with
    | .error e => .error e
    | .ok n => if nonEmphBranchWsOverride && isWs then unwrap ws else .ok n
  else .ok sec.1

/-- The loop over the sections of one line, in visiting order (a section = its style and `s.trim().is_empty()`). -/
def updateLoop {σ} (o : Ops σ) (ws ne : Option σ) (should mixed : Bool) : Bool → List (σ × Bool) → Except String (List (σ × Bool))
  | _, [] => .ok []
  | isWs, sec :: rest =>
    let isWs' := if wsErrCleared isWs sec.2 then false else isWs
    match newStyle o ws ne should mixed isWs' sec with
    | .error e => .error e
    | .ok st =>
      match updateLoop o ws ne should mixed isWs' rest with
      | .error e => .error e
      | .ok out => .ok ((st, sec.2) :: out)

/-- `update_diff_style_sections` for one line without a raw line. -/
def updateLine {σ} (o : Ops σ) (ws ne : Option σ) (homolog : Bool) (secs : List (σ × Bool)) : Except String (List (σ × Bool)) :=
  let mixed := moreThanOne o secs
  let should := shouldUpdateNonEmph ne.isSome homolog
  match updateLoop o ws ne should mixed (wsErrInitial ws.isSome) (if sectionsReversed then secs.reverse else secs) with
  | .error e => .error e
  | .ok out => .ok (if sectionsReversed then out.reverse else out)

/-- The comparison inside `style_sections_contain_more_than_one_style`, as generated: whole styles or the same part of
both, `!=` or `==`. -/
def sectionDiffers (a b : GStyle) : Bool :=
  let same := if moreThanOneStyleCmp.1 == "" && moreThanOneStyleCmp.2.2 == "" then styleEq a b
    else moreThanOneStyleCmp.1 == moreThanOneStyleCmp.2.2 && partEq moreThanOneStyleCmp.1 a b
  if moreThanOneStyleCmp.2.1 == "!=" then !same else same

/-- Real styles. -/
def gOps : Ops GStyle := ⟨(·.isEmph), sectionDiffers⟩

/-- Names of `Config` fields: the flag is the one `parse_styles()` gives the field, two names count as two styles. -/
def sOps : Ops String := ⟨isEmphField, fun a b => a != b⟩

/-! ### a removed / added line -/

inductive Side | minus | plus
deriving DecidableEq, Repr

def Side.name : Side → String
  | .minus => "Minus"
  | .plus => "Plus"

/-- `*config.get_style(state)`: the field of the sections `infer_edits` annotates as unchanged. -/
def lineField : Side → String
  | .minus => lineStyleFieldMinus
  | .plus => lineStyleFieldPlus

/-- The field `get_diff_style_sections` passes to `infer_edits` for the changed sections. -/
def emphField : Side → String
  | .minus => inferDeletionField
  | .plus => inferInsertionField

def callOf (side : Side) : Option UpdateCall := updateCalls.find? (·.side == side.name)

/-- The field of a section as `infer_edits` returns it (`e` = annotated as changed). -/
def annotatedField (side : Side) (e : Bool) : String := if e then emphField side else lineField side

/-- **The styles a removed / added line is painted with**, from the configuration: `secs` = per annotated section (is it a
changed section, is it blank), `homolog` = the line has a partner. -/
def paintedLine (cfg : Cfg) (side : Side) (homolog : Bool) (secs : List (Bool × Bool)) : Except String (List (GStyle × Bool)) :=
  match callOf side with
  | none => .error "model: no call of update_diff_style_sections for this side"
  | some c =>
    updateLine gOps (evalOpt cfg c.wsErr) (evalOpt cfg c.nonEmph) homolog
      (secs.map fun s => (cfg (annotatedField side s.1), s.2))

/-- **Which option governs each section**: the same code run on the names of the `Config` fields. No configuration
is consulted — the answer is a function of the side, of whether the line has a partner and of the annotation. If an
argument of the call depended on the values of the configured styles there would be no such function (`error`). -/
def governs (side : Side) (homolog : Bool) (secs : List (Bool × Bool)) : Except String (List (String × Bool)) :=
  match callOf side with
  | none => .error "model: no call of update_diff_style_sections for this side"
  | some c =>
    match symOpt c.wsErr, symOpt c.nonEmph with
    | some ws, some ne => updateLine sOps ws ne homolog (secs.map fun s => (annotatedField side s.1, s.2))
    | _, _ => .error "model: which style is applied depends on the values of the configured styles"

/-! ### `edits::annotate` instantiated with `Style` -/

/-- The `Config` field behind a value of the annotation type in `annotate`, per side of `infer_edits`' arguments. -/
def annotationField : String → Option String
  | "noop_deletion" => some lineStyleFieldMinus
  | "deletion" => some inferDeletionField
  | "noop_insertion" => some lineStyleFieldPlus
  | "insertion" => some inferInsertionField
  | _ => none

/-- The values a `…_op_prev` variable can hold (generated assignments). -/
def prevValues (v : String) : List String := (annotatePrevAssignments.filter (·.1 == v)).map (·.2)

end StyleGuards
