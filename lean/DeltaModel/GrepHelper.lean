/-
C16, session 4 / T23: the rows of the ripgrep output style (`--grep-output-type ripgrep`, the default for
`rg --json`) and the function-context header of the classic style. They are written by the hunk-header helper
`handlers::hunk_header::write_line_of_code_with_optional_path_and_line_number`; what grep.rs hands it at each of its
three call sites is regenerated (`Generated/GrepHelperCalls.lean`: one word per argument) and interpreted here.

`helperText` is the visible text the helper writes (label, path, number, separator, blank, painted code) — the same
function of its arguments that `Machine.hunkHeaderTextOf` is for the hunk-header call (C14), here with the arguments
as parameters (separator other than `:`, include flags given by the caller instead of `--hunk-header-style`).
Not modelled: `--color-only` (known finding C16-color-only-ripgrep-style), hyperlinks, `file_regex_replacement`,
the decoration drawn around the row (`ripgrep_header_style` / `classic_grep_header_style`: the text is the same).
-/
import DeltaModel.GrepRow
import DeltaModel.Generated.GrepHelperCalls

namespace GrepHelper

open Grep GrepRow Generated.GrepHelperCalls

/-- What of the configuration the helper's text depends on. -/
structure HCfg where
  /-- `--hunk-label` -/
  hunkLabel : Bytes
  /-- the file style handed over paints nothing (a styled empty path still writes escape sequences) -/
  filePlain : Bool
  /-- `--hunk-header-style` has `file` / `line-number` (classic function-context header only) -/
  hhFile : Bool
  hhLineNumber : Bool
  deriving Repr

/-- The grep line at a call site. `painted`: what the painter writes for `"{code} "` under the style sections
handed over (the text of the sections of the row, and whether a blank follows). -/
structure Site where
  kind : Kind
  path : List Char
  num : Option Nat
  codeEmpty : Bool
  painted : Bytes
  deriving Repr

/-- The word grep.rs passes for parameter `param` at call site `call`. -/
def argOf (call param : String) : String :=
  match calls.find? (fun c => c.1 = call) with
  | some c => (((params.zip c.2).find? (fun a => a.1 = param)).map (·.2)).getD ""
  | none => ""

/-- `write_line_of_code_with_optional_path_and_line_number` as called at `call`; `none`: nothing is written. -/
def helperText (hc : HCfg) (call : String) (s : Site) : Option Bytes :=
  let arg := argOf call
  let fragmentEmpty := if arg "code_fragment" = "code" then s.codeEmpty else true
  let lineEmpty := !(arg "include_code_fragment" = "yes" && !fragmentEmpty)
  let includeFile := arg "include_file_path" = "yes" || (arg "include_file_path" = "config" && hc.hhFile)
  let includeNumber := arg "include_line_number" = "yes" ||
    (arg "include_line_number" = "ifNumbered" && s.num.isSome) ||
    (arg "include_line_number" = "ifNumberedConfig" && s.num.isSome && hc.hhLineNumber)
  let plusNumber := if arg "line_numbers_and_hunk_lengths" = "numberOrZero" then s.num.getD 0 else 0
  let sep := if arg "file_path_separator" = "kindSeparator" then RipGrepJson.bytesOfChars s.kind.sep else []
  let file := if includeFile then RipGrepJson.bytesOfChars s.path else []
  let fwln := file ++ (if includeNumber then (if includeFile then sep else []) ++ digitsOf plusNumber else [])
  -- the Rust test is on the painted string: `format!("{n}")` is never empty, a styled empty path still writes escapes
  let fwlnPainted := includeNumber || !file.isEmpty || (includeFile && !hc.filePlain)
  if lineEmpty && !fwlnPainted then none
  else
    let label := if arg "include_hunk_label" = "yes" && !hc.hunkLabel.isEmpty then hc.hunkLabel ++ [space] else []
    let loc := if fwlnPainted then fwln ++ sep ++ (if lineEmpty then GrepRow.bytes bareTail else []) else []
    some (label ++ loc ++ (if lineEmpty then [] else s.painted))

def headerCall : String := "emit_ripgrep_format_grep_line#0"
def rowCall : String := "emit_ripgrep_format_grep_line#1"
def funcHeaderCall : String := "emit_classic_format_grep_line#0"

/-- What the painter writes for the code of a hit row: its sections, and the blank of `"{code} "` when the
sections do not cover it (`Row.code … trail`). -/
def paintedOf (secs : List (Bool × Bytes)) (trail : Bool) : Bytes :=
  secsText secs ++ (if trail then GrepRow.bytes fragmentTail else [])

/-- The visible text of a row of `Grep.emit` that is not a classic-style hit row; `none`: no line is written
(or the row is a classic-style hit row: `GrepRow.rowCells`). The order inside `emit_ripgrep_format_grep_line` —
blank line, header, `--`, then either the empty line of a hit without number and code or the helper's row — is
that of `Grep.stepHit` (`Generated.GrepHelperCalls.ripgrepOrder` pins it). -/
def rowText (hc : HCfg) : Row → Option Bytes
  | .blank => some []
  | .sep => some (GrepRow.bytes "--")
  | .raw l => some l
  | .header p =>
    helperText hc headerCall { kind := .fileHeader, path := p, num := none, codeEmpty := true, painted := [] }
  | .code none num kind secs trail =>
    if (secsText secs).isEmpty && num.isNone then some []
    else helperText hc rowCall { kind := kind, path := [], num := num, codeEmpty := (secsText secs).isEmpty,
                                 painted := paintedOf secs trail }
  | .code (some _) _ _ _ _ => none
  | .funcHeader p n t =>
    helperText hc funcHeaderCall { kind := .contextHeader, path := p, num := n, codeEmpty := t.isEmpty,
                                   painted := t ++ GrepRow.bytes fragmentTail }

/-- The texts of all rows of a stream (classic hit rows through `GrepRow.classicRow`). -/
def rowsText (rcfg : GrepRow.Cfg) (hc : HCfg) (rows : List Row) : List Bytes :=
  rows.filterMap fun r =>
    match GrepRow.rowCells rcfg r with
    | some cells => some (GrepRow.rowText cells)
    | none => rowText hc r

/-- The paths of the header rows, in order. -/
def headerPaths : List Row → List (List Char)
  | [] => []
  | .header p :: rest => p :: headerPaths rest
  | _ :: rest => headerPaths rest

/-- The first path of every group of consecutive equal paths (`prev`: the path before). -/
def groupHeads : Option (List Char) → List (List Char) → List (List Char)
  | _, [] => []
  | prev, p :: rest => (if prev = some p then [] else [p]) ++ groupHeads (some p) rest

end GrepHelper
