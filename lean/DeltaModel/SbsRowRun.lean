import DeltaModel.SbsRow
/-!
The composed side-by-side view of one hunk, from hunk lines to rows (C07, session 4 / T3):
`initialize_hunk` → for each painted block either `paint_zero_lines_side_by_side`
(`wrap_zero_block`, then both panels per row) or `paint_minus_and_plus_lines_side_by_side`
(`available_line_width`, `has_long_lines`, `wrap_minusplus_block`, then the row loop).

This file only *composes* models that exist: `LineNumbers.initializeHunk`, `SbsRow.textWidth`,
`Wrap.wrapLine` (C07's `wrap_line`), `SbsRow.blockRows` / `SbsRow.zeroRows`. Lines enter
pre-segmented (clusters with the widths the implementation computed), newline cluster included.
Styles are not tracked here (one section per line); `superimpose_style_sections` removes the
line's final newline before painting (`dropNl`).
-/
namespace SbsRow
open Wrap (G gsWidth Err)
open SideBySide (Item)
open LineNumbers (Counters Alignment)

/-- `coalesce` (paint.rs): the terminating newline of the last section is removed. -/
def dropNl (gs : List G) : List G :=
  match gs.getLast? with
  | some g => if g.s = "\n" then gs.dropLast else gs
  | none => gs

/-- The painted sections of one display row (no styles): nothing for a row without sections. -/
def rowItemsOf (row : Wrap.Row) : List Item :=
  if row.isEmpty then [] else [.text (dropNl (row.flatMap (·.2)))]

/-- `line_is_too_long` -/
def tooLong (line : List G) (lw : Nat) : Bool := decide (lw < gsWidth line)

/-- `wrap_if_too_long` for every line of one side. -/
def wrapSide (wcfg : Wrap.Cfg) (lw : Nat) (shouldWrap : Bool) : List (List G) → Except Err (List (List Wrap.Row))
  | [] => .ok []
  | line :: rest =>
    match (if shouldWrap && tooLong line lw then Wrap.wrapLine wcfg [(0, line)] lw 0 none else .ok [[(0, line)]]) with
    | .error e => .error e
    | .ok rows =>
      match wrapSide wcfg lw shouldWrap rest with
      | .error e => .error e
      | .ok more => .ok (rows :: more)

/-- A painted block of a hunk. -/
inductive Block
  | zero (line : List G) (hasBg : Bool)
  | sub (minus plus : List (List G)) (al : Alignment) (bgMinus bgPlus : Bool)

/-- `paint_minus_and_plus_lines_side_by_side` from the lines of a subhunk. -/
def subRows (cfg : Cfg) (wcfg : Wrap.Cfg) (c : Counters) (minus plus : List (List G)) (al : Alignment)
    (bgM bgP : Bool) : Except Err (Counters × List Row × List Nat × List Nat) :=
  let lwL := textWidth cfg .left
  let lwR := textWidth cfg .right
  let shouldWrap := wcfg.maxLines != Generated.SbsRow.noWrapMaxLines
    && (minus.any (tooLong · lwL) || plus.any (tooLong · lwR))
  match wrapSide wcfg lwL shouldWrap minus with
  | .error e => .error e
  | .ok rl =>
    match wrapSide wcfg lwR shouldWrap plus with
    | .error e => .error e
    | .ok rr =>
      let wl := rl.map (·.length)
      let wr := rr.map (·.length)
      let rowsL := rl.flatten.map rowItemsOf
      let rowsR := rr.flatten.map rowItemsOf
      match blockRows cfg c minus.length plus.length al wl wr [] [] rowsL rowsR
          (List.replicate rowsL.length bgM) (List.replicate rowsR.length bgP) with
      | .error e => .error e
      | .ok (c', rows) => .ok (c', rows, wl, wr)

/-- `paint_zero_lines_side_by_side` from the line. -/
def zeroLineRows (cfg : Cfg) (wcfg : Wrap.Cfg) (c : Counters) (line : List G) (hasBg : Bool) :
    Except Err (Counters × List Row) :=
  let lw := min (textWidth cfg .left) (textWidth cfg .right)
  match (if tooLong line lw then Wrap.wrapLine wcfg [(0, line)] lw 0 none else .ok [[(0, line)]]) with
  | .error e => .error e
  | .ok rows => zeroRows cfg c (rows.map rowItemsOf) hasBg

/-- A whole hunk: the rows of every block, in order. -/
def hunkRows (cfg : Cfg) (wcfg : Wrap.Cfg) (c : Counters) : List Block → Except Err (Counters × List (List Row))
  | [] => .ok (c, [])
  | b :: rest =>
    match (match b with
      | .zero line bg => zeroLineRows cfg wcfg c line bg
      | .sub minus plus al bgM bgP =>
        if minus.isEmpty && plus.isEmpty then .ok (c, [])
        else match subRows cfg wcfg c minus plus al bgM bgP with
          | .error e => .error e
          | .ok (c', rows, _, _) => .ok (c', rows)) with
    | .error e => .error e
    | .ok (c1, rows) =>
      match hunkRows cfg wcfg c1 rest with
      | .error e => .error e
      | .ok (c2, more) => .ok (c2, rows :: more)

end SbsRow
