import DeltaModel.Align
/-!
Model of /repo/src/edits.rs: `tokenize`, `annotate`, `infer_edits`, `make_lines_have_homolog`.

Text enters pre-segmented (DESIGN.md 3.1): a line is a `List G`, one `G` per extended grapheme
cluster with its display width and its "all whitespace" flag, as computed by the
implementation. The regex match spans of `find_iter` are a parameter, in cluster indices
(DESIGN.md 3.2). Offsets are therefore cluster offsets where Rust has byte offsets; slices
that would panic in Rust (`a > b` or `b > len`) are explicit errors.

The f64 test `distance <= max` is modelled on rationals (DESIGN.md 3.3): the threshold is the
decimal `p / q` the user wrote.
-/
namespace Edits
open Align Generated.Align

/-- One extended grapheme cluster: text, display width, `trim().is_empty()`. -/
structure G where
  s : List Char
  w : Nat
  ws : Bool
deriving DecidableEq, Repr

abbrev Tok := List G

/-- The text of a list of clusters. -/
def text (gs : List G) : List Char := gs.flatMap (·.s)

/-- Rust `&l[a..b]`. -/
def slice {β} (l : List β) (a b : Nat) : Except String (List β) :=
  if a ≤ b ∧ b ≤ l.length then .ok ((l.drop a).take (b - a)) else .error "slice index out of range"

/-- The `for m in regex.find_iter(line)` loop of `tokenize`; state = (offset, tokens). -/
def tokenizeLoop (line : List G) : List (Nat × Nat) → Nat → List Tok → Except String (Nat × List Tok)
  | [], offset, toks => .ok (offset, toks)
  | (s, e) :: ms, offset, toks =>
    let toks := if offset = 0 ∧ s > 0 then toks ++ [[]] else toks
    match slice line offset s, slice line s e with
    | .ok gap, .ok m => tokenizeLoop line ms e (toks ++ gap.map (fun g => [g]) ++ [m])
    | _, _ => .error "slice index out of range"

/-- `tokenize(line, regex)` with `spans` = the matches of `regex.find_iter(line)`. -/
def tokenize (line : List G) (spans : List (Nat × Nat)) : Except String (List Tok) :=
  match tokenizeLoop line spans 0 [[]] with
  | .error e => .error e
  | .ok (offset, toks) =>
    if offset < line.length then
      let toks := if offset = 0 then toks ++ [[]] else toks
      match slice line offset line.length with
      | .error e => .error e
      | .ok tail => .ok (toks ++ tail.map (fun g => [g]))
    else .ok toks

/-! ### annotate -/

abbrev Tag := Nat

structure Section where
  tag : Tag
  gs : List G
deriving DecidableEq, Repr

/-- The four annotation values passed to `annotate`. -/
structure Tags where
  noopDel : Tag
  del : Tag
  noopIns : Tag
  ins : Tag

def trimStart (gs : List G) : List G := gs.dropWhile (·.ws)
def trimEnd (gs : List G) : List G := (gs.reverse.dropWhile (·.ws)).reverse
def trim (gs : List G) : List G := trimEnd (trimStart gs)
def width (gs : List G) : Nat := (gs.map (·.w)).sum

/-- `distance_contribution`: `UnicodeWidthStr::width(section.trim())`; in the repaired source
(generated flag `nonBlankCountsAtLeastOne`) a trimmed section that is not empty counts at least 1:
`width(trimmed).max(usize::from(!trimmed.is_empty()))`. -/
def distanceContribution (sec : List G) : Nat :=
  let trimmed := trim sec
  if nonBlankCountsAtLeastOne then max (width trimmed) (if trimmed = [] then 0 else 1)
  else width trimmed

/-- `section.trim().is_empty()`. -/
def isSpace (sec : List G) : Bool := sec.all (·.ws)

/-- `s.trim_end_matches('\n')`. -/
def trimEndNewlines (gs : List G) : List G := (gs.reverse.dropWhile (fun g => g.s = ['\n'])).reverse

/-- `get_contents_before_trailing_whitespace`. -/
def contentsBeforeTrailingWhitespace (line : List G) : Option (List G) :=
  let content := trimEnd line
  if content ≠ [] ∧ content ≠ trimEndNewlines line then some content else none

/-- The sections pushed for `section` under one tag: split before trailing whitespace when
`get_contents_before_trailing_whitespace` says so (used for an unchanged run on the plus side
and for the remaining unpaired plus lines). -/
def plusSections (tag : Tag) (sec : List G) : List Section :=
  match contentsBeforeTrailingWhitespace sec with
  | some nw => [⟨tag, nw⟩, ⟨tag, sec.drop nw.length⟩]
  | none => [⟨tag, sec⟩]

/-- The `get_section` closure: `n` tokens from `substrings[substringsOffset..]`, the section
being cut out of `line` by length. Returns (section, new line offset, new substrings offset). -/
def getSection (n lineOffset substringsOffset : Nat) (substrings : List Tok) (line : List G) :
    Except String (List G × Nat × Nat) :=
  match slice substrings substringsOffset (substringsOffset + n) with
  | .error e => .error e
  | .ok toks =>
    let sectionLength := (toks.map List.length).sum
    match slice line lineOffset (lineOffset + sectionLength) with
    | .error e => .error e
    | .ok sec => .ok (sec, lineOffset + sectionLength, substringsOffset + n)

structure AState where
  xOff : Nat
  yOff : Nat
  mOff : Nat
  pOff : Nat
  numer : Nat
  denom : Nat
  mPrev : Tag
  pPrev : Tag
  am : List Section
  ap : List Section

/-- `coalesce_space_with_previous`, with Rust's short-circuit evaluation; the two
`len() - 1` are `usize` subtractions. -/
def coalesceTest (t : Tags) (isSp : Bool) (mPrev pPrev : Tag) (xOff xLen yOff yLen : Nat) :
    Except String Bool :=
  if !isSp then .ok false
  else if mPrev = t.del ∧ pPrev = t.ins then
    if xLen = 0 then .error "attempt to subtract with overflow"
    else if xOff < xLen - 1 then .ok true
    else if yLen = 0 then .error "attempt to subtract with overflow"
    else if yOff < yLen - 1 then .ok true
    else .ok (decide (mPrev = t.noopDel ∧ pPrev = t.noopIns))
  else .ok (decide (mPrev = t.noopDel ∧ pPrev = t.noopIns))

/-- One iteration of `for (op, n) in alignment.coalesced_operations()`. -/
def annotateStep (t : Tags) (x y : List Tok) (mline pline : List G) (st : AState) :
    Op × Nat → Except String AState
  | (.deletion, n) =>
    match getSection n st.mOff st.xOff x mline with
    | .error e => .error e
    | .ok (sec, mOff, xOff) =>
      let nd := distanceContribution sec
      .ok { st with mOff := mOff, xOff := xOff, denom := st.denom + nd, numer := st.numer + nd,
                    am := st.am ++ [⟨t.del, sec⟩], mPrev := t.del }
  | (.noOp, n) =>
    match getSection n st.mOff st.xOff x mline with
    | .error e => .error e
    | .ok (msec, mOff, xOff) =>
      let nd := distanceContribution msec
      match coalesceTest t (isSpace msec) st.mPrev st.pPrev xOff x.length st.yOff y.length with
      | .error e => .error e
      | .ok co =>
        let mtag := if co then st.mPrev else t.noopDel
        let ptag := if co then st.pPrev else t.noopIns
        match getSection n st.pOff st.yOff y pline with
        | .error e => .error e
        | .ok (psec, pOff, yOff) =>
          let psecs := plusSections ptag psec
          .ok { st with mOff := mOff, xOff := xOff, pOff := pOff, yOff := yOff,
                        denom := st.denom + noopDenomWeight * nd,
                        am := st.am ++ [⟨mtag, msec⟩], ap := st.ap ++ psecs,
                        mPrev := t.noopDel, pPrev := t.noopIns }
  | (.insertion, n) =>
    match getSection n st.pOff st.yOff y pline with
    | .error e => .error e
    | .ok (sec, pOff, yOff) =>
      let nd := distanceContribution sec
      .ok { st with pOff := pOff, yOff := yOff, denom := st.denom + nd, numer := st.numer + nd,
                    ap := st.ap ++ [⟨t.ins, sec⟩], pPrev := t.ins }

def annotateLoop (t : Tags) (x y : List Tok) (mline pline : List G) :
    List (Op × Nat) → AState → Except String AState
  | [], st => .ok st
  | r :: rs, st =>
    match annotateStep t x y mline pline st r with
    | .error e => .error e
    | .ok st' => annotateLoop t x y mline pline rs st'

structure Annotated where
  minus : List Section
  plus : List Section
  numer : Nat
  denom : Nat

def initState (t : Tags) : AState :=
  { xOff := 0, yOff := 0, mOff := 0, pOff := 0, numer := 0, denom := 0,
    mPrev := t.noopDel, pPrev := t.noopIns, am := [], ap := [] }

/-- `annotate(alignment, …)` given the alignment's token vectors and coalesced operations.
The distance is returned as `numer / denom` (`compute_distance`: 0 when `denom = 0`). -/
def annotateOps (t : Tags) (x y : List Tok) (runs : List (Op × Nat)) (mline pline : List G) :
    Except String Annotated :=
  match annotateLoop t x y mline pline runs (initState t) with
  | .error e => .error e
  | .ok st => .ok ⟨st.am, st.ap, st.numer, st.denom⟩

/-- A line as the model sees it: clusters and the tokenisation regex's match spans. -/
structure Line where
  gs : List G
  spans : List (Nat × Nat)

/-- Token equality in `Alignment::fill` is `&str` equality: compare the token texts. -/
def tokTexts (toks : List Tok) : List (List Char) := toks.map text

/-- `annotate(Alignment::new(tokenize(minus), tokenize(plus)), …)` as `infer_edits` calls it. -/
def annotatePair (t : Tags) (m p : Line) : Except String Annotated :=
  match tokenize m.gs m.spans, tokenize p.gs p.spans with
  | .ok x, .ok y =>
    match coalescedOperations (tokTexts x) (tokTexts y) with
    | .error e => .error e
    | .ok runs => annotateOps t x y runs m.gs p.gs
  | _, _ => .error "slice index out of range"

/-! ### infer_edits -/

/-- `distance <= p/q` (or `<` when `strict`), `distance = compute_distance(numer, denom)`. -/
def distanceWithin (strict : Bool) (numer denom p q : Nat) : Bool :=
  if denom > 0 then
    (if strict then decide (numer * q < p * denom) else decide (numer * q ≤ p * denom))
  else
    (if strict then decide (0 < p) else true)

structure Cfg where
  del : Tag
  ins : Tag
  maxNum : Nat
  maxDen : Nat
  naiveNum : Nat
  naiveDen : Nat

/-- The pairing test of `infer_edits`. -/
def isHomologousPair (cfg : Cfg) (sameLen : Bool) (numer denom : Nat) : Bool :=
  (sameLen && distanceWithin naiveTestStrict numer denom cfg.naiveNum cfg.naiveDen)
    || distanceWithin maxTestStrict numer denom cfg.maxNum cfg.maxDen

/-- The inner loop `for plus_line in &plus_lines[plus_index..]`: the first candidate that
passes the test, with the number of candidates rejected before it. `noopDel`/`noopIns` are
`noop_deletions[minus_index]` / `noop_insertions[plus_index]` (`none`: index out of range). -/
def findHomolog (cfg : Cfg) (sameLen : Bool) (m : Line) (noopDel noopIns : Option Tag) :
    List Line → Nat → Except String (Option (Nat × Annotated))
  | [], _ => .ok none
  | p :: rest, considered =>
    match noopDel, noopIns with
    | some nd, some ni =>
      match annotatePair ⟨nd, cfg.del, ni, cfg.ins⟩ m p with
      | .error e => .error e
      | .ok a =>
        if isHomologousPair cfg sameLen a.numer a.denom then .ok (some (considered, a))
        else findHomolog cfg sameLen m noopDel noopIns rest (considered + 1)
    | _, _ => .error "index out of bounds"

structure IState where
  plusIndex : Nat
  am : List (List Section)
  ap : List (List Section)
  al : List (Option Nat × Option Nat)
  /-- ghost: (minus index, plus index, numer, denom) of every pair made -/
  dists : List (Nat × Nat × Nat × Nat)

/-- "Emit as unpaired the plus lines already considered and rejected". -/
def emitRejected (plus : List Line) (noopInss : List Tag) : Nat → IState → Except String IState
  | 0, st => .ok st
  | k + 1, st =>
    match plus[st.plusIndex]?, noopInss[st.plusIndex]? with
    | some pl, some ni =>
      emitRejected plus noopInss k
        { st with ap := st.ap ++ [[⟨ni, pl.gs⟩]], al := st.al ++ [(none, some st.plusIndex)],
                  plusIndex := st.plusIndex + 1 }
    | _, _ => .error "index out of bounds"

/-- The `'minus_lines_loop`. -/
def minusLoop (cfg : Cfg) (sameLen : Bool) (plus : List Line) (noopDels noopInss : List Tag) :
    List Line → Nat → IState → Except String IState
  | [], _, st => .ok st
  | m :: rest, mi, st =>
    if st.plusIndex > plus.length then .error "slice index out of range"
    else
      match findHomolog cfg sameLen m noopDels[mi]? noopInss[st.plusIndex]? (plus.drop st.plusIndex) 0 with
      | .error e => .error e
      | .ok none =>
        match noopDels[mi]? with
        | none => .error "index out of bounds"
        | some nd =>
          minusLoop cfg sameLen plus noopDels noopInss rest (mi + 1)
            { st with am := st.am ++ [[⟨nd, m.gs⟩]], al := st.al ++ [(some mi, none)] }
      | .ok (some (considered, a)) =>
        match emitRejected plus noopInss considered st with
        | .error e => .error e
        | .ok st' =>
          minusLoop cfg sameLen plus noopDels noopInss rest (mi + 1)
            { st' with am := st'.am ++ [a.minus], ap := st'.ap ++ [a.plus],
                       al := st'.al ++ [(some mi, some st'.plusIndex)],
                       plusIndex := st'.plusIndex + 1,
                       dists := st'.dists ++ [(mi, st'.plusIndex, a.numer, a.denom)] }

/-- "Emit any remaining plus lines". -/
def emitRemaining (noopInss : List Tag) : List Line → IState → Except String IState
  | [], st => .ok st
  | pl :: rest, st =>
    match noopInss[st.plusIndex]? with
    | none => .error "index out of bounds"
    | some ni =>
      let secs := plusSections ni pl.gs
      emitRemaining noopInss rest
        { st with ap := st.ap ++ [secs], al := st.al ++ [(none, some st.plusIndex)],
                  plusIndex := st.plusIndex + 1 }

structure Inferred where
  minus : List (List Section)
  plus : List (List Section)
  alignment : List (Option Nat × Option Nat)
  dists : List (Nat × Nat × Nat × Nat)

/-- `infer_edits`. -/
def inferEdits (cfg : Cfg) (minus plus : List Line) (noopDels noopInss : List Tag) :
    Except String Inferred :=
  match minusLoop cfg (decide (minus.length = plus.length)) plus noopDels noopInss minus 0
      ⟨0, [], [], [], []⟩ with
  | .error e => .error e
  | .ok st =>
    if st.plusIndex > plus.length then .error "slice index out of range"
    else
      match emitRemaining noopInss (plus.drop st.plusIndex) st with
      | .error e => .error e
      | .ok st => .ok ⟨st.am, st.ap, st.al, st.dists⟩

/-- `make_lines_have_homolog`. -/
def makeLinesHaveHomolog (al : List (Option Nat × Option Nat)) : List Bool × List Bool :=
  ((al.filter (fun e => e.1.isSome)).map (fun e => e.2.isSome),
   (al.filter (fun e => e.2.isSome)).map (fun e => e.1.isSome))

end Edits
