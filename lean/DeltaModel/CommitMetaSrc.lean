import DeltaModel.Machine
import DeltaModel.Generated.CommitMeta
/-!
`handle_commit_meta_header_line` (/repo/src/handlers/commit_meta.rs) executed *from its source*: an interpreter for
the statement lists that the extractor regenerates (`Generated.CommitMeta.body`, `inner`) over the state of the machine
model.

Every statement has one meaning here; a statement the interpreter does not know (`unknown`), a guard on another
predicate, a state it has no counterpart for, a call of another function, or a body that does not end in its tail
expression makes the run `none`. `C14.commit_meta_handler_follows_source` (Props/C14.lean) states that the run over
the generated lists is `Machine.handleCommitMeta` — the hand-written function the model driver executes and the
whole-run theorems (`one_file_header_per_section_log`) are about — for every configuration, state and line. That the
file header still owed to the section before the commit line is written (`handle_pending_line_with_diff_name()?`), that
this happens before the state changes, and that the state changes whether or not the commit style is one delta draws
itself (`self.state = State::CommitMeta;` stands before the `should_handle` test) are part of the list: dropping,
moving or reordering these statements in the Rust function breaks that theorem instead of silently leaving the model
behind.
-/
namespace CommitMetaSrc
open Headers Machine Generated Generated.CommitMeta

/-- the states the handler assigns -/
def stateOf : String → Option State
  | "CommitMeta" => some .commitMeta
  | _ => none

/-- `_handle_commit_meta_header_line` on line `l`, input index `n`; the flag says "returned" -/
def execDraw (cfg : Cfg) (l : L) (n : Nat) : List Draw → M → Option M
  | [], m => some m
  | .returnIfOmittedNotColorOnly :: rest, m =>
    if cfg.commitStyle.isOmitted ∧ ¬ cfg.colorOnly then some m else execDraw cfg l n rest m
  | .drawCommitLine :: rest, m => execDraw cfg l n rest (direct m (drawRows cfg.commitStyle .commit l.text l.raw [] n))
  | .unknown _ :: _, _ => none

/-- the block of `if self.should_handle() { … }`: machine and the variable `handled_line` -/
def execInner (cfg : Cfg) (l : L) (n : Nat) : List Inner → M → Bool → Option (M × Bool)
  | [], m, h => some (m, h)
  | .emit :: rest, m, h => execInner cfg l n rest (Machine.emit m) h
  | .call f :: rest, m, h =>
    if f = innerName then
      match execDraw cfg l n inner m with
      | some m' => execInner cfg l n rest m' h
      | none => none
    else none
  | .setHandled b :: rest, m, _ => execInner cfg l n rest m b
  | .unknown _ :: _, _, _ => none

/-- the statements in source order; `none` = a construct without a meaning here -/
def exec (cfg : Cfg) (l : L) (n : Nat) : List Stmt → M → Bool → Option (Except String (Bool × M))
  | [], _, _ => none
  | .declineUnless t :: rest, m, h =>
    if t = testName then
      if testIsCommitRegex then
        if !l.commitRe then some (.ok (false, m)) else exec cfg l n rest m h
      else none
    else none
  | .letHandled b :: rest, m, _ => exec cfg l n rest m b
  | .paintBuffered :: rest, m, h => exec cfg l n rest (flushMP m) h
  | .emit :: rest, m, h => exec cfg l n rest (Machine.emit m) h
  | .pendingDiffName :: rest, m, h => exec cfg l n rest (pendingDiffName cfg m) h
  | .setState s :: rest, m, h =>
    match stateOf s with
    | some st => exec cfg l n rest { m with st := st } h
    | none => none
  | .ifShouldHandle blk :: rest, m, h =>
    if shouldHandle cfg m then
      match execInner cfg l n blk m h with
      | some (m', h') => exec cfg l n rest m' h'
      | none => none
    else exec cfg l n rest m h
  | .returnHandled :: rest, m, h => if rest.isEmpty then some (.ok (h, m)) else none
  | .unknown _ :: _, _, _ => none

/-- `handle_commit_meta_header_line` as the source has it (`handled_line` starts undefined: `false`) -/
def handleCommitMetaSrc (cfg : Cfg) (m : M) (l : L) : Option (Except String (Bool × M)) :=
  exec cfg l m.n body m false

end CommitMetaSrc
