/-
Model of /repo/src/utils/tabs.rs.

A line is a list of Unicode scalar values (`List Char`); grapheme segmentation, when it
matters (non-ASCII prefix), is a parameter supplied by the caller.
-/
namespace Text

/-- `TabCfg::new(width)`: the replacement is `width` spaces. -/
def replacement (width : Nat) : List Char := List.replicate width ' '

/-- `tabs::expand`: every TAB becomes `width` spaces; width 0 leaves the line alone. -/
def expand (width : Nat) (line : List Char) : List Char :=
  if width = 0 then line
  else line.flatMap fun c => if c = '\t' then replacement width else [c]

/-- `tabs::remove_prefix_and_expand` on the ASCII-prefix path: drop `prefix` chars. -/
def removePrefixAndExpand (pre width : Nat) (line : List Char) : List Char :=
  expand width (line.drop pre)

end Text
