import DeltaModel.Sgr
import DeltaModel.Generated.IngestSteps
/-!
## `raw_line` after `StateMachine::ingest_line_utf8` (`src/delta.rs`), on a line given as items

What every raw output path (`emit_line_unchanged`, raw commit / file / hunk-header styles, raw hunk
lines, `\ No newline` lines, relativized diff-stat lines, `--color-only`) prints is `self.raw_line`,
and `ingest_line_utf8` is the only place that makes it from the input line:

1. `self.raw_line = raw_line` (the input line);
2. the CR step (`Line.crStep`): the last `\r` is removed when nothing visible follows it;
3. when the `--max-line-length` guard holds: `ansi::truncate_str(&self.raw_line, max_line_length,
   &truncation_symbol)` — of the **whole** line (`Line.truncate … (some ' ')`);
4. `self.line = strip_ansi_codes(&self.raw_line)`.

The statements of the function that write a field, their order, what each value is computed from
and the absence of any other statement are regenerated from the source on every run
(`Generated.IngestSteps`, `tools/extractors/ingeststeps.py`) and compared with the form modelled
here (`modelledIngestWrites`); so are `ingest_line`, the call sites (what the function is given) and
`emit_line_unchanged` (the pass-through path that prints `raw_line`; the other raw paths live in the
handlers and are covered by the binary oracle of `vlib/props/c09.py` only).
The guard and the CR test themselves are opaque Booleans here: C09 needs nothing of them (they are
generated for C04 in `Generated/Ingest.lean`).
-/
namespace Line

/-- The field assignments of `ingest_line_utf8` as modelled by `ingestRaw`: (field, guard path,
value). Row 3 is the point: `truncate_str` is given `&self.raw_line`, the whole line. -/
def modelledIngestWrites : List (String × String × String) :=
  [("self.raw_line", "", "raw_line"),
   ("self.raw_line", "if let Some(cr_index) = self.raw_line.rfind('\\r') / if _",
    "format!(\"{}{}\", &self.raw_line[..cr_index], &self.raw_line[cr_index + 1..])"),
   ("self.raw_line", "if _",
    "ansi::truncate_str(&self.raw_line, self.config.max_line_length, &self.config.truncation_symbol).to_string()"),
   ("self.line", "", "ansi::strip_ansi_codes(&self.raw_line)")]

/-- `ingest_line`: the line is handed to `ingest_line_utf8` whole (as it is, or lossily converted). -/
def modelledIngestLine : List String :=
  ["match String::from_utf8(raw_line_bytes.to_vec()) { Ok(utf8) => self.ingest_line_utf8(utf8), " ++
   "Err(_) => self.ingest_line_utf8(String::from_utf8_lossy(raw_line_bytes).into_owned()), }"]

/-- `emit_line_unchanged`, the pass-through path: flush, then one `writeln!` of `raw_line` as a whole
(`format_raw_line` = the line itself, or with the commit hash hyperlinked when `--hyperlinks` is on and
stdout is a terminal: C19). -/
def modelledEmitUnchanged : List String :=
  ["self.painter.paint_buffered_minus_and_plus_lines()",
   "self.painter.emit()?",
   "writeln!(self.painter.writer, \"{}\", format_raw_line(&self.raw_line, self.config))?",
   "let handled_line = true",
   "Ok(handled_line)"]

/-- The source has exactly the modelled statements. -/
def ingestStepsAsModelled : Bool :=
  Generated.IngestSteps.writes == modelledIngestWrites && Generated.IngestSteps.others == [] &&
  Generated.IngestSteps.ingestLineWrites == [] && Generated.IngestSteps.ingestLineOthers == modelledIngestLine &&
  Generated.IngestSteps.ingestLineCalls == ["raw_line_bytes"] &&
  Generated.IngestSteps.ingestLineUtf8Calls == ["utf8", "String::from_utf8_lossy(raw_line_bytes).into_owned()"] &&
  Generated.IngestSteps.emitUnchangedWrites == [] && Generated.IngestSteps.emitUnchangedOthers == modelledEmitUnchanged

/-- `raw_line` after `ingest_line_utf8`. `tailZeroWidth` = the CR test, `truncates` = the guard of
the truncation (both from the implementation), `sym` = `config.truncation_symbol` as items, `items` =
the partition of the CR-processed line (`crStep tailZeroWidth line`) into text and escape
sequences that `truncate_str` works on. `none` = a `debug_assert!` of the truncation fires. -/
def ingestRaw (tailZeroWidth truncates : Bool) (maxLen : Nat) (sym : List Item) (line : List Char)
    (items : List Item) : Option (List Char) :=
  if truncates then (truncate maxLen sym (some ' ') items).map flatten
  else some (crStep tailZeroWidth line)

end Line
