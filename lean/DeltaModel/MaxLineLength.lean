import DeltaModel.SideBySide
import DeltaModel.Generated.WrapMaxLineLength
import DeltaModel.Generated.Ingest
/-!
How long an input line may be before `StateMachine::ingest_line_utf8` (`/repo/src/delta.rs`) cuts it,
in side-by-side mode — i.e. *before anything is wrapped*.

`Config::max_line_length` is not the `--max-line-length` option there: `Config::from`
(`/repo/src/config.rs`) passes the option through `WrapConfig::config_max_line_length`
(`/repo/src/wrapping.rs`), whose `match` arms are **translated from the source**
(`Generated.configMaxLineLength`, `Generated.configMaxLen`; extractor
`tools/extractors/wrap_maxlen.py`). The guard of the truncation in `ingest_line_utf8` is the one the
C04/C08 model uses (`Generated.truncGuard`, extractor `ansi.py`), `truncate_str` is C07's own
item-level model (`SideBySide.truncateStr`). Core Lean only.
-/
namespace MaxLen
open SideBySide
open Wrap (Err)

/-- `adapt_wrap_max_lines_argument`: `WrapConfig.max_lines` for a `--wrap-max-lines` argument;
`none` = `unlimited` / `∞` / `inf…`; a number `n`: what the source does with it (`n + 1` as pinned,
`n.saturating_add(1)` with notes/fix-wrap-max-lines-overflow.diff — `Generated.wrapMaxLinesOfNumber`). -/
def maxLinesOfArg : Option Nat → Nat
  | none => Generated.wrapMaxLinesUnlimited
  | some n => Generated.wrapMaxLinesOfNumber n

/-- `Config::max_line_length` as a function of the options `--side-by-side`, `--wrap-max-lines`,
`--max-line-length`, of the terminal width (`opt.computed.available_terminal_width`) and of
`opt.computed.decorations_width` (`fixedWidth = some N` for `--width N`; without `--width` it is
`some (terminal width)`; `none` for `--width variable`). -/
def configMaxLen (sideBySide : Bool) (wrapMaxLines : Option Nat) (optMaxLineLength termWidth : Nat)
    (fixedWidth : Option Nat) : Nat :=
  Generated.configMaxLen sideBySide (maxLinesOfArg wrapMaxLines) optMaxLineLength termWidth fixedWidth

/-- The width the panes of the formula are half of. On the code as pinned: the terminal width, whatever
`--width` says (`Generated.maxLenUsesViewWidth = false`). -/
def formulaWidth (termWidth : Nat) (fixedWidth : Option Nat) : Nat :=
  Generated.maxLenWidthArg termWidth fixedWidth

/-- The width the panels are derived from (`SideBySideData::new_sbs`). -/
def viewWidth (termWidth : Nat) : Option Nat → Nat
  | some w => w
  | none => termWidth

/-- The truncation step of `ingest_line_utf8`: `raw` = the items of `raw_line` after the `\r` step,
`len` = its length in bytes, `startsWith p` = `raw_line.starts_with(p)`, `tail` = the truncation symbol.
(`truncate_str` leaves a line that fits in `maxLen` columns as it is: `SideBySide.truncateImplF`.) -/
def ingestTrunc (maxLen len : Nat) (startsWith : List UInt8 → Bool) (raw tail : List Item) :
    Except Err (List Item) :=
  if Generated.truncGuard maxLen len startsWith then truncateStr raw maxLen tail else .ok raw

/-- Text columns that `rows` rows of line width `lw` can hold when the line is wrapped: every row
but the last ends with the one-column wrap symbol. -/
def rowsCapacity (rows lw : Nat) : Nat := rows * (lw - 1) + 1

end MaxLen
