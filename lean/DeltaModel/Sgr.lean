import DeltaModel.Generated.StyleTables
/-!
Model of the `ansi_term` 0.12.1 rendering that delta uses for every piece of styled text:

* `Style` (`style.rs`), `write_prefix` / `write_suffix` / `RESET` (`ansi.rs`),
* `Difference::between` (`difference.rs`),
* `ANSIString` (`paint`) and `ANSIStrings` (`display.rs`, `write_to_any`).

The SGR code tables are *generated* from the locked crate source
(`Generated.StyleTables.sgrAttrCodes`, `sgrFgNamed`, …); this file only gives them types.
Text is `List Char`. Core Lean only.
-/
namespace Sgr
open Generated.StyleTables

/-- The eight boolean fields of `ansi_term::Style`, in declaration order. -/
inductive Attr where
  | bold | dimmed | italic | underline | blink | reverse | hidden | strike
  deriving DecidableEq, Repr

def Attr.all : List Attr :=
  [.bold, .dimmed, .italic, .underline, .blink, .reverse, .hidden, .strike]

/-- Field name of `ansi_term::Style` → attribute. -/
def Attr.ofField : String → Option Attr
  | "is_bold" => some .bold
  | "is_dimmed" => some .dimmed
  | "is_italic" => some .italic
  | "is_underline" => some .underline
  | "is_blink" => some .blink
  | "is_reverse" => some .reverse
  | "is_hidden" => some .hidden
  | "is_strikethrough" => some .strike
  | _ => none

/-- `ansi_term::Colour`. `basic n` is the n-th of `Black … White` (n < 8), i.e. the variant
`Generated.StyleTables.toAnsiBasic[n]`; components are `u8` in Rust, `Nat` here. -/
inductive Color where
  | basic (n : Nat)
  | fixed (n : Nat)
  | rgb (r g b : Nat)
  deriving DecidableEq, Repr

/-- `ansi_term::Style`. -/
structure Style where
  fg : Option Color := none
  bg : Option Color := none
  bold : Bool := false
  dimmed : Bool := false
  italic : Bool := false
  underline : Bool := false
  blink : Bool := false
  reverse : Bool := false
  hidden : Bool := false
  strike : Bool := false
  deriving DecidableEq, Repr

def Style.get (s : Style) : Attr → Bool
  | .bold => s.bold
  | .dimmed => s.dimmed
  | .italic => s.italic
  | .underline => s.underline
  | .blink => s.blink
  | .reverse => s.reverse
  | .hidden => s.hidden
  | .strike => s.strike

def Style.set (s : Style) (a : Attr) (v : Bool) : Style :=
  match a with
  | .bold => { s with bold := v }
  | .dimmed => { s with dimmed := v }
  | .italic => { s with italic := v }
  | .underline => { s with underline := v }
  | .blink => { s with blink := v }
  | .reverse => { s with reverse := v }
  | .hidden => { s with hidden := v }
  | .strike => { s with strike := v }

/-- `Style::is_plain`: equal to `Style::default()`. -/
def Style.isPlain (s : Style) : Bool := decide (s = {})

/-! ### Decimal numbers as written by `write!(f, "{}", n)` -/

def digitChar (d : Nat) : Char := Char.ofNat (48 + d)

/-- Decimal digits, most significant first; `fuel` bounds the number of digits (structural
recursion so that the kernel can evaluate it; `digits` supplies enough fuel). -/
def digitsAux : Nat → Nat → List Char
  | 0, n => [digitChar (n % 10)]
  | fuel + 1, n => if n < 10 then [digitChar n] else digitsAux fuel (n / 10) ++ [digitChar (n % 10)]

def digits (n : Nat) : List Char := digitsAux n n

def joinWith (sep : Char) : List (List Char) → List Char
  | [] => []
  | [x] => x
  | x :: y :: rest => x ++ sep :: joinWith sep (y :: rest)

/-- `ESC [ p1 ; p2 ; … final`. -/
def csi (params : List Nat) (final : Char) : List Char :=
  '\x1b' :: '[' :: (joinWith ';' (params.map digits) ++ [final])

/-! ### Typed views of the generated tables -/

/-- `write_prefix`: attribute → SGR code, in emission order. -/
def attrCodes : List (Attr × Nat) :=
  sgrAttrCodes.filterMap fun (f, c) => (Attr.ofField f).map fun a => (a, c)

/-- Code of the n-th basic colour in a `write_*_code` table. -/
def namedCode (table : List (String × Nat)) (n : Nat) : Option Nat :=
  (toAnsiBasic[n]?).bind fun v => table.lookup v

/-- `Colour::write_foreground_code` / `write_background_code` as SGR parameters.
A `basic n` with n ≥ 8 is not a value of the Rust type; it renders as nothing. -/
def colorParams (named : List (String × Nat)) (fixed rgb : List Nat) : Color → List Nat
  | .basic n => match namedCode named n with
    | some c => [c]
    | none => []
  | .fixed n => fixed ++ [n]
  | .rgb r g b => rgb ++ [r, g, b]

def fgParams : Color → List Nat := colorParams sgrFgNamed sgrFgFixed sgrFgRgb
def bgParams : Color → List Nat := colorParams sgrBgNamed sgrBgFixed sgrBgRgb

def attrCmds (s : Style) : List (List Nat) :=
  attrCodes.filterMap fun (a, c) => if s.get a then some [c] else none

def layerCmds (s : Style) : String → List (List Nat)
  | "background" => match s.bg with
    | some c => [bgParams c]
    | none => []
  | "foreground" => match s.fg with
    | some c => [fgParams c]
    | none => []
  | _ => []

/-- The SGR commands of `write_prefix`, one parameter group per attribute / colour. -/
def prefixCmds (s : Style) : List (List Nat) :=
  attrCmds s ++ sgrColorOrder.flatMap (layerCmds s)

/-- `Style::write_prefix` (named `pre` because `prefix` is a Lean keyword). -/
def pre (s : Style) : List Char :=
  if s.isPlain then [] else csi (prefixCmds s).flatten 'm'

/-- `ansi_term::ansi::RESET`. -/
def reset : List Char := sgrReset.toList

/-- `Style::write_suffix`. -/
def suf (s : Style) : List Char := if s.isPlain then [] else reset

/-- `ANSIString` display: `style.paint(text).to_string()`. -/
def paint (s : Style) (text : List Char) : List Char := pre s ++ text ++ suf s

/-! ### `Difference::between` -/

inductive Difference where
  | extra (s : Style)
  | reset
  | none
  deriving DecidableEq, Repr

def resetAttrs : List Attr := betweenResetAttrs.filterMap Attr.ofField
def extraAttrs : List Attr := betweenExtraAttrs.filterMap Attr.ofField

def between (first next : Style) : Difference :=
  if first = next then .none
  else if resetAttrs.any fun a => first.get a && !next.get a then .reset
  else if first.fg.isSome && next.fg.isNone then .reset
  else if first.bg.isSome && next.bg.isNone then .reset
  else
    let e : Style := extraAttrs.foldl
      (fun acc a => if first.get a != next.get a then acc.set a true else acc) {}
    .extra { e with fg := if first.fg != next.fg then next.fg else none,
                    bg := if first.bg != next.bg then next.bg else none }

/-- What `ANSIStrings::write_to_any` writes between two adjacent strings. -/
def inf (prev next : Style) : List Char :=
  match between prev next with
  | .extra e => pre e
  | .reset => reset ++ pre next
  | .none => []

/-- `ANSIStrings::write_to_any` after the first string: `prev` is the style of the string
just written. The final RESET is omitted when the last style is plain. -/
def renderTail (prev : Style) : List (Style × List Char) → List Char
  | [] => if prev.isPlain then [] else reset
  | (s, t) :: rest => inf prev s ++ t ++ renderTail s rest

/-- `ansi_term::ANSIStrings(&[...]).to_string()`. -/
def renderStrings : List (Style × List Char) → List Char
  | [] => []
  | (s, t) :: rest => pre s ++ t ++ renderTail s rest

end Sgr

/-!
## Line transformers

`Painter::right_fill_background_color`, `Painter::mark_empty_line`, the space fill of
`paint_lines` (`src/paint.rs`); `format_osc8_hyperlink` (`src/features/hyperlinks.rs`);
`truncate_str_impl` (`src/ansi/mod.rs`) and `pad_panel_line_to_width`
(`src/features/side_by_side.rs`) on a line given as *items* — the partition into text and
escape sequences that `ansi_strings_iterator` yields, text pre-segmented into grapheme clusters
with their display widths (DESIGN.md 3.1).
-/
namespace Line
open Generated.StyleTables

/-- delta's `ANSI_SGR_RESET`, `ANSI_CSI_CLEAR_TO_EOL`, `ANSI_CSI_CLEAR_TO_BOL`. -/
def sgrReset : List Char := ansiSgrReset.toList
def clearToEol : List Char := ansiClearToEol.toList
def clearToBol : List Char := ansiClearToBol.toList

def asciiLower (l : List Char) : List Char := l.map Char.toLower

/-- `Painter::right_fill_background_color(line, fill_style)`: append the painted empty string,
strip a trailing (case-insensitively matched) RESET, append clear-to-EOL and RESET. -/
def rightFill (line : List Char) (fill : Sgr.Style) : List Char :=
  let l1 := line ++ Sgr.renderStrings [(fill, [])]
  let l2 := if (asciiLower sgrReset).isSuffixOf (asciiLower l1)
            then l1.take (l1.length - sgrReset.length) else l1
  l2 ++ clearToEol ++ sgrReset

/-- `Painter::mark_empty_line(style, line, marker)`. -/
def markEmpty (line : List Char) (st : Sgr.Style) (marker : Option (List Char)) : List Char :=
  line ++ Sgr.paint st (marker.getD clearToBol)

/-- The `BgFillMethod::Spaces` branch: `fill_style.paint(" ".repeat(n))` appended. -/
def spacesFill (line : List Char) (st : Sgr.Style) (n : Nat) : List Char :=
  line ++ Sgr.paint st (List.replicate n ' ')

/-- `format_osc8_hyperlink(url, text)`. -/
def link (url text : List Char) : List Char :=
  osc8Before.toList ++ url ++ osc8Middle.toList ++ text ++ osc8After.toList

/-- A grapheme cluster with its display width. -/
structure G where
  s : List Char
  w : Nat
  deriving DecidableEq, Repr

inductive Item where
  | text (gs : List G)
  | esc (s : List Char)
  deriving DecidableEq, Repr

def Item.chars : Item → List Char
  | .text gs => gs.flatMap fun g => g.s
  | .esc s => s

def Item.width : Item → Nat
  | .text gs => (gs.map fun g => g.w).sum
  | .esc _ => 0

def flatten (items : List Item) : List Char := items.flatMap Item.chars
def width (items : List Item) : Nat := (items.map Item.width).sum

/-- The inner `for g in t.graphemes(true)` loop of `truncate_str_impl`, from `used` columns.
Returns the clusters pushed, the new `used`, and whether a cluster did not fit (the loop was left
by `break`). The fill character has width 1 and does *not* advance `used`. A cluster wider than 2
columns that does not fit: the fallback pushes the fill character `display_width.saturating_sub(used)`
times — since fix d6cf9d0; before it (`truncateAssertsWideCluster`, generated) a `debug_assert!` stood
in front of the fallback: `none` (dev profile). -/
def truncText (dw : Nat) (fill : Option Char) : Nat → List G → Option (List G × Nat × Bool)
  | used, [] => some ([], used, false)
  | used, g :: gs =>
    if used + g.w > dw then
      match fill with
      | some f =>
        if g.w = 2 ∧ used < dw then some ([⟨[f], 1⟩], used, true)
        else if g.w > 2 then
          if truncateAssertsWideCluster then none
          else some (List.replicate (dw - used) ⟨[f], 1⟩, used, true)
        else some ([], used, true)
      | none => some ([], used, true)
    else
      match truncText dw fill (used + g.w) gs with
      | some (r, u, c) => some (g :: r, u, c)
      | none => none

/-- The outer `for (t, is_ansi) in items` loop: escape sequences are copied whole. `cut` is the
`truncated` flag: in the current source (`truncateStopsAfterCut`, generated) a text item after
the first cut contributes nothing; in the older form every later text item is tried again. -/
def truncGo (dw : Nat) (fill : Option Char) : Bool → Nat → List Item → Option (List Item)
  | _, _, [] => some []
  | cut, used, .esc s :: rest => (truncGo dw fill cut used rest).map fun r => .esc s :: r
  | cut, used, .text gs :: rest =>
    if cut && truncateStopsAfterCut then
      (truncGo dw fill cut used rest).map fun r => .text [] :: r
    else
      match truncText dw fill used gs with
      | none => none
      | some (kept, used', c) => (truncGo dw fill (cut || c) used' rest).map fun r => .text kept :: r

/-- `truncate_str_impl(s, dw, "", fill2w)`. -/
def truncNoTail (dw : Nat) (fill : Option Char) (items : List Item) : Option (List Item) :=
  if width items ≤ dw then some items else truncGo dw fill false 0 items

/-- `truncate_str_impl(s, dw, tail, fill2w)`. -/
def truncate (dw : Nat) (tail : List Item) (fill : Option Char) (items : List Item) :
    Option (List Item) :=
  if width items ≤ dw then some items
  else
    match truncNoTail dw fill tail with
    | none => none
    | some rt => (truncGo dw fill false (width rt) items).map fun r => r ++ rt

/-- `style.paint(text)` as items. -/
def paintItems (st : Sgr.Style) (gs : List G) : List Item :=
  if st.isPlain then [.text gs] else [.esc (Sgr.pre st), .text gs, .esc Sgr.reset]

inductive FillMode where
  | none | ansi | spaces
  deriving DecidableEq, Repr

/-- What `pad_panel_line_to_width` depends on besides the line itself. -/
structure PadSpec where
  /-- `Some(style)` when the empty-line marker is emitted (empty minus/plus line with an index) -/
  emptyMark : Option Sgr.Style := none
  panelWidth : Nat
  /-- `config.truncation_symbol` as items -/
  tail : List Item := []
  fillMode : FillMode := .none
  fillStyle : Sgr.Style := {}

/-- The empty-line marker (`mark_empty_line(style, line, Some(" "))`) when requested. -/
def withMarker (spec : PadSpec) (line : List Item) : List Item :=
  match spec.emptyMark with
  | some st => line ++ paintItems st [⟨[' '], 1⟩]
  | none => line

/-- Truncation to the panel width when the text is wider. -/
def fitPanel (spec : PadSpec) (line1 : List Item) : Option (List Item) :=
  if width line1 > spec.panelWidth then truncate spec.panelWidth spec.tail (some ' ') line1
  else some line1

/-- The fill; `tw` is the text width measured *before* truncation. -/
def fillPanel (spec : PadSpec) (tw : Nat) (line2 : List Item) : List Char :=
  match spec.fillMode with
  | .ansi => rightFill (flatten line2) spec.fillStyle
  | .spaces =>
    if tw ≥ spec.panelWidth then flatten line2
    else spacesFill (flatten line2) spec.fillStyle (spec.panelWidth - tw)
  | .none => flatten line2

/-- `pad_panel_line_to_width`: marker, truncate to the panel width, fill. -/
def padPanel (spec : PadSpec) (line : List Item) : Option (List Char) :=
  (fitPanel spec (withMarker spec line)).map (fillPanel spec (width (withMarker spec line)))

/-! ### A rendered row

How `Painter::paint_lines` (unified) and `paint_minus_and_plus_lines_side_by_side` /
`paint_zero_lines_side_by_side` assemble one output row from the pieces above. -/

/-- A text handed to `ansi_term`: plain, or an OSC 8 hyperlink around plain text (line-number
fields and file paths when `--hyperlinks` is on). -/
inductive Piece where
  | plain (t : List Char)
  | linked (url t : List Char)
  deriving DecidableEq, Repr

def Piece.chars : Piece → List Char
  | .plain t => t
  | .linked u t => link u t

/-- `Painter::paint_line`: `ANSIStrings` over the line-number fields, the re-inserted prefix and
the superimposed sections. -/
def paintLine (xs : List (Sgr.Style × Piece)) : List Char :=
  Sgr.renderStrings (xs.map fun x => (x.1, x.2.chars))

/-- How `paint_lines` finishes a unified line. -/
inductive UFill where
  | none
  | ansi (st : Sgr.Style)
  | spaces (st : Sgr.Style) (n : Nat)
  | emptyMark (st : Sgr.Style) (marker : Option (List Char))
  deriving Repr

inductive Row where
  | unified (xs : List (Sgr.Style × Piece)) (fill : UFill)
  /-- each panel: the painted strings, their partition into items (as the ANSI iterator yields
  it), and the padding parameters -/
  | sideBySide (left right : List (Sgr.Style × Piece)) (itemsL itemsR : List Item)
      (specL specR : PadSpec)

/-- The characters of the row (without the final newline); `none` = a `debug_assert!` fired
in truncation. -/
def Row.render : Row → Option (List Char)
  | .unified xs fill =>
    some (match fill with
      | .none => paintLine xs
      | .ansi st => rightFill (paintLine xs) st
      | .spaces st n => spacesFill (paintLine xs) st n
      | .emptyMark st m => markEmpty (paintLine xs) st m)
  | .sideBySide _ _ itemsL itemsR specL specR =>
    match padPanel specL itemsL, padPanel specR itemsR with
    | some a, some b => some (a ++ b)
    | _, _ => none

end Line

/-!
## The CR step of `ingest_line_utf8` (`src/delta.rs`)

What becomes of an input line before it is passed through raw: when nothing visible follows the
last `\r` (git writes the closing escape sequences of a CRLF line between the CR and the LF),
that CR is removed and what follows it is kept. Whether the tail is kept is generated
(`crStepKeepsTail`); `tailZeroWidth` = `measure_text_width(tail) == 0`, from the implementation.
-/
namespace Line

/-- Split at the last `\r`: (before, after). -/
def splitLastCr : List Char → Option (List Char × List Char)
  | [] => none
  | c :: cs =>
    match splitLastCr cs with
    | some (a, t) => some (c :: a, t)
    | none => if c = '\r' then some ([], cs) else none

/-- The CR step. -/
def crStep (tailZeroWidth : Bool) (line : List Char) : List Char :=
  match splitLastCr line with
  | none => line
  | some (a, t) =>
    if tailZeroWidth then (if Generated.StyleTables.crStepKeepsTail then a ++ t else a) else line

end Line

/-!
## Relativized diff-stat lines (`src/handlers/diff_stat.rs`)

`relativize_path_in_diff_stat_line`: ` {formatted_path}{padding}{suffix}` — the path (plain, or an
OSC 8 hyperlink around it), spaces, and the `| N +++---` part of git's line copied verbatim
(`Generated.StyleTables.statSuffixVerbatim`).
-/
namespace Line

def statLine (path : Piece) (pad : Nat) (suffix : List Char) : List Char :=
  ' ' :: (path.chars ++ List.replicate pad ' ' ++ suffix)

end Line

/-!
## Decorations (`src/handlers/draw.rs`)

Each `write_*` function as the ordered list of what it writes: painted pieces (`Style::paint`, via
`write!`) and newlines (`writeln!` / a literal `\n` in a format string). The order of output
statements per function is extracted (`Generated.DrawShapes.drawShapes`) and compared with
`Draw.modelledShapes` in `Proofs/TermDraw.lean`.
-/
namespace Draw

/-- What a draw function writes: `some piece` or a newline (`none`). -/
abbrev Out := List (Option (List Char))

/-- The box-drawing characters chosen by `decoration_style.is_bold` (heavy / light). -/
structure BoxChars where
  horizontal : Char
  downLeft : Char
  vertical : Char
  upLeft : Char
  upHorizontal : Char

structure Args where
  text : List Char
  rawText : List Char
  addendum : List Char
  /-- `ansi::measure_text_width(text)` (from the implementation) -/
  textWidth : Nat
  /-- `Width::Fixed(n)` / `Width::Variable` -/
  width : Option Nat
  textStyle : Sgr.Style
  /-- `text_style.is_raw` -/
  textRaw : Bool
  deco : Sgr.Style
  ch : BoxChars

/-- `paint_text`. -/
def paintText (a : Args) : List Char :=
  if a.addendum = [] then Sgr.paint a.textStyle a.text
  else Sgr.paint a.textStyle (a.text ++ " (".toList ++ a.addendum ++ ")".toList)

/-- `if text_style.is_raw { raw_text } else { paint_text(…) }`. -/
def textPiece (a : Args) : List Char := if a.textRaw then a.rawText else paintText a

def decoPiece (a : Args) (t : List Char) : Option (List Char) := some (Sgr.paint a.deco t)

/-- `write_no_decoration`. -/
def noDecoration (a : Args) : Out := [some (textPiece a), none]

/-- `write_horizontal_line` (no newline). -/
def horizontalLine (a : Args) (n : Nat) : Out := [decoPiece a (List.replicate n a.ch.horizontal)]

/-- `write_boxed_partial`: top edge, the text between the left margin and `│`, the bottom edge
(not terminated). -/
def boxedPartial (a : Args) : Out :=
  let edge := List.replicate a.textWidth a.ch.horizontal
  [decoPiece a edge, decoPiece a [a.ch.downLeft], none,
   some (textPiece a), decoPiece a [a.ch.vertical], none, decoPiece a edge]

/-- `write_boxed`. -/
def boxed (a : Args) : Out := boxedPartial a ++ [decoPiece a [a.ch.upLeft], none]

/-- `write_boxed_with_horizontal_whisker`. -/
def boxedWithWhisker (a : Args) : Out := boxedPartial a ++ [decoPiece a [a.ch.upHorizontal]]

/-- `write_boxed_with_underline`: the whisker is drawn by `write_horizontal_line`, then `writeln!()`. -/
def boxedWithUnderline (a : Args) : Out :=
  let lw := match a.width with
    | some n => n
    | none => a.textWidth
  boxedWithWhisker a ++ horizontalLine a (if lw > a.textWidth then lw - a.textWidth - 1 else 0) ++ [none]

inductive UnderOver where
  | under | over | underover
  deriving DecidableEq, Repr

/-- `_write_under_or_over_lined`. -/
def underOver (k : UnderOver) (a : Args) : Out :=
  let lw := match a.width with
    | some n => max n a.textWidth
    | none => a.textWidth
  let line : Out := horizontalLine a lw ++ [none]
  (if k = .under then [] else line) ++ [some (textPiece a), none] ++ (if k = .over then [] else line)

/-- `DecorationStyle` variants. -/
inductive Shape where
  | noDecoration | box | boxWithUnderline | boxWithOverline | boxWithUnderOverline
  | underline | overline | underOverline
  deriving DecidableEq, Repr

/-- `get_draw_function` applied. -/
def draw : Shape → Args → Out
  | .noDecoration, a => noDecoration a
  | .box, a => boxed a
  | .boxWithUnderline, a => boxedWithUnderline a
  | .boxWithOverline, a => boxed a
  | .boxWithUnderOverline, a => boxed a
  | .underline, a => underOver .under a
  | .overline, a => underOver .over a
  | .underOverline, a => underOver .underover a

/-- The output split at the newlines (`cur`: the line being written; the last element is the
unterminated remainder, empty when the output ends with a newline). -/
def linesAux (cur : List Char) : Out → List (List Char)
  | [] => [cur]
  | none :: rest => cur :: linesAux [] rest
  | some p :: rest => linesAux (cur ++ p) rest

def lines (o : Out) : List (List Char) := linesAux [] o

/-- The shape of `draw.rs` this model mirrors (see `Generated.DrawShapes.drawShapes`). -/
def modelledShapes : List (String × List String) :=
  [("paint_text", ["if addendum.is_empty()"]),
   ("get_draw_function", []),
   ("write_no_decoration", ["writeln!(\"{raw_text}\")", "writeln!(\"{}\", paint_text(text_style, text, addendum))", "if text_style.is_raw"]),
   ("write_boxed", ["call write_boxed_partial", "writeln!(\"{}\", decoration_style.paint(up_left))"]),
   ("write_boxed_with_underline", ["call write_boxed_with_horizontal_whisker", "call write_horizontal_line", "writeln!()", "if line_width > box_width"]),
   ("write_underlined", ["call _write_under_or_over_lined"]),
   ("write_overlined", ["call _write_under_or_over_lined"]),
   ("write_underoverlined", ["call _write_under_or_over_lined"]),
   ("_write_under_or_over_lined", ["call write_horizontal_line", "writeln!()", "call write_line", "writeln!(\"{raw_text}\")", "writeln!(\"{}\", paint_text(text_style, text, addendum))", "call write_line", "if text_style.is_raw"]),
   ("write_horizontal_line", ["write!(\"{}\", decoration_style.paint(horizontal.repeat(width)))"]),
   ("write_boxed_with_horizontal_whisker", ["call write_boxed_partial", "write!(\"{}\", decoration_style.paint(up_horizontal))"]),
   ("write_boxed_partial", ["writeln!(\"{}{}\", decoration_style.paint(&horizontal_edge), decoration_style.paint(down_left))", "write!(\"{raw_text}\")", "write!(\"{}\", paint_text(text_style, text, addendum))", "write!(\"{}\\n{}\", decoration_style.paint(vertical), decoration_style.paint(&horizontal_edge))", "if text_style.is_raw"])]

def modelledDrawFunctions : List (String × String) :=
  [("Box", "write_boxed"), ("BoxWithUnderline", "write_boxed_with_underline"), ("BoxWithOverline", "write_boxed"),
   ("BoxWithUnderOverline", "write_boxed"), ("Underline", "write_underlined"), ("Overline", "write_overlined"),
   ("UnderOverline", "write_underoverlined"), ("NoDecoration", "write_no_decoration")]

end Draw

