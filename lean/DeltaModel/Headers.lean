import DeltaModel.Generated.Markers
/-!
Model of the header parsing in /repo/src/handlers/diff_header.rs and hunk_header.rs.

Strings are `List Char`. Rust operations that can panic are explicit `Except` errors.
Regexes are re-implemented by hand with the same leftmost-first/greedy behaviour
(`HUNK_HEADER_REGEX`, `HUNK_HEADER_FILE_COORDINATE_REGEX`); domain: `\d` is taken to be
ASCII `0-9` (the Rust class is Unicode `Nd`; see DESIGN.md, defect #3).
-/
namespace Headers
open Generated

abbrev Str := List Char

def startsWith (s p : Str) : Bool := p.isPrefixOf s

def startsWithAny (s : Str) (ps : List Str) : Bool := ps.any (startsWith s)

/-- `str::strip_prefix` -/
def stripPrefix (s p : Str) : Option Str :=
  if startsWith s p then some (s.drop p.length) else none

inductive FileEvent | added | change | copy | rename | removed | noEvent
  deriving DecidableEq, Repr

def FileEvent.ofName : String → FileEvent
  | "Added" => .added | "Change" => .change | "Copy" => .copy
  | "Rename" => .rename | "Removed" => .removed | _ => .noEvent

/-- `remove_surrounding_quotes` -/
def removeSurroundingQuotes (p : Str) : Str :=
  if 2 ≤ p.length ∧ p.head? = some '"' ∧ p.getLast? = some '"' then (p.drop 1).dropLast else p

/-- `str::split('\t').next()` -/
def beforeTab (p : Str) : Str := p.takeWhile (· ≠ '\t')

/-- `_parse_file_path` -/
def parseFilePath (path : Str) (gitDiffName : Bool) : Str :=
  let p := removeSurroundingQuotes path
  let p2 := if p.getLast? = some '\t' then p.dropLast else p
  if p2 = Markers.devNull then Markers.devNull
  else if gitDiffName ∧ startsWithAny p2 Markers.diffPrefixes then p2.drop 2
  else if gitDiffName then p2
  else beforeTab p2

/-- `parse_diff_header_line` over the generated (prefix, offset, event) table. The Rust code
slices at a fixed byte offset; the prefixes are ASCII, so byte offset = char offset. -/
def parseDiffHeaderLine (line : Str) (gitDiffName : Bool) : Str × FileEvent :=
  match Markers.parseDiffHeaderLine.find? (fun (p, _, _) => startsWith line p) with
  | none => ([], .noEvent)
  | some (_, off, ev) =>
    let rest := line.drop off
    match FileEvent.ofName ev with
    | .change => (parseFilePath rest gitDiffName, .change)
    | e => (rest, e)

/-- `get_repeated_file_path_from_diff_line`. `gs`: the extended grapheme clusters of the text
after `diff --git ` (segmentation is the implementation's). -/
def repeatedFilePath (line : Str) (gs : List Str) : Option Str :=
  if startsWith line Markers.diffGit then
    let mid := gs.length / 2
    match gs[mid]? with
    | none => none
    | some g =>
      if g = [' '] then
        let first := parseFilePath (gs.take mid).flatten true
        let second := parseFilePath (gs.drop (mid + 1)).flatten true
        if first = second then some first else none
      else none
  else none

/-- split at every occurrence of `sep` -/
def splitOn (sep : Char) : Str → List Str
  | [] => [[]]
  | c :: cs =>
    match splitOn sep cs with
    | [] => [[]]
    | hd :: tl => if c = sep then [] :: hd :: tl else (c :: hd) :: tl

/-- `Path::new(path).file_name()` for the uses in diff_header.rs: last `/`-separated component;
`None` for `/dev/null`, for an empty path and for paths ending in `..`. (Approximation of
std::path used only to choose the syntax; not used by any property theorem.) -/
def fileName (path : Str) : Option Str :=
  if path = Markers.devNull then none
  else
    let comps := (splitOn '/' path).filter (fun c => c ≠ [] ∧ c ≠ ['.'])
    match comps.getLast? with
    | none => none
    | some c => if c = ['.', '.'] then none else some c

-- ---------------------------------------------------------------- hunk header

structure HunkHeader where
  fragment : Str
  coords : List (Nat × Nat)
  deriving DecidableEq, Repr

def isDigit (c : Char) : Bool := '0' ≤ c ∧ c ≤ '9'

def digitsVal (ds : Str) : Nat := ds.foldl (fun a c => 10 * a + (c.toNat - 48)) 0

def usizeMax : Nat := 2 ^ 64 - 1

/-- `s.parse::<usize>().ok()` on a non-empty run of ASCII digits -/
def parseUsize (ds : Str) : Option Nat :=
  let v := digitsVal ds
  if v ≤ usizeMax then some v else none

/-- Try `@+ ([^@]+)@+(.*\s?)` anchored at the start of `s`; returns (group 1, group 2). -/
def matchHunkHeaderAt (s : Str) : Option (Str × Str) :=
  let r1 := s.dropWhile (· = '@')
  if r1.length = s.length then none else
  match r1 with
  | ' ' :: r2 =>
    let coords := r2.takeWhile (· ≠ '@')
    let r3 := r2.dropWhile (· ≠ '@')
    if coords = [] then none else
    let r4 := r3.dropWhile (· = '@')
    if r4.length = r3.length then none else some (coords, r4)
  | _ => none

/-- Leftmost match of `HUNK_HEADER_REGEX` (unanchored `captures`). -/
def searchHunkHeader : Str → Option (Str × Str)
  | [] => none
  | c :: cs =>
    match matchHunkHeaderAt (c :: cs) with
    | some r => some r
    | none => searchHunkHeader cs

/-- `captures_iter` of `[-+](\d+)(?:,(\d+))?` over the coordinate text, each number parsed;
`none` as soon as a number does not fit `usize`. -/
def coordinates : Nat → Str → Option (List (Nat × Nat))
  | 0, _ => some []
  | _, [] => some []
  | fuel + 1, c :: cs =>
    if (c = '-' ∨ c = '+') ∧ (cs.head?.map isDigit = some true) then
      let d1 := cs.takeWhile isDigit
      let r1 := cs.dropWhile isDigit
      let d2r2 : Option Str × Str :=
        match r1 with
        | ',' :: r =>
          if r.head?.map isDigit = some true then (some (r.takeWhile isDigit), r.dropWhile isDigit)
          else (none, r1)
        | _ => (none, r1)
      match parseUsize d1, (match d2r2.1 with | some d => parseUsize d | none => some 1),
            coordinates fuel d2r2.2 with
      | some a, some b, some rest => some ((a, b) :: rest)
      | _, _, _ => none
    else coordinates fuel cs

/-- `parse_hunk_header`: `none` unless the pattern matches, every number fits and there is at
least one file coordinate. -/
def parseHunkHeader (line : Str) : Option HunkHeader :=
  match searchHunkHeader line with
  | none => none
  | some (coordText, frag) =>
    match coordinates (coordText.length + 1) coordText with
    | none => none
    | some [] => none
    | some (c :: cs) => some { fragment := frag, coords := c :: cs }

-- ---------------------------------------------------------------- header descriptions

structure Labels where
  modified : Str := []
  added : Str := "added:".toList
  removed : Str := "removed:".toList
  renamed : Str := "renamed:".toList
  copied : Str := "copied:".toList
  rightArrow : Str := "⟶  ".toList
  deriving Repr

def formatLabel (l : Str) : Str := if l = [] then [] else l ++ [' ']

/-- `get_file_change_description_from_file_paths` (hyperlinks off, no file-regex-replacement) -/
def fileChangeDescription (lb : Labels) (minusFile plusFile : Str) (comparing : Bool)
    (minusEvent : FileEvent) : Str :=
  if comparing then
    formatLabel lb.modified ++ minusFile ++ [' '] ++ lb.rightArrow ++ [' '] ++ plusFile
  else if minusFile = plusFile then formatLabel lb.modified ++ minusFile
  else if plusFile = Markers.devNull then formatLabel lb.removed ++ minusFile
  else if minusFile = Markers.devNull then formatLabel lb.added ++ plusFile
  else
    formatLabel (match minusEvent with
      | .rename => lb.renamed
      | .copy => lb.copied
      | _ => lb.modified) ++ minusFile ++ [' '] ++ lb.rightArrow ++ [' '] ++ plusFile

end Headers
