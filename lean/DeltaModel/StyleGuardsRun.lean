import DeltaModel.Proto
import DeltaModel.StyleGuards
/-!
Line protocol for the `guards.*` op of the C12 check (model side; the implementation side is the real binary).
Run with `lake env lean --run DeltaModel/StyleGuardsRun.lean` until a `lean_exe` is registered for it
(see notes/S4-strengthen-C12.md).

  guards.line <Minus|Plus> <homolog 0|1> <secs> <given>   -> ok <painted> | <governs>

secs: `E<b>` (section annotated as changed) / `N<b>` (unchanged), b = the section is blank, comma separated, `-` = none;
given: `key=<ansi>:<omit><raw><syntax>:<deco>` per option key (`minus-style=3:000:0`), comma separated, `-` = none: the
style the chain of references of that key ends in, as numbers (`ansi` / `deco` name a rendering); keys not listed are
the default style. The configuration is `configOf given` (`Config::from` over `parse_styles()`: the `is_emph` flags are
set as the generated statements set them).
painted: `StyleGuards.paintedLine`, per section `<ansi>:<emph><omit><raw><syntax>:<deco>`; governs: `StyleGuards.governs`, per
section the `Config` field; either side `ERR <message>` when the model reports an error (`panic: …` = a Rust panic).
-/
open Proto StyleGuards Generated.StyleGuards

namespace StyleGuardsRun

def listOf {β} (f : String → Option β) (s : String) : Option (List β) :=
  if s == "-" || s.isEmpty then some [] else (s.splitOn ",").mapM f

def bit? (c : Char) : Option Bool :=
  if c == '1' then some true else if c == '0' then some false else none

def parseSec (s : String) : Option (Bool × Bool) :=
  match s.toList with
  | ['E', b] => (bit? b).map fun b => (true, b)
  | ['N', b] => (bit? b).map fun b => (false, b)
  | _ => none

def parseGiven (e : String) : Option (String × GStyle) :=
  match e.splitOn "=" with
  | [k, v] =>
    match v.splitOn ":" with
    | [a, fl, d] =>
      match fl.toList with
      | [o, r, y] => do
        pure (k, { ansi := ← a.toNat?, isEmph := false, isOmitted := ← bit? o, isRaw := ← bit? r, isSyn := ← bit? y,
                   deco := ← d.toNat? })
      | _ => none
    | _ => none
  | _ => none

def b2s (b : Bool) : String := if b then "1" else "0"

def showStyle (s : GStyle) : String :=
  s!"{s.ansi}:{b2s s.isEmph}{b2s s.isOmitted}{b2s s.isRaw}{b2s s.isSyn}:{s.deco}"

def showExcept {α} (f : α → String) : Except String (List (α × Bool)) → String
  | .ok l => if l.isEmpty then "-" else ",".intercalate (l.map fun p => f p.1)
  | .error e => "ERR " ++ e

def step (line : String) : String :=
  match fields line with
  | ["guards.line", side, h, secs, given] =>
    match (if side == "Minus" then some Side.minus else if side == "Plus" then some Side.plus else none),
          (h.toList.head?.bind bit?), listOf parseSec secs, listOf parseGiven given with
    | some side, some h, some secs, some given =>
      let cfg := configOf fun k => (given.lookup k).getD default
      "ok " ++ showExcept showStyle (paintedLine cfg side h secs) ++ " | " ++ showExcept id (governs side h secs)
    | _, _, _, _ => "ERR malformed request"
  | _ => "ERR unknown op"

end StyleGuardsRun

def main : IO Unit := Proto.serve StyleGuardsRun.step
