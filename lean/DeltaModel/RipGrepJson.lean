/-
Model of /repo/src/handlers/ripgrep_json.rs, `parse_line`, from the decoded JSON value on:
which JSON values are taken for an `rg --json` match / context record, what `GrepLine` they give,
which are swallowed as metadata (`begin`, `end`, `summary`) and which are left to other handlers.

* `JVal` is a JSON value as `serde_json` hands it to a `Deserialize` impl: objects are association
  lists (member order and duplicates kept), numbers are either a non-negative integer literal
  (`nat`) or anything else (negative, fraction, exponent: `otherNum`). The JSON *text* parser
  (escapes, white space, the 128-level recursion limit) is outside the model.
* `decode` interprets the record structs **regenerated from the source**
  (`Generated.RipGrepJsonShape.root`: field names, `rename`, `Option`, `Vec`, `default`,
  `deny_unknown_fields`, the `LineType` variants) the way `#[derive(Deserialize)]` does:
  - struct from an object: every field's member must occur at most once (twice: error), a
    missing member is an error unless the field is an `Option` (→ `None`) or has a default;
    members no field names are ignored unless the struct denies unknown fields;
  - struct from an array: the fields in source order, exactly as many elements as fields;
  - `usize`: non-negative integer literal below 2^64; `String`: string; `Option`: `null` or the
    inner type; `Vec`: array; unit-variant enum: the variant's JSON name as a string, or an
    object with that one member and the value `null`.
* `parseLine` is `parse_line`: first branch = the record decodes; second branch = the value's
  `"type"` member (serde_json's map keeps the *last* duplicate) is one of the metadata words.
* `AgreeOnKnown ty v v'`: the two values differ only in members the record structs do not name
  (at every level), the vocabulary of `C16.record_with_extra_members_accepted`.
-/
import DeltaModel.Generated.RipGrepJsonShape
import DeltaModel.Grep

namespace RipGrepJson

open Generated.RipGrepJsonShape (Ty Fields)

/-- A JSON value (after the text parser). -/
inductive JVal where
  | null
  | bool (b : Bool)
  /-- a non-negative integer literal (no sign, fraction or exponent) -/
  | nat (n : Nat)
  /-- any other number -/
  | otherNum
  | str (s : String)
  | arr (xs : List JVal)
  | obj (ms : List (String × JVal))
  deriving Repr, Inhabited

/-- A deserialised Rust value. `rec`: struct, by Rust field identifier. -/
inductive DVal where
  | nat (n : Nat)
  | str (s : String)
  | none
  | some (d : DVal)
  | list (ds : List DVal)
  | record (fs : List (String × DVal))
  | variant (rust : String)
  deriving Repr, Inhabited

/-- The values of the members called `j`, in order. -/
def valuesOf (j : String) (ms : List (String × JVal)) : List JVal :=
  (ms.filter fun m => m.1 == j).map (·.2)

/-- The members not called `j`. -/
def others (j : String) (ms : List (String × JVal)) : List (String × JVal) :=
  ms.filter fun m => !(m.1 == j)

def mapOpt {α β : Type} (f : α → Option β) : List α → Option (List β)
  | [] => some []
  | x :: xs =>
    match f x, mapOpt f xs with
    | some y, some ys => some (y :: ys)
    | _, _ => none

def variantOf (vs : List (String × String)) (w : String) : Option DVal :=
  (vs.find? fun p => p.2 == w).map fun p => DVal.variant p.1

/-- A unit-variant enum: `"name"` or `{"name": null}`. -/
def decodeEnum (vs : List (String × String)) : JVal → Option DVal
  | .str w => variantOf vs w
  | .obj [(w, .null)] => variantOf vs w
  | _ => none

/-- `Default::default()` of a field type (`#[serde(default)]`). -/
def defaultOf : Ty → Option DVal
  | .usize => some (.nat 0)
  | .string => some (.str "")
  | .option _ => some .none
  | .vec _ => some (.list [])
  | .enum _ _ => none
  | .struct _ _ _ => none

def tyIsOption : Ty → Bool
  | .option _ => true
  | _ => false

/-- What a field gets when its member is absent from the object. -/
def missingOf (dflt : Bool) (ty : Ty) : Option DVal :=
  if dflt then defaultOf ty else if tyIsOption ty then some .none else none

/-- What a struct field gets from the members of its name: absent → `a`; one → its reading; more
than one → error (`duplicate field`). -/
def pick {β : Type} (a : Option β) (f : JVal → Option β) : List JVal → Option β
  | [] => a
  | [x] => f x
  | _ => none

mutual
/-- `<T as Deserialize>::deserialize` on a JSON value; `none` = error. -/
def decode : Ty → JVal → Option DVal
  | .usize, v =>
    match v with
    | .nat n => if n < 2 ^ 64 then some (.nat n) else none
    | _ => none
  | .string, v =>
    match v with
    | .str s => some (DVal.str s)
    | _ => none
  | .option t, v =>
    match v with
    | .null => some .none
    | _ => (decode t v).map DVal.some
  | .vec t, v =>
    match v with
    | .arr xs => (mapOpt (decode t) xs).map DVal.list
    | _ => none
  | .enum _ vs, v => decodeEnum vs v
  | .struct _ deny fs, v =>
    match v with
    | .obj ms => (decodeFields deny fs ms).map DVal.record
    | .arr xs => (decodeSeq fs xs).map DVal.record
    | _ => none
/-- A struct from an object: field by field, each taking the members of its name out of the
list; what is left at the end are the members no field names. -/
def decodeFields (deny : Bool) : Fields → List (String × JVal) → Option (List (String × DVal))
  | .nil, ms => if deny && !ms.isEmpty then none else some []
  | .cons rust json dflt ty rest, ms =>
    match pick (missingOf dflt ty) (decode ty) (valuesOf json ms), decodeFields deny rest (others json ms) with
    | some d, some ds => some ((rust, d) :: ds)
    | _, _ => none
/-- A struct from an array: the fields in order. -/
def decodeSeq : Fields → List JVal → Option (List (String × DVal))
  | .nil, xs => if xs.isEmpty then some [] else none
  | .cons rust _ dflt ty rest, xs =>
    match xs with
    | [] =>
      if dflt then
        match defaultOf ty, decodeSeq rest [] with
        | some d, some ds => some ((rust, d) :: ds)
        | _, _ => none
      else none
    | x :: xs =>
      match decode ty x, decodeSeq rest xs with
      | some d, some ds => some ((rust, d) :: ds)
      | _, _ => none
end

/-! ## From the deserialised record to the `GrepLine` -/

def DVal.field (d : DVal) (name : String) : Option DVal :=
  match d with
  | .record fs => (fs.find? fun p => p.1 == name).map (·.2)
  | _ => Option.none

/-- `record.a.b.c` -/
def DVal.at (d : DVal) : List String → Option DVal
  | [] => Option.some d
  | n :: p =>
    match d.field n with
    | Option.some d' => d'.at p
    | Option.none => Option.none

def optNatOf : DVal → Option (Option Nat)
  | .none => some none
  | .some (.nat n) => some (some n)
  | _ => none

open Generated.RipGrepJsonShape in
/-- `(m.start, m.end)` -/
def spanOf (d : DVal) : Option (Nat × Nat) :=
  match d.at submatchStartFrom, d.at submatchEndFrom with
  | some (.nat a), some (.nat b) => some (a, b)
  | _, _ => none

open Generated.RipGrepJsonShape in
/-- The members `parse_line` reads off the record, by the access paths regenerated from it. -/
def toJsonRec (d : DVal) : Option Grep.JsonRec :=
  match d.at lineTypeFrom, d.at lineNumberFrom, d.at pathFrom, d.at codeFrom, d.at submatchesFrom with
  | some (.variant k), some num, some (.str p), some (.str c), some (.list subs) =>
    match Grep.Kind.ofName k, optNatOf num, mapOpt spanOf subs with
    | some kind, some num, some subs =>
      some { kind := kind, path := p.toList, num := num, text := c.toList, subs := subs }
    | _, _, _ => none
  | _, _, _, _, _ => none

open Generated.RipGrepJsonShape in
/-- `&value["type"]` as a string: the last member of that name of an object. -/
def metaWord : JVal → Option String
  | .obj ms =>
    match (valuesOf metaKey ms).getLast? with
    | some (.str w) => some w
    | _ => none
  | _ => none

open Generated.RipGrepJsonShape in
/-- The `GrepLine` of a swallowed metadata record. -/
def metaRec : Option Grep.Rec :=
  (Grep.Kind.ofName metaKind).map fun k =>
    { gtype := .ripgrep, kind := k, path := [], num := none, code := [], subs := none }

open Generated.RipGrepJsonShape in
/-- `ripgrep_json::parse_line` on a line that is JSON text for `v`. -/
def parseLine (v : JVal) : Option Grep.Rec :=
  match decode root v with
  | some d => (toJsonRec d).map Grep.ofJson
  | none =>
    match metaWord v with
    | some w => if metaWords.contains w then metaRec else none
    | none => none

/-! ## The vocabulary of the theorems -/

mutual
/-- No struct inside the type denies unknown members. -/
def tyLenient : Ty → Bool
  | .option t => tyLenient t
  | .vec t => tyLenient t
  | .struct _ deny fs => !deny && fieldsLenient fs
  | _ => true
def fieldsLenient : Fields → Bool
  | .nil => true
  | .cons _ _ _ ty rest => tyLenient ty && fieldsLenient rest
end

/-- Some field of the struct has the JSON name `k`. -/
def hasJson : Fields → String → Bool
  | .nil, _ => false
  | .cons _ json _ _ rest, k => json == k || hasJson rest k

def Pointwise {α : Type} (R : α → α → Prop) : List α → List α → Prop
  | [], [] => True
  | x :: xs, y :: ys => R x y ∧ Pointwise R xs ys
  | _, _ => False

mutual
/-- `v` and `v'` differ only in members the record structs do not name: at every struct level
the members of each field's name are the same in number and order, with values that agree in the
same sense; members of other names are unconstrained (present, absent, anything). -/
def AgreeOnKnown : Ty → JVal → JVal → Prop
  | .usize, v, v' => v' = v
  | .string, v, v' => v' = v
  | .enum _ _, v, v' => v' = v
  | .option t, v, v' => (v = .null ↔ v' = .null) ∧ AgreeOnKnown t v v'
  | .vec t, v, v' =>
    match v, v' with
    | .arr xs, .arr xs' => Pointwise (AgreeOnKnown t) xs xs'
    | _, _ => v' = v
  | .struct _ _ fs, v, v' =>
    match v, v' with
    | .obj ms, .obj ms' => AgreeMembers fs ms ms'
    | .arr xs, .arr xs' => AgreeSeq fs xs xs'
    | _, _ => v' = v
def AgreeMembers : Fields → List (String × JVal) → List (String × JVal) → Prop
  | .nil, _, _ => True
  | .cons _ json _ ty rest, ms, ms' =>
    Pointwise (AgreeOnKnown ty) (valuesOf json ms) (valuesOf json ms') ∧
      AgreeMembers rest (others json ms) (others json ms')
def AgreeSeq : Fields → List JVal → List JVal → Prop
  | .nil, xs, xs' => xs' = xs
  | .cons _ _ _ ty rest, xs, xs' =>
    match xs, xs' with
    | [], [] => True
    | x :: xs, x' :: xs' => AgreeOnKnown ty x x' ∧ AgreeSeq rest xs xs'
    | _, _ => False
end

/-! ## A record as the emission logic sees it -/

/-- UTF-8 bytes of a text (by a definition the kernel can evaluate). -/
def bytesOfChars (cs : List Char) : Grep.Bytes := cs.flatMap String.utf8EncodeChar

/-- The input line of the stream for the JSON value `v` whose text was `raw`: a hit when
`parse_line` answers, otherwise the line goes through unchanged. -/
def lineOf (v : JVal) (raw : Grep.Bytes) : Grep.Line :=
  match parseLine v with
  | some r =>
    .hit { gtype := r.gtype, kind := r.kind, path := r.path, num := r.num, prefixOk := true,
           code := bytesOfChars r.code, subs := r.subs }
  | none => .other raw

end RipGrepJson
