import DeltaModel.Gates
import DeltaModel.Proto
/-!
Line-protocol runner of the claim-gate model (correspondence of C04). No `lean_exe` is registered for it
in the lakefile: the harness runs it with `lake env lean --run DeltaModel/GatesRun.lean`.

    gates.eval <xhandler> <xstate> <xcaller> <xraw> <xline> <n> (<xoption field> <0|1>)*n <k> (<xregex> <0|1>)*k
      -> ok <may 0|1> <must 0|1>

`may` / `must`: can / must the handler return `Ok(true)` given these facts (`Gates.Facts.know`); facts
not listed (options, regexes) and the conditions the extractor could not interpret are open.
-/
namespace GatesRun
open Gates Proto

def pairs : Nat → List String → Option (List (String × Bool) × List String)
  | 0, rest => some ([], rest)
  | n + 1, a :: b :: rest => do
    let name ← stringOfField a
    let (ps, rest') ← pairs n rest
    pure ((name, b == "1") :: ps, rest')
  | _, _ => none

def bit (b : Bool) : String := if b then "1" else "0"

def eval (fs : List String) : Option String := do
  match fs with
  | h :: st :: ca :: raw :: line :: n :: rest =>
    let h ← stringOfField h
    let st ← stringOfField st
    let ca ← stringOfField ca
    let raw ← stringOfField raw
    let line ← stringOfField line
    let n ← natOfField n
    let (opts, rest1) ← pairs n rest
    match rest1 with
    | k :: rest2 =>
      let k ← natOfField k
      let (res, _) ← pairs k rest2
      let g ← gateOf h
      let f : Facts := { state := st, caller := ca, raw := raw, line := line, opts := opts, regexes := res }
      pure s!"ok {bit (may f.know g)} {bit (must f.know g)}"
    | [] => none
  | _ => none

def step (req : String) : String :=
  match fields req with
  | "gates.eval" :: fs => (eval fs).getD "ERR bad request"
  | _ => "ERR unknown op"

end GatesRun

def main : IO Unit := Proto.serve GatesRun.step
