/-!
The expression language the extractor `tools/extractors/blameflow.py` translates the data flow of
`StateMachine::handle_blame_line` (src/handlers/blame.rs) into: the definition of the local
`is_repeat` — and of whatever else is handed to the three places that consume it (the blanking of
the metadata, `blame_metadata_style()` → `get_color()`, `format_blame_line_number()`) — as an
expression over

* the previous key (`previous_key`, from `State::Blame(key)`) and the key of this line,
* the parsed line (`blame.line_number`, `blame.author`, `blame.commit`),
* state the handler keeps between lines in fields of `StateMachine` (`usize` registers and
  `Option<String>` registers, each with its initial value from `StateMachine::new` and its update),
* `opaque` atoms for conditions the translator cannot read (universally quantified in the theorems,
  not executable).

`evalN` / `evalB` evaluate as the debug build does: `+` / `-` on `usize` are panic points (`none`),
`saturating_*` are total, `&&` / `||` short-circuit. Core Lean only.
-/
namespace BlameFlow

abbrev Str := List Char

/-- `usize::MAX` (64-bit) -/
def usizeMax : Nat := 18446744073709551615

inductive StrE where
  /-- `key` (= `formatted_blame_metadata` before it is blanked) -/
  | key
  | author
  | commit
  deriving DecidableEq, Repr

inductive OptStrE where
  /-- `previous_key` -/
  | prevKey
  /-- `self.<field>` of type `Option<String>` -/
  | sreg (i : Nat)
  | some (s : StrE)
  | none
  deriving DecidableEq, Repr

inductive Cmp where
  | lt | le | eq | ne | ge | gt
  deriving DecidableEq, Repr

inductive NumE where
  | lit (n : Nat)
  /-- `blame.line_number` -/
  | lineNumber
  /-- `self.<field>` of type `usize` -/
  | reg (i : Nat)
  | add (a b : NumE)
  | sub (a b : NumE)
  | satAdd (a b : NumE)
  | satSub (a b : NumE)
  deriving DecidableEq, Repr

inductive BoolE where
  | tt
  | ff
  | optEq (a b : OptStrE)
  | strEq (a b : StrE)
  | isSome (a : OptStrE)
  | cmp (op : Cmp) (a b : NumE)
  | and (a b : BoolE)
  | or (a b : BoolE)
  | not (a : BoolE)
  /-- a condition the translator could not read (its source text is `opaqueText[i]`) -/
  | opq (i : Nat)
  deriving DecidableEq, Repr

/-- What an expression inside `handle_blame_line` can see once the line has been parsed. -/
structure Env where
  prevKey : Option Str
  key : Str
  lineNumber : Nat
  author : Str
  commit : Str
  regs : List Nat
  sregs : List (Option Str)
  opq : Nat → Bool

/-- "The key of this line is the key of the previous blame line": `previous_key.as_deref() == Some(&key)`. -/
def Env.keyEq (e : Env) : Bool := decide (e.prevKey = some e.key)

def evalS (e : Env) : StrE → Str
  | .key => e.key
  | .author => e.author
  | .commit => e.commit

/-- outer `none`: a register the table does not declare -/
def evalO (e : Env) : OptStrE → Option (Option Str)
  | .prevKey => some e.prevKey
  | .sreg i => e.sregs[i]?
  | .some s => some (some (evalS e s))
  | .none => some none

def evalN (e : Env) : NumE → Option Nat
  | .lit n => some n
  | .lineNumber => some e.lineNumber
  | .reg i => e.regs[i]?
  | .add a b =>
    match evalN e a, evalN e b with
    | some x, some y => if x + y ≤ usizeMax then some (x + y) else none
    | _, _ => none
  | .sub a b =>
    match evalN e a, evalN e b with
    | some x, some y => if y ≤ x then some (x - y) else none
    | _, _ => none
  | .satAdd a b =>
    match evalN e a, evalN e b with
    | some x, some y => some (Nat.min (x + y) usizeMax)
    | _, _ => none
  | .satSub a b =>
    match evalN e a, evalN e b with
    | some x, some y => some (x - y)
    | _, _ => none

def cmpNat : Cmp → Nat → Nat → Bool
  | .lt, x, y => decide (x < y)
  | .le, x, y => decide (x ≤ y)
  | .eq, x, y => decide (x = y)
  | .ne, x, y => decide (x ≠ y)
  | .ge, x, y => decide (y ≤ x)
  | .gt, x, y => decide (y < x)

/-- `none`: a panic point (`usize` overflow / underflow) was hit while evaluating. -/
def evalB (e : Env) : BoolE → Option Bool
  | .tt => some true
  | .ff => some false
  | .optEq a b =>
    match evalO e a, evalO e b with
    | some x, some y => some (decide (x = y))
    | _, _ => none
  | .strEq a b => some (decide (evalS e a = evalS e b))
  | .isSome a =>
    match evalO e a with
    | some x => some x.isSome
    | none => none
  | .cmp op a b =>
    match evalN e a, evalN e b with
    | some x, some y => some (cmpNat op x y)
    | _, _ => none
  | .and a b =>
    match evalB e a with
    | some true => evalB e b
    | r => r
  | .or a b =>
    match evalB e a with
    | some false => evalB e b
    | r => r
  | .not a =>
    match evalB e a with
    | some x => some (!x)
    | none => none
  | .opq i => some (e.opq i)

/-- A guarded update `if g₁ { r = v₁ } … `: the value of the first guard that holds, else the old value. -/
def evalUpd {α β : Type} (evalV : β → Option α) (e : Env) (old : α) : List (BoolE × β) → Option α
  | [] => some old
  | (g, v) :: rest =>
    match evalB e g with
    | some true => evalV v
    | some false => evalUpd evalV e old rest
    | none => none

def usesOpaque : BoolE → Bool
  | .opq _ => true
  | .and a b => usesOpaque a || usesOpaque b
  | .or a b => usesOpaque a || usesOpaque b
  | .not a => usesOpaque a
  | _ => false

end BlameFlow
