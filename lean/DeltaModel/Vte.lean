import DeltaModel.Generated.VteTable
import DeltaModel.Generated.AnsiSgr
/-!
Model of `anstyle_parse::Parser::advance` (anstyle-parse, the version locked in Cargo.lock) as
driven by delta's `Performer` (`/repo/src/ansi/iterator.rs`).

* The state-transition table is `Generated.vteChange`, regenerated from the crate source on
  every run; states and actions are the crate's `u8` discriminants (`Generated.vteStateNames`,
  `Generated.vteActionNames` pin the numbering, see `Vte.numbering_ok` in `Proofs/Vte.lean`).
* Only the parser fields the `Performer` can observe are kept: the state, the number of
  intermediates, the parameter list (groups of sub-parameters), the `ignoring` flag, and the
  progress of the out-of-band UTF-8 accumulator. OSC payload buffers are dropped: delta's
  `osc_dispatch` ignores them.
* Input bytes come from a Rust `&str`, hence are valid UTF-8: the accumulator is modelled by the
  sequence length announced by the lead byte (`utf8parse` on invalid input is not modelled).
-/
namespace Vte

/-! State / action codes (discriminants of `anstyle_parse::state::{State, Action}`). -/
def sAnywhere : Nat := 0
def sCsiEntry : Nat := 1
def sCsiIgnore : Nat := 2
def sCsiIntermediate : Nat := 3
def sCsiParam : Nat := 4
def sDcsEntry : Nat := 5
def sDcsPassthrough : Nat := 9
def sEscape : Nat := 10
def sGround : Nat := 12
def sOscString : Nat := 13
def sUtf8 : Nat := 15

/-- What delta's `Performer` can report for one byte: an escape-sequence element and/or a number
of text bytes. `sgr` carries the CSI parameters (groups of sub-parameters). -/
inductive Kind where
  | sgr (params : List (List Nat))
  | csi
  | esc
  | osc
  deriving DecidableEq, Repr, Inhabited

/-- `Performer { element, text_length }` after one `advance`. -/
structure Perf where
  elem : Option Kind := none
  text : Nat := 0
  deriving DecidableEq, Repr, Inhabited

structure Parser where
  state : Nat := 12
  /-- `intermediate_idx` -/
  inter : Nat := 0
  /-- closed parameters, each with its sub-parameters (`Params`) -/
  groups : List (List Nat) := []
  /-- the sub-parameters of the parameter being extended with `:` (`current_subparams`) -/
  cur : List Nat := []
  /-- `param`: the number being accumulated -/
  param : Nat := 0
  ignoring : Bool := false
  /-- continuation bytes still expected by the UTF-8 accumulator -/
  utf8Need : Nat := 0
  /-- total length of the character being accumulated -/
  utf8Len : Nat := 0
  deriving DecidableEq, Repr, Inhabited

def Parser.init : Parser := {}

def sumLens : List (List Nat) → Nat
  | [] => 0
  | g :: gs => g.length + sumLens gs

/-- `Params::len` -/
def Parser.paramsLen (p : Parser) : Nat := sumLens p.groups + p.cur.length

def Parser.isFull (p : Parser) : Bool := p.paramsLen == Generated.vteMaxParams

/-- `Params::push` -/
def Parser.push (p : Parser) (item : Nat) : Parser :=
  { p with groups := p.groups ++ [p.cur ++ [item]], cur := [] }

/-- `Params::extend` -/
def Parser.extend (p : Parser) (item : Nat) : Parser :=
  { p with cur := p.cur ++ [item] }

/-- `Params::iter` as a list of sub-parameter slices. -/
def Parser.paramsIter (p : Parser) : List (List Nat) :=
  p.groups ++ (if p.cur.isEmpty then [] else [p.cur])

/-- `u16::saturating_mul(10).saturating_add(d)` -/
def satParam (param digit : Nat) : Nat :=
  let m := if param * 10 > 65535 then 65535 else param * 10
  if m + digit > 65535 then 65535 else m + digit

/-- Length announced by a UTF-8 lead byte (only `0xC2..=0xF4` reach the accumulator). -/
def utf8SeqLen (lead : Nat) : Nat :=
  if lead < 0xE0 then 2 else if lead < 0xF0 then 3 else 4

/-- `process_utf8`: feed one byte to the accumulator; on completion `print(c)` (the char's
UTF-8 length is added to the text length) and the state returns to `Ground`. -/
def processUtf8 (p : Parser) (perf : Perf) (byte : Nat) : Parser × Perf :=
  if p.utf8Need = 0 then
    -- lead byte: nothing is produced yet (a lead byte never completes a character)
    ({ p with utf8Need := utf8SeqLen byte - 1, utf8Len := utf8SeqLen byte }, perf)
  else if p.utf8Need = 1 then
    ({ p with utf8Need := 0, utf8Len := 0, state := sGround }, { perf with text := perf.text + p.utf8Len })
  else
    ({ p with utf8Need := p.utf8Need - 1 }, perf)

/-- delta's `Performer::csi_dispatch`. On the unchanged tree (`Generated.csiDropsIgnored`) a
sequence flagged `ignore` or with more than one intermediate returns without an element — the
bookkeeping gap of DESIGN defect #10; with the proposed repair it is reported as a CSI element. -/
def csiDispatch (p : Parser) (perf : Perf) (byte : Nat) : Perf :=
  if Generated.csiDropsIgnored && (p.ignoring || p.inter > 1) then perf
  else if byte = 0x6d ∧ p.inter = 0 ∧ p.ignoring = false then
    if p.paramsLen = 0 then { perf with elem := none }
    else { perf with elem := some (Kind.sgr p.paramsIter) }
  else { perf with elem := some Kind.csi }

/-- `Parser::perform_action` followed by the `Performer` callback it triggers. -/
def performAction (p : Parser) (perf : Perf) (action byte : Nat) : Parser × Perf :=
  match action with
  | 12 => -- Print: `performer.print(byte as char)`
    (p, { perf with text := perf.text + (if byte < 128 then 1 else 2) })
  | 5 => -- Execute
    (p, if byte < 128 then { perf with text := perf.text + 1 } else perf)
  | 6 => -- Hook (delta's `hook` does nothing)
    (if p.isFull then { p with ignoring := true } else p.push p.param, perf)
  | 3 => -- CsiDispatch
    let p' := if p.isFull then { p with ignoring := true } else p.push p.param
    (p', csiDispatch p' perf byte)
  | 4 => -- EscDispatch
    (p, { perf with elem := some Kind.esc })
  | 2 => -- Collect
    (if p.inter = Generated.vteMaxIntermediates then { p with ignoring := true }
     else { p with inter := p.inter + 1 }, perf)
  | 11 => -- Param
    if p.isFull then ({ p with ignoring := true }, perf)
    else if byte = 0x3b then ({ p.push p.param with param := 0 }, perf)
    else if byte = 0x3a then ({ p.extend p.param with param := 0 }, perf)
    else ({ p with param := satParam p.param (byte - 0x30) }, perf)
  | 1 => -- Clear
    ({ p with inter := 0, ignoring := false, param := 0, groups := [], cur := [] }, perf)
  | 8 => -- OscEnd: `osc_dispatch`
    (p, { perf with elem := some Kind.osc })
  | 15 => -- BeginUtf8
    processUtf8 p perf byte
  | _ => -- Nop, Ignore, OscStart, OscPut, Put, Unhook: invisible to delta's Performer
    (p, perf)

/-- `state_change`: the `Anywhere` row first, then the current state's row; unpacked. -/
def stateChange (state byte : Nat) : Nat × Nat :=
  let c := Generated.vteChange 0 byte
  let c := if c = 0 then Generated.vteChange state byte else c
  (c % 16, c / 16)

/-- `perform_state_change`. -/
def performStateChange (p : Parser) (perf : Perf) (state action byte : Nat) : Parser × Perf :=
  if state = sAnywhere then performAction p perf action byte
  else
    -- exit action of the state being left
    let (p, perf) :=
      if p.state = sDcsPassthrough then performAction p perf 14 byte
      else if p.state = sOscString then performAction p perf 8 byte
      else (p, perf)
    -- transition action
    let (p, perf) := if action = 0 then (p, perf) else performAction p perf action byte
    -- entry action of the new state
    let (p, perf) :=
      if state = sCsiEntry ∨ state = sDcsEntry ∨ state = sEscape then performAction p perf 1 byte
      else if state = sDcsPassthrough then performAction p perf 6 byte
      else if state = sOscString then performAction p perf 10 byte
      else (p, perf)
    ({ p with state := state }, perf)

/-- `Parser::advance` with a fresh `Performer`, as in `AnsiElementIterator::advance_vte`. -/
def advanceN (p : Parser) (byte : Nat) : Parser × Perf :=
  if p.state = sUtf8 then processUtf8 p {} byte
  else
    let (st, act) := stateChange p.state byte
    performStateChange p {} st act byte

def advance (p : Parser) (b : UInt8) : Parser × Perf := advanceN p b.toNat

/-- The per-byte `Performer` results for a byte string. -/
def events (p : Parser) : List UInt8 → List Perf
  | [] => []
  | b :: bs => (advance p b).2 :: events (advance p b).1 bs

/-- The parser after a byte string. -/
def run (p : Parser) : List UInt8 → Parser
  | [] => p
  | b :: bs => run (advance p b).1 bs

end Vte
