/-!
An abstract terminal, written from ECMA-48 (SGR, section 8.3.117; EL, 8.3.41), the xterm
control-sequence documentation (SGR 38/48 extended colours, 90–97/100–107 bright colours) and
the OSC 8 hyperlink convention (`OSC 8 ; params ; URI ST`, terminated by `ESC \` or BEL).

It is *not* derived from delta or ansi_term: it is the yardstick against which their output is
judged. State = parser mode + graphic rendition (fg, bg, 8 attributes) + open hyperlink.
`step` consumes one character; in ground mode every character other than ESC is a displayed
cell carrying the current rendition and link. CSI sequences other than SGR (`m`) — in particular
EL (`K`) — leave the rendition untouched. Core Lean only.
-/
namespace Term

/-- A terminal colour: palette index (0–255) or direct RGB. -/
inductive TColor where
  | idx (n : Nat)
  | rgb (r g b : Nat)
  deriving DecidableEq, Repr

/-- Graphic rendition (ECMA-48 names). -/
structure Rendition where
  fg : Option TColor := none
  bg : Option TColor := none
  bold : Bool := false
  faint : Bool := false
  italic : Bool := false
  underline : Bool := false
  blink : Bool := false
  inverse : Bool := false
  conceal : Bool := false
  crossed : Bool := false
  deriving DecidableEq, Repr

/-- One SGR parameter that is not an extended-colour introducer. -/
def applyOne (r : Rendition) (p : Nat) : Rendition :=
  if p = 0 then {}
  else if p = 1 then { r with bold := true }
  else if p = 2 then { r with faint := true }
  else if p = 3 then { r with italic := true }
  else if p = 4 then { r with underline := true }
  else if p = 5 ∨ p = 6 then { r with blink := true }
  else if p = 7 then { r with inverse := true }
  else if p = 8 then { r with conceal := true }
  else if p = 9 then { r with crossed := true }
  else if p = 21 then { r with underline := true }
  else if p = 22 then { r with bold := false, faint := false }
  else if p = 23 then { r with italic := false }
  else if p = 24 then { r with underline := false }
  else if p = 25 then { r with blink := false }
  else if p = 27 then { r with inverse := false }
  else if p = 28 then { r with conceal := false }
  else if p = 29 then { r with crossed := false }
  else if 30 ≤ p ∧ p ≤ 37 then { r with fg := some (.idx (p - 30)) }
  else if p = 39 then { r with fg := none }
  else if 40 ≤ p ∧ p ≤ 47 then { r with bg := some (.idx (p - 40)) }
  else if p = 49 then { r with bg := none }
  else if 90 ≤ p ∧ p ≤ 97 then { r with fg := some (.idx (p - 90 + 8)) }
  else if 100 ≤ p ∧ p ≤ 107 then { r with bg := some (.idx (p - 100 + 8)) }
  else r

def setLayer (r : Rendition) (p : Nat) (c : TColor) : Rendition :=
  if p = 38 then { r with fg := some c } else { r with bg := some c }

/-- Where the reader is inside an extended-colour parameter run (`38;5;n`, `38;2;r;g;b`). -/
inductive Pend where
  | none
  | ext (layer : Nat)
  | idx (layer : Nat)
  | rgb1 (layer : Nat)
  | rgb2 (layer r : Nat)
  | rgb3 (layer r g : Nat)
  deriving DecidableEq, Repr

/-- Apply the parameters of one `CSI … m`, left to right. `38;5;n`, `38;2;r;g;b` (and 48)
consume their arguments; a malformed or truncated extended colour ends the sequence. -/
def applySgrAux : Pend → Rendition → List Nat → Rendition
  | _, r, [] => r
  | .none, r, p :: rest =>
    if p = 38 ∨ p = 48 then applySgrAux (.ext p) r rest else applySgrAux .none (applyOne r p) rest
  | .ext l, r, p :: rest =>
    if p = 5 then applySgrAux (.idx l) r rest
    else if p = 2 then applySgrAux (.rgb1 l) r rest
    else r
  | .idx l, r, n :: rest => applySgrAux .none (setLayer r l (.idx n)) rest
  | .rgb1 l, r, a :: rest => applySgrAux (.rgb2 l a) r rest
  | .rgb2 l a, r, b :: rest => applySgrAux (.rgb3 l a b) r rest
  | .rgb3 l a b, r, c :: rest => applySgrAux .none (setLayer r l (.rgb a b c)) rest

def applySgr (r : Rendition) (ps : List Nat) : Rendition := applySgrAux .none r ps

inductive Mode where
  | ground
  | esc
  /-- inside `CSI`: finished parameters, the parameter being read, and whether the sequence is
  still a plain parameter list (no private marker / intermediate / sub-parameter seen). -/
  | csi (done : List Nat) (cur : Nat) (plain : Bool)
  /-- inside `OSC`, payload so far -/
  | osc (buf : List Char)
  /-- inside `OSC`, after an ESC that may begin the terminator `ESC \` -/
  | oscEsc (buf : List Char)
  /-- inside DCS / SOS / PM / APC: ignored up to ST -/
  | str
  | strEsc
  deriving DecidableEq, Repr

structure State where
  mode : Mode := .ground
  rend : Rendition := {}
  link : Option (List Char) := none
  deriving DecidableEq, Repr

structure Cell where
  ch : Char
  rend : Rendition
  link : Option (List Char)
  deriving DecidableEq, Repr

def ESC : Char := '\x1b'
def BEL : Char := '\x07'

def splitAtSemi : List Char → Option (List Char × List Char)
  | [] => none
  | c :: cs => if c = ';' then some ([], cs) else
    match splitAtSemi cs with
    | some (a, b) => some (c :: a, b)
    | none => none

/-- Effect of a complete OSC payload. Only `8 ; params ; URI` matters: an empty URI closes the
link, a non-empty one opens it. -/
def dispatchOsc (s : State) (buf : List Char) : State :=
  match buf with
  | '8' :: ';' :: rest =>
    match splitAtSemi rest with
    | some (_, uri) => { s with mode := .ground, link := if uri = [] then none else some uri }
    | none => { s with mode := .ground }
  | _ => { s with mode := .ground }

def isDigit (c : Char) : Bool := '0' ≤ c ∧ c ≤ '9'

/-- What follows an ESC (also used when an ESC interrupts a string or a CSI). -/
def afterEsc (s : State) (c : Char) : State :=
  if c = '[' then { s with mode := .csi [] 0 true }
  else if c = ']' then { s with mode := .osc [] }
  else if c = 'P' ∨ c = 'X' ∨ c = '^' ∨ c = '_' then { s with mode := .str }
  else if c = ESC then { s with mode := .esc }
  else if ' ' ≤ c ∧ c ≤ '/' then { s with mode := .esc }   -- intermediate of an nF escape
  else { s with mode := .ground }

def step (s : State) (c : Char) : State × Option Cell :=
  match s.mode with
  | .ground =>
    if c = ESC then ({ s with mode := .esc }, none)
    else (s, some ⟨c, s.rend, s.link⟩)
  | .esc => (afterEsc s c, none)
  | .csi done cur plain =>
    if c = ESC then ({ s with mode := .esc }, none)
    else if isDigit c then ({ s with mode := .csi done (10 * cur + (c.toNat - 48)) plain }, none)
    else if c = ';' then ({ s with mode := .csi (done ++ [cur]) 0 plain }, none)
    else if '@' ≤ c ∧ c ≤ '~' then
      if c = 'm' ∧ plain then
        ({ s with mode := .ground, rend := applySgr s.rend (done ++ [cur]) }, none)
      else ({ s with mode := .ground }, none)
    else if ' ' ≤ c ∧ c ≤ '?' then ({ s with mode := .csi done cur false }, none)
    else (s, none)
  | .osc buf =>
    if c = BEL then (dispatchOsc s buf, none)
    else if c = ESC then ({ s with mode := .oscEsc buf }, none)
    else ({ s with mode := .osc (buf ++ [c]) }, none)
  | .oscEsc buf =>
    if c = '\\' then (dispatchOsc s buf, none)
    else (afterEsc s c, none)   -- the string is abandoned
  | .str =>
    if c = ESC then ({ s with mode := .strEsc }, none) else (s, none)
  | .strEsc =>
    if c = '\\' then ({ s with mode := .ground }, none) else (afterEsc s c, none)

/-- Feed characters; returns the final state and the displayed cells. -/
def run (s : State) : List Char → State × List Cell
  | [] => (s, [])
  | c :: cs =>
    match step s c with
    | (s', none) => run s' cs
    | (s', some cell) => ((run s' cs).1, cell :: (run s' cs).2)

def final (s : State) (cs : List Char) : State := (run s cs).1
def cells (s : State) (cs : List Char) : List Cell := (run s cs).2

/-- The default state: ground mode, default rendition, no hyperlink. -/
def init : State := {}

/-- A line is self-contained: displayed from the default state it returns to it. -/
def selfContained (line : List Char) : Prop := final init line = init

instance (line : List Char) : Decidable (selfContained line) :=
  inferInstanceAs (Decidable (final init line = init))

end Term
