import DeltaModel.SideBySide
import DeltaModel.LineNumbers
import DeltaModel.Generated.SbsRow
/-!
Model of how ONE ROW of the side-by-side view is put together (property C07, session 4 / T3):

* `features/side_by_side.rs`: `paint_minus_and_plus_lines_side_by_side` (row loop),
  `paint_left_panel_minus_line` / `paint_right_panel_plus_line`, `paint_minus_or_plus_panel_line`
  (marker column, empty sections for the half without a line), `paint_zero_lines_side_by_side`,
  `get_right_fill_style_for_panel`, `pad_panel_line_to_width` (empty-line marker, truncation,
  fill), `available_line_width`, `ansifill::UseFullPanelWidth`;
* `paint.rs`: `Painter::paint_line` (gutter, then — only if the line has a section — the marker
  column, then the sections), `get_should_right_fill_background_color_and_fill_style` (its final
  decision), `paint_zero_line` (what it hands down);
* `features/line_numbers.rs` `formatted_width`, `format.rs` `FormatStringPlaceholderData::width`.

Everything that is a `match` arm, a guard, a statement order or a constant there is read from
`Generated/SbsRow.lean` (regenerated from the source on every run). The line-number counters,
the gutter text (`renderCell`) and the alignment walk of `wrap_minusplus_block` are those of
`DeltaModel/LineNumbers.lean`; truncation / padding primitives those of `DeltaModel/SideBySide.lean`.

A painted line is a list of `SideBySide.Item`s (text runs pre-segmented into clusters with the
widths the implementation computed; escape sequences). What a hunk line's sections look like after
wrapping (one `List Item` per display row) is an input: wrapping is `DeltaModel/Wrap.lean`.
Core Lean only.
-/
namespace SbsRow
open Wrap (G gsWidth Err spaceG)
open SideBySide (Item measure truncateStr)
open LineNumbers (PH Cell St Panel Counters Alignment renderCell lookupSt rawAt)
open Generated.SbsRow

/-- `BgFillMethod`. -/
inductive FillM | spaces | ansi
deriving DecidableEq, Repr

def fillOfCode : Nat → Option FillM
  | 1 => some .spaces
  | 2 => some .ansi
  | _ => none

def modeCode : Option FillM → Nat
  | none => 0
  | some .spaces => 1
  | some .ansi => 2

def sideCode : Panel → Nat
  | .left => 1
  | .right => 2

def b2n (b : Bool) : Nat := if b then 1 else 0

/-- wildcard 99 or the value itself -/
def pat (p x : Nat) : Bool := p = 99 || p = x

/-- The part of `Config` / `LineNumbersData` a row depends on. -/
structure Cfg where
  /-- `config.side_by_side_data[Left].width` -/
  pwL : Nat
  /-- `config.side_by_side_data[Right].width` -/
  pwR : Nat
  /-- `config.line_fill_method` -/
  lineFill : FillM
  keepMarkers : Bool
  /-- `config.background_color_extends_to_terminal_width` -/
  bgExtends : Bool
  /-- parsed `line-numbers-left-format` / `-right-format` -/
  fl : List PH
  fr : List PH
  /-- `hunk_max_line_number_width` -/
  minW : Nat
  /-- display width of the characters that occur in gutters / marker column, where it is not 1
  (taken from the implementation) -/
  cw : List (Char × Nat)
  /-- items of `config.truncation_symbol` -/
  tail : List Item
  /-- what `right_fill_background_color` appends (zero columns wide) -/
  ansiSeq : String

def Cfg.pw (cfg : Cfg) : Panel → Nat
  | .left => cfg.pwL
  | .right => cfg.pwR

def lookupW (c : Char) : List (Char × Nat) → Nat
  | [] => 1
  | (d, w) :: rest => if d = c then w else lookupW c rest

def charG (cfg : Cfg) (c : Char) : G := ⟨String.singleton c, lookupW c cfg.cw⟩

/-- A run of literal characters as one text item (nothing for the empty string). -/
def gItems (cfg : Cfg) (cs : List Char) : List Item :=
  if cs.isEmpty then [] else [.text (cs.map (charG cfg))]

/-! ### The statement orders / argument wiring the model relies on -/

/-- The row loop writes left panel, right panel, newline; the left function paints and pads with
`Left`, the right one with `Right`; an unchanged line is painted into `[Left, Right]`; only the
right format gets the odd-width pad character. Anything else is not the modelled shape. -/
def shapeOk : Bool :=
  rowOrder == [1, 2, 0] && panelSides == ((1, 1), (2, 2)) && zeroPanelOrder == [1, 2]
    && formatPadSides == (false, true)

/-! ### `get_should_right_fill_background_color_and_fill_style` (decision) and
`get_right_fill_style_for_panel` -/

/-- `BgShouldFill` handed down: `none` = `No`, `some m` = `With(m)`. -/
def shouldFillOf (cfg : Cfg) : Nat → Option FillM
  | 1 => some .spaces
  | 2 => some .ansi
  | 3 => some cfg.lineFill
  | _ => none

def lookupShould (hasBg : Bool) (sf : Option FillM) (bgExtends : Bool) : List (Nat × Nat × Nat) → Option FillM
  | [] => none
  | (b, s, r) :: rest =>
    if pat b (b2n hasBg) && pat s (b2n sf.isSome) then
      match r with
      | 1 => sf
      | 2 => if bgExtends then sf else none
      | _ => none
    else lookupShould hasBg sf bgExtends rest

/-- The fill method `get_should_right_fill_background_color_and_fill_style` returns; `hasBg`: the
fill style (chosen from state / homolog flag / raw sections) has a background colour. -/
def computedFill (cfg : Cfg) (hasBg : Bool) (sf : Option FillM) : Option FillM :=
  lookupShould hasBg sf cfg.bgExtends shouldFillArms

/-- `none_or_override` -/
def overrideFill (side : Panel) : Option FillM :=
  fillOfCode (if sideCode side = overrideRule.1 then overrideRule.2.1 else overrideRule.2.2)

def resolveFill (side : Panel) (computed : Option FillM) : Nat → Option FillM
  | 1 => some .spaces
  | 2 => some .ansi
  | 3 => overrideFill side
  | 4 => computed
  | _ => none

def lookupInner (side : Panel) (computed : Option FillM) : List (Nat × Nat × Nat) → Option FillM
  | [] => none
  | (p, g, r) :: rest =>
    if (p = 99 || (p = 0 && computed.isNone)) && pat g (sideCode side) then resolveFill side computed r
    else lookupInner side computed rest

def lookupOuter (side : Panel) (isEmpty hasIndex : Bool) (computed : Option FillM) :
    List (Nat × Nat × Nat) → Option FillM
  | [] => none
  | (e, i, r) :: rest =>
    if pat e (b2n isEmpty) && pat i (b2n hasIndex) then
      if r = 5 then lookupInner side computed fillInnerArms else resolveFill side computed r
    else lookupOuter side isEmpty hasIndex computed rest

/-- `get_right_fill_style_for_panel`: how the panel is filled. -/
def fillFor (cfg : Cfg) (side : Panel) (isEmpty hasIndex hasBg : Bool) (sf : Option FillM) : Option FillM :=
  lookupOuter side isEmpty hasIndex (computedFill cfg hasBg sf) fillOuterArms

/-! ### `pad_panel_line_to_width` -/

def lookupMarker (code : Nat) : List (Nat × Option String) → Option (Option String)
  | [] => none
  | (c, r) :: rest => if c = code then some r else lookupMarker code rest

/-- The empty-line marker appended to a panel line that is empty although it belongs to a line. -/
def markerFor (cfg : Cfg) (isEmpty hasIndex : Bool) (st : St) : Except Err (List Item) :=
  if isEmpty && hasIndex then
    match lookupMarker st.code emptyMarkerArms with
    | some (some s) => .ok (gItems cfg s.toList)
    | some none => .ok []
    | none => .error (.panic "internal error: entered unreachable code")
  else .ok []

def lookupPad (mode tw pw : Nat) : List (Nat × Nat × Nat) → Nat
  | [] => 0
  | (m, g, a) :: rest =>
    if m = mode && (g = 0 || (g = 1 && decide (pw ≤ tw)) || (g = 2 && decide (pw < tw))) then a
    else lookupPad mode tw pw rest

/-- `pad_panel_line_to_width` after the marker: measure, truncate when too wide, fill as the
generated arms say. `panel_width - text_width` is a checked `usize` subtraction. -/
def padPanelG (cfg : Cfg) (pw : Nat) (line : List Item) (fill : Option FillM) : Except Err (List Item) :=
  let tw := measure line
  let cut : Bool := if truncateGuardStrict then decide (pw < tw) else decide (pw ≤ tw)
  match (if cut then truncateStr line pw cfg.tail else .ok line) with
  | .error e => .error e
  | .ok l =>
    match lookupPad (modeCode fill) tw pw padFillArms with
    | 1 => if pw < tw then .error (.panic "attempt to subtract with overflow")
           else .ok (l ++ [.text (List.replicate (pw - tw) spaceG)])
    | 2 => .ok (l ++ [.ansi cfg.ansiSeq])
    | _ => .ok l

/-! ### `Painter::paint_line` and one panel -/

def lookupPrefix (keep side st : Nat) : List (Nat × Nat × Nat × Option String) → Option String
  | [] => none
  | (k, s, t, r) :: rest => if pat k keep && pat s side && pat t st then r else lookupPrefix keep side st rest

/-- Marker column of `paint_minus_or_plus_panel_line` (`--keep-plus-minus-markers`). -/
def prefixFor (cfg : Cfg) (side : Panel) (st : St) : Option String :=
  lookupPrefix (b2n cfg.keepMarkers) (sideCode side) st.code prefixArms

/-- `painted_prefix` of an unchanged line, as `paint_zero_line` hands it down. -/
def zeroPrefixFor (cfg : Cfg) : Option String := if cfg.keepMarkers then some zeroPrefix else none

/-- The marker column as painted text. -/
def preItems (cfg : Cfg) : Option String → List Item
  | some s => gItems cfg s.toList
  | none => []

/-- `Painter::paint_line` with line-number data: gutter, then (only when the line has a section) the
marker column, then the painted sections. -/
def paintLine (cfg : Cfg) (gutter : List Char) (pre : Option String) (secs : List Item) : List Item :=
  gItems cfg gutter ++ (if secs.isEmpty then [] else preItems cfg pre) ++ secs

/-- One half of a row as the row loop hands it to the panel function. -/
structure Half where
  /-- `line_index.is_some()` -/
  hasIndex : Bool
  /-- the `state` argument -/
  st : St
  /-- painted sections of this display row (`[]`: no sections at all) -/
  secs : List Item
  /-- the fill style of this row has a background colour -/
  hasBg : Bool

/-- The panel line before padding: what `paint_line` returns plus the empty-line marker. -/
def panelLine (cfg : Cfg) (cell : Option Cell) (pre : Option String) (h : Half) : Except Err (List Item) :=
  let line0 := paintLine cfg (renderCell cfg.fl cfg.fr cfg.minW cell) pre h.secs
  match markerFor cfg h.secs.isEmpty h.hasIndex h.st with
  | .error e => .error e
  | .ok mk => .ok (line0 ++ mk)

/-- `paint_left_panel_minus_line` / `paint_right_panel_plus_line` / one panel of an unchanged line:
the finished panel. `sf`: the should-fill the caller passes. -/
def panel (cfg : Cfg) (side : Panel) (cell : Option Cell) (pre : Option String) (h : Half)
    (sf : Option FillM) : Except Err (List Item) :=
  match panelLine cfg cell pre h with
  | .error e => .error e
  | .ok line => padPanelG cfg (cfg.pw side) line (fillFor cfg side h.secs.isEmpty h.hasIndex h.hasBg sf)

/-! ### Rows -/

/-- One output row: the gutter cells (C05), the left panel, the right panel, written in this order
and followed by the newline. -/
structure Row where
  cells : LineNumbers.SbsRow
  left : List Item
  right : List Item

def Row.items (r : Row) : List Item := r.left ++ r.right

def lookupSecs (rows : List (List Item)) (i : Nat) : Except Err (List Item) :=
  match rows[i]? with
  | some r => .ok r
  | none => .error (.panic "index out of bounds")

def liftS {α} : Except String α → Except Err α
  | .ok a => .ok a
  | .error e => .error (.panic e)

/-- The half of a row for one side of an alignment entry: with an index the line's row and state,
without one no sections and the side's default state. -/
def halfOf (states : List St) (rows : List (List Item)) (bg : List Bool) (dflt : St) :
    Option Nat → Except Err Half
  | some i =>
    match liftS (lookupSt states i) with
    | .error e => .error e
    | .ok st =>
      match lookupSecs rows i with
      | .error e => .error e
      | .ok secs => .ok ⟨true, st, secs, bg.getD i false⟩
  | none => .ok ⟨false, dflt, [], false⟩

/-- The painted block of one subhunk after wrapping: per-row states, rows (sections of every display
row) and background flags of each side, and which lines still carry their raw form. -/
structure Sides where
  sl : List St
  sr : List St
  rowsL : List (List Item)
  rowsR : List (List Item)
  bgL : List Bool
  bgR : List Bool
  rl : List Bool
  rr : List Bool

/-- One iteration of the row loop of `paint_minus_and_plus_lines_side_by_side`. -/
def blockRow (cfg : Cfg) (s : Sides) (c : Counters) (mi pi : Option Nat) : Except Err (Counters × Row) :=
  match liftS (LineNumbers.sbsRow c s.sl s.sr (rawAt s.rl mi) (rawAt s.rr pi) mi pi) with
  | .error e => .error e
  | .ok (c1, cells) =>
    match halfOf s.sl s.rowsL s.bgL (St.ofCode Generated.LineNum.sbsDefaultStates.1) mi with
    | .error e => .error e
    | .ok hl =>
      match panel cfg .left cells.l (prefixFor cfg .left hl.st) hl (shouldFillOf cfg blockShouldFill.1) with
      | .error e => .error e
      | .ok l =>
        match halfOf s.sr s.rowsR s.bgR (St.ofCode Generated.LineNum.sbsDefaultStates.2) pi with
        | .error e => .error e
        | .ok hr =>
          match panel cfg .right cells.r (prefixFor cfg .right hr.st) hr (shouldFillOf cfg blockShouldFill.2) with
          | .error e => .error e
          | .ok r => .ok (c1, ⟨cells, l, r⟩)

def blockRowsGo (cfg : Cfg) (s : Sides) (c : Counters) : Alignment → Except Err (Counters × List Row)
  | [] => .ok (c, [])
  | (mi, pi) :: rest =>
    match blockRow cfg s c mi pi with
    | .error e => .error e
    | .ok (c1, row) =>
      match blockRowsGo cfg s c1 rest with
      | .error e => .error e
      | .ok (c2, rows) => .ok (c2, row :: rows)

/-- Alignment and per-row states the row loop runs over: those of `wrap_minusplus_block` when some
line occupies more than one row, else the inferred alignment and one state per line. -/
def effAlign (m p : Nat) (al : Alignment) (wl wr : List Nat) (rl rr : List Bool) :
    Except Err (Alignment × List St × List St × List Bool × List Bool) :=
  if wl.any (· ≠ 1) || wr.any (· ≠ 1) then
    match liftS (LineNumbers.wrapBlock wl wr al 0 0 0 0) with
    | .error e => .error e
    | .ok (al', sl, sr) => .ok (al', sl, sr, [], [])
  else .ok (al, List.replicate m .minus, List.replicate p .plus, rl, rr)

/-- `paint_minus_and_plus_lines_side_by_side` for a subhunk of `m` removed and `p` added lines with
line alignment `al`; `wl`/`wr`: display rows per line; `rowsL`/`rowsR`: the painted sections of every
display row of each side, in order; `bgL`/`bgR`: per display row, whether its fill style has a
background colour. -/
def blockRows (cfg : Cfg) (c : Counters) (m p : Nat) (al : Alignment) (wl wr : List Nat) (rl rr : List Bool)
    (rowsL rowsR : List (List Item)) (bgL bgR : List Bool) : Except Err (Counters × List Row) :=
  if !shapeOk then .error (.panic "row shape of the source is not the modelled one") else
  match effAlign m p al wl wr rl rr with
  | .error e => .error e
  | .ok (al', sl, sr, rl', rr') => blockRowsGo cfg ⟨sl, sr, rowsL, rowsR, bgL, bgR, rl', rr'⟩ c al'

/-- Both panels of one display row of an unchanged line. -/
def zeroRow (cfg : Cfg) (c : Counters) (st : St) (secs : List Item) (hasBg : Bool) : Except Err (Counters × Row) :=
  match liftS (LineNumbers.paintLine true c st (some .left)) with
  | .error e => .error e
  | .ok (c1, cl) =>
    match panel cfg .left cl (zeroPrefixFor cfg) ⟨true, st, secs, hasBg⟩ (shouldFillOf cfg zeroShouldFill) with
    | .error e => .error e
    | .ok l =>
      match liftS (LineNumbers.paintLine true c1 st (some .right)) with
      | .error e => .error e
      | .ok (c2, cr) =>
        match panel cfg .right cr (zeroPrefixFor cfg) ⟨true, st, secs, hasBg⟩ (shouldFillOf cfg zeroShouldFill) with
        | .error e => .error e
        | .ok r => .ok (c2, ⟨⟨cl, cr⟩, l, r⟩)

def zeroRowsGo (cfg : Cfg) (hasBg : Bool) (c : Counters) : List (St × List Item) → Except Err (Counters × List Row)
  | [] => .ok (c, [])
  | (st, secs) :: rest =>
    match zeroRow cfg c st secs hasBg with
    | .error e => .error e
    | .ok (c1, row) =>
      match zeroRowsGo cfg hasBg c1 rest with
      | .error e => .error e
      | .ok (c2, rows) => .ok (c2, row :: rows)

/-- `paint_zero_lines_side_by_side` for an unchanged line whose sections occupy the display rows
`rows` (`wrap_zero_block`: first row `HunkZero`, the others the generated continuation state). -/
def zeroRows (cfg : Cfg) (c : Counters) (rows : List (List Item)) (hasBg : Bool) : Except Err (Counters × List Row) :=
  if !shapeOk then .error (.panic "row shape of the source is not the modelled one") else
  zeroRowsGo cfg hasBg c
    (rows.zipIdx.map fun (secs, i) => ((if i = 0 then St.zero else St.ofCode Generated.LineNum.zeroWrappedState), secs))

/-! ### Gutter width as `line_numbers.rs` computes it, text width, panel widths -/

/-- `FormatStringPlaceholderData::width(hunk_max_line_number_width)`. -/
def phWidth (minW : Nat) (ph : PH) : Nat × Nat :=
  (ph.preLen + max (match ph.ph with | some _ => minW | none => widthNoPlaceholder)
      (match ph.width with | some w => w | none => widthNoWidth),
   ph.sufLen)

/-- `LineNumbersData::formatted_width` for one side. -/
def formattedWidth (fd : List PH) (minW : Nat) : Nat :=
  match fd.getLast? with
  | none => widthEmptyFormat
  | some last =>
    ((fd.reverse.drop 1).map fun p => (phWidth minW p).1).sum + (phWidth minW last).1 + (phWidth minW last).2

/-- `available_line_width` for one side, from the format data (reuses `SideBySide.availableLineWidth`). -/
def textWidth (cfg : Cfg) (side : Panel) : Nat :=
  SideBySide.availableLineWidth (cfg.pw side)
    (formattedWidth (match side with | .left => cfg.fl | .right => cfg.fr) cfg.minW) cfg.keepMarkers

/-- `UseFullPanelWidth::is_odd_with_ansi`; `fixed`: the width is `Width::Fixed`. -/
def isOddWithAnsi (fixed : Bool) (w : Nat) (m : FillM) : Bool :=
  modeCode (some m) = oddRule.1 && fixed && w % oddRule.2.1 = oddRule.2.2

/-- `new_sbs` + `sbs_odd_fix` with the `--width variable` case (`w`: the fixed width or, for
`variable`, the terminal width); `m`: the `--line-fill-method` *option* (the panel widths are
computed from the option even when the output is not a terminal). -/
def panelWidthsV (fixed : Bool) (w : Nat) (m : FillM) : Nat × Nat :=
  let p := w / Generated.panelDivisor
  (p, if isOddWithAnsi fixed w m then p + Generated.oddRightIncrement else p)

end SbsRow
