import DeltaModel.RemoteRegex
import DeltaModel.Generated.Remote
/-!
C19 — the remote-derived commit-link template: `GitRemoteRepo::from_str` and `format_commit_url`
(src/git_config/remote.rs) as interpreters of the tables regenerated from the source
(`Generated/Remote.lean`: the four `*_REMOTE_URL` patterns, the `from_str` chain, the `format_commit_url` arms).

`recogniseWith` / `commitUrlWith` take the tables as arguments (the lemmas of `Proofs/Remote.lean` hold for every
table that passes the decidable check `armOk`); `recognise` / `commitUrl` are their instances at the generated tables.
Every Rust panic point is an explicit error: `caps.get(k).unwrap()` on a group that did not participate.
Core Lean only.
-/
namespace Remote

/-- An argument of the slug `format!`, with the capture group number resolved to the position of the group's
piece in the pattern's `tail` (`missing`: the pattern has no such group — `caps.get(k)` is `None`).
`unwrap` = the argument is `caps.get(k).unwrap()` (panics on `None`), else `.map(..).unwrap_or_default()`. -/
inductive RSeg where
  | lit (s : List Char)
  | grp (i : Nat) (unwrap : Bool)
  | missing (unwrap : Bool)
  deriving DecidableEq, Repr

def groupPos (tail : List Piece) (k : Nat) : Option Nat := tail.findIdx? (·.cap == k)

def resolve (tail : List Piece) : SlugSeg → RSeg
  | .lit s => .lit s
  | .cap k => match groupPos tail k with
    | some i => .grp i true
    | none => .missing true
  | .capOpt k => match groupPos tail k with
    | some i => .grp i false
    | none => .missing false

def unwrapNone : String := "called `Option::unwrap()` on a `None` value"

/-- One argument, evaluated on the captures of the tail pieces. -/
def evalR (caps : List (Option (List Char))) : RSeg → Except String (List Char)
  | .lit s => .ok s
  | .grp i u =>
    match caps[i]? with
    | some (some t) => .ok t
    | _ => if u then .error unwrapNone else .ok []
  | .missing u => if u then .error unwrapNone else .ok []

def evalRs (caps : List (Option (List Char))) : List RSeg → Except String (List Char)
  | [] => .ok []
  | g :: gs =>
    match evalR caps g, evalRs caps gs with
    | .ok a, .ok b => .ok (a ++ b)
    | .error e, _ => .error e
    | _, .error e => .error e

/-- The slug `format!` of an arm. -/
def slugOf (tail : List Piece) (caps : List (Option (List Char))) (segs : List SlugSeg) :
    Except String (List Char) :=
  evalRs caps (segs.map (resolve tail))

/-- `GitRemoteRepo::<variant> { slug }` -/
structure Repo where
  variant : List Char
  slug : List Char
  deriving DecidableEq, Repr

deriving instance DecidableEq for Except

def findPattern (pats : List Pattern) (name : List Char) : Option Pattern := pats.find? (·.name == name)

/-- `GitRemoteRepo::from_str`: the first arm whose pattern matches; `none` = `Err(..)`. -/
def recogniseWith (pats : List Pattern) : List Arm → List Char → Except String (Option Repo)
  | [], _ => .ok none
  | arm :: arms, s =>
    match findPattern pats arm.pattern with
    | none => .error "unknown pattern"
    | some p =>
      match p.captures s with
      | none => recogniseWith pats arms s
      | some m =>
        match slugOf p.tail m.tail arm.slug with
        | .ok slug => .ok (some ⟨arm.variant, slug⟩)
        | .error e => .error e

def renderUrl (slug commit : List Char) : List UrlSeg → List Char
  | [] => []
  | .lit s :: r => s ++ renderUrl slug commit r
  | .slug :: r => slug ++ renderUrl slug commit r
  | .commit :: r => commit ++ renderUrl slug commit r

def findFormat (fas : List FormatArm) (variant : List Char) : Option FormatArm := fas.find? (·.variant == variant)

/-- `GitRemoteRepo::format_commit_url` (`none`: no arm for the variant — excluded by `armOk`). -/
def commitUrlWith (fas : List FormatArm) (r : Repo) (commit : List Char) : Option (List Char) :=
  (findFormat fas r.variant).map fun fa => renderUrl r.slug commit fa.template

/-! ### The generated instance -/

def recognise (s : List Char) : Except String (Option Repo) :=
  recogniseWith Generated.Remote.patterns Generated.Remote.fromStrArms s

def commitUrl (r : Repo) (commit : List Char) : Option (List Char) :=
  commitUrlWith Generated.Remote.formatArms r commit

/-- `format_commit_line_with_osc8_commit_hyperlink`: which URL a hash gets. The sources are consulted in the
order the source has (`Generated.Remote.commitLinkSources`): 0 = the configured `hyperlinks-commit-link-format`
(`subst fmt hash` = `fmt.replace("{commit}", hash)`), 1 = the `origin` remote. `none`: no link. -/
def commitLinkUrlFrom (subst : List Char → List Char → List Char) (configured : Option (List Char))
    (origin : Option (List Char)) (hash : List Char) : List Nat → Option (List Char)
  | [] => none
  | 0 :: rest =>
    match configured with
    | some fmt => some (subst fmt hash)
    | none => commitLinkUrlFrom subst configured origin hash rest
  | 1 :: rest =>
    match origin.map recognise with
    | some (.ok (some r)) => commitUrl r hash
    | _ => commitLinkUrlFrom subst configured origin hash rest
  | _ :: rest => commitLinkUrlFrom subst configured origin hash rest

def commitLinkUrl (subst : List Char → List Char → List Char) (configured origin : Option (List Char))
    (hash : List Char) : Option (List Char) :=
  commitLinkUrlFrom subst configured origin hash Generated.Remote.commitLinkSources

/-! ### The table check -/

def https : List Char := ['h', 't', 't', 'p', 's', ':', '/', '/']

/-- The slug arguments repeat the path part of the pattern: literal pieces as literal text, capture groups in
order (a group that may not participate must not be `unwrap`ped), up to one trailing optional non-capturing
literal group (`(?:\.git)?`) that the slug leaves out. `i` = position of the first piece of `rest` in the tail. -/
def mirrors : Nat → List Piece → List RSeg → Bool
  | _, [], [] => true
  | _, p :: ps, [] => ps.isEmpty && p.cap == 0 && p.optional && p.alts.all allLit
  | i, p :: ps, .lit t :: rs =>
    p.cap == 0 && !p.optional && (match p.alts with | [alt] => allLit alt && litText alt == t | _ => false) &&
      mirrors (i + 1) ps rs
  | i, p :: ps, .grp j u :: rs =>
    p.cap != 0 && j == i && (!p.optional || !u) && mirrors (i + 1) ps rs
  | _, _, _ => false

/-- A prefix alternative is literal text, or `[^@]+@`. -/
def preAltOk (alt : List Atom) : Bool :=
  allLit alt || alt == [⟨true, ['@'], .plus⟩, lit '@']

/-- What the theorem needs of one arm of `from_str`, its pattern and the `format_commit_url` arm of its variant:
the host part of the pattern is literal text `h` without a separator character, the separator is one character of a
positive class, the URL template is `https://` `h` `/` `{slug}` <literal> `{commit}`, the slug mirrors the path
part, and the prefix group is non-capturing with alternatives of the two known shapes. -/
def armOk (pats : List Pattern) (fas : List FormatArm) (arm : Arm) : Bool :=
  match findPattern pats arm.pattern, findFormat fas arm.variant with
  | some p, some fa =>
    (match hostLit p.host, fa.template with
      | some h, [.lit a, .slug, .lit _, .commit] => a == https ++ h ++ ['/'] && h.all (fun c => !p.sep.accepts c)
      | _, _ => false) &&
    p.sep.q == .one && !p.sep.neg &&
    p.pre.cap == 0 && p.pre.alts.all preAltOk &&
    mirrors 0 p.tail (arm.slug.map (resolve p.tail))
  | _, _ => false

/-- The literal between `{slug}` and `{commit}` of a template of the checked shape. -/
def infixOf (fa : FormatArm) : List Char :=
  match fa.template with
  | [.lit _, .slug, .lit b, .commit] => b
  | _ => []

/-- The texts a trailing optional literal group can consume (besides nothing). -/
def suffixTexts : List Piece → List (List Char)
  | [] => []
  | [p] => if p.cap == 0 && p.optional then p.alts.map litText else []
  | _ :: ps => suffixTexts ps

/-- ASCII text as bytes (the `Links` model works on bytes). -/
def asciiBytes (s : List Char) : List UInt8 := s.map fun c => UInt8.ofNat c.toNat

/-- Prefix and infix of the URL template of a variant, as bytes (`([], [])` if the table has another shape). -/
def templateBytes (fas : List FormatArm) (variant : List Char) : List UInt8 × List UInt8 :=
  match findFormat fas variant with
  | some fa =>
    match fa.template with
    | [.lit a, .slug, .lit b, .commit] => (asciiBytes a, asciiBytes b)
    | _ => ([], [])
  | none => ([], [])

/-! ### Specification side: where git itself sees the host and the path of a remote URL

`scheme://[user[:password]@]host[:port]/path` and the scp-like `[user@]host:path` (no slash before the first colon);
anything else is a local path. Used to state where the pattern-position reading of `from_str` and the URL-syntax
reading differ (witnesses in `Props/C19.lean`); not used by the model. -/
namespace UrlSyntax

/-- Split at the first `://`. -/
def splitScheme : List Char → Option (List Char × List Char)
  | [] => none
  | c :: cs =>
    match c, cs with
    | ':', '/' :: '/' :: rest => some ([], rest)
    | _, _ => (splitScheme cs).map fun ab => (c :: ab.1, ab.2)

/-- The text after the last `@` (everything if there is none). -/
def afterLastAt (s : List Char) : List Char := (s.reverse.takeWhile (· != '@')).reverse

structure Parsed where
  host : List Char
  port : List Char
  path : List Char
  deriving DecidableEq, Repr

def parse (s : List Char) : Option Parsed :=
  match splitScheme s with
  | some (_, rest) =>
    let auth := rest.takeWhile (· != '/')
    let hp := afterLastAt auth
    some ⟨hp.takeWhile (· != ':'), (hp.dropWhile (· != ':')).drop 1, (rest.dropWhile (· != '/')).drop 1⟩
  | none =>
    let uh := s.takeWhile (· != ':')
    if uh.length == s.length || uh.contains '/' then none
    else some ⟨afterLastAt uh, [], s.drop (uh.length + 1)⟩

end UrlSyntax

end Remote
