import DeltaModel.StartupExpr
import DeltaModel.Generated.Startup
import DeltaModel.BlameFormat
/-!
Model of the option-value handling delta executes BEFORE the first input line (C03, task T9):

* `parseUsize` / `parseIsize`       — `str::parse::<usize>()` / `::<isize>()` (core's `from_str_radix`: optional
  sign, at least one ASCII digit, range check);
* `adaptWrapMaxLines`               — `wrapping.rs adapt_wrap_max_lines_argument` (`--wrap-max-lines`);
* `configMaxLineLength`             — `WrapConfig::config_max_line_length` (what `Config::from` stores as
  `max_line_length` in side-by-side mode);
* `parseWidthSpecifier`, `setWidths`— `options/set.rs parse_width_specifier`, `set_widths_and_isatty` (`--width`:
  `N`, `-N` = terminal width minus N, `A-B`, `variable`);
* `newSbs`, `sbsOddFix`             — `SideBySideData::new_sbs`, `ansifill::UseFullPanelWidth::sbs_odd_fix`;
* `tabCfgNew`                       — `TabCfg::new` (`--tabs`: `" ".repeat(width)`);
* `lineNumberFormat`                — `format::parse_line_number_format` on the two line-number formats (the
  model of C17, `Blame.PF.parseFormat`, with the line-number labels);
* `startup`                         — these in the order `set_options` / `Config::from` run them.

Every Rust panic point on these paths is an `.error (.panic …)` branch: `+ 1` / `*` / `+` on `usize` (debug
build: overflow checks), `isize + isize`, `try_into().unwrap()`, `&width_arg[1..]`, `% M`, `repeat`'s
"capacity overflow". `fatal(…)` (message, exit status 2) is `.error (.fatal …)`: a refusal, not a crash.
The arithmetic itself is not written here: it is the generated `Startup.Expr` terms of
`Generated/Startup.lean`, evaluated by `eval` / `evalArms`.

Text is `List Char`; `trim` uses Unicode `White_Space` (the set `char::is_whitespace` tests).
-/
namespace Startup
open Generated.Startup

abbrev Str := List Char

/-! ### integers from strings -/

def digitVal (c : Char) : Option Nat :=
  if 48 ≤ c.toNat ∧ c.toNat ≤ 57 then some (c.toNat - 48) else none

def digitsVal : Str → Nat → Option Nat
  | [], acc => some acc
  | c :: cs, acc =>
    match digitVal c with
    | some d => digitsVal cs (acc * 10 + d)
    | none => none

/-- one or more ASCII digits -/
def parseNat (s : Str) : Option Nat :=
  match s with
  | [] => none
  | _ :: _ => digitsVal s 0

/-- `s.parse::<usize>()`: an optional `+`, digits, at most `usize::MAX` -/
def parseUsize (s : Str) : Option Nat :=
  let ds := match s with
    | '+' :: r => r
    | _ => s
  match parseNat ds with
  | some n => if n ≤ usizeMax then some n else none
  | none => none

/-- `s.parse::<isize>()`: an optional `+` or `-`, digits, within `isize` -/
def parseIsize (s : Str) : Option Int :=
  match s with
  | '-' :: r =>
    match parseNat r with
    | some n => if n ≤ isizeMax + 1 then some (-(n : Int)) else none
    | none => none
  | '+' :: r =>
    match parseNat r with
    | some n => if n ≤ isizeMax then some (n : Int) else none
    | none => none
  | _ =>
    match parseNat s with
    | some n => if n ≤ isizeMax then some (n : Int) else none
    | none => none

/-! ### `--wrap-max-lines`, `max_line_length` -/

def isUnlimitedSpelling (arg : Str) : Bool :=
  wrapMaxLinesExact.any (fun s => s.toList == arg) || wrapMaxLinesPrefix.any (fun p => p.toList.isPrefixOf arg)

/-- `adapt_wrap_max_lines_argument` -/
def adaptWrapMaxLines (arg : Str) : Res Nat :=
  if isUnlimitedSpelling arg then .ok wrapMaxLinesUnlimited
  else
    match parseUsize arg with
    | none => .error (.fatal "Invalid wrap-max-lines argument")
    | some n => eval [n] wrapMaxLinesArith

/-- `WrapConfig::config_max_line_length(max_line_length, available_terminal_width)` with `self.max_lines` -/
def configMaxLineLength (maxLines maxLineLength availableTerminalWidth : Nat) : Res Nat :=
  evalArms [maxLines, maxLineLength, availableTerminalWidth] configMaxLineLengthArms

/-- the width `Config::from` hands to `config_max_line_length` -/
def maxLineLengthWidthArg (w : Option Nat) (tw : Nat) : Nat :=
  if maxLineLengthUsesViewWidth then (match w with | some n => n | none => tw) else tw

/-! ### `--width` -/

/-- `char::is_whitespace` -/
def isWs (c : Char) : Bool :=
  let n := c.toNat
  (9 ≤ n && n ≤ 13) || n == 32 || n == 0x85 || n == 0xA0 || n == 0x1680 || (0x2000 ≤ n && n ≤ 0x200A) ||
    n == 0x2028 || n == 0x2029 || n == 0x202F || n == 0x205F || n == 0x3000

def trim (s : Str) : Str := ((s.dropWhile isWs).reverse.dropWhile isWs).reverse

/-- the sign test of the `parse` closure: `val > 0` (or `val >= 0`) -/
def isPositive (v : Int) : Bool := if widthNegTestStrict then decide (v > 0) else decide (v ≥ 0)

/-- the `parse` closure of `parse_width_specifier`; `none` = `Err(message)` -/
def parseSigned (mustBeNegative : Bool) (w : Str) : Option Int :=
  match parseIsize (w.filter fun c => !widthRemoved.contains c) with
  | none => none
  | some v => if mustBeNegative && isPositive v then none else some v

/-- `width_arg.find(d)`: the text before the first `d`, and the text from it on (`[]` = not found) -/
def splitAtChar (d : Char) : Str → Str × Str
  | [] => ([], [])
  | c :: cs => if c = d then ([], c :: cs) else ((c :: (splitAtChar d cs).1), (splitAtChar d cs).2)

/-- `isize → usize` by `try_into()` -/
def toUsize (v : Int) : Option Nat := if 0 ≤ v then some v.toNat else none

/-- `usize as isize` (wraps) -/
def asIsize (n : Nat) : Int := if n ≤ isizeMax then (n : Int) else (n : Int) - 18446744073709551616

/-- `isize + isize` in a build with overflow checks -/
def addIsize (a b : Int) : Res Int :=
  if -((isizeMax : Int) + 1) ≤ a + b ∧ a + b ≤ (isizeMax : Int) then .ok (a + b)
  else .error (.panic "attempt to add with overflow")

def badWidth : Err := .fatal "Invalid value for width"

/-- `parse_width_specifier(width_arg, terminal_width)`; `Err(String)` becomes `fatal` in the caller -/
def parseWidthSpecifier (arg : Str) (tw : Nat) : Res Nat :=
  let a := if widthTrims then trim arg else arg
  match splitAtChar widthDash a with
  | (_, []) =>
    -- `None`: no dash
    match parseSigned widthPlainMustBeNegative a with
    | none => .error badWidth
    | some v =>
      match toUsize v with
      | some n => .ok n
      | none => if widthPlainUnwraps then .error (.panic "called `Result::unwrap()` on an `Err` value") else .error badWidth
  | ([], _ :: _) =>
    -- `Some(0)`: relative to the terminal width
    match parseSigned widthRelativeMustBeNegative a with
    | none => .error badWidth
    | some v =>
      match addIsize (asIsize tw) v with
      | .error e => .error e
      | .ok s =>
        match toUsize s with
        | some n => .ok n
        | none =>
          -- the message slices `&width_arg[1..]`
          if widthDash.utf8Size = 1 then .error badWidth else .error (.panic "byte index 1 is not a char boundary")
  | (l, r) =>
    -- `Some(index)`: `A-B`
    match parseSigned widthLeftMustBeNegative l with
    | none => .error badWidth
    | some x =>
      match parseSigned widthRightMustBeNegative r with
      | none => .error badWidth
      | some y =>
        match addIsize x y with
        | .error e => .error e
        | .ok s =>
          match toUsize s with
          | some n => .ok n
          | none => .error badWidth

inductive Width where
  | fixed (w : Nat)
  | variable
  deriving DecidableEq, Repr

def Width.fixed? : Width → Option Nat
  | .fixed n => some n
  | .variable => none

/-- `set_widths_and_isatty`: `opt.computed.decorations_width` -/
def setWidths (width : Option Str) (tw : Nat) : Res Width :=
  match width with
  | none => .ok (.fixed tw)
  | some w =>
    if w = widthVariableWord.toList then .ok .variable
    else
      match parseWidthSpecifier w tw with
      | .ok n => .ok (.fixed n)
      | .error e => .error e

/-! ### side-by-side panels -/

structure Panels where
  left : Nat
  right : Nat
  deriving DecidableEq, Repr

/-- `SideBySideData::new_sbs` -/
def newSbs (w : Width) (tw : Nat) : Res Panels :=
  let r := match w with
    | .fixed n => eval [n] panelDivFixed
    | .variable => eval [tw] panelDivVariable
  match r with
  | .ok p => .ok ⟨p, p⟩
  | .error e => .error e

/-- `UseFullPanelWidth::sbs_odd_fix` (`ansi`: `line-fill-method` is the ANSI sequence) -/
def sbsOddFix (w : Width) (ansi : Bool) (p : Panels) : Res Panels :=
  match w with
  | .fixed n =>
    if !ansi then .ok p
    else if oddModulus = 0 then .error (.panic "attempt to calculate the remainder with a divisor of zero")
    else if n % oddModulus = oddRemainder then
      match eval [p.right] oddRightArith with
      | .ok r => .ok { p with right := r }
      | .error e => .error e
    else .ok p
  | .variable => .ok p

/-! ### `--tabs` -/

/-- `TabCfg::new(width)`: the number of bytes `" ".repeat(width)` allocates, or its "capacity overflow" panic -/
def tabCfgNew (width : Nat) : Res Nat :=
  if width * tabUnitBytes ≤ isizeMax then .ok (width * tabUnitBytes) else .error (.panic "capacity overflow")

/-! ### line-number formats -/

/-- `format::parse_line_number_format(s, LINE_NUMBERS_PLACEHOLDER_REGEX, false)` as `Config::from` calls it:
only whether it returns or refuses matters there -/
def lineNumberFormat (s : Str) : Res Unit :=
  match Blame.PF.parseFormat Generated.BlameFormat.lineNumberLabels s with
  | .ok _ => .ok ()
  | .error _ => .error (.fatal "Invalid width / precision in format string")

/-! ### the whole of it -/

structure Opts where
  width : Option Str := none
  wrapMaxLines : Str := ['2']
  maxLineLength : Nat := 3000
  tabs : Nat := 8
  sideBySide : Bool := false
  ansiFill : Bool := true
  lnLeft : Str := []
  lnRight : Str := []

structure Cfg where
  width : Width
  maxLines : Nat
  panels : Panels
  maxLineLength : Nat
  tabBytes : Nat
  deriving DecidableEq, Repr

/-- the order of `Config::from` this model follows (compared with the generated order in `Props/C03.lean`) -/
def modelledOrder : List String := ["wrapConfig", "lineNumberFormats", "panels", "maxLineLength", "tabs"]

/-- `set_widths_and_isatty` (inside `set_options`), then `Config::from`; `tw` = the terminal width -/
def startup (o : Opts) (tw : Nat) : Res Cfg :=
  match setWidths o.width tw with
  | .error e => .error e
  | .ok w =>
    match adaptWrapMaxLines o.wrapMaxLines with
    | .error e => .error e
    | .ok ml =>
      match lineNumberFormat o.lnLeft with
      | .error e => .error e
      | .ok _ =>
        match lineNumberFormat o.lnRight with
        | .error e => .error e
        | .ok _ =>
          match newSbs w tw with
          | .error e => .error e
          | .ok p0 =>
            match sbsOddFix w o.ansiFill p0 with
            | .error e => .error e
            | .ok p =>
              match (if o.sideBySide then configMaxLineLength ml o.maxLineLength (maxLineLengthWidthArg w.fixed? tw) else .ok o.maxLineLength) with
              | .error e => .error e
              | .ok mll =>
                match tabCfgNew o.tabs with
                | .error e => .error e
                | .ok tb => .ok ⟨w, ml, p, mll, tb⟩

def isPanic : Res α → Bool
  | .error (.panic _) => true
  | _ => false

end Startup
