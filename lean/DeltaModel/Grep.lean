/-
Model of /repo/src/handlers/grep.rs and /repo/src/handlers/ripgrep_json.rs (post-JSON).

* Parsers work on `List Char` (the regexes count code points: `{1,10}` etc.).
  - `parseColoured`  = `GREP_LINE_REGEX_ASSUMING_COLOR` (code *before* `strip_ansi_codes`,
    which belongs to the ANSI model and is not part of this module);
  - `parseVariant v` = the four plain-text regexes; `parsePlain` tries them in the order
    **generated** from `parse_grep_line` (`Generated.Grep.plainOrder`).
  Every regex is `^ path sep-part (.*) $` with a greedy path, so under leftmost-first
  semantics the match is: the *longest* prefix that is a well-formed path and is followed
  by a well-formed separator part (`longest`).  The pattern texts are pinned by hash
  (`pinnedPatternHashes`, theorem `C16.patterns_pinned`); the file-path pattern of each
  plain-text variant is also regenerated in normal form (`pinnedPathShapes`,
  `C16.path_shapes_pinned`) with its extension length bounds read per variant
  (`Generated.Grep.extMaxNum` / `extMax` / `extMaxNoSpaces`, `C16.ext_bounds_documented`).
* Sections (`make_style_sections`, `GrepLine::expand_tabs`) work on `List UInt8`: Rust
  slices by byte offsets and panics on out-of-range offsets, `start > end` and offsets
  inside a UTF-8 sequence.  Each of these is an explicit `Except` branch.
* `emit` is the emission state machine of `handle_grep_line` (both output styles).
-/
import DeltaModel.Generated.Grep

namespace Grep

/-! ## Line kinds -/

/-- `LineType` of grep.rs. -/
inductive Kind where
  | contextHeader | context | fileHeader | match_ | ignore
  deriving DecidableEq, Repr, Inhabited

/-- `GrepType` of config.rs. -/
inductive GrepType where
  | ripgrep | classic
  deriving DecidableEq, Repr, Inhabited

def Kind.name : Kind → String
  | .contextHeader => "ContextHeader" | .context => "Context" | .fileHeader => "FileHeader"
  | .match_ => "Match" | .ignore => "Ignore"

def Kind.ofName (s : String) : Option Kind :=
  if s = "ContextHeader" then some .contextHeader
  else if s = "Context" then some .context
  else if s = "FileHeader" then some .fileHeader
  else if s = "Match" then some .match_
  else if s = "Ignore" then some .ignore
  else none

/-- `LineType::file_path_separator`, read from the generated table. -/
def Kind.sep (k : Kind) : List Char :=
  match Generated.Grep.separators.find? (fun p => p.1 = k.name) with
  | some p => p.2.toList
  | none => []

/-- The kinds a text line can have: capture groups 2 / 4 / 6 of `_parse_grep_line`, in the
generated order, each recognised by the separator character of its kind. -/
def textKinds : List Kind := Generated.Grep.groupTable.filterMap fun p => Kind.ofName p.2

/-- Which kind a separator character announces. -/
def kindOfSep (c : Char) : Option Kind := textKinds.find? fun k => k.sep = [c]

/-! ## Character classes of the regexes -/

def esc : Char := Char.ofNat 27

/-- `[0-9]` -/
def isDigit (c : Char) : Bool := 48 ≤ c.toNat && c.toNat ≤ 57
/-- `[^:|\ ]` -/
def startOk (c : Char) : Bool := c != ':' && c != '|' && c != ' '
/-- `[^.\ :=-]` -/
def extOk (c : Char) : Bool := c != '.' && c != ' ' && c != ':' && c != '=' && c != '-'
/-- `[^:|\ =-]` -/
def startOkNoSep (c : Char) : Bool := c != ':' && c != '|' && c != ' ' && c != '=' && c != '-'
/-- `[^:=-]` -/
def midOkNoSep (c : Char) : Bool := c != ':' && c != '=' && c != '-'
/-- `[^:\ ]` — the excluded characters are read from the pattern (a repair adds `=` and `-`). -/
def lastOkNoSep (c : Char) : Bool := !Generated.Grep.noSepLastExcluded.toList.contains c

def digitsVal (ds : List Char) : Nat := ds.foldl (fun acc c => 10 * acc + (c.toNat - 48)) 0

/-- `m.as_str().parse::<usize>().ok()` on a 64-bit target. -/
def numOfDigits (ds : List Char) : Option Nat :=
  let v := digitsVal ds
  if v < 2 ^ 64 then some v else none

/-! ## What a parser returns -/

/-- Captures of `_parse_grep_line`: path (1), kind (2/4/6), digits (3/5/7) as matched, code (8). -/
structure Parsed where
  path : List Char
  kind : Kind
  digits : Option (List Char)
  code : List Char
  deriving DecidableEq, Repr

def Parsed.num (p : Parsed) : Option Nat := p.digits.bind numOfDigits

/-! ## The separator part and the code -/

/-- `(.*)$` : the rest of the line, which must not contain a line feed. -/
def codeOk (code : List Char) : Bool := !code.contains '\n'

/-- Plain-text separator part: `s digits+ s` or, unless `requireNum`, just `s`
(greedy optional group: the numbered reading is tried first). Returns kind, digits, code. -/
def parseSep (requireNum : Bool) : List Char → Option (Kind × Option (List Char) × List Char)
  | [] => none
  | s :: rest =>
    match kindOfSep s with
    | none => none
    | some k =>
      let ds := rest.takeWhile isDigit
      let fallback : Option (Kind × Option (List Char) × List Char) :=
        if requireNum then none else if codeOk rest then some (k, none, rest) else none
      match ds, rest.dropWhile isDigit with
      | _ :: _, t :: code =>
        if t = s then (if codeOk code then some (k, some ds, code) else none) else fallback
      | _, _ => fallback

/-! ## Path shapes of the plain-text regexes -/

/-- Split at the last `.`: `l = a ++ '.' :: b` with no `.` in `b`. -/
def splitLastDot : List Char → Option (List Char × List Char)
  | [] => none
  | c :: cs =>
    match splitLastDot cs with
    | some (a, b) => some (c :: a, b)
    | none => if c = '.' then some ([], cs) else none

def extShapeOk (lo hi : Nat) (ext : List Char) : Bool :=
  ext.all extOk && lo ≤ ext.length && ext.length ≤ hi

/-- `[^:|\ ] [^:]* [^\ ] \. [^.\ :=-]{lo,hi}` -/
def extPathOk (lo hi : Nat) (p : List Char) : Bool :=
  match splitLastDot p with
  | none => false
  | some (a, ext) =>
    extShapeOk lo hi ext &&
    match a with
    | [] => false
    | c0 :: rest =>
      startOk c0 &&
      match rest.getLast? with
      | none => false
      | some e => e != ' ' && !(rest.dropLast.contains ':')

/-- `[^:|\ ]+ [^\ ] \. [^.\ :=-]{lo,hi}` -/
def noSpacePathOk (lo hi : Nat) (p : List Char) : Bool :=
  match splitLastDot p with
  | none => false
  | some (a, ext) =>
    extShapeOk lo hi ext &&
    match a.getLast? with
    | none => false
    | some e => e != ' ' && !a.dropLast.isEmpty && a.dropLast.all startOk

/-- `[^:|\ =-] [^:=-]* [^:\ ]` -/
def noSepPathOk (p : List Char) : Bool :=
  match p with
  | [] => false
  | c0 :: rest =>
    startOkNoSep c0 &&
    match rest.getLast? with
    | none => false
    | some e => lastOkNoSep e && rest.dropLast.all midOkNoSep

/-! ## Leftmost-first search: the longest admissible path prefix -/

def attempt {β : Type} (P : List Char → Bool) (Q : List Char → Option β) (pre post : List Char) :
    Option (List Char × β) :=
  if P pre then (Q post).map fun b => (pre, b) else none

/-- Splits `pre ++ post` at every point of `post`, longest left part first. -/
def longest {β : Type} (P : List Char → Bool) (Q : List Char → Option β) :
    List Char → List Char → Option (List Char × β)
  | pre, [] => attempt P Q pre []
  | pre, c :: cs =>
    match longest P Q (pre ++ [c]) cs with
    | some r => some r
    | none => attempt P Q pre (c :: cs)

/-- The plain-text regex variants (`GrepLineRegex` minus `WithColor`). -/
inductive Variant where
  | extNum | extNoSpaces | ext | noSep
  deriving DecidableEq, Repr

def Variant.ofName (s : String) : Option Variant :=
  if s = "WithFileExtensionAndLineNumber" then some .extNum
  else if s = "WithFileExtensionNoSpaces" then some .extNoSpaces
  else if s = "WithFileExtension" then some .ext
  else if s = "WithoutSeparatorCharacters" then some .noSep
  else none

/-- The file-path pattern of each variant. The shapes are pinned (`pinnedPathShapes`); the
extension length bounds are read from the source **per variant** (each from the match arm of
`make_grep_line_regex` that serves it), so the model follows a change of one variant's bounds. -/
def Variant.pathOk : Variant → List Char → Bool
  | .extNum => extPathOk Generated.Grep.extMinNum Generated.Grep.extMaxNum
  | .ext => extPathOk Generated.Grep.extMin Generated.Grep.extMax
  | .extNoSpaces => noSpacePathOk Generated.Grep.extMinNoSpaces Generated.Grep.extMaxNoSpaces
  | .noSep => noSepPathOk

def Variant.requireNum : Variant → Bool
  | .extNum => true
  | _ => false

def mkParsed (r : List Char × Kind × Option (List Char) × List Char) : Parsed :=
  { path := r.1, kind := r.2.1, digits := r.2.2.1, code := r.2.2.2 }

/-- `_parse_grep_line(regex_v, line)` -/
def parseVariant (v : Variant) (line : List Char) : Option Parsed :=
  (longest v.pathOk (parseSep v.requireNum) [] line).map mkParsed

/-- The order of `parse_grep_line`, from the source. -/
def plainVariants : List Variant := Generated.Grep.plainOrder.filterMap Variant.ofName

/-- `parse_grep_line` on a line not starting with `{`, under a grep calling process. -/
def parsePlain (line : List Char) : Option Parsed :=
  plainVariants.findSome? fun v => parseVariant v line

/-! ## The coloured format -/

def stripPrefix : List Char → List Char → Option (List Char)
  | [], l => some l
  | _ :: _, [] => none
  | p :: ps, c :: cs => if p = c then stripPrefix ps cs else none

/-- `ESC [ <params> m` -/
def sgr (params : String) : List Char := esc :: '[' :: (params.toList ++ ['m'])

def sgrPathOn : List Char := sgr Generated.Grep.sgrPath
def sgrSepOn : List Char := sgr Generated.Grep.sgrSep
def sgrNumOn : List Char := sgr Generated.Grep.sgrNum
def sgrOff : List Char := sgr ""

/-- The optional group `ESC[32m digits+ ESC[m ESC[36m s ESC[m`; returns digits and the rest. -/
def colouredNum (s : Char) (l : List Char) : Option (List Char × List Char) :=
  match stripPrefix sgrNumOn l with
  | none => none
  | some r =>
    let ds := r.takeWhile isDigit
    match ds with
    | [] => none
    | _ :: _ =>
      match stripPrefix (sgrOff ++ sgrSepOn ++ [s] ++ sgrOff) (r.dropWhile isDigit) with
      | none => none
      | some code => some (ds, code)

/-- `GREP_LINE_REGEX_ASSUMING_COLOR` (captures; the code is not yet ANSI-stripped). -/
def parseColoured (line : List Char) : Option Parsed :=
  match stripPrefix sgrPathOn line with
  | none => none
  | some r1 =>
    let path := r1.takeWhile (· != esc)
    match stripPrefix (sgrOff ++ sgrSepOn) (r1.dropWhile (· != esc)) with
    | none => none
    | some [] => none
    | some (s :: r3) =>
      match kindOfSep s with
      | none => none
      | some k =>
        match stripPrefix sgrOff r3 with
        | none => none
        | some r4 =>
          match colouredNum s r4 with
          | some (ds, code) =>
            -- (if the code has a line feed the unnumbered reading has it too)
            if codeOk code then some { path := path, kind := k, digits := some ds, code := code }
            else none
          | none =>
            if codeOk r4 then some { path := path, kind := k, digits := none, code := r4 } else none

/-- How `git grep --color` / `rg --color` write a line (the generator the round trip is against). -/
def fmtColoured (p : Parsed) : List Char :=
  match p.kind.sep with
  | [s] =>
    sgrPathOn ++ p.path ++ sgrOff ++ sgrSepOn ++ [s] ++ sgrOff ++
      (match p.digits with
       | some ds => sgrNumOn ++ ds ++ sgrOff ++ sgrSepOn ++ [s] ++ sgrOff
       | none => []) ++ p.code
  | _ => []

/-- How grep tools write a plain line. -/
def fmtPlain (p : Parsed) : List Char :=
  p.path ++ p.kind.sep ++
    (match p.digits with
     | some ds => ds ++ p.kind.sep
     | none => []) ++ p.code

/-! ## `rg --json` records (after `serde_json`) -/

/-- The deserialised `RipGrepLine` (`type`, `data.path.text`, `data.line_number`,
`data.lines.text`, `data.submatches[].start/end`). -/
structure JsonRec where
  kind : Kind
  path : List Char
  num : Option Nat
  text : List Char
  subs : List (Nat × Nat)
  deriving Repr

/-- A grep line as the emission logic sees it (`GrepLine`). -/
structure Rec where
  gtype : GrepType
  kind : Kind
  path : List Char
  num : Option Nat
  code : List Char
  subs : Option (List (Nat × Nat))
  deriving DecidableEq, Repr

/-- Strip one trailing `\n`, then one trailing `\r`. -/
def chomp (t : List Char) : List Char :=
  match t.getLast? with
  | some '\n' =>
    let t1 := t.dropLast
    match t1.getLast? with
    | some '\r' => t1.dropLast
    | _ => t1
  | _ => t

/-- `ripgrep_json::parse_line` on a line that deserialises to a `RipGrepLine`. -/
def ofJson (j : JsonRec) : Rec :=
  { gtype := .ripgrep, kind := j.kind, path := j.path, num := j.num, code := chomp j.text,
    subs := some j.subs }

/-- `ripgrep_json::parse_line` on a JSON value that is not a `RipGrepLine`: `begin`, `end`
and `summary` are swallowed, anything else is left to other handlers. -/
def ofJsonMeta (typ : String) : Option Rec :=
  if typ = "begin" || typ = "end" || typ = "summary" then
    some { gtype := .ripgrep, kind := .ignore, path := [], num := none, code := [], subs := none }
  else none

def ofParsed (p : Parsed) : Rec :=
  { gtype := .classic, kind := p.kind, path := p.path, num := p.num, code := p.code, subs := none }

/-! ## Byte-level: tab expansion, span shift, `make_style_sections` -/

abbrev Bytes := List UInt8

inductive Panic where
  | sliceOutOfRange      -- `&line[a..b]` with `b > len` or `a > b`
  | sliceNotCharBoundary -- offset inside a UTF-8 sequence
  | lineNumberZero       -- `n - 1` with `n = 0` (overflow checks on)
  | prefixMisaligned     -- `get_code_style_sections` cut the raw line at the wrong place: the sections do not
                         -- spell the code and superimposing them panics (unless the mis-cut text happens to agree)
  deriving DecidableEq, Repr

def tab : UInt8 := 9
def space : UInt8 := 32

/-- `tabs::expand` on bytes. -/
def expandB (w : Nat) (l : Bytes) : Bytes :=
  if w = 0 then l else l.flatMap fun b => if b = tab then List.replicate w space else [b]

/-- `str::is_char_boundary`. -/
def isBoundary (l : Bytes) (i : Nat) : Bool :=
  i == 0 || i == l.length ||
  match l[i]? with
  | some b => !(128 ≤ b.toNat && b.toNat < 192)
  | none => false

/-- `&line[a..b]` -/
def slice (l : Bytes) (a b : Nat) : Except Panic Bytes :=
  if a ≤ b ∧ b ≤ l.length then
    if isBoundary l a && isBoundary l b then .ok ((l.drop a).take (b - a))
    else .error .sliceNotCharBoundary
  else .error .sliceOutOfRange

/-- `GrepLine::expand_tabs`: the expanded code and the submatches, all shifted by the growth
of the line. -/
def expandTabs (w : Nat) (code : Bytes) (subs : List (Nat × Nat)) : Bytes × List (Nat × Nat) :=
  let code' := expandB w code
  let shift := code'.length - code.length
  (code', subs.map fun (a, b) => (a + shift, b + shift))

/-- The guard of the repaired `make_style_sections` (notes/fix-grep-submatch-range.diff): a
submatch that is not a substring of the line behind the previous one is skipped. -/
def spanSkipped (line : Bytes) (curr a b : Nat) : Bool :=
  Generated.Grep.fixSectionsGuard &&
    (decide (a < curr) || decide (b < a) || !isBoundary line a || !isBoundary line b)

/-- The loop of `make_style_sections`; `true` marks `match_style`. -/
def sectionsFrom (line : Bytes) : Nat → List (Nat × Nat) → Except Panic (List (Bool × Bytes))
  | curr, [] =>
    if curr < line.length then
      match slice line curr line.length with
      | .ok s => .ok [(false, s)]
      | .error e => .error e
    else .ok []
  | curr, (a, b) :: rest =>
    if spanSkipped line curr a b then sectionsFrom line curr rest else
    match (if a > curr then (slice line curr a).map fun s => [(false, s)] else .ok []) with
    | .error e => .error e
    | .ok pre =>
      match slice line a b with
      | .error e => .error e
      | .ok m =>
        match sectionsFrom line b rest with
        | .error e => .error e
        | .ok tl => .ok (pre ++ (true, m) :: tl)

/-- `make_style_sections(line, submatches, ..)` -/
def makeStyleSections (line : Bytes) (subs : List (Nat × Nat)) : Except Panic (List (Bool × Bytes)) :=
  sectionsFrom line 0 subs

/-! ## Emission (`handle_grep_line`) -/

/-- One input line as the emission logic sees it. -/
structure Hit where
  gtype : GrepType
  kind : Kind
  path : List Char
  num : Option Nat
  /-- The raw line's `path sep digits sep` prefix has the length `get_code_style_sections`
  recomputes from `path` and the parsed number (false for `007`, for numbers over
  `usize::MAX`, for a TAB in the path that tab expansion widens). Only consulted for text
  match lines (`subs = none`). -/
  prefixOk : Bool
  code : Bytes
  subs : Option (List (Nat × Nat))
  deriving Repr

inductive Line where
  | hit (h : Hit)
  /-- not recognised as grep output: falls through to `emit_line_unchanged` -/
  | other (raw : Bytes)
  deriving Repr

structure Cfg where
  /-- `--grep-output-type` -/
  outputType : Option GrepType
  /-- `--tabs` -/
  tabWidth : Nat
  /-- `OUTPUT_CONFIG.render_context_header_as_hunk_header` (false under `git grep -W`) -/
  headerAsHunkHeader : Bool
  deriving Repr

inductive Row where
  /-- ripgrep style: blank line before a new path group -/
  | blank
  /-- ripgrep style: path header -/
  | header (path : List Char)
  /-- ripgrep style: `--` written by delta when a context section ends -/
  | sep
  /-- a line delta did not take for grep output, passed through -/
  | raw (line : Bytes)
  /-- a hit. `path = none` in ripgrep style (the path is in the group header). `secs`:
  the styled sections of the code, `true` = match-word style. `trail`: a space follows. -/
  | code (path : Option (List Char)) (num : Option Nat) (kind : Kind)
      (secs : List (Bool × Bytes)) (trail : Bool)
  /-- classic style: a `=` line rendered like a hunk header. `num` is the number the
  hunk-header writer is asked to show (`unwrap_or(0)` in the unrepaired code). -/
  | funcHeader (path : List Char) (num : Option Nat) (text : Bytes)
  deriving Repr

/-- `(kind, path, line_number)` of `State::Grep`; `none` = `State::Unknown`. -/
abbrev St := Option (Kind × List Char × Option Nat)

/-- `previous_line < grep_line.line_number.map(|n| n - 1)` -/
def lineNumberJump (prev cur : Option Nat) : Except Panic Bool :=
  match cur with
  | none => .ok false
  | some 0 =>
    -- `n - 1`; the repaired code saturates: `previous_line < Some(0)`
    if Generated.Grep.fixLineNumberZero then .ok prev.isNone else .error .lineNumberZero
  | some (n + 1) =>
    match prev with
    | none => .ok true
    | some p => .ok (decide (p < n))

/-- Sections of the code of a hit shown in output style `style`:
`(sections, trailing space in ripgrep style)`. -/
def codeSections (cfg : Cfg) (style : GrepType) (h : Hit) : Except Panic (List (Bool × Bytes) × Bool) :=
  match h.kind, h.subs with
  | .match_, some subs =>
    let (code', subs') := expandTabs cfg.tabWidth h.code subs
    match makeStyleSections code' subs' with
    | .error e => .error e
    | .ok secs => .ok (secs, false)
  | .match_, none =>
    -- sections come from the raw line (`get_code_style_sections`); when it is cut at the
    -- wrong place they spell something else than the code and superimposing them panics;
    -- only the ripgrep style paints nothing at all for an empty code
    let code' := expandB cfg.tabWidth h.code
    if h.prefixOk then .ok (if code'.isEmpty then [] else [(false, code')], false)
    else if Generated.Grep.fixPrefixCheck then
      -- repaired: sections that do not spell the code are dropped for the plain match-line style
      .ok (if code'.isEmpty then [] else [(false, code')], true)
    else if style = .ripgrep && code'.isEmpty then .ok ([], false)
    else .error .prefixMisaligned
  | _, _ =>
    let code' := expandB cfg.tabWidth h.code
    .ok (if code'.isEmpty then [] else [(false, code')], true)

def stepHit (cfg : Cfg) (st : St) (h : Hit) : Except Panic (St × List Row) :=
  if h.kind = .ignore then .ok (st, [])
  else
    let firstPath := st.isNone
    let newPath := match st with
      | none => true
      | some (_, p, _) => p != h.path
    let prevNum : Option Nat := match st with
      | none => none
      | some (_, _, n) => n
    let prevKind : Option Kind := st.map (·.1)
    match lineNumberJump prevNum h.num with
    | .error e => .error e
    | .ok jump =>
      let newSection := !newPath && (prevKind == some .context || h.kind == .context) && jump
      let st' : St := some (h.kind, h.path, h.num)
      match cfg.outputType.getD h.gtype with
      | .ripgrep =>
        let hdr := if newPath then (if firstPath then [] else [Row.blank]) ++ [Row.header h.path] else []
        let sp := if newSection then [Row.sep] else []
        if Generated.Grep.fixEmptyRow && h.code.isEmpty && h.num.isNone then
          -- repaired: an empty line is written (before any section is computed)
          .ok (st', hdr ++ sp ++ [Row.code none none h.kind [] false])
        else
        match codeSections cfg .ripgrep h with
        | .error e => .error e
        | .ok (secs, trail) =>
          -- unrepaired: nothing at all is written for an empty code without a line number
          let row := if h.code.isEmpty && h.num.isNone then [] else [Row.code none h.num h.kind secs trail]
          .ok (st', hdr ++ sp ++ row)
      | .classic =>
        if h.kind = .contextHeader && cfg.headerAsHunkHeader then
          .ok (st', [Row.funcHeader h.path
                      (if Generated.Grep.fixHeaderNumber then h.num else some (h.num.getD 0))
                      (expandB cfg.tabWidth h.code)])
        else
          match codeSections cfg .classic h with
          | .error e => .error e
          | .ok (secs, _) => .ok (st', [Row.code (some h.path) h.num h.kind secs false])

def emitFrom (cfg : Cfg) : St → List Line → Except Panic (List Row)
  | _, [] => .ok []
  | st, .other raw :: rest =>
    match emitFrom cfg st rest with
    | .error e => .error e
    | .ok rows => .ok (Row.raw raw :: rows)
  | st, .hit h :: rest =>
    match stepHit cfg st h with
    | .error e => .error e
    | .ok (st', rows) =>
      match emitFrom cfg st' rest with
      | .error e => .error e
      | .ok more => .ok (rows ++ more)

/-- A grep result stream read from `State::Unknown`. -/
def emit (cfg : Cfg) (lines : List Line) : Except Panic (List Row) := emitFrom cfg none lines

/-! ## Reading the rows back (what a reader of the output sees) -/

def secsText (secs : List (Bool × Bytes)) : Bytes := secs.flatMap (·.2)

/-- Every code row with the path it is shown under (its own in classic style, the last
header's in ripgrep style), its number and its text. -/
def attachFrom : Option (List Char) → List Row → List (Option (List Char) × Option Nat × Bytes)
  | _, [] => []
  | cur, r :: rest =>
    match r with
    | .header p => attachFrom (some p) rest
    | .code (some p) n _ secs _ => (some p, n, secsText secs) :: attachFrom cur rest
    | .code none n _ secs _ => (cur, n, secsText secs) :: attachFrom cur rest
    | .funcHeader p n t => (some p, n, t) :: attachFrom cur rest
    | _ => attachFrom cur rest

def attach (rows : List Row) : List (Option (List Char) × Option Nat × Bytes) := attachFrom none rows

/-! ## Vocabulary of the round-trip theorems (also served by the driver, so that the
direct oracle promises exactly what the theorems prove) -/

/-- The pattern texts the hand-written parsers were written against (sha256 of the assembled
`(?x)` pattern of each `GrepLineRegex` variant). `C16.patterns_pinned` compares them with the
hashes regenerated from the source on every run. -/
def pinnedPatternHashes : List (String × String) :=
  [("WithColor", "939ccb40e04a36d4fafe6d0d22158409d9146f166454eccb3827ccdbf4f874a7"),
   ("WithFileExtensionAndLineNumber", "09ae09b607ae7e00d11fa2ee7c8c18f571aabf38041f831fdf2e09141998368b"),
   ("WithFileExtension", "27afac0fae0cbe856aa4231130786b12eff738832e98c88b0f1eab32945f7d8b"),
   ("WithFileExtensionNoSpaces", "4d4d51a9907d3a54af21668d4ab8e09ef9db3d510c03fbd5060ff81ee9458fca"),
   ("WithoutSeparatorCharacters", "d5f6c3d8363228b4ab30ed7b7fd7a6059c414adcc174b811a309e3d6acae681d")]

/-- The same with the repaired last character class of the separator-free path
(`[^:\ =-]`, notes/fix-grep-noext-path-class.diff). -/
def pinnedPatternHashesRepaired : List (String × String) :=
  pinnedPatternHashes.map fun p =>
    if p.1 = "WithoutSeparatorCharacters" then
      (p.1, "3db9c68fff06f6b2701fc2294939b54138566e26295e7e6fe9badb7c4da52b6c")
    else p

/-- The shapes the hand-written path predicates implement (`extPathOk`, `noSpacePathOk`,
`noSepPathOk`; `{lo,hi}` and `[^LAST]` are the parts read from the source), per variant.
`C16.path_shapes_pinned` compares them with the normal forms regenerated on every run. -/
def pinnedPathShapes : List (String × String) :=
  [("WithFileExtensionAndLineNumber", "([^:|\\ ][^:]*[^\\ ]\\.[^.\\ :=-]{lo,hi})"),
   ("WithFileExtension", "([^:|\\ ][^:]*[^\\ ]\\.[^.\\ :=-]{lo,hi})"),
   ("WithFileExtensionNoSpaces", "([^:|\\ ]+[^\\ ]\\.[^.\\ :=-]{lo,hi})"),
   ("WithoutSeparatorCharacters", "([^:|\\ =-][^:=-]*[^LAST])")]

/-- The separator parts `parseSep true` / `parseSep false` implement, per variant. -/
def pinnedSepShapes : List (String × String) :=
  [("WithFileExtensionAndLineNumber", "(?:(:([0-9]+):)|(-([0-9]+)-)|(=([0-9]+)=))"),
   ("WithFileExtension", "(?:(:(?:([0-9]+):)?)|(-(?:([0-9]+)-)?)|(=(?:([0-9]+)=)?))"),
   ("WithFileExtensionNoSpaces", "(?:(:(?:([0-9]+):)?)|(-(?:([0-9]+)-)?)|(=(?:([0-9]+)=)?))"),
   ("WithoutSeparatorCharacters", "(?:(:(?:([0-9]+):)?)|(-(?:([0-9]+)-)?)|(=(?:([0-9]+)=)?))")]

/-! ### Extension lengths the round-trip theorems promise

The fragments below are stated with these *fixed* numbers, not with the regenerated bounds:
a source edit that narrows a variant's `{lo,hi}` must not silently narrow what the theorems
cover. `C16.ext_bounds_documented` ties each regenerated bound to its number here, and the
round-trip proofs go through that tie. -/

/-- shortest extension (every variant) -/
def docExtMin : Nat := 1
/-- longest extension read on a line with a line number, and on a line without one (third
regex, which also admits blanks in the path): `.properties`, `.gitignore`, `.markdown` … -/
def docExtMax : Nat := 10
/-- longest extension the blank-free second regex reads -/
def docExtMaxNoSpaces : Nat := 6

def isSepChar (c : Char) : Bool := c == ':' || c == '-' || c == '='

/-- The list starts with `.ext` (1 ≤ |ext| ≤ hi, chars of `[^.\ :=-]`) followed by a separator
character, a digit run and the same separator character: what follows a file name in
`name.ext:12:`. -/
def numLookAlikeAt (hi : Nat) : List Char → Bool
  | '.' :: r =>
    let x := r.takeWhile extOk
    match r.dropWhile extOk with
    | t :: r2 =>
      1 ≤ x.length && x.length ≤ hi && isSepChar t && !(r2.takeWhile isDigit).isEmpty &&
        (r2.dropWhile isDigit).head? == some t
    | [] => false
  | _ => false

/-- Somewhere in the list a `.ext` + separator-number-separator look-alike starts. -/
def hasNumLookAlike (hi : Nat) : List Char → Bool
  | [] => false
  | c :: cs => numLookAlikeAt hi (c :: cs) || hasNumLookAlike hi cs

/-- The list starts with `.ext` followed by a separator character (`name.ext:`). -/
def sepLookAlikeAt (hi : Nat) : List Char → Bool
  | '.' :: r =>
    let x := r.takeWhile extOk
    match r.dropWhile extOk with
    | t :: _ => 1 ≤ x.length && x.length ≤ hi && isSepChar t
    | [] => false
  | _ => false

def hasSepLookAlike (hi : Nat) : List Char → Bool
  | [] => false
  | c :: cs => sepLookAlikeAt hi (c :: cs) || hasSepLookAlike hi cs

/-- The list starts with a digit run followed by `s` (an unnumbered line whose code reads
like a line number). -/
def startsWithNum (s : Char) (l : List Char) : Bool :=
  !(l.takeWhile isDigit).isEmpty && (l.dropWhile isDigit).head? == some s

def digitsOk (ds : List Char) : Bool := !ds.isEmpty && ds.all isDigit

/-- Fragment A: numbered line, path with an extension (the shape the first regex accepts)
and without `:`; on `-`/`=` lines the code has no `.ext`-sep-number-sep look-alike. -/
def fragNumbered (p : Parsed) : Bool :=
  match p.digits with
  | none => false
  | some ds =>
    digitsOk ds && textKinds.contains p.kind &&
    extPathOk docExtMin docExtMax p.path && !p.path.contains ':' &&
    codeOk p.code &&
    (p.kind == .match_ || !hasNumLookAlike docExtMax p.code)

/-- Fragment B: unnumbered line, path with an extension of at most 6 characters and
without blanks, `|` or `:`; the whole line has no `.ext`-sep-number-sep look-alike (this
includes the code starting with `12:` on a `:` line) and the code no `.ext`-sep look-alike
and no leading number. -/
def fragUnnumbered (p : Parsed) : Bool :=
  p.digits.isNone && textKinds.contains p.kind &&
  noSpacePathOk docExtMin docExtMaxNoSpaces p.path &&
  !p.path.contains ':' && codeOk p.code &&
  !hasNumLookAlike docExtMax (fmtPlain p) &&
  !hasSepLookAlike docExtMax p.code &&
  (match p.kind.sep with | [s] => !startsWithNum s p.code | _ => false)

/-- Fragment B2: unnumbered line whose path has an extension of 1–10 characters and may
contain blanks (`[^:| ][^:]*[^ ].ext`, no `:`) — in particular the paths fragment B leaves
out: extensions of 7–10 characters (`.markdown`, `.properties`) and blanks in directory or
file names. Side conditions of B, and in addition the blank-free head of the path (up to its
first blank) has no `.ext`-sep look-alike with a short (≤ 6) extension — there the second
regex would end the path (`v1.2-rc/my file.rs`, see `C16.plain_unnumbered_blank_witness`). -/
def fragUnnumberedExt (p : Parsed) : Bool :=
  p.digits.isNone && textKinds.contains p.kind &&
  extPathOk docExtMin docExtMax p.path &&
  !p.path.contains ':' && codeOk p.code &&
  !hasNumLookAlike docExtMax (fmtPlain p) &&
  !hasSepLookAlike docExtMax p.code &&
  (match p.kind.sep with | [s] => !startsWithNum s p.code | _ => false) &&
  !hasSepLookAlike docExtMaxNoSpaces (p.path.takeWhile (· != ' '))

/-- Fragment C: extension-less name free of `:`, `-`, `=` (and of `.`, not starting with
`|` or a blank, not ending in a blank); the code has no `.ext`-sep look-alike; an
unnumbered line's code starts neither with a number look-alike nor — on `-`/`=` lines —
with a separator character. -/
def fragNoExt (p : Parsed) : Bool :=
  textKinds.contains p.kind &&
  noSepPathOk p.path && p.path.all midOkNoSep && !p.path.contains '.' &&
  codeOk p.code && !hasSepLookAlike docExtMax p.code &&
  (match p.digits with
   | some ds => digitsOk ds
   | none =>
     (match p.kind.sep with | [s] => !startsWithNum s p.code | _ => false) &&
     (p.kind == .match_ || !(match p.code with | c :: _ => isSepChar c | [] => false)))

/-! ### Vocabulary of the section theorems -/

/-- Sorted, disjoint, in range, on character boundaries — what `rg` reports. -/
def spansOk (line : Bytes) : Nat → List (Nat × Nat) → Bool
  | _, [] => true
  | curr, (a, b) :: rest =>
    decide (curr ≤ a) && decide (a ≤ b) && decide (b ≤ line.length) &&
      isBoundary line a && isBoundary line b && spansOk line b rest

/-- `&line[a..b]` when it does not panic. -/
def sub (line : Bytes) (s : Nat × Nat) : Bytes := (line.drop s.1).take (s.2 - s.1)

/-- The byte ranges of the match-styled sections, counting from offset `o`. -/
def matchSpans : Nat → List (Bool × Bytes) → List (Nat × Nat)
  | _, [] => []
  | o, (m, t) :: r => (if m then [(o, o + t.length)] else []) ++ matchSpans (o + t.length) r

end Grep
