import DeltaModel.Ansi
import DeltaModel.Generated.RawLine
/-!
Who calls `maybe_raw_line`, and with which "ordinary" styles (src/handlers/hunk.rs `new_line_state`).

`Ansi.keepsRawLine` is the decision of `maybe_raw_line` for a *given* list `non_raw_styles`.  This file
adds what the callers put into that list and where the configured styles come from:

* `Generated.rawArms` / `Generated.rawArmWordDiff` — the arms of `new_line_state` (prefix character,
  unified / combined, state entered, which `config.<kind>_style.is_raw`, `non_raw_styles`), read from the
  source on every run, lists of any length and order as they are;
* `Generated.cfgGitMinusSource` / `cfgGitPlusSource` — `config.git_minus_style` / `git_plus_style`: the
  gitconfig key (`color.diff.old` / `color.diff.new`) and the built-in fallback
  (src/config.rs, src/parse_styles.rs `make_misc_styles`).

Core Lean only.
-/
namespace Ansi
open Generated (HunkKind GitDefaultRef RawStyleRef RawArm)

/-- What the gitconfig that delta reads says about git's own colours: `(key, style)` pairs, the style
being the value of the key as parsed by `Style::from_git_str`. A key that is not set has no entry
(`cfg.get::<String>(key) = None`); the first entry of a key is its value. -/
abbrev GitColors := List (String × Style)

/-- `*style::GIT_DEFAULT_MINUS_STYLE` / `*style::GIT_DEFAULT_PLUS_STYLE`. -/
def gitDefaultStyle : GitDefaultRef → Style
  | .minus => gitDefaultMinus
  | .plus => gitDefaultPlus

/-- `match opt.git_config().and_then(|cfg| cfg.get::<String>(key)) { Some(s) => Style::from_git_str(&s),
None => <built-in> }` -/
def cfgGitStyle (src : String × GitDefaultRef) (g : GitColors) : Style :=
  match g.lookup src.1 with
  | some st => st
  | none => gitDefaultStyle src.2

/-- `config.git_minus_style` -/
def configGitMinusStyle (g : GitColors) : Style := cfgGitStyle Generated.cfgGitMinusSource g

/-- `config.git_plus_style` -/
def configGitPlusStyle (g : GitColors) : Style := cfgGitStyle Generated.cfgGitPlusSource g

/-- The value of one item of a caller's `non_raw_styles`. -/
def resolveRawStyle (g : GitColors) : RawStyleRef → Style
  | .gitDefault d => gitDefaultStyle d
  | .cfgGitMinus => configGitMinusStyle g
  | .cfgGitPlus => configGitPlusStyle g

/-- `non_raw_styles` as the caller of arm `a` passes it, under the gitconfig `g`. -/
def armStyles (a : RawArm) (g : GitColors) : List Style := a.nonRaw.map (resolveRawStyle g)

/-- The arm of `new_line_state` taken by a hunk line whose prefix gives `prefixChar`, in a unified
(`combined = false`) or combined diff; `none` = not a hunk line (`_ => None`). Under
`is_word_diff()` the early return is taken whatever the line is. -/
def rawArmFor (wordDiff : Bool) (prefixChar : Char) (combined : Bool) : Option RawArm :=
  if wordDiff then some Generated.rawArmWordDiff
  else Generated.rawArms.find? fun a => a.prefixChar == prefixChar && a.combined == combined

/-- Is the hunk line kept with its input colouring (`State::Hunk*(_, Some(raw_line))`)?
`isRaw k` = `config.<k>_style.is_raw`; `none` = the line is not a hunk line. -/
def hunkLineKeepsRaw (wordDiff inspect : Bool) (isRaw : HunkKind → Bool) (g : GitColors)
    (prefixChar : Char) (combined : Bool) (raw : Bytes) : Option Bool :=
  (rawArmFor wordDiff prefixChar combined).map fun a =>
    keepsRawLine wordDiff inspect (isRaw a.styleIsRawOf) raw (armStyles a g)

/-- Specification vocabulary: the arm exists, enters the state `k`, passes `config.<k>_style.is_raw`, and
its `non_raw_styles` contains exactly the styles of `want` (as a set: order and repetitions do not matter
to `line_has_style_other_than`). -/
def armOk (o : Option RawArm) (k : HunkKind) (want : List RawStyleRef) : Bool :=
  match o with
  | some a => a.state == k && a.styleIsRawOf == k && want.all (fun r => a.nonRaw.contains r) &&
      a.nonRaw.all (fun r => want.contains r)
  | none => false

end Ansi
