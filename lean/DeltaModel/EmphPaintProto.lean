import DeltaModel.Proto
import DeltaModel.EmphPaint
import DeltaModel.PairThresholds
/-!
Line protocol for the `emph.*` ops of the C06 check (model side only; the implementation side is the hooked
`style.config_style` and the real binary). Run with `lake env lean --run DeltaModel/EmphPaintProto.lean`
until a `lean_exe` is registered for it (see notes/S3-strengthen-C06.md).

  emph.parse <supplied> <git>                      -> ok key=look:e,…            (`parse_styles`)
  emph.paint <ws> <ne> <homolog> <secs>            -> ok look:e,…                (`update_diff_style_sections`, one line)
  emph.line <Minus|Plus> <supplied> <git> <homolog> <secs>  -> ok look:e,…       (options -> painted line)

supplied: `key=D<look>` (a style string) or `key=R<name>` (a reference), comma separated, `-` = none;
git: `name=<look>` comma separated (`[delta] name = …`), `-` = none; ws / ne: `look:e` or `-`;
secs of emph.paint: `look:e:b`; secs of emph.line: `E<b>` (changed section) / `N<b>` (unchanged), b = blank.
A model error prints `FATAL …` (delta exits with `fatal`) or `PANIC …`.

  pair.thresholds <opt> <env>                      -> ok <p>/<q> <p>/<q>         (the thresholds `infer_edits` is called with)

opt: the value of `--max-line-distance` as `<p>/<q>` (p may be negative), or `default` (option not given: the
generated default); env: the environment variable of the naive-pairing threshold: `-` unset, `x` set but not a number,
`<p>/<q>`. Answer: (max_line_distance, max_line_distance_for_naively_paired_lines) as `get_diff_style_sections` passes
them (`DeltaModel/PairThresholds.lean`: the generated argument and field expressions, interpreted); `ERR …` when an
expression cannot be evaluated on finite values.
-/
open Proto EmphPaint Generated.EmphPaint

namespace EmphPaintProto

def listOf {β} (f : String → Option β) (s : String) : Option (List β) :=
  if s == "-" || s.isEmpty then some [] else (s.splitOn ",").mapM f

def parseSuppliedEntry (e : String) : Option (String × Supplied) :=
  match e.splitOn "=" with
  | [k, v] =>
    match v.toList with
    | 'D' :: r => (String.ofList r).toNat?.map fun l => (k, Supplied.direct l)
    | 'R' :: r => some (k, Supplied.ref (String.ofList r))
    | _ => none
  | _ => none

def parseGitEntry (e : String) : Option (String × Nat) :=
  match e.splitOn "=" with
  | [k, v] => v.toNat?.map fun l => (k, l)
  | _ => none

def bit? (s : String) : Option Bool :=
  if s == "1" then some true else if s == "0" then some false else none

def parseStyle (s : String) : Option (Option PStyle) :=
  if s == "-" then some none
  else match s.splitOn ":" with
    | [l, e] => do pure (some ⟨← l.toNat?, ← bit? e⟩)
    | _ => none

def parseSec (s : String) : Option PSec :=
  match s.splitOn ":" with
  | [l, e, b] => do pure ⟨⟨← l.toNat?, ← bit? e⟩, ← bit? b⟩
  | _ => none

def parseTagSec (s : String) : Option (Bool × Bool) :=
  match s.toList with
  | ['E', b] => (bit? (String.ofList [b])).map fun b => (true, b)
  | ['N', b] => (bit? (String.ofList [b])).map fun b => (false, b)
  | _ => none

def showStyle (s : PStyle) : String := toString s.look ++ ":" ++ (if s.isEmph then "1" else "0")

def showErr (e : String) : String :=
  if e.startsWith "fatal" then "FATAL " ++ e else "PANIC " ++ e

def showSecs : Except String (List PSec) → String
  | .error e => showErr e
  | .ok out => "ok " ++ ",".intercalate (out.map fun s => showStyle s.style)

def gitOf (g : List (String × Nat)) : String → Option Nat := fun k => g.lookup k

def parseQ (s : String) : Option PairThresholds.Q :=
  match s.splitOn "/" with
  | [p, q] => do
    let q ← q.toNat?
    if q = 0 then none
    else match p.toList with
      | '-' :: r => (String.ofList r).toNat?.map fun n => ⟨-(n : Int), q⟩
      | _ => p.toNat?.map fun n => ⟨(n : Int), q⟩
  | _ => none

def showQ (q : PairThresholds.Q) : String := toString q.num ++ "/" ++ toString q.den

def pairThresholds (opt env : String) : String :=
  let opt? : Option PairThresholds.Q :=
    if opt == "default" then
      PairThresholds.eval (fun _ _ => none) (fun _ => .unset) Generated.PairThresholds.maxLineDistanceDefault
    else parseQ opt
  let env? : Option PairThresholds.EnvVar :=
    if env == "-" then some .unset else if env == "x" then some .unparseable else (parseQ env).map .value
  match opt?, env? with
  | some o, some e =>
    match PairThresholds.effective ⟨o, e⟩ with
    | some (mx, nv) => "ok " ++ showQ mx ++ " " ++ showQ nv
    | none => "ERR not evaluable"
  | _, _ => "ERR"

def stepLine (line : String) : String :=
  match fields line with
  | ["pair.thresholds", opt, env] => pairThresholds opt env
  | ["emph.parse", sup, git] =>
    match listOf parseSuppliedEntry sup, listOf parseGitEntry git with
    | some sup, some git =>
      match parseStyles sup (gitOf git) with
      | .error e => showErr e
      | .ok r => "ok " ++ ",".intercalate (r.map fun e => e.1 ++ "=" ++ showStyle e.2)
    | _, _ => "ERR"
  | ["emph.paint", ws, ne, h, secs] =>
    match parseStyle ws, parseStyle ne, bit? h, listOf parseSec secs with
    | some ws, some ne, some h, some secs => showSecs (updateLine ws ne h secs)
    | _, _, _, _ => "ERR"
  | ["emph.line", side, sup, git, h, secs] =>
    let side? : Option Side := if side == "Minus" then some .minus else if side == "Plus" then some .plus else none
    match side?, listOf parseSuppliedEntry sup, listOf parseGitEntry git, bit? h, listOf parseTagSec secs with
    | some side, some sup, some git, some h, some secs => showSecs (paintedLine sup (gitOf git) side h secs)
    | _, _, _, _, _ => "ERR"
  | _ => "ERR"

end EmphPaintProto

def main : IO Unit := Proto.serve EmphPaintProto.stepLine
