/-
Line protocol shared by all model drivers (mirrors /repo/src/verif_hooks/mod.rs).

Request:  `<module>.<op> <field> <field> ...`, fields separated by one space.
Fields:   strings are `x<hex of UTF-8 bytes>`, numbers are decimal.
Response: one line per request.
Core Lean only (no Mathlib / Batteries) so that drivers link as `lean_exe`.
-/
namespace Proto

def hexDigit (n : Nat) : Char :=
  if n < 10 then Char.ofNat (48 + n) else Char.ofNat (87 + n)

def hexOfBytes (bs : List UInt8) : String :=
  String.ofList ('x' :: bs.flatMap fun b => [hexDigit (b.toNat / 16), hexDigit (b.toNat % 16)])

def hexOfString (s : String) : String := hexOfBytes s.toUTF8.toList

def hexVal (c : Char) : Option Nat :=
  if '0' ≤ c ∧ c ≤ '9' then some (c.toNat - 48)
  else if 'a' ≤ c ∧ c ≤ 'f' then some (c.toNat - 87)
  else if 'A' ≤ c ∧ c ≤ 'F' then some (c.toNat - 55)
  else none

def bytesOfHexChars : List Char → Option (List UInt8)
  | [] => some []
  | [_] => none
  | a :: b :: rest => do
    let x ← hexVal a
    let y ← hexVal b
    let tl ← bytesOfHexChars rest
    pure (UInt8.ofNat (16 * x + y) :: tl)

/-- Decode a `x<hex>` field to bytes. -/
def bytesOfField (f : String) : Option (List UInt8) :=
  match f.toList with
  | 'x' :: cs => bytesOfHexChars cs
  | _ => none

/-- Decode a `x<hex>` field to a string (must be valid UTF-8). -/
def stringOfField (f : String) : Option String := do
  let bs ← bytesOfField f
  String.fromUTF8? (ByteArray.mk bs.toArray)

def natOfField (f : String) : Option Nat := f.toNat?

def fields (line : String) : List String :=
  line.trimAscii.toString.splitOn " "

/-- Read request lines until EOF, answering each with `step`. -/
partial def loop (h : IO.FS.Stream) (out : IO.FS.Stream) (step : String → String) : IO Unit := do
  let line ← h.getLine
  if line.isEmpty then return ()
  let t := line.trimAscii.toString
  if t.isEmpty then loop h out step
  else
    out.putStrLn (step t)
    out.flush
    loop h out step

def serve (step : String → String) : IO Unit := do
  loop (← IO.getStdin) (← IO.getStdout) step

end Proto
