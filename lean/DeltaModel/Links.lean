import DeltaModel.Ansi
import DeltaModel.Generated.LinkSites
/-!
Model of `/repo/src/features/hyperlinks.rs` (`format_osc8_hyperlink`, `format_osc8_file_hyperlink`,
`format_commit_line_with_osc8_commit_hyperlink`), `/repo/src/utils/path.rs` (`absolute_path`, its
case analysis; path joining/normalisation is `std::path`, a parameter), `git_config/remote.rs`
(`format_commit_url`) and of every call site that consults `config.hyperlinks`
(`Generated.linkSites`), each as a function of `links : Bool`.

Strings are byte lists as in `Ansi`. The commit-hash regex (`\b[0-9a-f]{7,40}\b`) is trusted: its
match spans are a parameter.
-/
namespace Links
open Ansi

def str (s : String) : Bytes := s.toUTF8.toList

/-- `"\x1b]"` -/
def oscIntro : Bytes := [0x1b, 0x5d]
/-- `"\x1b\\"` -/
def stTerm : Bytes := [0x1b, 0x5c]
/-- `"8;;"` -/
def eightSemis : Bytes := [0x38, 0x3b, 0x3b]

/-- `format_osc8_hyperlink(url, text)` -/
def osc8 (url text : Bytes) : Bytes :=
  oscIntro ++ eightSemis ++ url ++ stTerm ++ text ++ oscIntro ++ eightSemis ++ stTerm

/-! ### `str::replace` -/

/-- `s.replace(pat, rep)` for a non-empty pattern: leftmost, non-overlapping. `skip` = bytes of
the current match still to drop. -/
def replaceSkip (pat rep : Bytes) : Nat → Bytes → Bytes
  | _, [] => []
  | skip + 1, _ :: bs => replaceSkip pat rep skip bs
  | 0, b :: bs =>
    if pat.isPrefixOf (b :: bs) then rep ++ replaceSkip pat rep (pat.length - 1) bs
    else b :: replaceSkip pat rep 0 bs

def replaceAll (s pat rep : Bytes) : Bytes := replaceSkip pat rep 0 s

/-- `"{path}"` -/
def phPath : Bytes := [0x7b, 0x70, 0x61, 0x74, 0x68, 0x7d]
/-- `"{host}"` -/
def phHost : Bytes := [0x7b, 0x68, 0x6f, 0x73, 0x74, 0x7d]
/-- `"{line}"` -/
def phLine : Bytes := [0x7b, 0x6c, 0x69, 0x6e, 0x65, 0x7d]
/-- `"{commit}"` -/
def phCommit : Bytes := [0x7b, 0x63, 0x6f, 0x6d, 0x6d, 0x69, 0x74, 0x7d]

/-- `format!("{n}")` -/
def natBytes (n : Nat) : Bytes := (Nat.toDigits 10 n).map fun c => UInt8.ofNat c.toNat

def lineBytes : Option Nat → Bytes
  | some n => natBytes n
  | none => []

/-- The URL of `format_osc8_file_hyperlink` in its original form: `{path}`, then `{host}` (if the
hostname is known), then `{line}`, each in the result of the previous step. -/
def fileUrlPathFirst (fmt path : Bytes) (host : Option Bytes) (line : Option Nat) : Bytes :=
  let u := replaceAll fmt phPath path
  let u := match host with
    | some h => replaceAll u phHost h
    | none => u
  replaceAll u phLine (lineBytes line)

/-- …and in its repaired form: `{host}`, `{line}`, and `{path}` last (a file name may itself contain
`{host}` or `{line}`). -/
def fileUrlPathLast (fmt path : Bytes) (host : Option Bytes) (line : Option Nat) : Bytes :=
  let u := match host with
    | some h => replaceAll fmt phHost h
    | none => fmt
  let u := replaceAll u phLine (lineBytes line)
  replaceAll u phPath path

/-- The URL built by `format_osc8_file_hyperlink`; which order the source has is read from it on
every run (`Generated.fileLinkPathLast`). -/
def fileUrl (fmt path : Bytes) (host : Option Bytes) (line : Option Nat) : Bytes :=
  if Generated.fileLinkPathLast then fileUrlPathLast fmt path host line
  else fileUrlPathFirst fmt path host line

/-- `format_osc8_file_hyperlink(absolute_path, line_number, text, config)` -/
def fileLink (fmt : Bytes) (host : Option Bytes) (absPath : Bytes) (line : Option Nat) (text : Bytes) : Bytes :=
  osc8 (fileUrl fmt absPath host line) text

/-! ### Commit links -/

/-- `GitRemoteRepo`: host prefix and path infix of `format_commit_url`. -/
inductive Remote where
  | github (slug : Bytes)
  | gitlab (slug : Bytes)
  | sourcehut (slug : Bytes)
  | codeberg (slug : Bytes)
  deriving Repr

-- byte literals: "https://github.com/", "/commit/", "https://gitlab.com/", "/-/commit/",
-- "https://git.sr.ht/", "https://codeberg.org/"
def Remote.commitUrl (r : Remote) (commit : Bytes) : Bytes :=
  match r with
  | .github slug => ([0x68, 0x74, 0x74, 0x70, 0x73, 0x3a, 0x2f, 0x2f, 0x67, 0x69, 0x74, 0x68, 0x75, 0x62, 0x2e, 0x63, 0x6f, 0x6d, 0x2f] : Bytes) ++ slug ++ ([0x2f, 0x63, 0x6f, 0x6d, 0x6d, 0x69, 0x74, 0x2f] : Bytes) ++ commit
  | .gitlab slug => ([0x68, 0x74, 0x74, 0x70, 0x73, 0x3a, 0x2f, 0x2f, 0x67, 0x69, 0x74, 0x6c, 0x61, 0x62, 0x2e, 0x63, 0x6f, 0x6d, 0x2f] : Bytes) ++ slug ++ ([0x2f, 0x2d, 0x2f, 0x63, 0x6f, 0x6d, 0x6d, 0x69, 0x74, 0x2f] : Bytes) ++ commit
  | .sourcehut slug => ([0x68, 0x74, 0x74, 0x70, 0x73, 0x3a, 0x2f, 0x2f, 0x67, 0x69, 0x74, 0x2e, 0x73, 0x72, 0x2e, 0x68, 0x74, 0x2f] : Bytes) ++ slug ++ ([0x2f, 0x63, 0x6f, 0x6d, 0x6d, 0x69, 0x74, 0x2f] : Bytes) ++ commit
  | .codeberg slug => ([0x68, 0x74, 0x74, 0x70, 0x73, 0x3a, 0x2f, 0x2f, 0x63, 0x6f, 0x64, 0x65, 0x62, 0x65, 0x72, 0x67, 0x2e, 0x6f, 0x72, 0x67, 0x2f] : Bytes) ++ slug ++ ([0x2f, 0x63, 0x6f, 0x6d, 0x6d, 0x69, 0x74, 0x2f] : Bytes) ++ commit

/-- How a commit hash becomes a URL: `hyperlinks-commit-link-format`, else the remote. -/
inductive CommitFmt where
  | template (fmt : Bytes)
  | remote (r : Remote)
  | none
  deriving Repr

def CommitFmt.url (f : CommitFmt) (commit : Bytes) : Bytes :=
  match f with
  | .template fmt => replaceAll fmt phCommit commit
  | .remote r => r.commitUrl commit
  | .none => []

/-- "Do not link numbers, require at least one non-decimal": `'a'..='f'` occurs. -/
def hasHexLetter (commit : Bytes) : Bool := commit.any fun b => 0x61 ≤ b.toNat && b.toNat ≤ 0x66

/-- `HyperlinkCommits::_m` over the matches, then the rest of the line. `pos` = `prev_pos`. -/
def commitGo (f : CommitFmt) (line : Bytes) : Nat → List (Nat × Nat) → Except String Bytes
  | pos, [] => slice line pos line.length
  | pos, (a, b) :: rest =>
    match slice line pos a, slice line a b with
    | .ok pre, .ok commit =>
      match commitGo f line b rest with
      | .ok tail =>
        .ok (pre ++ (if hasHexLetter commit then osc8 (f.url commit) commit else commit) ++ tail)
      | .error m => .error m
    | .error m, _ => .error m
    | _, .error m => .error m

/-- `format_commit_line_with_osc8_commit_hyperlink`; `spans` = the matches of COMMIT_HASH_REGEX in
`line` (the first one and at most 12 more are used). -/
def formatCommitLine (f : CommitFmt) (spans : List (Nat × Nat)) (line : Bytes) : Except String Bytes :=
  match f with
  | .none => .ok line
  | _ =>
    match spans with
    | [] => .ok line
    | _ => commitGo f line 0 (spans.take 13)

/-! ### `absolute_path` -/

/-- The inputs of `utils::path::absolute_path`; `join` stands for `PathBuf::join` + `normalize_path`. -/
structure PathCfg where
  cwdOfDelta : Option Bytes
  cwdOfUserShell : Option Bytes
  /-- `calling_process().paths_in_input_are_relative_to_cwd() || config.relative_paths` -/
  relativeToCwd : Bool
  join : Bytes → Bytes → Bytes

def absolutePath (c : PathCfg) (rel : Bytes) : Option Bytes :=
  match c.cwdOfDelta, c.cwdOfUserShell, c.relativeToCwd with
  | some d, _, false => some (c.join d rel)
  | _, some u, true => some (c.join u rel)
  | some d, none, true => some (c.join d rel)
  | _, _, _ => none

/-! ### The call sites, as functions of `links` -/

/-- What a site needs of the configuration. -/
structure Cfg where
  fileFmt : Bytes
  host : Option Bytes
  commitFmt : CommitFmt
  path : PathCfg

/-- `file` rendered as a link when links are on and its absolute path is known. -/
def linkFile (c : Cfg) (links : Bool) (file text : Bytes) (line : Option Nat) : Bytes :=
  match links, absolutePath c.path file with
  | true, some p => fileLink c.fileFmt c.host p line text
  | _, _ => text

/-- src/delta.rs `format_raw_line` (`tty` = `io::stdout().is_terminal()`). -/
def formatRawLine (c : Cfg) (tty : Bool) (spans : List (Nat × Nat)) (links : Bool) (line : Bytes) :
    Except String Bytes :=
  if links && tty then formatCommitLine c.commitFmt spans line else .ok line

/-- src/features/line_numbers.rs `format_line_number`; `padded` = `format::pad(n, width, …)`,
`blank` = `" ".repeat(width)`. -/
def formatLineNumber (c : Cfg) (links : Bool) (n : Option Nat) (plusFile : Option Bytes)
    (padded : Nat → Bytes) (blank : Bytes) : Bytes :=
  match n, links, plusFile with
  | none, _, _ => blank
  | some n, true, some file =>
    match absolutePath c.path file with
    | some p => fileLink c.fileFmt c.host p (some n) (padded n)
    | none => if Generated.gutterNumberWithoutAbs then padded n else file
  | some n, _, _ => padded n

/-- src/handlers/commit_meta.rs `_handle_commit_meta_header_line`: the (line, raw_line) pair handed
to the draw function. -/
def commitMetaLines (c : Cfg) (links : Bool) (spans rawSpans : List (Nat × Nat)) (line raw : Bytes) :
    Except String (Bytes × Bytes) :=
  if links then
    match formatCommitLine c.commitFmt spans line, formatCommitLine c.commitFmt rawSpans raw with
    | .ok a, .ok b => .ok (a, b)
    | .error m, _ => .error m
    | _, .error m => .error m
  else .ok (line, raw)

inductive FileChange where
  | same | removed | added | renamed
  deriving DecidableEq, Repr

/-- src/handlers/diff_header.rs `get_file_change_description_from_file_paths` (not `comparing`):
`label` already has its trailing space; `shown f` = the displayed text of `f` (after
`file_regex_replacement`). -/
def fileChangeDescription (c : Cfg) (links : Bool) (kind : FileChange) (label arrow : Bytes)
    (minus plus : Bytes) (shown : Bytes → Bytes) : Bytes :=
  let ff := fun f => linkFile c links f (shown f) none
  match kind with
  | .same => label ++ ff minus
  | .removed => label ++ ff minus
  | .added => label ++ ff plus
  | .renamed => label ++ ff minus ++ [0x20] ++ arrow ++ [0x20] ++ ff plus

/-- src/handlers/diff_header.rs `handle_pending_line_with_diff_name` (mode change): label + file. -/
def pendingDiffNameLine (c : Cfg) (links : Bool) (label name : Bytes) : Bytes :=
  label ++ linkFile c links name name none

/-- The path `relativize_path_in_diff_stat_line` hands to `absolute_path`: the displayed relative
path (repaired form) or the path relative to the repository root (`Generated.diffStatLinksRelPath`). -/
def diffStatLinked (pathInRepo relPath : Bytes) : Bytes :=
  if Generated.diffStatLinksRelPath then relPath else pathInRepo

/-- src/handlers/diff_stat.rs `relativize_path_in_diff_stat_line`: the padding is computed from
the *relative path*, not from the formatted one. -/
def diffStatLine (c : Cfg) (links : Bool) (pathInRepo relPath suffix : Bytes) (alignWidth : Nat) : Bytes :=
  [0x20] ++ linkFile c links (diffStatLinked pathInRepo relPath) relPath none ++
    List.replicate (alignWidth - relPath.length) 0x20 ++ suffix

/-- src/paint.rs `paint_file_path_with_line_number`: `painted` = the ANSIStrings rendering of file
name / separator / line number / padding. -/
def filePathWithLineNumber (c : Cfg) (links : Bool) (file : Bytes) (line : Option Nat) (painted : Bytes) : Bytes :=
  if links && !painted.isEmpty then
    match absolutePath c.path file with
    | some p => fileLink c.fileFmt c.host p line painted
    | none => painted
  else painted

/-- The inventory the model covers (must equal `Generated.linkSites`). -/
def modelledSites : List (String × String) :=
  [("src/delta.rs", "format_raw_line"),
   ("src/features/line_numbers.rs", "format_line_number"),
   ("src/handlers/commit_meta.rs", "_handle_commit_meta_header_line"),
   ("src/handlers/diff_header.rs", "get_file_change_description_from_file_paths"),
   ("src/handlers/diff_header.rs", "handle_pending_line_with_diff_name"),
   ("src/handlers/diff_stat.rs", "relativize_path_in_diff_stat_line"),
   ("src/paint.rs", "paint_file_path_with_line_number")]

/-! ### An independent OSC scanner (specification side) -/

/-- One scanned event: a text byte, or a complete OSC string with its payload. -/
inductive Ev where
  | byte (b : UInt8)
  | osc (payload : Bytes)
  deriving DecidableEq, Repr

/-- Scan for `ESC ] payload (BEL | ESC \)`; everything else is text (other escape sequences
included). `cur` = the payload collected so far when inside an OSC string. An unterminated OSC
string is dropped. -/
def scanGo : Option Bytes → Bytes → List Ev
  | _, [] => []
  | none, 0x1b :: 0x5d :: rest => scanGo (some []) rest
  | none, b :: rest => .byte b :: scanGo none rest
  | some p, 0x07 :: rest => .osc p :: scanGo none rest
  | some p, 0x1b :: 0x5c :: rest => .osc p :: scanGo none rest
  | some p, b :: rest => scanGo (some (p ++ [b])) rest

def evText : List Ev → Bytes
  | [] => []
  | .byte b :: r => b :: evText r
  | .osc _ :: r => evText r

/-- Remove every OSC string. -/
def stripOsc8 (s : Bytes) : Bytes := evText (scanGo none s)

/-- The hyperlink state a terminal is in: `none` = no link, `some url`. -/
def linkStep (st : Option Bytes) : Ev → Option Bytes
  | .byte _ => st
  | .osc p =>
    match p with
    | 0x38 :: 0x3b :: rest =>
      -- `8 ; params ; uri`
      let uri := (rest.dropWhile (· != 0x3b)).drop 1
      if uri.isEmpty then none else some uri
    | _ => st

/-- The link state at the end of the line (from "no link"). -/
def finalLink (s : Bytes) : Option Bytes := (scanGo none s).foldl linkStep none

/-- The (url, linked text) pairs of a line: for each byte the link it is under. -/
def linkedGo : Option Bytes → List Ev → List (Option Bytes × UInt8)
  | _, [] => []
  | st, .byte b :: r => (st, b) :: linkedGo st r
  | st, .osc p :: r => linkedGo (linkStep st (.osc p)) r

def linked (s : Bytes) : List (Option Bytes × UInt8) := linkedGo none (scanGo none s)

end Links
