import DeltaModel.Generated.OptionsTables
/-!
# OptionsValues — how a typed getter reads the *text* of a git config value (property C13)

`impl GitConfigGet for T` (src/git_config/mod.rs) has two halves: the text from
`GIT_CONFIG_PARAMETERS` (`config_from_env_var`) and the value from the file (`git2::Config`).
Which function each half uses is generated (`Generated.Options.getterParsers`, one row per impl);
this file gives every such function its meaning, statement for statement:

* libgit2 1.9 (vendored by libgit2-sys 0.18): `git__strntol64` (`strntol64`), `git_config_parse_int64`
  (`gitParseInt64`: optional sign, base 8/10/16 by prefix, unit suffix k/m/g), `git_config_parse_int32`,
  `git__parse_bool` / `git_config_parse_bool` (`gitParseBool`: true/yes/on, false/no/off/empty, any
  integer, a key without value), `git_config_get_string` (a key without value reads as `""`);
* Rust core: `str::parse::<usize>` (`rustParseUsize`), `str::parse::<f64>` (only *whether* it
  parses: `rustF64Accepts`), `str::parse::<bool>`, `str::trim`.

A value is what libgit2's file parser hands over (quotes, escapes, comments and surrounding white
space already removed); a key written without `= value` has no value at all, represented here by
the one-character string `bareMark` (NUL cannot occur in a git config value).

The *reading* returned is a canonical text: decimal for integers, `true` / `false` for booleans,
the text itself for strings and floats.
-/
namespace Options

/-! ## A key without a value -/

/-- The model's text for "key present, no value" (`[delta]\n\tnavigate`). -/
def bareMark : String := "\x00"

/-- libgit2's `entry->value`: `none` is C's `NULL`. -/
def fileValue (s : String) : Option String := if s = bareMark then none else some s

/-! ## libgit2 -/

/-- `git__isspace`. -/
def isSpaceC (c : Char) : Bool :=
  c = ' ' || c = '\t' || c = '\n' || c = Char.ofNat 11 || c = Char.ofNat 12 || c = '\r'

/-- The digit value `git__strntol64` gives a character; 36 (≥ every base) when it is none. -/
def digitVal (c : Char) : Nat :=
  if '0' ≤ c ∧ c ≤ '9' then c.toNat - 48
  else if 'a' ≤ c ∧ c ≤ 'z' then c.toNat - 97 + 10
  else if 'A' ≤ c ∧ c ≤ 'Z' then c.toNat - 65 + 10
  else 36

def fitsI64 (x : Int) : Bool := decide (-9223372036854775808 ≤ x ∧ x ≤ 9223372036854775807)

/-- The digit loop of `git__strntol64`: `(n, ovfl, ndig, rest)`. After an overflow `n` is no longer
    meaningful (the caller fails). -/
def digitLoop (base : Nat) (neg : Bool) : List Char → Int → Bool → Nat → Int × Bool × Nat × List Char
  | [], n, ov, nd => (n, ov, nd, [])
  | c :: cs, n, ov, nd =>
    if base ≤ digitVal c then (n, ov, nd, c :: cs)
    else
      let v : Int := if neg then -(digitVal c : Int) else (digitVal c : Int)
      let nn := n * (base : Int)
      if !fitsI64 nn || !fitsI64 (nn + v) then digitLoop base neg cs n true (nd + 1)
      else digitLoop base neg cs (nn + v) ov (nd + 1)

def dropSpaces : List Char → List Char
  | [] => []
  | c :: cs => if isSpaceC c then dropSpaces cs else c :: cs

/-- The optional sign: `(neg, rest)`. -/
def signOf (p : List Char) : Bool × List Char :=
  match p with
  | c :: t => if c = '-' then (true, t) else if c = '+' then (false, t) else (false, p)
  | [] => (false, p)

/-- Base detection (`base == 0`) and the skipped `0x` prefix: a leading `0` means octal, `0x` /
    `0X` followed by at least one more character means hexadecimal. -/
def baseOf (p : List Char) : Nat × List Char :=
  match p with
  | c :: t =>
    if c = '0' then
      (match t with
       | x :: u => if (x = 'x' || x = 'X') && !u.isEmpty then (16, u) else (8, p)
       | [] => (8, p))
    else (10, p)
  | [] => (10, p)

/-- `git__strntol64(&num, value, strlen(value), &end, 0)`: `(num, end)`, `none` = `-1`. -/
def strntol64 (s : List Char) : Option (Int × List Char) :=
  let sp := signOf (dropSpaces s)
  let bp := baseOf sp.2
  match digitLoop bp.1 sp.1 bp.2 0 false 0 with
  | (n, ov, nd, rest) => if nd = 0 then none else if ov then none else some (n, rest)

/-- `int64_t` arithmetic as compiled (two's complement wrap-around). -/
def wrapI64 (x : Int) : Int := (x + 9223372036854775808) % 18446744073709551616 - 9223372036854775808

/-- The `switch (*num_end)` of `git_config_parse_int64`: the factor of a unit suffix. -/
def unitFactor (c : Char) : Option Nat :=
  if c = 'g' || c = 'G' then some 1073741824
  else if c = 'm' || c = 'M' then some 1048576
  else if c = 'k' || c = 'K' then some 1024
  else none

/-- `git_config_parse_int64`. -/
def gitParseInt64 (value : Option String) : Option Int :=
  match value with
  | none => none
  | some v =>
    match strntol64 v.toList with
    | none => none
    | some (num, rest) =>
      match rest with
      | [] => some num
      | c :: t =>
        match unitFactor c with
        | none => none
        | some f => if t.isEmpty then some (wrapI64 (num * (f : Int))) else none

/-- `git_config_parse_int32`. -/
def gitParseInt32 (value : Option String) : Option Int :=
  (gitParseInt64 value).filter fun n => decide (-2147483648 ≤ n ∧ n ≤ 2147483647)

def eqIgnoreAsciiCase (s : String) (t : String) : Bool :=
  s.toList.map Char.toLower == t.toList.map Char.toLower

/-- `git__parse_bool`. -/
def gitParseBoolWord (value : Option String) : Option Bool :=
  match value with
  | none => some true
  | some v =>
    if eqIgnoreAsciiCase v "true" || eqIgnoreAsciiCase v "yes" || eqIgnoreAsciiCase v "on" then some true
    else if eqIgnoreAsciiCase v "false" || eqIgnoreAsciiCase v "no" || eqIgnoreAsciiCase v "off" || v.toList.isEmpty then
      some false
    else none

/-- `git_config_parse_bool`. -/
def gitParseBool (value : Option String) : Option Bool :=
  match gitParseBoolWord value with
  | some b => some b
  | none => (gitParseInt32 value).map fun n => decide (n ≠ 0)

/-! ## Rust core -/

/-- `char::is_whitespace` (Unicode `White_Space`). -/
def isRustWs (c : Char) : Bool :=
  let n := c.toNat
  (9 ≤ n && n ≤ 13) || n = 32 || n = 133 || n = 160 || n = 5760 || (8192 ≤ n && n ≤ 8202) ||
    n = 8232 || n = 8233 || n = 8239 || n = 8287 || n = 12288

def dropRustWs : List Char → List Char
  | [] => []
  | c :: cs => if isRustWs c then dropRustWs cs else c :: cs

/-- `str::trim`. -/
def rustTrim (s : List Char) : List Char := (dropRustWs (dropRustWs s).reverse).reverse

def decFrom (n : Nat) (ds : List Char) : Nat := ds.foldl (fun a c => a * 10 + digitVal c) n

/-- The number a list of decimal digits denotes. -/
def decVal (ds : List Char) : Nat := decFrom 0 ds

def allDec (ds : List Char) : Bool := ds.all fun c => decide (digitVal c < 10)

/-- `str::parse::<usize>` (64-bit): an optional `+`, one or more ASCII digits, no overflow. -/
def rustParseUsize (s : List Char) : Option Nat :=
  let ds := match s with
    | c :: t => if c = '+' then t else s
    | [] => s
  if ds.isEmpty || !allDec ds then none
  else if decVal ds ≤ 18446744073709551615 then some (decVal ds) else none

/-- `str::parse::<bool>`. -/
def rustParseBool (s : String) : Option Bool :=
  if s = "true" then some true else if s = "false" then some false else none

def spanDigits : List Char → List Char × List Char
  | [] => ([], [])
  | c :: cs =>
    if c.isDigit then (match spanDigits cs with | (a, b) => (c :: a, b)) else ([], c :: cs)

/-- `Exp ::= [eE] [+-]? Digit+` or nothing, up to the end of the text. -/
def f64ExpOk (s : List Char) : Bool :=
  match s with
  | [] => true
  | e :: t =>
    if e = 'e' || e = 'E' then
      let t := match t with
        | '+' :: u => u
        | '-' :: u => u
        | _ => t
      !t.isEmpty && t.all Char.isDigit
    else false

/-- Does `str::parse::<f64>` succeed? (`Sign? ('inf' | 'infinity' | 'nan' | Number)`,
    `Number ::= (Digit+ | Digit+ '.' Digit* | Digit* '.' Digit+) Exp?`; the words in any case.) -/
def rustF64Accepts (s : List Char) : Bool :=
  let body := match s with
    | '+' :: t => t
    | '-' :: t => t
    | _ => s
  let low := body.map Char.toLower
  if low = "inf".toList || low = "infinity".toList || low = "nan".toList then true
  else
    match spanDigits body with
    | (ip, '.' :: r) =>
      (match spanDigits r with
       | (fp, r') => (!ip.isEmpty || !fp.isEmpty) && f64ExpOk r')
    | (ip, r) => !ip.isEmpty && f64ExpOk r

/-! ## The two halves of a getter, by the generated function name -/

def boolText (b : Bool) : String := if b then "true" else "false"

/-- `value as usize` of an `i64`. -/
def asUsize (n : Int) : Nat := (n % 18446744073709551616).toNat

/-- The `GIT_CONFIG_PARAMETERS` half: the reading of the text `v`, `none` = "fall through to the file". -/
def envReadBy (parser : String) (v : String) : Option String :=
  if parser = "string" then some v
  else if parser = "bool-literal" then (rustParseBool v).map boolText
  else if parser = "git-bool" then (gitParseBool (some v)).map boolText
  else if parser = "parse-usize" then (rustParseUsize v.toList).map toString
  else if parser = "trim-parse-usize" then (rustParseUsize (rustTrim v.toList)).map toString
  else if parser = "git-i64-as-usize" then (gitParseInt64 (some v)).map fun n => toString (asUsize n)
  else if parser = "parse-f64" then (if rustF64Accepts v.toList then some v else none)
  else if parser = "trim-parse-f64" then
    (if rustF64Accepts (rustTrim v.toList) then some (String.ofList (rustTrim v.toList)) else none)
  else none

/-- The file half: the reading of the value `v` (`bareMark` = no value), `none` = "this source does
    not set the option". -/
def fileReadBy (parser : String) (v : String) : Option String :=
  let val := fileValue v
  let str := val.getD ""          -- `git_config_get_string`: `entry->value ? entry->value : ""`
  if parser = "git-string" then some str
  else if parser = "git-bool" then (gitParseBool val).map boolText
  else if parser = "string-parse-bool" then (rustParseBool str).map boolText
  else if parser = "git-i64-as-usize" then (gitParseInt64 val).map fun n => toString (asUsize n)
  else if parser = "string-parse-usize" then (rustParseUsize str.toList).map toString
  else if parser = "string-trim-parse-usize" then (rustParseUsize (rustTrim str.toList)).map toString
  else if parser = "string-parse-f64" then (if rustF64Accepts str.toList then some str else none)
  else if parser = "string-trim-parse-f64" then
    (if rustF64Accepts (rustTrim str.toList) then some (String.ofList (rustTrim str.toList)) else none)
  else none

def lookup3 (k : String) : List (String × String × String) → Option (String × String)
  | [] => none
  | (a, b) :: t => if a = k then some b else lookup3 k t

/-- The generated names of the two halves of `impl GitConfigGet for <ty>`. -/
def parsersOf (ty : String) : String × String :=
  (lookup3 ty Generated.Options.getterParsers).getD ("?", "?")

/-! ## Specification: git's own reading of a value as a type -/

/-- What git itself makes of a value read as the given type (`git config --type=int|bool --get`;
    delta's `usize` options are sizes, so a negative number is not in the language; git has no float
    type: the decimal / exponent syntax Rust and clap accept). `none` = git rejects the value with
    an error (`fatal: bad numeric config value`). -/
def gitReading (ty : String) (value : Option String) : Option String :=
  if ty = "usize" then
    (gitParseInt64 value).bind fun n => if 0 ≤ n then some (toString n.toNat) else none
  else if ty = "bool" then (gitParseBool value).map boolText
  else if ty = "f64" then (value.filter fun v => rustF64Accepts v.toList)
  else some (value.getD "")

end Options
