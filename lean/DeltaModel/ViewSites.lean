import DeltaModel.Generated.ViewSites
/-!
C11, both views: what a painter / handler function may do to the output, as far as *when* something is written goes,
in unified and in side-by-side mode. The functions and their effect flags are the generated inventory
(`Generated/ViewSites.lean`); a function with a view branch has the flags of the arm the view selects.
-/
namespace ViewSites
open Generated.ViewSites

inductive View where
  | unified
  | sideBySide
  deriving DecidableEq, Repr

def noEff : Eff := { buffer := false, writer := false, emit := false, lineBuffers := false, bufferSize := false, returns := false }

/-- flags of the arm a view selects -/
def armOf (b : ViewBranch) : View → Eff
  | .unified => b.uni
  | .sideBySide => b.sbs

/-- the effect of calling function `fn` of `file` in view `v`: the selected arm of its view branch when it has one,
else the flags of its body, else nothing -/
def effIn (bs : List ViewBranch) (fs : List FnFact) (v : View) (file fn : String) : Eff :=
  match bs.find? (fun b => b.file == file && b.fn == fn) with
  | some b => armOf b v
  | none => match fs.find? (fun f => f.file == file && f.fn == fn) with
    | some f => f.eff
    | none => noEff

def effOf (v : View) (file fn : String) : Eff := effIn viewBranches fnFacts v file fn

/-- the painter as far as streaming is concerned: is there something in the output buffer, how many times has something
gone to the writer, how many times have the line buffers been inspected / changed or the buffer size been tested -/
structure PS where
  bufNonEmpty : Bool := false
  emissions : Nat := 0
  lineBufferOps : Nat := 0
  deriving DecidableEq, Repr

def runEff (e : Eff) (ps : PS) : PS :=
  { bufNonEmpty := (ps.bufNonEmpty || e.buffer) && !e.emit,
    emissions := ps.emissions + (if e.emit || e.writer then 1 else 0),
    lineBufferOps := ps.lineBufferOps + (if e.lineBuffers || e.bufferSize then 1 else 0) }

/-- a sequence of calls `(file, function)` -/
def runCalls (v : View) : List (String × String) → PS → PS
  | [], ps => ps
  | (file, fn) :: cs, ps => runCalls v cs (runEff (effOf v file fn) ps)

/-- the checks on the generated inventory, as one decidable statement: (1) the two arms of every view branch have the same
flags, and these are: may write to the output buffer, nothing else; (2) no function that reads the switch emits,
writes to a writer, inspects or changes the line buffers, or tests the buffer size; (3) no function of
features/side_by_side.rs does -/
def inventoryOk (bs : List ViewBranch) (fs : List FnFact) : Bool :=
  bs.all (fun b => b.sbs == b.uni && !b.sbs.writer && !b.sbs.emit && !b.sbs.lineBuffers && !b.sbs.bufferSize && !b.sbs.returns) &&
  fs.all (fun f => (f.viewReads == 0 && f.file != "features/side_by_side.rs") ||
    (!f.eff.writer && !f.eff.emit && !f.eff.lineBuffers && !f.eff.bufferSize))

end ViewSites
