import DeltaModel.Generated.FeatureGather
/-!
The walk over the user's feature graph (`src/options/set.rs gather_features_recursively`) with the position of its
membership tests as a parameter (`Shape`, read from the source: `Generated/FeatureGather.lean`), and with fuel whose
exhaustion is visible (`none`): unlike `Options.gatherR` (C13, which returns the list built so far when its fuel ends
and proves that its fuel is never used up *given the shape of the pinned source*), this definition can express "the
recursion does not end". Core Lean only.

* `children f` — the words of `[delta "<f>"] features = …` (any graph: self-loops, cycles);
* `builtin f`, `enterB f acc` — `gather_builtin_features_recursively(f, …)`: any function that keeps what is in the
  list and (for a builtin name) leaves `f` in it;
* `leave f acc` — `gather_builtin_features_from_flags_in_gitconfig("delta.<f>", …)`: any function that keeps what is in
  the list.
-/
namespace FeatureGather

abbrev Name := String

/-- Where the "already in the list" tests of `gather_features_recursively` stand. -/
structure Shape where
  /-- the push of a custom feature is inside `if !features.contains(feature)` -/
  pushGuarded : Bool
  /-- the recursive call is inside `if !features.contains(child_feature)` -/
  recGuarded : Bool
  deriving DecidableEq, Repr

/-- the shape of the source tree under check -/
def sourceShape : Shape :=
  ⟨Generated.FeatureGather.pushGuarded, Generated.FeatureGather.recursionGuarded⟩

/-- a `for` loop whose body may fail to return -/
def foldOpt (step : List Name → Name → Option (List Name)) : List Name → List Name → Option (List Name)
  | [], acc => some acc
  | c :: cs, acc =>
    match step acc c with
    | none => none
    | some a => foldOpt step cs a

/-- the first statement of the function: the builtin gatherer, or the push -/
def enter (sh : Shape) (builtin : Name → Bool) (enterB : Name → List Name → List Name) (f : Name)
    (acc : List Name) : List Name :=
  if builtin f then enterB f acc
  else if sh.pushGuarded && acc.contains f then acc
  else f :: acc

/-- `gather_features_recursively`; `none` = the fuel (the stack) is used up. -/
def walk (sh : Shape) (builtin : Name → Bool) (enterB leave : Name → List Name → List Name)
    (children : Name → List Name) : Nat → Name → List Name → Option (List Name)
  | 0, _, _ => none
  | n + 1, f, acc =>
    match foldOpt (fun a c => if sh.recGuarded && a.contains c then some a
                              else walk sh builtin enterB leave children n c a)
            (children f) (enter sh builtin enterB f acc) with
    | none => none
    | some a => some (leave f a)

/-- names of a universe `U` that are not yet in the list: the measure of the walk -/
def missing (U acc : List Name) : Nat := (U.filter fun x => !acc.contains x).length

end FeatureGather
