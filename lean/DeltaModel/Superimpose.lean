import DeltaModel.Generated.Superimpose
import DeltaModel.Generated.SuperimposeLifetime
/-!
Model of `/repo/src/paint.rs` `mod superimpose_style_sections` (`explode`, the zip with
the character check, `superimpose`, `coalesce` with `make_superimposed_style` and the final
newline trimming), of `utils/bat/terminal.rs::to_ansi_color`, and of
`Painter::get_syntax` (language from the file name only).

Parameters (trusted, not modelled): the syntect output (any list of `(SynStyle, text)`),
`ansi_colours::ansi256_from_rgb` (`Env.quant`), `SyntaxSet::find_syntax_by_extension`
(`byExt`) and the resolved default language (`fallback`).

Which fields `make_superimposed_style` takes from the syntect style, under which
condition, the palette table of `to_ansi_color`, the lookup order and the whole-name guard
of `get_syntax` are *generated* from the Rust source (`Generated/Superimpose.lean`) and
interpreted here.

Text is `List Char` (Rust iterates `str::chars`).
-/
namespace Superimpose
open Generated.Superimpose

/-! ## Styles -/

/-- `ansi_term::Color`; `named n` is Black..White for `n = 0..7`. -/
inductive Color where
  | named (n : Nat)
  | fixed (n : Nat)
  | rgb (r g b : Nat)
  deriving DecidableEq, Repr

/-- `ansi_term::Style`. -/
structure AnsiStyle where
  fg : Option Color := none
  bg : Option Color := none
  bold : Bool := false
  dimmed : Bool := false
  italic : Bool := false
  underline : Bool := false
  blink : Bool := false
  reverse : Bool := false
  hidden : Bool := false
  strike : Bool := false
  deriving DecidableEq, Repr

/-- delta's `style::Style`; the decoration is `(kind, style)` (kind 0 = NoDecoration). -/
structure Style where
  ansi : AnsiStyle := {}
  isEmph : Bool := false
  isOmitted : Bool := false
  isRaw : Bool := false
  isSyntaxHighlighted : Bool := false
  decoKind : Nat := 0
  decoStyle : AnsiStyle := {}
  deriving DecidableEq, Repr

/-- `syntect::highlighting::Color`. -/
structure SynColor where
  r : Nat
  g : Nat
  b : Nat
  a : Nat
  deriving DecidableEq, Repr

/-- `syntect::highlighting::Style`; `font` = `FontStyle` bits (BOLD 1, UNDERLINE 2, ITALIC 4). -/
structure SynStyle where
  fg : SynColor
  bg : SynColor
  font : Nat
  deriving DecidableEq, Repr

/-- What `superimpose_style_sections` receives besides the sections. -/
structure Env where
  trueColor : Bool
  null : SynStyle
  /-- `ansi_colours::ansi256_from_rgb` (trusted). -/
  quant : Nat → Nat → Nat → Nat

/-- `config.null_syntect_style` as the source defines it (generated). -/
def configNull : SynStyle :=
  { fg := ⟨nullForeground.1, nullForeground.2.1, nullForeground.2.2.1, nullForeground.2.2.2⟩,
    bg := ⟨nullBackground.1, nullBackground.2.1, nullBackground.2.2.1, nullBackground.2.2.2⟩,
    font := nullFontStyle }

/-- The foreground erased: what must not depend on the syntax theme. -/
def eraseFg (s : Style) : Style := { s with ansi := { s.ansi with fg := none } }

/-! ## `to_ansi_color` -/

def lookupNat : List (Nat × Nat) → Nat → Option Nat
  | [], _ => none
  | (k, v) :: rest, x => if k = x then some v else lookupNat rest x

def toAnsiColor (env : Env) (c : SynColor) : Option Color :=
  if c.a = alphaPalette then
    some (match lookupNat paletteNamed c.r with
          | some n => .named n
          | none => .fixed c.r)
  else if c.a = alphaDefault then none
  else if env.trueColor then some (.rgb c.r c.g c.b)
  else some (.fixed (env.quant c.r c.g c.b))

/-! ## `make_superimposed_style` (interprets the generated description) -/

def sourceColor (env : Env) (t : SynStyle) : Source → Option Color
  | .syntectForeground => toAnsiColor env t.fg
  | .syntectBackground => toAnsiColor env t.bg
  | _ => none

def sourceBool (t : SynStyle) : Source → Bool
  | .syntectBold => t.font % 2 == 1
  | .syntectUnderline => (t.font / 2) % 2 == 1
  | .syntectItalic => (t.font / 4) % 2 == 1
  | .constTrue => true
  | _ => false

def setAnsi (env : Env) (t : SynStyle) (a : AnsiStyle) : AnsiField × Source → AnsiStyle
  | (.foreground, s) => { a with fg := sourceColor env t s }
  | (.background, s) => { a with bg := sourceColor env t s }
  | (.isBold, s) => { a with bold := sourceBool t s }
  | (.isDimmed, s) => { a with dimmed := sourceBool t s }
  | (.isItalic, s) => { a with italic := sourceBool t s }
  | (.isUnderline, s) => { a with underline := sourceBool t s }
  | (.isBlink, s) => { a with blink := sourceBool t s }
  | (.isReverse, s) => { a with reverse := sourceBool t s }
  | (.isHidden, s) => { a with hidden := sourceBool t s }
  | (.isStrikethrough, s) => { a with strike := sourceBool t s }

def setStyleField (t : SynStyle) (d : Style) : StyleField × Source → Style
  | (.isEmph, s) => { d with isEmph := sourceBool t s }
  | (.isOmitted, s) => { d with isOmitted := sourceBool t s }
  | (.isRaw, s) => { d with isRaw := sourceBool t s }
  | (.isSyntaxHighlighted, s) => { d with isSyntaxHighlighted := sourceBool t s }

def evalAtom (env : Env) (t : SynStyle) (d : Style) : Atom → Bool
  | .diffIsSyntaxHighlighted => d.isSyntaxHighlighted
  | .syntectIsNotNull => t != env.null
  | .constTrue => true

/-- The closure `make_superimposed_style` inside `coalesce`. -/
def makeSuperimposedStyle (env : Env) (t : SynStyle) (d : Style) : Style :=
  if condition.all (evalAtom env t d) then
    thenStyleOverrides.foldl (setStyleField t)
      { d with ansi := thenAnsiOverrides.foldl (setAnsi env t) d.ansi }
  else d

/-! ## explode / superimpose / coalesce -/

/-- `explode`: one `(style, char)` per character, in order. -/
def explode {σ : Type} (secs : List (σ × List Char)) : List (σ × Char) :=
  secs.flatMap fun sc => sc.2.map fun c => (sc.1, c)

/-- Text of a list of sections. -/
def text {σ : Type} (secs : List (σ × List Char)) : List Char :=
  secs.flatMap fun sc => sc.2

abbrev Pair := SynStyle × Style

/-- `zip` + `superimpose`: pairs up to the shorter input; a differing character panics. -/
def superimpose : List (SynStyle × Char) → List (Style × Char) →
    Except String (List (Pair × Char))
  | (t, c1) :: xs, (d, c2) :: ys =>
    if c1 ≠ c2 then
      .error "String mismatch encountered while superimposing style sections"
    else
      match superimpose xs ys with
      | .ok r => .ok (((t, d), c1) :: r)
      | .error e => .error e
  | _, _ => .ok []

/-- The loop of `coalesce`: `cur`/`s` are `current_style_pair`/`current_string`. -/
def group {π : Type} [DecidableEq π] (cur : π) (s : List Char) :
    List (π × Char) → List (π × List Char)
  | [] => [(cur, s)]
  | (p, c) :: rest =>
    if p ≠ cur then (cur, s) :: group p [c] rest else group cur (s ++ [c]) rest

/-- Drop the last element if it satisfies `p`. -/
def dropLastIf {β : Type} (p : β → Bool) : List β → List β
  | [] => []
  | [x] => if p x then [] else [x]
  | x :: y :: rest => x :: dropLastIf p (y :: rest)

def isNl (c : Char) : Bool := c == '\n'

/-- `if current_string.ends_with('\n') { truncate(len - 1) }` on the last section. -/
def trimLast {π : Type} : List (π × List Char) → List (π × List Char)
  | [] => []
  | [(p, s)] => [(p, dropLastIf isNl s)]
  | x :: y :: rest => x :: trimLast (y :: rest)

/-- `coalesce`. -/
def coalesce (env : Env) : List (Pair × Char) → List (Style × List Char)
  | [] => []
  | (p, c) :: rest =>
    (trimLast (group p [c] rest)).map fun g => (makeSuperimposedStyle env g.1.1 g.1.2, g.2)

/-- `superimpose_style_sections`. -/
def superimposeStyleSections (env : Env) (syn : List (SynStyle × List Char))
    (diff : List (Style × List Char)) : Except String (List (Style × List Char)) :=
  match superimpose (explode syn) (explode diff) with
  | .ok l => .ok (coalesce env l)
  | .error e => .error e

/-- The per-character result the property speaks about: syntect style and diff style of
the same position combined by `make_superimposed_style`. -/
def cells (env : Env) (xs : List (SynStyle × Char)) (ys : List (Style × Char)) :
    List (Style × Char) :=
  (List.zip xs ys).map fun xy => (makeSuperimposedStyle env xy.1.1 xy.2.1, xy.1.2)

/-! ## `Painter::get_syntax` -/

/-- Components of a path: split at '/'. -/
def splitSlash : List Char → List (List Char)
  | [] => [[]]
  | c :: cs =>
    if c = '/' then [] :: splitSlash cs
    else match splitSlash cs with
      | [] => [[c]]
      | h :: t => (c :: h) :: t

/-- `Path::file_name` on Unix: the last component that is neither empty nor `.`; none if
that is `..` or there is none. -/
def fileName (p : List Char) : Option (List Char) :=
  match ((splitSlash p).filter fun c => c ≠ [] ∧ c ≠ ['.']).getLast? with
  | none => none
  | some c => if c = ['.', '.'] then none else some c

/-- Split at the last '.': `(before, after)`; none if there is no '.'. -/
def rsplitDot : List Char → Option (List Char × List Char)
  | [] => none
  | c :: cs =>
    match rsplitDot cs with
    | some (b, a) => some (c :: b, a)
    | none => if c = '.' then some ([], cs) else none

/-- `Path::extension` given the file name (`rsplit_file_at_dot`). -/
def extensionOfName (n : List Char) : Option (List Char) :=
  if n = ['.', '.'] then none
  else match rsplitDot n with
    | none => none
    | some (b, a) => if b = [] then none else some a

def extension (p : List Char) : Option (List Char) :=
  match fileName p with
  | none => none
  | some n => extensionOfName n

/-- `str::len`: UTF-8 bytes. -/
def utf8Len (s : List Char) : Nat := (s.map fun c => c.utf8Size).sum

/-- How the language was chosen. -/
inductive Choice (σ : Type) where
  | found (key : LookupKey) (s : σ)
  | default
  deriving Repr

def keyString (fname ext : List Char) : LookupKey → List Char
  | .fileName => fname
  | .extension => ext

def firstFound {σ : Type} (byExt : List Char → Option σ) (fname ext : List Char) :
    List LookupKey → Choice σ
  | [] => .default
  | k :: ks =>
    match byExt (keyString fname ext k) with
    | some s => .found k s
    | none => firstFound byExt fname ext ks

/-- The decision of `get_syntax` as a function of `(file_name, extension)` only. -/
def chooseByName {σ : Type} (byExt : List Char → Option σ) (fname ext : List Char) : Choice σ :=
  if ext ≠ [] ∨ utf8Len fname > wholeNameMinLen then firstFound byExt fname ext lookupOrder
  else .default

/-- The decision of `get_syntax` for `filename : Option<&str>`. -/
def choose {σ : Type} (byExt : List Char → Option σ) : Option (List Char) → Choice σ
  | none => .default
  | some p => chooseByName byExt ((fileName p).getD []) ((extension p).getD [])

/-- `Painter::get_syntax`; `fallback` = the syntax the configured default language resolves to. -/
def getSyntax {σ : Type} (byExt : List Char → Option σ) (fallback : σ)
    (filename : Option (List Char)) : σ :=
  match choose byExt filename with
  | .found _ s => s
  | .default => fallback



/-! ## `set_options`: "minus styles get syntax highlighting iff side-by-side"

The one place outside the painter that turns a style which does not ask for `syntax` into one that
does. Which options it touches and which command-line options prevent it is generated
(`sbsStyleRewrites`); `userSupplied name` = the option was given on the command line. -/

/-- Strip `pre` from the front of `v`. -/
def stripPrefix? : List Char → List Char → Option (List Char)
  | [], v => some v
  | _ :: _, [] => none
  | p :: ps, c :: cs => if p = c then stripPrefix? ps cs else none

/-- Value of style option `name` after the HACK block. -/
def sbsRewrite (sideBySide : Bool) (userSupplied : String → Bool) (name : String)
    (value : List Char) : List Char :=
  match sbsStyleRewrites.find? (fun e => e.1 == name) with
  | none => value
  | some e =>
    if sideBySide && !(e.2.all userSupplied) then
      match stripPrefix? sbsRewritePrefix.toList value with
      | some rest => sbsRewriteReplacement.toList ++ rest
      | none => value
    else value


/-!
## Lifetime of the highlighter (`Painter::syntax`, `Painter::highlighter`)

Which language is *in force* when something is painted. `set_syntax` only stores the syntax;
the highlighter (`HighlightLines`, which also carries the parse state of everything fed to it
since its creation) is re-created from the stored syntax by `set_highlighter` only. Which of the
two the handlers call, in which order and under which state-dependent guard, is **generated**
(`Generated/SuperimposeLifetime.lean`) from `handle_diff_header_minus_line`,
`handle_diff_header_plus_line` and `emit_hunk_header_line`, and interpreted by `execStmt`.
Hand-written: what a hunk line does (`handle_hunk_line`: minus/plus lines are buffered, a
context line flushes the buffer and is painted at once).

The model assumes a syntax theme is configured (otherwise no highlighter is ever created and
nothing is highlighted at all).
-/
namespace Lifetime
open Generated.SuperimposeLifetime

/-- A highlighter: the language it was created for and how many lines it has been fed since. -/
abbrev Hl (σ : Type) := σ × Nat

def feed {σ : Type} : Option (Hl σ) → Option (Hl σ)
  | some (l, n) => some (l, n + 1)
  | none => none

inductive Kind where
  | fragment | line
  deriving DecidableEq, Repr

/-- One painted element: the highlighter that was used, and the one the property asks for
(language of the current file's name; fresh for a hunk-header fragment, fed with exactly the
preceding lines of the same hunk for a hunk line). -/
structure Painted (σ : Type) where
  kind : Kind
  used : Option (Hl σ)
  expected : Hl σ

structure State (σ : Type) where
  /-- `painter.syntax` -/
  syn : σ
  /-- `painter.highlighter` -/
  hl : Option (Hl σ)
  /-- `self.minus_file`, `self.plus_file` (`none` = `/dev/null`) -/
  minusName : Option (List Char)
  plusName : Option (List Char)
  /-- what `get_filename_from_marker_line` makes of the raw `--- ` / `+++ ` line (cut at the
  first TAB, then at spaces): differs from the parsed path for names with spaces or quotes -/
  minusMarker : Option (List Char)
  plusMarker : Option (List Char)
  /-- `self.source == Source::DiffUnified` (plain `diff -u` input, not git) -/
  unified : Bool
  /-- `painter.minus_lines ++ painter.plus_lines`: per buffered line, what the property expects -/
  buffered : List (Hl σ)
  /-- specification only: the language of the current file's name, lines of the current hunk so far -/
  cur : σ
  lineNo : Nat

/-- `paint_buffered_minus_and_plus_lines`: the buffered lines go through the highlighter in order. -/
def paintBuf {σ : Type} : Option (Hl σ) → List (Hl σ) → Option (Hl σ) × List (Painted σ)
  | hl, [] => (hl, [])
  | hl, e :: rest =>
    let r := paintBuf (feed hl) rest
    (r.1, ⟨.line, hl, e⟩ :: r.2)

def evalGuard {σ : Type} (s : State σ) : Guard → Bool
  | .always => true
  | .ifHighlighterNone => s.hl.isNone
  | .ifPlusNotDevNull => s.plusName.isSome
  | .ifSourceDiffUnified => s.unified
  | .ifSourceNotDiffUnified => !s.unified

/-- One painter statement. `lang` = `Painter::get_syntax` as a function of the file name. -/
def execStmt {σ : Type} (lang : Option (List Char) → σ) (s : State σ) :
    Stmt → State σ × List (Painted σ)
  | .setSyntax .minus .parsedPath => ({ s with syn := lang s.minusName }, [])
  | .setSyntax .plus .parsedPath => ({ s with syn := lang s.plusName }, [])
  | .setSyntax .minus .markerLine => ({ s with syn := lang s.minusMarker }, [])
  | .setSyntax .plus .markerLine => ({ s with syn := lang s.plusMarker }, [])
  | .paintBuffered =>
    let r := paintBuf s.hl s.buffered
    ({ s with hl := r.1, buffered := [] }, r.2)
  | .setHighlighter => ({ s with hl := some (s.syn, 0) }, [])
  | .paintFragment => ({ s with hl := feed s.hl }, [⟨.fragment, s.hl, (s.cur, 0)⟩])

def execStmts {σ : Type} (lang : Option (List Char) → σ) :
    State σ → List (Guard × Stmt) → State σ × List (Painted σ)
  | s, [] => (s, [])
  | s, (g, st) :: rest =>
    if evalGuard s g then
      let r := execStmt lang s st
      let r' := execStmts lang r.1 rest
      (r'.1, r.2 ++ r'.2)
    else execStmts lang s rest

inductive Event where
  /-- `--- path`, `rename from`, `copy from`: the parsed path (`none` = `/dev/null`) and what the
  raw line cut at TAB/spaces gives -/
  | fileMinus (name : Option (List Char)) (marker : Option (List Char))
  /-- `+++ path`, `rename to`, `copy to` -/
  | filePlus (name : Option (List Char)) (marker : Option (List Char))
  /-- first line of a hunk arrives: `emit_hunk_header_line` -/
  | hunkHeader
  /-- a `-`/`+` line: buffered (after a flush when a new sub-hunk starts or the buffer is full) -/
  | changedLine (flushFirst : Bool)
  /-- a context line: flush, then painted immediately -/
  | contextLine
  /-- a line that only flushes (`diff --git`, commit line, end of input …) -/
  | flush
  deriving Repr

def step {σ : Type} (lang : Option (List Char) → σ) (s : State σ) :
    Event → State σ × List (Painted σ)
  | .fileMinus n mk =>
    execStmts lang { s with minusName := n, minusMarker := mk, cur := lang n } minusHeaderStmts
  | .filePlus n mk =>
    execStmts lang { s with plusName := n, plusMarker := mk, cur := if n.isSome then lang n else s.cur }
      plusHeaderStmts
  | .hunkHeader => execStmts lang { s with lineNo := 0 } hunkHeaderStmts
  | .changedLine fl =>
    let r := if fl then execStmt lang s .paintBuffered else (s, [])
    ({ r.1 with buffered := r.1.buffered ++ [(s.cur, s.lineNo)], lineNo := s.lineNo + 1 }, r.2)
  | .contextLine =>
    let r := execStmt lang s .paintBuffered
    ({ r.1 with hl := feed r.1.hl, lineNo := s.lineNo + 1 },
      r.2 ++ [⟨.line, r.1.hl, (s.cur, s.lineNo)⟩])
  | .flush => execStmt lang s .paintBuffered

def run {σ : Type} (lang : Option (List Char) → σ) :
    State σ → List Event → State σ × List (Painted σ)
  | s, [] => (s, [])
  | s, e :: rest =>
    let r := step lang s e
    let r' := run lang r.1 rest
    (r'.1, r.2 ++ r'.2)

/-- `Painter::new`: default syntax, no highlighter, nothing buffered. -/
def initial {σ : Type} (lang : Option (List Char) → σ) (unified : Bool) : State σ :=
  { syn := lang none, hl := none, minusName := none, plusName := none, minusMarker := none,
    plusMarker := none, unified := unified, buffered := [], cur := lang none, lineNo := 0 }

/-- Where in a file section the input is. -/
inductive Phase where
  | start    -- nothing known about what preceded
  | header   -- after a `---`/`+++`/rename line of the current file
  | hunk     -- after a hunk header of the current file
  deriving DecidableEq, Repr

/-- Well-formed event sequences: hunk headers only after a file header line, hunk lines only
after a hunk header. For plain `diff -u` input (`unified`) the name cut from the raw header line
is assumed to be the parsed one (no spaces in the path); for git input nothing is assumed. -/
def wf (unified : Bool) : Phase → List Event → Bool
  | _, [] => true
  | _, .fileMinus n mk :: rest => (!unified || mk == n) && wf unified .header rest
  | ph, .filePlus n mk :: rest =>
    (n.isSome || ph != .start) && (!unified || mk == n) && wf unified .header rest
  | ph, .hunkHeader :: rest => ph != .start && wf unified .hunk rest
  | ph, .changedLine _ :: rest => ph == .hunk && wf unified .hunk rest
  | ph, .contextLine :: rest => ph == .hunk && wf unified .hunk rest
  | ph, .flush :: rest => wf unified ph rest

end Lifetime

end Superimpose
