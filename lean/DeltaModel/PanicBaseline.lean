/-!
Reviewed baseline of the panic-point inventory of the render path (C03).

Each entry (file, kind, count) has been reviewed against the models: the points in delta.rs and the
handlers are explicit error branches of `DeltaModel/Machine.lean` / `Headers.lean` and are shown
unreachable by `Machine.run_total`; the regex `unwrap`s are on capture groups that always
participate; `paint.rs` points are covered by the superimpose / line-number / wrap models of
C15, C05, C07 or by invariants stated there; what is not modelled is listed in DESIGN.md section 5
(C03) and exercised by the fuzzing search only. A source change that adds or removes a panic
point changes `Generated.PanicInventory.counts` and breaks `C03.inventory_reviewed` until this
file is updated after review.
-/
namespace PanicBaseline

def counts : List (String × String × Nat) :=
  [("src/delta.rs", "fatal", 1),
   ("src/delta.rs", "index", 3),
   ("src/handlers/diff_header.rs", "index", 11),
   ("src/handlers/diff_stat.rs", "unwrap", 3),
   ("src/handlers/hunk.rs", "fatal", 2),
   ("src/handlers/hunk.rs", "index", 1),
   ("src/handlers/hunk_header.rs", "unwrap", 3),
   ("src/handlers/hunk_header.rs", "index", 4),
   ("src/handlers/merge_conflict.rs", "fatal", 1),
   ("src/handlers/merge_conflict.rs", "index", 12),
   ("src/handlers/submodule.rs", "unwrap", 2),
   ("src/paint.rs", "unwrap", 8),
   ("src/paint.rs", "panic", 2),
   ("src/paint.rs", "fatal", 1),
   ("src/paint.rs", "index", 25),
   ("src/utils/tabs.rs", "index", 2),
   ("src/utils/round_char_boundary.rs", "index", 1)]


end PanicBaseline
