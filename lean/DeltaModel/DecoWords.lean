import DeltaModel.Style
import DeltaModel.Generated.DecoArms
/-!
Decoration words inside style strings (`src/parse_style.rs`, `src/config.rs`), driven by the tables of
`Generated/DecoArms.lean` (extractor `tools/extractors/decowords.py`) and `Generated.StyleTables.decoWords`:

* `classify`       — what `_extract_special_decoration_attributes` does with one token (which flag it sets, or `none` =
                     the token stays in the style string), for a decoration string (`true`) or an element's own style
                     string (`false`);
* `runArms`        — a `match special_attributes { bits if bits == A | B => …, … }` evaluated arm by arm, on the bits of
                     the `bitflags!` block;
* `parseDecoT`     — `DecorationStyle::from_str`;
* `applySpecialT`  — `DecorationStyle::apply_special_decoration_attributes`;
* `fromStrSpecialT`— `Style::from_str_with_handling_of_special_decoration_attributes`;
* `clearForColorOnly`, `configStyleT` — the `--color-only` block of `Config::from` on the parsed style.

`DeltaStyle.parseDeco` / `fromStrSpecial` (DeltaModel/Style.lean) are the hand-written forms of the same functions;
`Proofs/DecoWords.lean` proves them equal to the table-driven ones, so everything that runs the former (the `style.parse`
correspondence, `DrawTextRun`) is tied to the match arms of the source.
A Rust `match` that falls through every arm cannot compile; here it is the outcome `unknown` (reported as
`Fatal.unreachable`).
-/
namespace DecoWords
open DeltaStyle Generated.DecoArms Generated.StyleTables

/-- Bits of one flag of `DecorationAttributes`. -/
def flagBit (n : String) : Nat :=
  match decoFlagBits.lookup n with
  | some b => b
  | none => 0

/-- `A | B | …` -/
def bitsOf (ns : List String) : Nat := ns.foldl (fun acc n => acc ||| flagBit n) 0

/-- The bits of a set of decoration attributes (`attributes |= DecorationAttributes::X`). -/
def attrBits (a : DecoAttrs) : Nat :=
  ((if a.box then flagBit "BOX" else 0) ||| (if a.ol then flagBit "OVERLINE" else 0)) |||
    (if a.ul then flagBit "UNDERLINE" else 0)

/-- What `_extract_special_decoration_attributes` does with one token: the flag it sets (`EMPTY` = dropped without a
flag), or `none` = the token is kept in the style string. First matching arm of the generated table. -/
def classify (isDecoString : Bool) (w : String) : Option String :=
  (decoWords.find? (fun e => e.1 = w ∧ (e.2.2 = "always" ∨ isDecoString))).map (·.2.1)

/-- `DecorationStyle` variant → kind of the model (`NoDecoration` = `none`). -/
def variantKind : String → Option (Option DecoKind)
  | "NoDecoration" => some none
  | "Box" => some (some .box)
  | "Underline" => some (some .ul)
  | "Overline" => some (some .ol)
  | "UnderOverline" => some (some .ulol)
  | "BoxWithUnderline" => some (some .boxul)
  | "BoxWithOverline" => some (some .boxol)
  | "BoxWithUnderOverline" => some (some .boxulol)
  | _ => none

def variantName : DecoKind → String
  | .box => "Box" | .ul => "Underline" | .ol => "Overline" | .ulol => "UnderOverline"
  | .boxul => "BoxWithUnderline" | .boxol => "BoxWithOverline" | .boxulol => "BoxWithUnderOverline"

inductive Outcome where
  | kind (k : Option DecoKind)
  | keep
  | unreachable
  | unknown
  deriving DecidableEq, Repr

def armMatches (bits : Nat) (omitted : Bool) (a : Arm) : Bool :=
  if a.guard = "eq" then bitsOf a.flags == bits
  else if a.guard = "omitted" then omitted
  else a.guard = "any"

/-- `match special_attributes { … }`: the first arm whose guard holds. -/
def runArms (arms : List Arm) (bits : Nat) (omitted : Bool) : Outcome :=
  match arms.find? (armMatches bits omitted) with
  | none => .unknown
  | some a =>
    if a.result = "keep" then .keep
    else if a.result = "unreachable" then .unreachable
    else match variantKind a.result with
      | some k => .kind k
      | none => .unknown

/-- The literal a wrapper passes as `is_decoration_style_string`. -/
def wrapperFlag (name : String) : Bool :=
  match decoExtractorWrappers.lookup name with
  | some b => b
  | none => true

/-- `if is_raw { fatal(…) }; if is_syntax_highlighted { fatal(…) }` in source order: the first that fires. -/
def firstFailedCheck (p : Parsed) : List (String × String) → Option Fatal
  | [] => none
  | (v, _) :: rest =>
    if v = "is_raw" then (if p.raw then some .rawInDecoration else firstFailedCheck p rest)
    else if v = "is_syntax_highlighted" then (if p.synt then some .syntaxInDecoration else firstFailedCheck p rest)
    else if v = "is_omitted" then (if p.omitted then some .unreachable else firstFailedCheck p rest)
    else some .unreachable

/-- `DecorationStyle::from_str(style_string, true_color, None)`. -/
def parseDecoT (env : Env) (s : List Char) : Except Fatal (Option (DecoKind × Sgr.Style)) :=
  let (a, s') := extractDeco (wrapperFlag decoFromStrExtractor) s
  match parseAnsi env none s' with
  | .error e => .error e
  | .ok p =>
    match firstFailedCheck p decoFromStrChecks with
    | some e => .error e
    | none =>
      match runArms decoFromStrArms (attrBits a) p.omitted with
      | .kind k => .ok (k.map fun k => (k, p.ansi))
      | _ => .error .unreachable

/-- First match of `apply_special_decoration_attributes`: the colours the present decoration hands on. -/
def basePayload : Option (DecoKind × Sgr.Style) → Sgr.Style
  | none => {}
  | some (k, a) => if decoApplyPayload.lookup (variantName k) = some "payload" then a else {}

/-- `DecorationStyle::apply_special_decoration_attributes(&mut style, special)`. -/
def applySpecialT (st : DStyle) (special : DecoAttrs) : Except Fatal (Option (DecoKind × Sgr.Style)) :=
  match runArms decoApplyArms (attrBits special) false with
  | .keep => .ok st.deco
  | .kind k => .ok (k.map fun k => (k, basePayload st.deco))
  | _ => .error .unreachable

/-- `Style::from_str` with the table-driven decoration parser. -/
def fromStrT (env : Env) (d : Option DStyle) (s : List Char) (decoS : Option (List Char)) : Except Fatal DStyle :=
  match parseAnsi env d s with
  | .error e => .error e
  | .ok p =>
    match parseDecoT env (match decoS with | some x => x | none => decoDefaultString.toList) with
    | .error e => .error e
    | .ok deco =>
      .ok { ansi := p.ansi, isEmph := false, isOmitted := p.omitted, isRaw := p.raw, isSyntax := p.synt, deco := deco }

/-- `Style::from_str_with_handling_of_special_decoration_attributes`. -/
def fromStrSpecialT (env : Env) (d : Option DStyle) (s : List Char) (decoS : Option (List Char)) :
    Except Fatal DStyle :=
  let (special, s') := extractDeco (wrapperFlag specialExtractor) s
  match fromStrT env d s' decoS with
  | .error e => .error e
  | .ok st =>
    match applySpecialT st special with
    | .error e => .error e
    | .ok dd => .ok { st with deco := dd }

/-- The `--color-only` block of `Config::from` on the style stored under `key`. -/
def clearForColorOnly (colorOnly : Bool) (key : String) (st : DStyle) : DStyle :=
  if colorOnlyGuard = "opt.color_only" ∧ colorOnly = true ∧ key ∈ colorOnlyClears then
    match variantKind colorOnlyValue with
    | some none => { st with deco := none }
    | _ => st
  else st

/-- The style `Config` holds for an element parsed with decoration-word handling. -/
def configStyleT (env : Env) (colorOnly : Bool) (key : String) (s : List Char) (decoS : Option (List Char)) :
    Except Fatal DStyle :=
  match fromStrSpecialT env none s decoS with
  | .error e => .error e
  | .ok st => .ok (clearForColorOnly colorOnly key st)

/-- The style string an element's own style is parsed from: its decoration words removed
(`extract_special_decoration_attributes_from_non_decoration_style_string(…).1`). -/
def stripped (s : List Char) : List Char := (extractDeco false s).2

/-- The text part of a style: what the painted text carries. -/
def textPart (st : DStyle) : Parsed := ⟨st.ansi, st.isOmitted, st.isRaw, st.isSyntax⟩

end DecoWords
