import DeltaModel.Edits
import DeltaModel.Generated.PairThresholds
/-!
From the configured option value to the pairing test of `infer_edits` (C06).

`edits::infer_edits` takes the two distance thresholds as parameters. Which values it is given is decided by its
only caller, `get_diff_style_sections` (src/paint.rs), from two fields of `Config`, which `Config::from`
(src/config.rs) computes from `opt.max_line_distance` (clap option `--max-line-distance`: command line, gitconfig,
feature or default) and from the environment variable `DELTA_EXPERIMENTAL_MAX_LINE_DISTANCE_FOR_NAIVELY_PAIRED_LINES`.
The argument expressions of the call and the field expressions of `Config::from` are regenerated from the source as
expression trees (`Generated/PairThresholds.lean`); this file interprets them.

Values: a finite `f64` is modelled by the rational it denotes, `Q = num / den` (DESIGN 3.3: the comparison
`distance <= threshold` is made on rationals); arithmetic is exact. Non-finite option values (`inf`, `nan`) are
outside the model (the check sends them to the binary's oracle only). Core Lean only.
-/
namespace PairThresholds
open Generated.PairThresholds Edits

/-- A finite threshold value: the rational `num / den` (every value built here has `den > 0` when its inputs have). -/
structure Q where
  num : Int
  den : Nat
  deriving DecidableEq, Repr

namespace Q
def zero : Q := ⟨0, 1⟩
def neg (a : Q) : Q := ⟨-a.num, a.den⟩
def add (a b : Q) : Q := ⟨a.num * b.den + b.num * a.den, a.den * b.den⟩
def sub (a b : Q) : Q := add a (neg b)
def mul (a b : Q) : Q := ⟨a.num * b.num, a.den * b.den⟩
/-- `a <= b` (denominators positive). -/
def le (a b : Q) : Bool := decide (a.num * b.den ≤ b.num * a.den)
/-- `f64::max` / `f64::min` on finite values. -/
def max (a b : Q) : Q := if le a b then b else a
def min (a b : Q) : Q := if le a b then a else b
/-- `a / b`; `none` when `b = 0` (the result is not finite). -/
def div (a b : Q) : Option Q :=
  if b.num = 0 then none
  else if 0 < b.num then some ⟨a.num * b.den, a.den * b.num.toNat⟩
  else some ⟨-(a.num * b.den), a.den * (-b.num).toNat⟩
end Q

/-- An environment variable as `s.parse::<f64>()` sees it. -/
inductive EnvVar
  | unset
  | unparseable
  | value (q : Q)
  deriving DecidableEq, Repr

/-- Interpreter of the generated expression trees. `fld root name`: the value of `root.name`
(`none`: no such threshold field — a model error), `env var`: the state of `opt.env.<var>`. -/
def eval (fld : String → String → Option Q) (env : String → EnvVar) : TExpr → Option Q
  | .field r n => fld r n
  | .lit n d => some ⟨n, d⟩
  | .neg a => (eval fld env a).map Q.neg
  | .add a b => do pure (Q.add (← eval fld env a) (← eval fld env b))
  | .sub a b => do pure (Q.sub (← eval fld env a) (← eval fld env b))
  | .mul a b => do pure (Q.mul (← eval fld env a) (← eval fld env b))
  | .div a b => do Q.div (← eval fld env a) (← eval fld env b)
  | .max a b => do pure (Q.max (← eval fld env a) (← eval fld env b))
  | .min a b => do pure (Q.min (← eval fld env a) (← eval fld env b))
  | .envParse v e u =>
    match env v with
    | .unset => eval fld env u
    | .unparseable => eval fld env e
    | .value q => some q

/-- What delta is started with, as far as pairing is concerned. -/
structure Inputs where
  /-- `opt.max_line_distance`: the value of `--max-line-distance` (wherever it was written), or the default. -/
  maxLineDistance : Q
  /-- the environment variable `DELTA_EXPERIMENTAL_MAX_LINE_DISTANCE_FOR_NAIVELY_PAIRED_LINES`. -/
  naiveEnv : EnvVar

def optField (inp : Inputs) (root name : String) : Option Q :=
  if root = "opt" ∧ name = "max_line_distance" then some inp.maxLineDistance else none

def envField (inp : Inputs) (var : String) : EnvVar :=
  if var = "experimental_max_line_distance_for_naively_paired_lines" then inp.naiveEnv else .unset

/-- `config.<name>` after `Config::from`, for the threshold fields. -/
def configValue (inp : Inputs) (name : String) : Option Q :=
  (configThresholdFields.lookup name).bind (eval (optField inp) (envField inp))

def cfgField (inp : Inputs) (root name : String) : Option Q :=
  if root = "config" then configValue inp name else none

/-- The values `get_diff_style_sections` hands to `infer_edits` as (`max_line_distance`,
`max_line_distance_for_naively_paired_lines`). -/
def effective (inp : Inputs) : Option (Q × Q) := do
  let mx ← eval (cfgField inp) (fun _ => .unset) inferMaxArg
  let nv ← eval (cfgField inp) (fun _ => .unset) inferNaiveArg
  pure (mx, nv)

/-- The naive-pairing threshold delta documents: the parsed value of the variable, 0 when unset or unparseable. -/
def naiveOf : EnvVar → Q
  | .unset => Q.zero
  | .unparseable => Q.zero
  | .value q => q

/-- `distance <= t` (`<` when `strict`) for `distance = compute_distance(numer, denom)` and a threshold of either sign. -/
def withinQ (strict : Bool) (numer denom : Nat) (t : Q) : Bool :=
  if denom > 0 then
    (if strict then decide ((numer : Int) * t.den < t.num * denom) else decide ((numer : Int) * t.den ≤ t.num * denom))
  else
    (if strict then decide (0 < t.num) else decide (0 ≤ t.num))

/-- The thresholds as the `Cfg` of the `infer_edits` model, which keeps non-negative rationals. A negative threshold
(no pair can pass: distances are ≥ 0) is outside that model. -/
def cfgOf (del ins : Tag) (mx nv : Q) : Except String Cfg :=
  if 0 ≤ mx.num ∧ 0 ≤ nv.num then .ok ⟨del, ins, mx.num.toNat, mx.den, nv.num.toNat, nv.den⟩
  else .error "outside the model: negative threshold"

/-- `Cfg` of the `infer_edits` call for a run of delta started with `inp`. -/
def configuredCfg (inp : Inputs) (del ins : Tag) : Except String Cfg :=
  match effective inp with
  | none => .error "model: unknown threshold field"
  | some (mx, nv) => cfgOf del ins mx nv

/-- `get_diff_style_sections` for a run of delta started with `inp`: `infer_edits` with the thresholds the caller
computes from the configuration. -/
def inferEditsConfigured (inp : Inputs) (del ins : Tag) (minus plus : List Line) (nd ni : List Tag) :
    Except String Inferred :=
  match configuredCfg inp del ins with
  | .error e => .error e
  | .ok cfg => inferEdits cfg minus plus nd ni

end PairThresholds
