import DeltaModel.Generated.OptionsTables
import DeltaModel.OptionsValues
/-!
# Options — model of delta's option resolution (property C13)

Rust modelled (by hand, statement for statement):

* `src/cli.rs`   `Opt::from_args_and_git_config` — which git config object exists
  (`finalConfig`);
* `src/git_config/mod.rs` `GitConfig::get` — `enabled`, `GIT_CONFIG_PARAMETERS` layer over the
  file for keys of the main `[delta]` section, per getter type (`GitCfg.getT`, `GitCfg.get`,
  `GitCfg.getBool`; which layer each `impl GitConfigGet` consults first and the function each half
  reads its text with are generated; the functions themselves — libgit2's integer / boolean
  syntax, Rust's `parse` — are in `DeltaModel/OptionsValues.lean`);
* `src/options/set.rs` `gather_features`, `gather_features_recursively`,
  `gather_builtin_features_from_flags_in_gitconfig`, `gather_builtin_features_recursively`
  (`gatherFeatures`, `gatherR`, `gatherFlags`, `gatherB`) — the deque is a `List` whose head is
  the deque's front (`push_front` = cons);
* `src/options/get.rs` `get_option_value`, `get_provenanced_value_for_feature`
  (`getOptionValue`, `provenanced`);
* the `set_options!` macro: a value supplied on the command line is kept (`effective`);
* the statements of `set_options` before and after the macro that modify `opt` (`applyStmt`,
  `finalValue`): their order, phase and the options they write are generated.

Generated (from the source, on every run): the builtin feature tables, the order of the
command-line flag tests, the `set_options!` option list, which features `--color-only`
removes, how the flag loops enumerate the builtin names.

The enumeration order of `HashMap::keys()` is not determined by the program text; it is the
explicit parameter `π` (a list of the builtin feature names in *some* order) of every function
that iterates over it.

Not modelled (trusted / outside the domain): clap (which options count as supplied on the
command line), libgit2's file parsing (the model takes the key/value lists: quotes, escapes,
comments already removed; a key without value is `bareMark`), the regular expression that
parses `GIT_CONFIG_PARAMETERS` (the model takes the parsed `delta.<key>` pairs), Unicode
white space (`words` splits on ASCII white space), dynamic builtin defaults that read other
options (`BVal.dyn`, carried as opaque text), and the special cases of `set_options` outside
the macro (`light`/`dark`/`syntax-theme`, `whitespace-error-style`, the side-by-side
`minus-style` hack, the `--color-only` post-processing).
-/
namespace Options

abbrev Name := String

/-! ## Small helpers -/

/-- Association-list lookup, first match. -/
def lookup {β : Type} (k : String) : List (String × β) → Option β
  | [] => none
  | (a, b) :: t => if a = k then some b else lookup k t

def isWs (c : Char) : Bool :=
  c = ' ' || c = '\t' || c = '\n' || c = '\r' || c = Char.ofNat 11 || c = Char.ofNat 12

def wordsAux : List Char → List Char → List String
  | [], cur => if cur.isEmpty then [] else [String.ofList cur.reverse]
  | c :: cs, cur =>
    if isWs c then
      (if cur.isEmpty then wordsAux cs [] else String.ofList cur.reverse :: wordsAux cs [])
    else wordsAux cs (c :: cur)

/-- `str::split_whitespace` (ASCII white space). -/
def words (s : String) : List String := wordsAux s.toList []

/-- `split_feature_string`: `features.split_whitespace().rev()`. -/
def splitFeatureString (s : String) : List Name := (words s).reverse

/-- First `some` of a list of optional values. -/
def firstSome {α : Type} : List (Option α) → Option α
  | [] => none
  | some a :: _ => some a
  | none :: t => firstSome t

/-! ## Builtin features -/

/-- The default a builtin feature gives an option. -/
inductive BVal
  | lit (s : String)     -- string or integer literal (its text)
  | flag (b : Bool)      -- boolean literal
  | dyn (e : String)     -- computed from other options (opaque)
  deriving DecidableEq, Repr

structure BEntry where
  gitKey : Option String   -- `Some("color.diff.old")`: git config key consulted first
  value : BVal
  deriving DecidableEq, Repr

abbrev BTable := List (Name × BEntry)
abbrev Builtins := List (Name × BTable)

/-- `HashMap::get` on a map collected from the entry vector: the last duplicate wins. -/
def tableGet (t : BTable) (o : Name) : Option BEntry := lookup o t.reverse

def mkVal (kind txt : String) : BVal :=
  if kind = "bool" then .flag (txt = "true")
  else if kind = "dyn" then .dyn txt
  else .lit txt

/-- `features::make_builtin_features()` (generated tables). -/
def allBuiltins : Builtins :=
  Generated.Options.builtinFeatures.map fun (n, es) =>
    (n, es.map fun (o, k, kind, txt) => (o, { gitKey := k, value := mkVal kind txt }))

def builtinNames : List Name := allBuiltins.map (·.1)

/-! ## Git config -/

structure GitFile where
  main : List (Name × String)                    -- `[delta]`
  sections : List (Name × List (Name × String))  -- `[delta "<feature>"]`
  other : List (String × String)                 -- any other key, e.g. `color.diff.meta`
  deriving DecidableEq, Repr

def GitFile.empty : GitFile := { main := [], sections := [], other := [] }

structure GitCfg where
  enabled : Bool
  params : List (Name × String)   -- GIT_CONFIG_PARAMETERS: `delta.<key>` pairs
  file : GitFile
  deriving DecidableEq, Repr

/-- The five `impl GitConfigGet for T` of src/git_config/mod.rs. -/
inductive GType
  | string | optString | bool | usize | f64
  deriving DecidableEq, Repr

def GType.ofName (n : String) : GType :=
  if n = "optString" then .optString else if n = "bool" then .bool
  else if n = "usize" then .usize else if n = "f64" then .f64 else .string

def GType.name : GType → String
  | .string => "string" | .optString => "optString" | .bool => "bool" | .usize => "usize" | .f64 => "f64"

/-- Does the getter of this type look at `GIT_CONFIG_PARAMETERS` before the file? (generated
    from the shape of each impl) -/
def envFirst (ty : GType) : Bool :=
  lookup ty.name Generated.Options.getterOrder = some "env-first"

def parseBool (s : String) : Option Bool :=
  if s = "true" then some true else if s = "false" then some false else none

/-- The `GIT_CONFIG_PARAMETERS` half of `impl GitConfigGet for <ty>`: the reading of the text `v`
    (canonical text: decimal, `true`/`false`, the text itself), `none` = the getter falls through to
    the file. The function used is generated (`Generated.Options.getterParsers`), its meaning is in
    `DeltaModel/OptionsValues.lean`. -/
def envRead (ty : GType) (v : String) : Option String := envReadBy (parsersOf ty.name).1 v

/-- The file half (`get_string` / `get_bool` / `get_i64` + what follows): the reading of the value
    `v` (`bareMark`: a key without value), `none` = this source does not set the option. -/
def fileRead (ty : GType) (v : String) : Option String := fileReadBy (parsersOf ty.name).2 v

/-- Does the getter of type `ty` take this `GIT_CONFIG_PARAMETERS` text (otherwise it falls
    through to the file)? -/
def envAccepts (ty : GType) (v : String) : Bool := (envRead ty v).isSome

/-- Does the file-side getter return a value for this text? -/
def fileAccepts (ty : GType) (v : String) : Bool := (fileRead ty v).isSome

/-- `git_config.get::<T>(key)` as canonical text; `sec = none` is the main section (`delta.<k>`): two
    layers, `GIT_CONFIG_PARAMETERS` and the file, consulted in the order of the impl for `T`;
    `sec = some f` is `delta.<f>.<k>` (file only: the parameter regex admits no subsection). -/
def GitCfg.getT (g : GitCfg) (ty : GType) (sec : Option Name) (k : Name) : Option String :=
  if g.enabled then
    match sec with
    | none =>
      let e := (lookup k g.params).bind (envRead ty)
      let f := (lookup k g.file.main).bind (fileRead ty)
      if envFirst ty then e.or f else f.or e
    | some s =>
      match lookup s g.file.sections with
      | some sct => (lookup k sct).bind (fileRead ty)
      | none => none
  else none

/-- `git_config.get::<String>(key)`. -/
def GitCfg.get (g : GitCfg) (sec : Option Name) (k : Name) : Option String := g.getT .string sec k

/-- `git_config.get::<bool>(key)`. -/
def GitCfg.getBool (g : GitCfg) (sec : Option Name) (k : Name) : Option Bool :=
  (g.getT .bool sec k).bind parseBool

/-- The getter type of an option of the `set_options!` list (generated from cli.rs). -/
def optionType (o : Name) : GType :=
  match lookup o Generated.Options.optionTypes with
  | some n => GType.ofName n
  | none => .string

/-- A key outside the delta sections (used by builtin features: `color.diff.*`). -/
def GitCfg.getOther (g : GitCfg) (k : String) : Option String :=
  if g.enabled then lookup k g.file.other else none

/-! ## Inputs -/

structure Inputs where
  cli : List (Name × String)      -- options supplied on the command line (flags: value "true")
  cliFeatures : Option String     -- `--features <s>`
  envFeatures : Option String     -- `DELTA_FEATURES`
  envNavigate : Bool              -- `DELTA_NAVIGATE` is set
  noGitconfig : Bool              -- `--no-gitconfig`
  defaultFile : Option GitFile    -- what `GitConfig::try_create` opens (none: no config at all)
  configFile : Option GitFile     -- `--config <path>`
  params : List (Name × String)   -- `GIT_CONFIG_PARAMETERS`
  deriving DecidableEq, Repr

def cliHas (inp : Inputs) (o : Name) : Bool := (lookup o inp.cli).isSome

/-- `Opt::from_args_and_git_config` followed by the first lines of `set_options`. -/
def finalConfig (inp : Inputs) : Option GitCfg :=
  let base : Option GitFile :=
    match inp.configFile with
    | some f => some f
    | none => if inp.noGitconfig then none else inp.defaultFile
  base.map fun f => { enabled := !inp.noGitconfig, params := inp.params, file := f }

/-- `builtin_features` as passed around by `set_options`: `--color-only` on the command line
    removes some (`side-by-side`). -/
def builtinsFor (inp : Inputs) : Builtins :=
  if cliHas inp "color-only" then
    allBuiltins.filter fun p => !Generated.Options.colorOnlyRemoves.contains p.1
  else allBuiltins

/-- `opt.<flag>` at the time `gather_features` runs. -/
def flagOn (inp : Inputs) (flag : Name) : Bool :=
  cliHas inp flag || (flag = "navigate" && inp.envNavigate)

def startsWithPlus (s : String) : Bool := s.toList.head? = some '+'
def dropFirst (s : String) : String := String.ofList (s.toList.drop 1)

/-- `input_features` of `gather_features`, in iteration order. -/
def inputFeatures (inp : Inputs) : List Name :=
  let fromArgs := splitFeatureString (inp.cliFeatures.getD "")
  match inp.envFeatures with
  | some e => if startsWithPlus e then words (dropFirst e) ++ fromArgs else splitFeatureString e
  | none => fromArgs

/-- `opt.features.is_none()` after the `DELTA_FEATURES` handling. -/
def featuresIsNone (inp : Inputs) : Bool :=
  inp.cliFeatures.isNone &&
    (match inp.envFeatures with
     | some e => startsWithPlus e
     | none => true)

/-! ## Gathering the feature list -/

/-- The builtin's `features` entry, split and reversed (`split_feature_string`), when it is a
    string default. -/
def featuresOf (t : BTable) : List Name :=
  match tableGet t "features" with
  | some ⟨_, .lit s⟩ => splitFeatureString s
  | _ => []

/-- `feature_data.get(c)` evaluates to `DefaultValue(Boolean(true))`. -/
def flagTrue (t : BTable) (c : Name) : Bool :=
  match tableGet t c with
  | some ⟨_, .flag true⟩ => true
  | _ => false

/-- `git_config.get::<String>("delta.<f>.features")`, split and reversed (`sec = none`: the main
    section). -/
def secFeatures (g : GitCfg) (sec : Option Name) : List Name :=
  match g.get sec "features" with
  | some s => splitFeatureString s
  | none => []

/-- `gather_builtin_features_recursively`. `acc` is the deque (head = front). -/
def gatherB (bs : Builtins) (π : List Name) : Nat → Name → List Name → List Name
  | 0, _, acc => acc
  | n + 1, f, acc =>
    if acc.contains f then acc
    else
      match lookup f bs with
      | none => f :: acc
      | some t =>
        π.foldl (fun a c => if flagTrue t c then gatherB bs π n c a else a)
          ((featuresOf t).foldl (fun a c => gatherB bs π n c a) (f :: acc))

/-- `gather_builtin_features_from_flags_in_gitconfig`. -/
def gatherFlags (bs : Builtins) (π : List Name) (fuel : Nat) (g : GitCfg) (sec : Option Name)
    (acc : List Name) : List Name :=
  π.foldl (fun a c => if g.getBool sec c = some true then gatherB bs π fuel c a else a) acc

/-- `gather_features_recursively`. -/
def gatherR (bs : Builtins) (π : List Name) (fb : Nat) (g : GitCfg) :
    Nat → Name → List Name → List Name
  | 0, _, acc => acc
  | n + 1, f, acc =>
    gatherFlags bs π fb g (some f)
      ((secFeatures g (some f)).foldl
        (fun a c => if a.contains c then a else gatherR bs π fb g n c a)
        (if (lookup f bs).isSome then gatherB bs π fb f acc else f :: acc))

/-- `builtin_features.keys()`: the enumeration order `π`, restricted to the features that are
    in the map (`--color-only` removes `side-by-side`). -/
def keysOf (bs : Builtins) (π : List Name) : List Name := π.filter fun c => (lookup c bs).isSome

/-- Every name the gathering can push (an upper bound for the recursion depth). -/
def nameUniverse (bs : Builtins) (π : List Name) (inp : Inputs) (g : Option GitCfg) : List Name :=
  π ++ Generated.Options.cliFlagOrder.map (·.2) ++
  bs.flatMap (fun p => featuresOf p.2) ++
  inputFeatures inp ++
  (match g with
   | none => []
   | some g =>
     secFeatures g none ++
     (if g.enabled then
        g.file.sections.flatMap (fun p => match lookup "features" p.2 with
          | some s => splitFeatureString s
          | none => [])
      else []))

def fuelFor (bs : Builtins) (π : List Name) (inp : Inputs) (g : Option GitCfg) : Nat :=
  (nameUniverse bs π inp g).length + 2

/-- `gather_features` with an explicit fuel. Result: the deque front to back, i.e. the words
    of `opt.features`; priority increases to the right. -/
def gatherFeaturesWith (fuel : Nat) (π : List Name) (inp : Inputs) : List Name :=
  let bs := builtinsFor inp
  let git := finalConfig inp
  let π := keysOf bs π
  let acc :=
    match git with
    | some g => (inputFeatures inp).foldl (fun a f => gatherR bs π fuel g fuel f a) []
    | none =>
      (inputFeatures inp).foldl (fun a f =>
        if Generated.Options.noConfigExpands && (lookup f bs).isSome then gatherB bs π fuel f a
        else f :: a) []
  let acc := Generated.Options.cliFlagOrder.foldl
    (fun a p => if flagOn inp p.1 then gatherB bs π fuel p.2 a else a) acc
  match git with
  | some g =>
    let acc :=
      if featuresIsNone inp then
        (secFeatures g none).foldl (fun a f => gatherR bs π fuel g fuel f a) acc
      else acc
    gatherFlags bs π fuel g none acc
  | none => acc

def gatherFeatures (π : List Name) (inp : Inputs) : List Name :=
  gatherFeaturesWith (fuelFor (builtinsFor inp) (keysOf (builtinsFor inp) π) inp (finalConfig inp)) π inp

/-! ## Looking up one option -/

/-- Where a value came from, with its text. -/
inductive Val
  | cli (s : String)    -- command line
  | git (s : String)    -- git config text: `[delta]`, `[delta "f"]`, or a builtin's git key
  | bdef (v : BVal)     -- a builtin feature's default
  | dflt                -- nothing set it: clap's default
  | pre (s : String)    -- clap's default as rewritten by a statement before the `set_options!` call
  | post (s : String)   -- overwritten by a statement after the `set_options!` call
  deriving DecidableEq, Repr

/-- `if let Some(git_config) = git_config { git_config.get::<T>(key) }`, `T` the option's type. -/
def optGet (git : Option GitCfg) (sec : Option Name) (k : Name) : Option String :=
  match git with
  | some g => g.getT (optionType k) sec k
  | none => none

/-- The value function of a `builtin_feature!` entry. -/
def evalEntry (git : Option GitCfg) (e : BEntry) : Val :=
  match git, e.gitKey with
  | some g, some k =>
    match g.getOther k with
    | some v => .git v
    | none => .bdef e.value
  | _, _ => .bdef e.value

/-- `get_provenanced_value_for_feature`. -/
def provenanced (bs : Builtins) (git : Option GitCfg) (o : Name) (f : Name) : Option Val :=
  match optGet git (some f) o with
  | some v => some (.git v)
  | none =>
    match lookup f bs with
    | some t =>
      match tableGet t o with
      | some e => some (evalEntry git e)
      | none => none
    | none => none

/-- The loop of `get_option_value` over `features.split_whitespace().rev()`;
    `fs` is already reversed. -/
def searchFeatures (bs : Builtins) (git : Option GitCfg) (o : Name) : List Name → Option Val
  | [] => none
  | f :: fs =>
    match provenanced bs git o f with
    | some v => some v
    | none => searchFeatures bs git o fs

/-- `GetOptionValue::get_option_value`; `features` = the words of `opt.features`. -/
def getOptionValue (bs : Builtins) (git : Option GitCfg) (features : List Name) (o : Name) :
    Option Val :=
  match optGet git none o with
  | some v => some (.git v)
  | none => searchFeatures bs git o features.reverse

/-- One step of `set_options!` for option `o`, given the gathered features. -/
def effectiveWith (features : List Name) (inp : Inputs) (o : Name) : Val :=
  match lookup o inp.cli with
  | some v => .cli v
  | none =>
    match getOptionValue (builtinsFor inp) (finalConfig inp) features o with
    | some v => v
    | none => .dflt

/-- The effective value of option `o` (an option of the `set_options!` list). -/
def effective (π : List Name) (inp : Inputs) (o : Name) : Val :=
  effectiveWith (gatherFeatures π inp) inp o

/-! ## The statements of `set_options` around the macro -/

/-- A statement of `set_options` that can modify `opt` (generated: phase relative to the main
    `set_options!` call, kind, options written). -/
structure Stmt where
  phase : String
  kind : String
  writes : List Name
  deriving DecidableEq, Repr

def stmts : List Stmt :=
  Generated.Options.setOptionsStatements.map fun (p, k, w) => { phase := p, kind := k, writes := w }

/-- `if s.starts_with("normal ") { format!("syntax {}", &s["normal ".len()..]) }`. -/
def normalToSyntax (s : String) : Option String :=
  if "normal ".toList.isPrefixOf s.toList then
    some (String.ofList ("syntax ".toList ++ s.toList.drop 7))
  else none

/-- The text of a resolved value (a dynamic builtin default has none in the model). -/
def valText (o : Name) : Val → Option String
  | .cli s => some s
  | .git s => some s
  | .bdef (.lit s) => some s
  | .bdef _ => none
  | .dflt => lookup o Generated.Options.hackDefaults
  | .pre s => some s
  | .post s => some s

/-- Is a boolean option on? -/
def valIsTrue : Val → Bool
  | .cli _ => true
  | .git s => s = "true"
  | .bdef (.flag b) => b
  | _ => false

/-- What one statement does to the value of option `o`.
    * `sbs-normal-to-syntax` (the side-by-side rule for `minus-style` / `minus-emph-style`, guarded
      by `!user_supplied_option`): before the macro it can only see clap's default; after the
      macro it sees — and rewrites — the resolved value;
    * `color-only-reset` (after the macro, when `opt.color_only`): forces `side-by-side = false`
      and the three decoration styles to `none`, whatever their source (documented, #274);
    * every other kind either writes before the macro under a guard that spares command-line
      values (`or-env`, `fill-if-none`, `guarded-git-default`, `sub-macro`: their effect is a
      default the macro then overrides — not modelled, probes avoid those options), writes
      `opt.features` / `opt.computed.*` only, or is the deprecated `--24-bit-color` alias. -/
def applyStmt (feats : List Name) (supplied colorOnly : Bool) (o : Name) (v : Val) (s : Stmt) : Val :=
  if s.writes.contains o then
    if s.kind = "sbs-normal-to-syntax" then
      if feats.contains "side-by-side" && !supplied then
        if s.phase = "pre" then
          (match v with
           | .dflt =>
             (match (lookup o Generated.Options.hackDefaults).bind normalToSyntax with
              | some t => .pre t
              | none => v)
           | _ => v)
        else
          (match (valText o v).bind normalToSyntax with
           | some t => .post t
           | none => v)
      else v
    else if s.kind = "color-only-reset" then
      if colorOnly then .post (if o = "side-by-side" then "false" else "none") else v
    else v
  else v

/-- The final value of option `o`: the value `set_options!` resolved, then the statements of
    `set_options` in source order. -/
def finalWith (features : List Name) (inp : Inputs) (o : Name) : Val :=
  stmts.foldl
    (applyStmt features (lookup o inp.cli).isSome (valIsTrue (effectiveWith features inp "color-only")) o)
    (effectiveWith features inp o)

def finalValue (π : List Name) (inp : Inputs) (o : Name) : Val :=
  finalWith (gatherFeatures π inp) inp o

/-- Options the documented `--color-only` block resets. -/
def colorOnlyResetOptions : List Name :=
  (stmts.filter (·.kind = "color-only-reset")).flatMap (·.writes)

/-- Options written by statements the model does not interpret (`--24-bit-color` alias,
    environment fall-backs, the light/dark/syntax-theme sub-macro, `whitespace-error-style`). -/
def uninterpretedOptions : List Name :=
  (stmts.filter (fun s => s.kind ≠ "sbs-normal-to-syntax" ∧ s.kind ≠ "color-only-reset")).flatMap (·.writes)

/-! ## Specification (the documented order) -/

/-- The layers consulted for option `o`, highest priority first: command line, main section,
    then for each enabled feature from the last listed to the first its custom section and
    then its builtin table. -/
def layers (features : List Name) (inp : Inputs) (o : Name) : List (Option Val) :=
  let git := finalConfig inp
  let bs := builtinsFor inp
  [ (lookup o inp.cli).map Val.cli,
    (optGet git none o).map Val.git ] ++
  features.reverse.flatMap fun f =>
    [ (optGet git (some f) o).map Val.git,
      (lookup f bs).bind fun t => (tableGet t o).map (evalEntry git) ]

/-- First-occurrence de-duplication; `seen` = names already taken. -/
def dedupFrom (seen : List Name) : List Name → List Name
  | [] => []
  | x :: xs => if seen.contains x then dedupFrom seen xs else x :: dedupFrom (x :: seen) xs

def dedup (l : List Name) : List Name := dedupFrom [] l

/-- Features a feature enables, in the order they are visited: a builtin's `features` entry
    (right to left) and boolean entries naming builtins, then the `features` key of its
    `[delta "f"]` section (right to left) and the builtin flags set there. -/
def childrenAll (bs : Builtins) (π : List Name) (g : GitCfg) (f : Name) : List Name :=
  (match lookup f bs with
   | none => []
   | some t => featuresOf t ++ π.filter (flagTrue t)) ++
  secFeatures g (some f) ++
  π.filter (fun c => g.getBool (some f) c = some true)

/-- … without the feature itself (every builtin feature lists its own flag). -/
def childrenOf (bs : Builtins) (π : List Name) (g : GitCfg) (f : Name) : List Name :=
  (childrenAll bs π g f).filter (· ≠ f)

/-- Pre-order traversal of the feature tree below `f`, unfolded to depth `d`. -/
def preorder (children : Name → List Name) : Nat → Name → List Name
  | 0, f => [f]
  | d + 1, f => f :: (children f).flatMap (preorder children d)

/-- The roots of the feature forest in decreasing priority: `--features`/`DELTA_FEATURES`
    (last listed first), command-line feature flags, `[delta] features` (only when no feature
    list was given), feature flags in `[delta]`. -/
def roots (π : List Name) (inp : Inputs) (g : GitCfg) : List Name :=
  inputFeatures inp ++
  (Generated.Options.cliFlagOrder.filter (fun p => flagOn inp p.1)).map (·.2) ++
  (if featuresIsNone inp then secFeatures g none else []) ++
  π.filter (fun c => g.getBool none c = some true)

/-- The documented feature order, highest priority first: the de-duplicated pre-order
    traversal of the forest. -/
def specOrder (d : Nat) (π : List Name) (inp : Inputs) (g : GitCfg) : List Name :=
  dedup ((roots π inp g).flatMap (preorder (childrenOf (builtinsFor inp) π g) d))

end Options
