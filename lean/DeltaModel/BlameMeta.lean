import DeltaModel.Sgr
import DeltaModel.Generated.BlameMeta
/-!
Which strings `format::pad` is applied to in a `git blame` row (`src/handlers/blame.rs`), and what comes out.

`format::pad(s, width, alignment, precision)` is `format!("{s:<width$.precision$}")`: the precision is a maximum number of
chars — **it cuts the string**. For plain text that is an abbreviation; for a string that already carries an OSC 8
hyperlink (or a painted run) the cut falls inside an escape sequence and the closing sequence is lost. So the property
needs: *a precision is only ever applied to escape-free text*. This file makes that checkable:

* `Arm`, `arms` — the `Some(Placeholder::Str(label)) [if guard] => expr` arms of `format_blame_metadata`, **regenerated from
  the source** (`Generated.BlameMeta.fieldArms`): label, guard conjuncts, the *kind* of the expression that makes the
  field (`text` = a copy of a field of the blame line, `format_raw_line`, `commit_link` =
  `format_commit_line_with_osc8_commit_hyperlink`, anything else = `unmodelled`), the field it reads;
* `rawLineKind` — `delta::format_raw_line` from its generated gate (`config.hyperlinks && io::stdout().is_terminal()`) and
  the generated kinds of its two branches;
* `Env` — what the guards consult: `config.hyperlinks`, and whether stdout is a terminal;
* `fieldPieces` — the field string as pieces (`Line.Piece`: plain text, or an OSC 8 link around plain text);
* `pad` — `format::pad` for a string (clamps, precision = `take`, alignment), `paddedWidth` — the Unicode correction;
* `formatMeta` — `format_blame_metadata`: prefix, padded field, …, last suffix; `postPad` — a source that links a field
  *after* padding it (generated `padUse` / `linkAfterPad`; the repair of the defect found here has that shape);
* `blameRow` — the `write!` of `handle_blame_line` (generated `rowPieces`): metadata (blanked when the key repeats),
  separator prefix, line number, separator suffix, each painted, then the painted code line;
* `mayCarryEscapes`, `precisionOnPlain`, `armsPlainWhen` — the decidable side conditions;
* `shapeAsModelled` — every statement of `format_blame_metadata` (locals renamed), the `pad` argument list, the `format!`
  specs of `format::pad`, its clamps, the row `write!`, the `pad` call of `format_blame_line_number`, and the data flow of
  the line-number gutter (`format_line_number`: the number is padded, the link goes around the padded text) are the
  modelled ones.

Core Lean only. Text is `List Char`; display widths come from the implementation (`cw`).
-/
namespace BlameMeta
open Line (Piece)
open Generated.BlameMeta

abbrev Str := List Char

inductive Align where
  | left | center | right
  deriving DecidableEq, Repr

/-- One `FormatStringPlaceholderData` as `format_blame_metadata` reads it (`label = none`: no placeholder). -/
structure Item where
  pre : Str := []
  label : Option String := none
  align : Option Align := none
  width : Option Nat := none
  prec : Option Nat := none
  suf : Str := []
  deriving DecidableEq, Repr

/-- What the guards of the arms and of `format_raw_line` consult. -/
structure Env where
  /-- `config.hyperlinks` -/
  hyperlinks : Bool := false
  /-- `io::stdout().is_terminal()` -/
  stdoutIsTerminal : Bool := false
  deriving DecidableEq, Repr

/-- A field of the blame line: its text, and what `format_commit_line_with_osc8_commit_hyperlink` returns for that text
under the current Config (the text split into plain pieces and linked commit hashes; `[.plain text]` when no commit URL is
configured). -/
structure FieldVal where
  plain : Str
  linked : List Piece
  deriving DecidableEq, Repr

structure Fields where
  /-- `blame.time` as rendered by chrono / chrono-humanize -/
  time : FieldVal
  author : FieldVal
  commit : FieldVal
  /-- `format_commit_line_with_osc8_commit_hyperlink` as a function (consulted only by a source that links a field *after*
  it has been padded: `Generated.BlameMeta.linkAfterPad`) -/
  relink : Str → List Piece := fun t => [.plain t]

inductive Kind where
  | text | rawLine | commitLink | unmodelled
  deriving DecidableEq, Repr

structure Arm where
  label : String
  guards : List String
  kind : Kind
  field : String
  deriving DecidableEq, Repr

def kindOfString (s : String) : Kind :=
  if s == "text" then .text
  else if s == "format_raw_line" then .rawLine
  else if s == "commit_link" then .commitLink
  else .unmodelled

/-- The arms of the current source. -/
def arms : List Arm := fieldArms.map fun a => ⟨a.1, a.2.1, kindOfString a.2.2.1, a.2.2.2⟩

/-- One conjunct of a guard; `none` = not a condition this model knows. -/
def guardHolds (env : Env) (g : String) : Option Bool :=
  if g == "config.hyperlinks" then some env.hyperlinks
  else if g == "!config.hyperlinks" then some (!env.hyperlinks)
  else if g == "io::stdout().is_terminal()" then some env.stdoutIsTerminal
  else if g == "!io::stdout().is_terminal()" then some (!env.stdoutIsTerminal)
  else none

def guardsHold (env : Env) : List String → Option Bool
  | [] => some true
  | g :: gs =>
    match guardHolds env g, guardsHold env gs with
    | some a, some b => some (a && b)
    | _, _ => none

/-- `delta::format_raw_line(line, config)`: which of its two results. -/
def rawLineKind (env : Env) : Kind :=
  match guardsHold env rawLineGate with
  | some true => kindOfString rawLineThen
  | some false => kindOfString rawLineElse
  | none => .unmodelled

/-- The kind with `format_raw_line` resolved: `text`, `commitLink` or `unmodelled`. -/
def resolve (env : Env) : Kind → Kind
  | .rawLine =>
    match rawLineKind env with
    | .text => .text
    | .commitLink => .commitLink
    | _ => .unmodelled
  | k => k

/-- May the string this kind of expression yields contain escape sequences? -/
def mayCarryEscapes (env : Env) (k : Kind) : Bool := resolve env k != .text

/-- The first arm for `label` whose guard holds (`match` semantics); `.ok none` = only the wildcard arm is left. -/
def armFor (env : Env) (label : String) : List Arm → Except String (Option Arm)
  | [] => .ok none
  | a :: rest =>
    if a.label == label then
      match guardsHold env a.guards with
      | some true => .ok (some a)
      | some false => armFor env label rest
      | none => .error "unmodelled guard"
    else armFor env label rest

def fieldVal (f : Fields) (name : String) : Option FieldVal :=
  if name == "time" then some f.time
  else if name == "author" then some f.author
  else if name == "commit" then some f.commit
  else none

/-- The field string as pieces. -/
def fieldPieces (env : Env) (k : Kind) (v : FieldVal) : Except String (List Piece) :=
  match resolve env k with
  | .text => .ok [.plain v.plain]
  | .commitLink => .ok v.linked
  | _ => .error "unmodelled field expression"

def piecesChars (ps : List Piece) : Str := ps.flatMap Piece.chars

def spaces (n : Nat) : Str := List.replicate n ' '

def u16Max : Nat := 65535

/-- The precision of `format!("{s:.p$}")`: at most `p` chars (clamped to `u16::MAX`). -/
def cut (s : Str) : Option Nat → Str
  | some p => s.take (min p u16Max)
  | none => s

/-- `format::pad` for a string: width and precision clamped to `u16::MAX`, precision = at most that many chars, then
blanks up to `width` chars according to the alignment (centre: the odd blank goes to the right). -/
def pad (s : Str) (width : Nat) (al : Align) (prec : Option Nat) : Str :=
  let n := min width u16Max - (cut s prec).length
  match al with
  | .left => cut s prec ++ spaces n
  | .right => spaces n ++ cut s prec
  | .center => spaces (n / 2) ++ (cut s prec ++ spaces (n - n / 2))

def strWidth (cw : Char → Nat) (s : Str) : Nat := (s.map cw).sum

/-- `padded_width`: `width + (chars - display width)`. -/
def paddedWidth (cw : Char → Nat) (width : Nat) (field : Str) : Except String Nat :=
  if paddedWidthArith == "saturating" then .ok (width + field.length - strWidth cw field)
  else if paddedWidthArith == "checked" then
    if strWidth cw field ≤ width + field.length then .ok (width + field.length - strWidth cw field)
    else .error "panic: attempt to subtract with overflow"
  else .error "unmodelled padded_width arithmetic"

def alignOfString (s : String) : Align :=
  if s == "Center" then .center else if s == "Right" then .right else .left

/-- Labels whose padded string goes through a link function before it is appended (none in a source that pushes the
padded string as it is). -/
def linkAfterPadArms : List (String × Kind) := linkAfterPad.map fun a => (a.1, kindOfString a.2)

def lookupKind : List (String × Kind) → String → Option Kind
  | [], _ => none
  | (l, k) :: rest, x => if l == x then some k else lookupKind rest x

/-- What is appended for a placeholder, given its padded string. Linking *after* padding is only modelled for a field that
was escape-free when it was padded (`plainField`). -/
def postPad (env : Env) (relink : Str → List Piece) (post : List (String × Kind)) (label : String) (plainField : Bool)
    (padded : Str) : Except String Str :=
  match lookupKind post label with
  | none => .ok padded
  | some k =>
    match resolve env k with
    | .text => .ok padded
    | .commitLink => if plainField then .ok (piecesChars (relink padded)) else .error "unmodelled: a linked field linked again"
    | _ => .error "unmodelled link after pad"

def formatMetaGo (env : Env) (cw : Char → Nat) (f : Fields) : List Item → Str → Str → Except String Str
  | [], acc, suffix => .ok (acc ++ suffix)
  | it :: rest, acc, _ =>
    match it.label with
    | none =>
      if noneArm then formatMetaGo env cw f rest (acc ++ it.pre) it.suf
      else .error "panic: unreachable"
    | some lab =>
      match armFor env lab arms with
      | .error e => .error e
      | .ok none => .error (if wildcardArm == "unreachable" then "panic: unreachable" else "unmodelled wildcard arm")
      | .ok (some a) =>
        match fieldVal f a.field with
        | none => .error "unmodelled blame field"
        | some v =>
          match fieldPieces env a.kind v with
          | .error e => .error e
          | .ok ps =>
            match paddedWidth cw (it.width.getD defaultWidth) (piecesChars ps) with
            | .error e => .error e
            | .ok w =>
              match postPad env f.relink linkAfterPadArms lab (!mayCarryEscapes env a.kind)
                  (pad (piecesChars ps) w (it.align.getD (alignOfString defaultAlign)) it.prec) with
              | .error e => .error e
              | .ok shown => formatMetaGo env cw f rest (acc ++ (it.pre ++ shown)) it.suf

/-- `format_blame_metadata(format_data, blame, config)`. -/
def formatMeta (env : Env) (cw : Char → Nat) (items : List Item) (f : Fields) : Except String Str :=
  formatMetaGo env cw f items [] []

/-! ### the link function on a padded field (executable reference for the driver)

`format_commit_line_with_osc8_commit_hyperlink` with a `--hyperlinks-commit-link-format` template, written from its
documentation: the first 13 matches of `\b[0-9a-f]{7,40}\b` — whole runs of word characters made of 7-40 lower-case hex
digits — become OSC 8 links to the template with `{commit}` replaced, provided they contain a letter. (Non-ASCII
characters count as word characters here; a padded commit field consists of hex digits, `^` and blanks.) -/

def isWordChar (c : Char) : Bool := c.isAlphanum || c == '_' || decide (c.toNat ≥ 128)
def isLowerHex (c : Char) : Bool := c.isDigit || (decide (97 ≤ c.toNat) && decide (c.toNat ≤ 102))
def hasHexLetter (w : Str) : Bool := w.any fun c => decide (97 ≤ c.toNat) && decide (c.toNat ≤ 102)

def commitPh : Str := "{commit}".toList

/-- `template.replace("{commit}", hash)`; `skip` = characters of a placeholder still to be dropped. -/
def replaceCommit (hash : Str) : Nat → Str → Str
  | _, [] => []
  | skip + 1, _ :: rest => replaceCommit hash skip rest
  | 0, c :: rest =>
    if commitPh.isPrefixOf (c :: rest) then hash ++ replaceCommit hash (commitPh.length - 1) rest
    else c :: replaceCommit hash 0 rest

/-- Maximal runs of word / non-word characters. -/
def wordRuns : Str → List (Bool × Str)
  | [] => []
  | c :: rest =>
    match wordRuns rest with
    | (b, r) :: more => if b == isWordChar c then (b, c :: r) :: more else (isWordChar c, [c]) :: (b, r) :: more
    | [] => [(isWordChar c, [c])]

def relinkGo (tmpl : Str) : Nat → List (Bool × Str) → List Piece
  | _, [] => []
  | n, (isWord, w) :: rest =>
    if isWord && w.all isLowerHex && decide (7 ≤ w.length) && decide (w.length ≤ 40) then
      (if decide (n < 13) && hasHexLetter w then Piece.linked (replaceCommit w 0 tmpl) w else .plain w) ::
        relinkGo tmpl (n + 1) rest
    else .plain w :: relinkGo tmpl n rest

def commitRelink (tmpl : Option Str) (t : Str) : List Piece :=
  match tmpl with
  | none => [.plain t]
  | some u => relinkGo u 0 (wordRuns t)

/-! ### side conditions -/

/-- The arm that serves `label` yields escape-free text (no arm: the function does not return). -/
def labelPlain (env : Env) (label : String) : Bool :=
  match armFor env label arms with
  | .ok (some a) => !mayCarryEscapes env a.kind
  | _ => true

/-- This placeholder has no precision, or is served by an arm whose string cannot contain escape sequences. -/
def itemPrecOk (env : Env) (it : Item) : Bool :=
  match it.prec, it.label with
  | none, _ => true
  | some _, none => true
  | some _, some lab => labelPlain env lab

/-- **A precision is only applied to escape-free text**: every placeholder of the format that has a precision is served
by an arm whose string cannot contain escape sequences. -/
def precisionOnPlain (env : Env) (items : List Item) : Bool := items.all (itemPrecOk env)

/-- Every arm whose guard can hold under `env` yields escape-free text. -/
def armsPlain (env : Env) (as : List Arm) : Bool :=
  as.all fun a => (guardsHold env a.guards == some false) || !mayCarryEscapes env a.kind

def armsPlainWhen (env : Env) : Bool := armsPlain env arms

/-! ### the row -/

/-- What `handle_blame_line` has at hand when it writes the row. -/
structure RowIn where
  metaStyle : Sgr.Style := {}
  sepStyle : Sgr.Style := {}
  nrPrefix : Str := []
  number : Str := []
  nrSuffix : Str := []
  isRepeat : Bool := false
  /-- `measure_text_width(&formatted_blame_metadata)` (from the implementation) -/
  metaWidth : Nat := 0
  /-- the code, as painted by `paint_lines` (state `Blame`): `PaintLine.paintedLine` -/
  code : Str := []

def rowStyle (r : RowIn) (name : String) : Option Sgr.Style :=
  if name == "metadata_style" then some r.metaStyle
  else if name == "separator_style" then some r.sepStyle
  else none

def rowText (mdata : Str) (r : RowIn) (name : String) : Option Str :=
  if name == "&formatted_blame_metadata" then
    some (if r.isRepeat then (if repeatBlanked then spaces r.metaWidth else mdata) else mdata)
  else if name == "nr_prefix" then some r.nrPrefix
  else if name == "&line_number" then some r.number
  else if name == "nr_suffix" then some r.nrSuffix
  else none

def rowGo (mdata : Str) (r : RowIn) : List (String × String) → Except String Str
  | [] => .ok []
  | (st, tx) :: rest =>
    match rowStyle r st, rowText mdata r tx, rowGo mdata r rest with
    | some s, some t, .ok out => .ok (Sgr.paint s t ++ out)
    | _, _, .error e => .error e
    | _, _, _ => .error "unmodelled row piece"

/-- The output row of one blame line (without the newline). -/
def blameRow (mdata : Str) (r : RowIn) : Except String Str :=
  match rowGo mdata r rowPieces with
  | .ok front => .ok (front ++ r.code)
  | .error e => .error e

/-! ### the line-number gutter (`format_line_number`) -/

/-- A line-number field of the gutter: the number is padded (with the placeholder's precision, which is inert for a
number), and — under `--hyperlinks` — the OSC 8 link goes around the *padded* text. -/
def gutterField (digits : Str) (width : Nat) (al : Align) (url : Option Str) : Str :=
  match url with
  | some u => Line.link u (pad digits width al none)
  | none => pad digits width al none

def gutterKindsKnown (s : String) : Bool :=
  s == "spaces" || s == "pad(n)" || s == "link(pad(n))" || s == "link(pad(n)) | pad(n)" || s == "pad(n) | link(pad(n))"

/-- In every arm of `format_line_number` what is padded is the number itself, never a linked or painted string. -/
def gutterPadsNumbersOnly : Bool :=
  gutterPadClosure == "let pad=|n|format::pad(n,width,alignment,precision)" && gutterArms.all fun a => gutterKindsKnown a.2

/-! ### the source is as modelled -/

def modelledFnStmts : List String :=
  ["let mut v0=String::new()", "let mut v1=\"\"", "for v2 in format_data{…}", "v0.push_str(v1)", "v0"]

def modelledLoopStmts : List String :=
  ["v0.push_str(v2.prefix.as_str())",
   "let v3=v2.alignment_spec.unwrap_or(format::Align::Left)",
   "let v4=v2.width.unwrap_or(15)",
   "let v5=match v2.placeholder{…}",
   "if let Some(v5)=v5{let v6=(v4+v5.as_ref().chars().count()).saturating_sub(UnicodeWidthStr::width(v5.as_ref()));v0.push_str(&format::pad(&v5,v6,v3,v2.precision))}",
   "v1=v2.suffix.as_str()"]

/-- The loop after the repair `notes/fix-blame-commit-link-precision.diff`: the commit arm copies the hash, the padded
string is bound and — for `{commit}` — linked by `format_raw_line` before it is appended. -/
def modelledLoopStmtsLinkAfterPad : List String :=
  ["v0.push_str(v2.prefix.as_str())",
   "let v3=v2.alignment_spec.unwrap_or(format::Align::Left)",
   "let v4=v2.width.unwrap_or(15)",
   "let v5=match v2.placeholder{…}",
   "if let Some(v5)=v5{let v6=(v4+v5.as_ref().chars().count()).saturating_sub(UnicodeWidthStr::width(v5.as_ref()));let v7=format::pad(&v5,v6,v3,v2.precision);if v2.placeholder==Some(Placeholder::Str(\"commit\")){v0.push_str(&delta::format_raw_line(&v7,config))}else{v0.push_str(&v7)}}",
   "v1=v2.suffix.as_str()"]

def modelledPadSpecs : List (String × String × String) :=
  [("None", "Left", "{space}{s:<width$}"), ("None", "Center", "{space}{s:^width$}"), ("None", "Right", "{space}{s:>width$}"),
   ("Some", "Left", "{space}{s:<width$.precision$}"), ("Some", "Center", "{space}{s:^width$.precision$}"),
   ("Some", "Right", "{space}{s:>width$.precision$}")]

def modelledRowPieces : List (String × String) :=
  [("metadata_style", "&formatted_blame_metadata"), ("separator_style", "nr_prefix"),
   ("metadata_style", "&line_number"), ("separator_style", "nr_suffix")]

def shapeAsModelled : Bool :=
  fieldScrutinee == "placeholder.placeholder" && noneArm && wildcardArm == "unreachable" &&
  fnStmts == modelledFnStmts &&
  ((loopStmts == modelledLoopStmts && padUse == "push") ||
   (loopStmts == modelledLoopStmtsLinkAfterPad && padUse == "bind-then-link")) &&
  padArgs == ["&v5", "v6", "v3", "v2.precision"] &&
  paddedWidthArith == "saturating" && defaultWidth == 15 && defaultAlign == "Left" &&
  padSpecs == modelledPadSpecs && padClampsWidth && padClampsPrecision && padPopsCenterRightSpace &&
  strCenterRightSpace == "\"\"" &&
  rowFormat == "\"{}{}{}{}\"" && rowPieces == modelledRowPieces && repeatBlanked && keyTakenBeforeBlanking &&
  numberPadArgs == ["line_number", "format.width.unwrap()", "format.alignment_spec.unwrap()", "None"] &&
  gutterPadsNumbersOnly

end BlameMeta
