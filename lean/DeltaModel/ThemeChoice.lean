import DeltaModel.Options
import DeltaModel.Generated.ThemeChoice
/-!
# ThemeChoice — `--light` / `--dark` / `--syntax-theme` / `BAT_THEME` / detection (property C13, task T11 (ii))

Rust modelled: src/options/set.rs `set_options` (the `BAT_THEME` fill, `set__light__dark__syntax_theme__options`: its
statements are generated and interpreted by `step`), src/options/theme.rs `get_color_mode` (`modeOf`, chain generated),
`get_color_mode_and_syntax_theme_name` (`decision`, arms generated), `is_light_syntax_theme` (`isLightTheme`, list and word
generated). What the terminal says (`should_detect_color_mode`, `detect_color_mode`) is a parameter. The git config values
the two `set_options!` calls read are `Options.GitCfg.getT` along main section, then the gathered features from the last to
the first — those calls are given an EMPTY builtin feature map (`gitLookup`).

Not modelled: `str::to_lowercase` beyond ASCII (no non-ASCII letter lower-cases to a letter of `light`), whether bat knows
the theme name (`assets.get_theme` falls back to its default for an unknown name).
-/
namespace ThemeChoice
open Options Generated.ThemeChoice

inductive Mode | light | dark
  deriving DecidableEq, Repr

/-- `opt.light`, `opt.dark`, `opt.syntax_theme`. -/
structure St where
  light : Bool
  dark : Bool
  theme : Option String
  deriving DecidableEq, Repr

/-- What `get_option_value` (empty builtin map) finds in the git config for the three options. -/
structure GitVals where
  light : Option Bool
  dark : Option Bool
  theme : Option String
  deriving DecidableEq, Repr

structure In where
  cliLight : Bool            -- `--light` on the command line
  cliDark : Bool             -- `--dark`
  cliTheme : Option String   -- `--syntax-theme <t>`
  git : GitVals
  bat : Option String        -- `BAT_THEME`
  shouldDetect : Bool        -- `should_detect_color_mode(opt)`
  detected : Option Mode     -- `detect_color_mode()`
  deriving DecidableEq, Repr

/-- `get_option_value::<T>(name, &empty_builtin_features, opt, git_config)`: main section, then the sections of the
    gathered features from the last to the first. -/
def gitLookup (ty : GType) (git : Option GitCfg) (feats : List Name) (k : Name) : Option String :=
  match git with
  | none => none
  | some g => firstSome (g.getT ty none k :: feats.reverse.map fun f => g.getT ty (some f) k)

def gitVals (π : List Name) (inp : Inputs) : GitVals :=
  let feats := gatherFeatures π inp
  let git := finalConfig inp
  { light := (gitLookup .bool git feats "light").bind parseBool,
    dark := (gitLookup .bool git feats "dark").bind parseBool,
    theme := gitLookup .optString git feats "syntax-theme" }

/-- The inputs of the resolution taken from a C13 configuration. -/
def inOf (π : List Name) (inp : Inputs) (bat : Option String) (shouldDetect : Bool) (detected : Option Mode) : In :=
  { cliLight := cliHas inp "light", cliDark := cliHas inp "dark", cliTheme := lookup "syntax-theme" inp.cli,
    git := gitVals π inp, bat := bat, shouldDetect := shouldDetect, detected := detected }

/-- One field of a `set_options!` call: kept when supplied on the command line, else the git config value if any. -/
def macroField (i : In) (s : St) (f : String) : St :=
  if f = "dark" then
    (if i.cliDark then s else match i.git.dark with | some b => { s with dark := b } | none => s)
  else if f = "light" then
    (if i.cliLight then s else match i.git.light with | some b => { s with light := b } | none => s)
  else if f = "syntax-theme" then
    (if i.cliTheme.isSome then s else match i.git.theme with | some t => { s with theme := some t } | none => s)
  else s

/-- One statement of `set__light__dark__syntax_theme__options`; `none` = `fatal("--light and --dark cannot be used
    together.")`. -/
def step (i : In) (s : St) (st : String × List String) : Option St :=
  if st.1 = "validate" then (if s.light && s.dark then none else some s)
  else if st.1 = "unless-light-or-dark" then
    some (if !(s.light || s.dark) then st.2.foldl (macroField i) s else s)
  else if st.1 = "macro" then some (st.2.foldl (macroField i) s)
  else some s

def steps (i : In) : List (String × List String) → St → Option St
  | [], s => some s
  | st :: r, s => match step i s st with
    | none => none
    | some s' => steps i r s'

/-- `opt` when `set__light__dark__syntax_theme__options` starts: the command line, `BAT_THEME` where it gave no theme. -/
def initial (i : In) : St := { light := i.cliLight, dark := i.cliDark, theme := i.cliTheme.or i.bat }

/-- `get_color_mode`. -/
def modeOf (i : In) (s : St) : List String → Option Mode
  | [] => none
  | c :: r =>
    if c = "light" then (if s.light then some .light else modeOf i s r)
    else if c = "dark" then (if s.dark then some .dark else modeOf i s r)
    else if c = "detect" then (if i.shouldDetect then i.detected else modeOf i s r)
    else modeOf i s r

def asciiLower (s : String) : List Char := s.toList.map Char.toLower

def containsSub (t w : List Char) : Bool :=
  match t with
  | [] => w.isEmpty
  | _ :: r => w.isPrefixOf t || containsSub r w

/-- `is_light_syntax_theme`. -/
def isLightTheme (t : String) : Bool := lightThemes.contains t || containsSub (asciiLower t) lightWord.toList

def modeTag : Option Mode → String
  | none => "none" | some .light => "light" | some .dark => "dark"

/-- `get_color_mode_and_syntax_theme_name`; `none` = no arm applies (the Rust `match` is exhaustive: never). -/
def decision (theme : Option String) (mode : Option Mode) : Option (Mode × String) :=
  match decisionArms.find? (fun a => a.1 = (if theme.isSome then "some" else "none") && a.2.1.contains (modeTag mode)) with
  | none => none
  | some a =>
    let m : Mode :=
      if a.2.2.1 = "from-theme" then (if isLightTheme (theme.getD "") then .light else .dark)
      else if a.2.2.1 = "mode" then mode.getD .dark
      else if a.2.2.1 = "Light" then .light else .dark
    let t : String :=
      if a.2.2.2 = "theme" then theme.getD ""
      else if a.2.2.2 = "default-light" then defaultLight else defaultDark
    some (m, t)

inductive Outcome
  | fatal                                   -- "--light and --dark cannot be used together."
  | stuck                                   -- no arm of the decision applies (never: `decision_total`)
  | chosen (s : St) (m : Mode) (t : String) -- `opt.light/dark/syntax_theme`, `computed.color_mode`, the theme name
  deriving DecidableEq, Repr

def run (i : In) : Outcome :=
  match steps i subMacroSteps (initial i) with
  | none => .fatal
  | some s =>
    match decision s.theme (modeOf i s modeChain) with
    | none => .stuck
    | some (m, t) => .chosen s m t

end ThemeChoice
