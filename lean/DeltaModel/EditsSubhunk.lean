import DeltaModel.Edits
import DeltaModel.Generated.HunkFlush
/-!
Subhunk formation: model of the buffering done by `StateMachine::handle_hunk_line`
(src/handlers/hunk.rs) and `Painter::paint_buffered_minus_and_plus_lines` (src/paint.rs).

Input: the kinds of the lines of one hunk, in order (`-`, `+`, context, anything else). Output:
the (minus block, plus block) pairs handed to `infer_edits`, each line identified by its position
in the input. Which arm flushes, and under which condition, is **generated** from the source
(`Generated.HunkFlush`), as is the presence of the buffer-overflow flush.
-/
namespace Subhunk
open Generated.HunkFlush

inductive Kind | minus | plus | zero | other
deriving DecidableEq, Repr

structure SState where
  /-- `painter.minus_lines` / `painter.plus_lines`, as input positions -/
  minus : List Nat
  plus : List Nat
  /-- `self.state` is `HunkPlus` / `HunkMinus` (the kind of the previous hunk line) -/
  prevPlus : Bool
  prevMinus : Bool
  /-- blocks already handed to `paint_minus_and_plus_lines` (→ `infer_edits`) -/
  out : List (List Nat × List Nat)

def init : SState := ⟨[], [], false, false, []⟩

/-- `paint_buffered_minus_and_plus_lines`: nothing when both buffers are empty. -/
def flush (s : SState) : SState :=
  if s.minus = [] ∧ s.plus = [] then s
  else { s with out := s.out ++ [(s.minus, s.plus)], minus := [], plus := [] }

def evalAtom (s : SState) : FlushAtom → Bool
  | .prevIsPlus => s.prevPlus
  | .prevIsMinus => s.prevMinus
  | .minusNonEmpty => !s.minus.isEmpty
  | .plusNonEmpty => !s.plus.isEmpty
  | .minusEmpty => s.minus.isEmpty
  | .plusEmpty => s.plus.isEmpty
  | .unknown => false

def applyRule (rule : Option (List FlushAtom)) (s : SState) : SState :=
  match rule with
  | none => s
  | some atoms => if atoms.all (evalAtom s) then flush s else s

/-- One hunk line at input position `idx`: the overflow test, then the match arm. -/
def step (bufSize : Nat) (s : SState) (idx : Nat) (k : Kind) : SState :=
  let s := if overflowFlush && (decide (s.minus.length > bufSize) || decide (s.plus.length > bufSize))
           then flush s else s
  match k with
  | .minus =>
    let s := applyRule flushBeforeMinus s
    { s with minus := s.minus ++ [idx], prevPlus := false, prevMinus := true }
  | .plus =>
    let s := applyRule flushBeforePlus s
    { s with plus := s.plus ++ [idx], prevPlus := true, prevMinus := false }
  | .zero =>
    let s := applyRule flushBeforeZero s
    { s with prevPlus := false, prevMinus := false }
  | .other =>
    let s := applyRule flushBeforeOther s
    { s with prevPlus := false, prevMinus := false }

def run (bufSize : Nat) : List Kind → Nat → SState → SState
  | [], _, s => s
  | k :: ks, idx, s => run bufSize ks (idx + 1) (step bufSize s idx k)

/-- The blocks of a hunk; the last flush is the one every handler that leaves the hunk (and the end
of input) performs. -/
def subhunks (bufSize : Nat) (kinds : List Kind) : List (List Nat × List Nat) :=
  (flush (run bufSize kinds 0 init)).out

/-- The emphasis pairs of one block, as input positions: `infer_edits` on the block's lines. -/
def blockPairs (cfg : Edits.Cfg) (lineAt : Nat → Edits.Line) (tagM tagP : Edits.Tag)
    (b : List Nat × List Nat) : Except String (List (Nat × Nat)) :=
  match Edits.inferEdits cfg (b.1.map lineAt) (b.2.map lineAt) (b.1.map fun _ => tagM) (b.2.map fun _ => tagP) with
  | .error e => .error e
  | .ok r =>
    .ok (r.alignment.filterMap fun e =>
      match e with
      | (some i, some j) =>
        match b.1[i]?, b.2[j]? with
        | some m, some p => some (m, p)
        | _, _ => none
      | _ => none)

end Subhunk
