import DeltaModel.Ansi
import DeltaModel.Generated.Ingest
/-!
Model of `StateMachine::ingest_line` / `ingest_line_utf8` (`/repo/src/delta.rs`): how an input
line becomes `raw_line` (what pass-through rows print) and `line` (what the handlers parse).

Domain: valid UTF-8 (a Rust `String`), as bytes like everywhere in `Ansi`. For input that is not
valid UTF-8 the model starts from the lossy string (`ingestInvalid`); which of the two known forms
the `Err(_)` arm of `ingest_line` has is read from the source (`Generated.invalidUtf8LikeAnyLine`).

The test that decides whether the last `\r` is removed and the guard of the truncation are read
from the source on every run (`Generated.crRemovedWhen`, `Generated.truncGuard`); the rest of the
function's shape (rfind, the two slices, `truncate_str` with `max_line_length` and the truncation
symbol, `line = strip_ansi_codes(raw_line)`) is checked by the translator.
-/
namespace Ingest
open Ansi

/-- `s.rfind('\r')`: byte index of the last CR. -/
def lastCr : Bytes → Option Nat
  | [] => none
  | b :: bs =>
    match lastCr bs with
    | some i => some (i + 1)
    | none => if b = 0x0d then some 0 else none

/-- The CR step: the last `\r` is dropped iff the generated test says so for its tail. -/
def removeCr (U : Uni) (raw : Bytes) : Except String Bytes :=
  match lastCr raw with
  | none => .ok raw
  | some i =>
    let tail := raw.drop (i + 1)
    match measure U tail with
    | .error m => .error m
    | .ok w =>
      if Generated.crRemovedWhen w tail.isEmpty (tail.head? == some 0x1b) then .ok (raw.take i ++ tail)
      else .ok raw

/-- Is the (CR-processed) line truncated? -/
def truncates (maxLen : Nat) (r : Bytes) : Bool :=
  Generated.truncGuard maxLen r.length (fun p => p.isPrefixOf r)

/-- `ingest_line_utf8`: `(raw_line, line)`. `truncSym` = `config.truncation_symbol`;
`truncate_str` = `truncate_str_impl(.., Some(' '))`. -/
def ingest (U : Uni) (maxLen : Nat) (truncSym : Bytes) (raw : Bytes) : Except String (Bytes × Bytes) :=
  match removeCr U raw with
  | .error m => .error m
  | .ok r1 =>
    match (if truncates maxLen r1 then truncate U r1 maxLen truncSym (some [0x20]) else .ok r1) with
    | .error m => .error m
    | .ok r2 =>
      match strip r2 with
      | .error m => .error m
      | .ok l => .ok (r2, l)

/-- `ingest_line` on input that is **not** valid UTF-8. The model's input is the *lossy string*
(`String::from_utf8_lossy(bytes)`: U+FFFD for every maximal invalid sequence — the conversion itself
is `std`, outside the model; the harness computes it independently and the correspondence compares).
In the source as it is now the lossy string is ingested like any other line; the older form
(`Generated.invalidUtf8LikeAnyLine = false`) cut it at `max_line_length` bytes (floored to a char
boundary; 0 = nothing left) and used it unstripped for both `raw_line` and `line`. -/
def ingestInvalid (U : Uni) (maxLen : Nat) (truncSym : Bytes) (lossy : Bytes) : Except String (Bytes × Bytes) :=
  if Generated.invalidUtf8LikeAnyLine then ingest U maxLen truncSym lossy
  else
    let n := if maxLen ≥ lossy.length then lossy.length else floorBoundary lossy maxLen
    .ok (lossy.take n, lossy.take n)

end Ingest
