import DeltaModel.Sgr
/-!
Model of delta's style-string language:

* `src/parse_style.rs`  — `parse_ansi_term_style` (the word loop with the first / second colour
  slot, `auto`, `syntax`, `omit`, `raw`), `Style::from_str`, `DecorationStyle::from_str`,
  `from_str_with_handling_of_special_decoration_attributes`, the decoration-attribute extraction;
* `src/color.rs`        — `parse_color`, `color_to_string`;
* `src/utils/bat/terminal.rs` — `to_ansi_color`;
* `src/style.rs`        — `impl Display for Style`.

Generated (tools/extractors/style.py): the word → effect arms, ANSI_16_COLORS, the CSS names of
`palette`, the basic-colour variants, the Display word order.

External behaviour that is a parameter here: `ansi_colours::ansi256_from_rgb` (`Env.q`),
`str::to_lowercase` / `split_whitespace` (modelled for ASCII only: the harness feeds ASCII style
strings), the hash-map order behind `ansi_16_color_number_to_name` (`pick`).
A `fatal(…)` (process exit 2) is `Except.error`.
-/
namespace DeltaStyle
open Generated.StyleTables
open Sgr (Attr Color)

/-! ### Tokenisation: `s.to_lowercase().split_whitespace().map(trim_matches quotes)` -/

def isWs (c : Char) : Bool := c = ' ' ∨ ('\t' ≤ c ∧ c ≤ '\r')
def isQuote (c : Char) : Bool := c = '"' ∨ c = '\''

def lower (s : List Char) : List Char := s.map Char.toLower

/-- `split_whitespace`: maximal runs of non-whitespace. `cur` is the run being read. -/
def splitWsAux (cur : List Char) : List Char → List (List Char)
  | [] => if cur = [] then [] else [cur]
  | c :: cs =>
    if isWs c then (if cur = [] then splitWsAux [] cs else cur :: splitWsAux [] cs)
    else splitWsAux (cur ++ [c]) cs

def splitWs (s : List Char) : List (List Char) := splitWsAux [] s

def trimQuotes (w : List Char) : List Char :=
  ((w.dropWhile isQuote).reverse.dropWhile isQuote).reverse

/-- The words the parser loops over. -/
def wordsOfLower (s : List Char) : List String :=
  (splitWs s).map fun w => String.ofList (trimQuotes w)

def words (s : List Char) : List String := wordsOfLower (lower s)

/-! ### Colours -/

inductive Fatal where
  | invalidColor (w : String)     -- "Invalid color or style attribute: {w}"
  | syntaxAsBackground            -- "You have used the special color 'syntax' as a background color …"
  | tooManyColors                 -- "Invalid style string: {s}. …" (a third colour)
  | rawInDecoration               -- "'raw' may not be used in a decoration style."
  | syntaxInDecoration            -- "'syntax' may not be used in a decoration style."
  | unreachable                   -- `delta_unreachable`
  deriving DecidableEq, Repr

structure Env where
  trueColor : Bool
  /-- `ansi_colours::ansi256_from_rgb` — an oracle obtained from the implementation. -/
  q : Nat → Nat → Nat → Nat

/-- `syntect::highlighting::Color` -/
structure SColor where
  r : Nat
  g : Nat
  b : Nat
  a : Nat
  deriving DecidableEq, Repr

def hexVal (c : Char) : Option Nat :=
  if '0' ≤ c ∧ c ≤ '9' then some (c.toNat - 48)
  else if 'a' ≤ c ∧ c ≤ 'f' then some (c.toNat - 87)
  else if 'A' ≤ c ∧ c ≤ 'F' then some (c.toNat - 55)
  else none

/-- `syntect` `Color::from_str`: `#` then 3, 6 or 8 hex digits. (Three digits are *not*
doubled: `#abc` is r=10 g=11 b=12.) -/
def parseHexColor (w : List Char) : Option SColor :=
  match w with
  | '#' :: ds =>
    match ds.mapM hexVal with
    | some [r, g, b] => some ⟨r, g, b, 255⟩
    | some [r1, r0, g1, g0, b1, b0] => some ⟨16 * r1 + r0, 16 * g1 + g0, 16 * b1 + b0, 255⟩
    | some [r1, r0, g1, g0, b1, b0, a1, a0] =>
      some ⟨16 * r1 + r0, 16 * g1 + g0, 16 * b1 + b0, 16 * a1 + a0⟩
    | _ => none
  | _ => none

def decVal (c : Char) : Option Nat :=
  if '0' ≤ c ∧ c ≤ '9' then some (c.toNat - 48) else none

/-- One digit of a checked `u8` accumulation (overflow at any step is an error). -/
def u8step (acc : Option Nat) (d : Nat) : Option Nat :=
  acc.bind fun a => if 10 * a + d ≤ 255 then some (10 * a + d) else none

def stripPlus : List Char → List Char
  | '+' :: rest => rest
  | w => w

/-- `str::parse::<u8>()`: optional `+`, at least one ASCII digit, value ≤ 255. -/
def parseU8 (w : List Char) : Option Nat :=
  if stripPlus w = [] then none
  else match (stripPlus w).mapM decVal with
    | some vs => vs.foldl u8step (some 0)
    | none => none

/-- `syntect_color_from_ansi_number`: `#nn000000`. -/
def sOfAnsiNumber (n : Nat) : SColor := ⟨n, 0, 0, 0⟩

def cssLookup (w : String) : Option SColor :=
  match cssColors.find? (fun e => e.1 = w) with
  | some (_, r, g, b) => some ⟨r, g, b, 255⟩
  | none => none

/-- `to_ansi_color`. -/
def toAnsiColor (env : Env) (c : SColor) : Option Color :=
  if c.a = 0 then
    (if c.r < toAnsiBasic.length then some (.basic c.r) else some (.fixed c.r))
  else if c.a = 1 then none
  else if env.trueColor then some (.rgb c.r c.g c.b)
  else some (.fixed (env.q c.r c.g c.b))

/-- The syntect colour a colour word resolves to (`parse_color` without git config). -/
def resolveColorWord (w : String) : Option SColor :=
  if w.toList.head? = some '#' then parseHexColor w.toList
  else
    match parseU8 w.toList with
    | some n => some (sOfAnsiNumber n)
    | none =>
      match ansi16Colors.lookup w with
      | some n => some (sOfAnsiNumber n)
      | none => cssLookup w

/-- `color::parse_color(word, true_color, None)`. -/
def parseColor (env : Env) (w : String) : Except Fatal (Option Color) :=
  if w = "normal" then .ok none
  else match resolveColorWord w with
    | some c => .ok (toAnsiColor env c)
    | none => .error (.invalidColor w)

/-! ### Styles -/

inductive DecoKind where
  | box | ul | ol | ulol | boxul | boxol | boxulol
  deriving DecidableEq, Repr

/-- delta's `Style` (`decoration_style = NoDecoration` is `deco = none`). -/
structure DStyle where
  ansi : Sgr.Style := {}
  isEmph : Bool := false
  isOmitted : Bool := false
  isRaw : Bool := false
  isSyntax : Bool := false
  deco : Option (DecoKind × Sgr.Style) := none
  deriving DecidableEq, Repr

inductive Effect where
  | attr (a : Attr)
  | omitW
  | rawW
  | ignore
  deriving DecidableEq, Repr

def decodeEffect (e : String) : Option Effect :=
  if e = "omit" then some .omitW
  else if e = "raw" then some .rawW
  else if e = "ignore" then some .ignore
  else (Attr.ofField e).map .attr

/-- The if-chain at the head of the word loop: first matching arm. -/
def effectOf (w : String) : Option Effect :=
  (parseWordEffect.lookup w).bind decodeEffect

/-- The mutable locals of `parse_ansi_term_style`. -/
structure PState where
  style : Sgr.Style := {}
  seenFg : Bool := false
  seenBg : Bool := false
  fgAuto : Bool := false
  bgAuto : Bool := false
  omitted : Bool := false
  raw : Bool := false
  seenOmit : Bool := false
  seenRaw : Bool := false
  synt : Bool := false
  deriving DecidableEq, Repr

/-- Result of `parse_ansi_term_style`: (style, is_omitted, is_raw, is_syntax_highlighted). -/
structure Parsed where
  ansi : Sgr.Style := {}
  omitted : Bool := false
  raw : Bool := false
  synt : Bool := false
  deriving DecidableEq, Repr

def defFg (d : Option DStyle) : Option Color := d.bind fun s => s.ansi.fg
def defBg (d : Option DStyle) : Option Color := d.bind fun s => s.ansi.bg
def defSyntax (d : Option DStyle) : Bool := match d with | some s => s.isSyntax | none => false
def defOmitted (d : Option DStyle) : Bool := match d with | some s => s.isOmitted | none => false
def defRaw (d : Option DStyle) : Bool := match d with | some s => s.isRaw | none => false

/-- The arms of the if-chain that recognise a word as an attribute. -/
def applyEffect (st : PState) : Effect → PState
  | .attr a => { st with style := st.style.set a true }
  | .omitW => { st with seenOmit := true, omitted := true }
  | .rawW => { st with seenRaw := true, raw := true }
  | .ignore => st

/-- The `else if !seen_foreground … else if !seen_background … else fatal` tail of the chain:
the word is taken as a colour. -/
def stepColour (env : Env) (d : Option DStyle) (st : PState) (w : String) : Except Fatal PState :=
  if !st.seenFg then
    if w = "syntax" then .ok { st with synt := true, seenFg := true }
    else if w = "auto" then
      .ok { st with fgAuto := true, style := { st.style with fg := defFg d },
                    synt := defSyntax d, seenFg := true }
    else match parseColor env w with
      | .ok c => .ok { st with style := { st.style with fg := c }, seenFg := true }
      | .error e => .error e
  else if !st.seenBg then
    if w = "syntax" then .error .syntaxAsBackground
    else if w = "auto" then
      .ok { st with bgAuto := true, style := { st.style with bg := defBg d }, seenBg := true }
    else match parseColor env w with
      | .ok c => .ok { st with style := { st.style with bg := c }, seenBg := true }
      | .error e => .error e
  else .error .tooManyColors

/-- One iteration of the word loop. -/
def stepWord (env : Env) (d : Option DStyle) (st : PState) (w : String) : Except Fatal PState :=
  match effectOf w with
  | some e => .ok (applyEffect st e)
  | none => stepColour env d st w

def loop (env : Env) (d : Option DStyle) (st : PState) : List String → Except Fatal PState
  | [] => .ok st
  | w :: ws =>
    match stepWord env d st w with
    | .ok st' => loop env d st' ws
    | .error e => .error e

/-- The code after the loop. -/
def finish (d : Option DStyle) (st : PState) : Parsed :=
  let both := st.fgAuto && st.bgAuto
  { ansi := st.style,
    omitted := if both && !st.seenOmit then defOmitted d else st.omitted,
    raw := if both && !st.seenRaw then defRaw d else st.raw,
    synt := st.synt }

/-- `parse_ansi_term_style` on the word list. -/
def parseWords (env : Env) (d : Option DStyle) (ws : List String) : Except Fatal Parsed :=
  match loop env d {} ws with
  | .ok st => .ok (finish d st)
  | .error e => .error e

/-- `parse_ansi_term_style(s, default, true_color, None)`. -/
def parseAnsi (env : Env) (d : Option DStyle) (s : List Char) : Except Fatal Parsed :=
  parseWords env d (words s)

/-! ### Decoration attributes -/

structure DecoAttrs where
  box : Bool := false
  ol : Bool := false
  ul : Bool := false
  deriving DecidableEq, Repr

def DecoAttrs.add (a : DecoAttrs) : String → DecoAttrs
  | "BOX" => { a with box := true }
  | "OVERLINE" => { a with ol := true }
  | "UNDERLINE" => { a with ul := true }
  | _ => a

/-- `_extract_special_decoration_attributes` on the token list. -/
def extractDecoWords (isDecoString : Bool) : List String → DecoAttrs × List String
  | [] => ({}, [])
  | w :: ws =>
    let (a, rest) := extractDecoWords isDecoString ws
    match decoWords.find? (fun e => e.1 = w ∧ (e.2.2 = "always" ∨ isDecoString)) with
    | some (_, attr, _) => (a.add attr, rest)
    | none => (a, w :: rest)

def joinWords : List String → List Char
  | [] => []
  | [w] => w.toList
  | w :: v :: rest => w.toList ++ ' ' :: joinWords (v :: rest)

/-- `_extract_special_decoration_attributes`: attributes and the re-joined style string. -/
def extractDeco (isDecoString : Bool) (s : List Char) : DecoAttrs × List Char :=
  let (a, ws) := extractDecoWords isDecoString (words s)
  (a, joinWords ws)

def DecoAttrs.kind (a : DecoAttrs) : Option DecoKind :=
  match a.box, a.ul, a.ol with
  | false, false, false => none
  | true, false, false => some .box
  | false, true, false => some .ul
  | false, false, true => some .ol
  | false, true, true => some .ulol
  | true, true, false => some .boxul
  | true, false, true => some .boxol
  | true, true, true => some .boxulol

/-- `DecorationStyle::from_str`. -/
def parseDeco (env : Env) (s : List Char) : Except Fatal (Option (DecoKind × Sgr.Style)) :=
  let (a, s') := extractDeco true s
  match parseAnsi env none s' with
  | .error e => .error e
  | .ok p =>
    if p.raw then .error .rawInDecoration
    else if p.synt then .error .syntaxInDecoration
    else .ok (a.kind.map fun k => (k, p.ansi))

/-- `Style::from_str(style_string, default, decoration_style_string, true_color, None)`. -/
def fromStr (env : Env) (d : Option DStyle) (s : List Char) (decoS : Option (List Char)) :
    Except Fatal DStyle :=
  match parseAnsi env d s with
  | .error e => .error e
  | .ok p =>
    match parseDeco env (decoS.getD []) with
    | .error e => .error e
    | .ok deco =>
      .ok { ansi := p.ansi, isEmph := false, isOmitted := p.omitted, isRaw := p.raw,
            isSyntax := p.synt, deco := deco }

/-- `Style::from_str_with_handling_of_special_decoration_attributes`. -/
def fromStrSpecial (env : Env) (d : Option DStyle) (s : List Char) (decoS : Option (List Char)) :
    Except Fatal DStyle :=
  let (special, s') := extractDeco false s
  match fromStr env d s' decoS with
  | .error e => .error e
  | .ok st =>
    let base : Sgr.Style := match st.deco with
      | some (_, a) => a
      | none => {}
    match special.kind with
    | none => .ok st
    | some k => .ok { st with deco := some (k, base) }

/-! ### `impl Display for Style` -/

def hexDigit (n : Nat) : Char := if n < 10 then Char.ofNat (48 + n) else Char.ofNat (87 + n)
def hex2 (n : Nat) : List Char := [hexDigit (n / 16), hexDigit (n % 16)]

/-- Some name of palette number `n` in ANSI_16_COLORS (`ansi_16_color_number_to_name` iterates a
`HashMap`, so *which* alias is printed is not determined; the model takes the first in source
order and the harness canonicalises aliases). `none` = the `unwrap()` panics. -/
def ansi16Name (n : Nat) : Option String :=
  (ansi16Colors.find? fun e => e.2 = n).map fun e => e.1

/-- `color_to_string`. -/
def colorWord : Color → Option String
  | .basic n => (toAnsiBasic[n]?).bind fun v => colorToStringBasic.lookup v
  | .fixed n => if n < 16 then ansi16Name n else some (String.ofList (Sgr.digits n))
  | .rgb r g b => some (String.ofList ('"' :: '#' :: (hex2 r ++ hex2 g ++ hex2 b ++ ['"'])))

/-- Value of the field named `f` (`is_omitted` or an `ansi_term_style.is_*`). -/
def DStyle.field (st : DStyle) (f : String) : Bool :=
  if f = "is_omitted" then st.isOmitted
  else match Attr.ofField f with
    | some a => st.ansi.get a
    | none => false

/-- The attribute words `Display` pushes, in source order. -/
def attrWordsOf (st : DStyle) : List String :=
  displayWords.filterMap fun e => if st.field e.1 then some e.2 else none

/-- The foreground word: `syntax`, the colour, or `normal`. -/
def fgWordOf (st : DStyle) : Option String :=
  if st.isSyntax then some "syntax"
  else match st.ansi.fg with
    | some c => colorWord c
    | none => some "normal"

/-- The words `Display` joins with a space. `none` = panic in `color_to_string`. -/
def displayWordList (st : DStyle) : Option (List String) :=
  if st.isRaw then some ["raw"]
  else
    let attrs := attrWordsOf st
    match fgWordOf st, st.ansi.bg with
    | none, _ => none
    | some f, none => some (attrs ++ [f])
    | some f, some c =>
      match colorWord c with
      | some b => some (attrs ++ [f, b])
      | none => none

def display (st : DStyle) : Option (List Char) := (displayWordList st).map joinWords

end DeltaStyle
