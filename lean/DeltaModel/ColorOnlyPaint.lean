import DeltaModel.PaintLine
import DeltaModel.Machine
import DeltaModel.Term
import DeltaModel.Generated.PaintPrefix
/-!
## From the machine's row to the bytes of the output line (C02, session 4 / T16)

The machine model (`DeltaModel/Machine.lean`) says what the *row* of a hunk line carries:
`paintedPrefix cfg k dt ++ prepare cfg n l` (the re-inserted marker / the line's own prefix columns of a combined diff, then
the line without those columns). What is *written* for that row is built by `Painter::paint_lines`, modelled byte for byte
by `DeltaModel/PaintLine.lean` over the tables regenerated from `src/paint.rs`. This file composes the two:

* `visible` — what a terminal shows of a line of bytes: the characters of the displayed cells of the abstract terminal
  `DeltaModel/Term.lean` (escape sequences show nothing) — the yardstick "the bytes with the escape sequences stripped";
* `stOf` — the `State` of a hunk line as `paint_lines` / `painted_prefix` read it, from the machine's line kind and diff type;
* `prefixPerLine` — read from `Generated/PaintPrefix.lean`: `paint_lines` hands `painted_prefix(<the state of the line being
  painted>, config)` to `paint_line`, inside its loop, nothing is computed in front of the loop;
* `paintedBlock` — the loop of `paint_lines` over a block of lines (the minus lines or the plus lines of a subhunk, or one
  context line): every line painted from its **own** state. When the source obtains the prefix in any other way (e.g. once
  per block) the model answers `unmodelled`;
* `lineTrail` — what the fill step of `paint_lines` shows behind the text (blanks of the space fill, the blank marker of an
  empty line under `--line-numbers`), following the generated if-chain.
-/
namespace ColorOnlyPaint
open PaintLine Line

/-- What a terminal shows of `line`: the characters of its displayed cells. -/
def visible (line : List Char) : List Char := (Term.cells Term.init line).map (·.ch)

def signOf : Machine.LineKind → Sign
  | .minus => .minus
  | .zero => .zero
  | .plus => .plus

/-- The `State` of a hunk line (`HunkMinus(dt, raw)` …) as `paint_lines` reads it: the prefix columns are carried by the
state exactly when the diff type is `Combined(MergeParents::Prefix(p), InMergeConflict::No)`. -/
def stOf (k : Machine.LineKind) (dt : Machine.DiffType) (raw : Bool) : St :=
  .hunk (signOf k) raw (match dt with
    | .combined (.pre p) false => some p
    | _ => none)

/-- `paint_lines` obtains the prefix per line: from the state of the line it paints, inside the loop over `lines`. -/
def prefixPerLine : Bool :=
  Generated.PaintPrefix.prefixSource == "per-line" && Generated.PaintPrefix.preLoopStmts == [] &&
  Generated.PaintPrefix.paintLineStateArg == "STATE" && Generated.PaintPrefix.loopIterators.head? == some "lines.iter()"

/-- The loop of `paint_lines`: one painted line per element of `lines`, each from its own state. -/
def paintedBlock (cfg : Cfg) (lines : List Input) : Except String (List (List Char)) :=
  if prefixPerLine then lines.mapM (paintedLine cfg) else .error "unmodelled"

/-- The text of the superimposed sections. -/
def sectionsText (secs : List (Sgr.Style × List G)) : List Char := secs.flatMap fun s => gchars s.2

def pfxText : Option (Sgr.Style × List Char) → List Char
  | none => []
  | some (_, t) => t

/-- What `painted_prefix` re-inserts in front of the line (nothing on an error). -/
def shownPrefix (cfg : Cfg) (st : St) : List Char :=
  match paintedPrefix cfg st with
  | .ok p => pfxText p
  | .error _ => []

/-- What one action of the if-chain shows behind the text. -/
def actTrail (cfg : Cfg) (inp : Input) (tw : Nat) (a : String) : List Char :=
  if a = "spaces saturating_sub" ∨ a = "spaces checked_sub" then List.replicate (cfg.availWidth - tw) ' '
  else if a = "mark_empty" then
    (match inp.emptyStyle with
     | some _ => if cfg.lineNumbers then Generated.PaintLine.emptyMarkerWithLineNumbers.toList else []
     | none => [])
  else []

def chainTrail (cfg : Cfg) (inp : Input) (mode : Option FillMethod) (lineIsEmpty : Bool) (tw : Nat) :
    List (String × String) → List Char
  | [] => []
  | (c, a) :: rest =>
    match chainCond mode lineIsEmpty c with
    | some true => actTrail cfg inp tw a
    | some false => chainTrail cfg inp mode lineIsEmpty tw rest
    | none => []

/-- What the fill step of `paint_lines` shows behind the text of this line. -/
def lineTrail (cfg : Cfg) (inp : Input) : List Char :=
  match PaintLine.paintLine cfg inp, fillDecision cfg inp with
  | .ok (strings, e), .ok (mode, _) =>
    chainTrail cfg inp mode e (Line.width (lineItems strings)) Generated.PaintLine.fillChain
  | _, _ => []

/-- The fill decision does not ask for the space fill. -/
def noSpaceFill (cfg : Cfg) (inp : Input) : Bool :=
  match fillDecision cfg inp with
  | .ok (some .spaces, _) => false
  | _ => true

end ColorOnlyPaint
