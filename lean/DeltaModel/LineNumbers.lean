import DeltaModel.Generated.LineNum
/-!
Model of the line-number machinery of delta (property C05).

Rust modelled here (all by hand, consuming the tables of `Generated/LineNum.lean`):

* `features/line_numbers.rs`: `LineNumbersData::initialize_hunk`, `linenumbers_and_styles`,
  `format_and_paint_line_numbers`, `format_and_paint_line_number_field`, `format_line_number`
  (hyperlinks off);
* `paint.rs`: the number part of `Painter::paint_line` (the `increment` rule), `Painter::paint_lines`
  and `paint_minus_and_plus_lines` in unified mode (painting order of a subhunk);
* `handlers/hunk.rs` `handle_hunk_line`: the buffer/flush discipline that decides the order in
  which hunk lines reach the painter;
* `features/side_by_side.rs`: `paint_minus_and_plus_lines_side_by_side` (row loop with the
  left-counter correction), `paint_minus_or_plus_panel_line`, `paint_zero_lines_side_by_side`;
* `wrapping.rs`: the alignment / state bookkeeping of `wrap_minusplus_block` and `wrap_zero_block`
  (how many rows a line wraps into is a parameter: wrapping itself is C07);
* `format.rs`: `pad`, `CenterRightNumbers for usize`, `log10_plus_1`, `parse_line_number_format`
  with the placeholder regex as a hand-written leftmost-first matcher;
* `handlers/hunk_header.rs`: `parse_hunk_header` (both regexes hand-written), the number and the
  path shown in the hunk-header box.

Numbers are `Nat`; every `usize` addition that Rust checks (dev profile) is an explicit error
branch (`addUsize`), as are index/unwrap/unreachable panics. Strings are `List Char`; the
number of grapheme clusters of a format-string literal is modelled by its number of chars
(the harness only sends literals for which the two agree).
-/
namespace LineNumbers
open Generated.LineNum

/-- `usize::MAX` on the 64-bit target the checks build. -/
def usizeMax : Nat := 18446744073709551615

/-- `usize` addition: checked (`sat = false`; dev profile: overflow panics) or `saturating_add`
    (`sat = true`). Which one a call site uses is read from the source (generated flags). -/
def addUsizeSat (sat : Bool) (a b : Nat) : Except String Nat :=
  if a + b ≤ usizeMax then .ok (a + b)
  else if sat then .ok usizeMax else .error "attempt to add with overflow"

/-- Checked `usize` addition (dev profile: overflow panics). -/
def addUsize (a b : Nat) : Except String Nat := addUsizeSat false a b

/-! ### States, panels -/

/-- The `State`s that matter for numbering; `other` stands for every non-hunk state. -/
inductive St where
  | minus | minusWrapped | zero | zeroWrapped | plus | plusWrapped | other
  deriving DecidableEq, Repr, Inhabited

/-- Code used in the generated tables. -/
def St.code : St → Nat
  | .minus => 0 | .minusWrapped => 1 | .zero => 2 | .zeroWrapped => 3
  | .plus => 4 | .plusWrapped => 5 | .other => 6

def St.ofCode : Nat → St
  | 0 => .minus | 1 => .minusWrapped | 2 => .zero | 3 => .zeroWrapped
  | 4 => .plus | 5 => .plusWrapped | _ => .other

inductive Panel where
  | left | right
  deriving DecidableEq, Repr

/-- Code of `side_by_side_panel : Option<PanelSide>` in the generated tables. -/
def panelCode : Option Panel → Nat
  | none => 0 | some .left => 1 | some .right => 2

/-- `LineNumbersData.line_number`. -/
structure Counters where
  left : Nat
  right : Nat
  deriving DecidableEq, Repr

/-! ### `linenumbers_and_styles` -/

def lookupArm (code : Nat) : List (Nat × Nat × Nat × Bool × Bool) → Option (Nat × Nat × Bool × Bool)
  | [] => none
  | (c, il, ir, sl, sr) :: rest => if c = code then some (il, ir, sl, sr) else lookupArm code rest

/-- `x += inc` (or `x = x.saturating_add(inc)`, as the source says), `k` times. -/
def bumpN (x inc : Nat) : Nat → Except String Nat
  | 0 => .ok x
  | k + 1 =>
    match addUsizeSat counterAddSaturates x inc with
    | .error e => .error e
    | .ok y => bumpN y inc k

/-- The `MinusPlus<Option<usize>>` returned by `linenumbers_and_styles`. -/
structure Shown where
  minus : Option Nat
  plus : Option Nat
  deriving DecidableEq, Repr

/-- `linenumbers_and_styles(data, state, config, increment)`: new counters and the number pair,
    `none` for a state that is not a hunk state. -/
def linenumbersAndStyles (c : Counters) (st : St) (increment : Bool) :
    Except String (Option (Counters × Shown)) :=
  match lookupArm st.code numberArms with
  | none => .ok none
  | some (il, ir, sl, sr) =>
    match bumpN c.left (if increment then 1 else 0) il with
    | .error e => .error e
    | .ok l =>
      match bumpN c.right (if increment then 1 else 0) ir with
      | .error e => .error e
      | .ok r =>
        .ok (some (⟨l, r⟩, ⟨if sl then some c.left else none, if sr then some c.right else none⟩))

/-! ### `Painter::paint_line` (number part) and `format_and_paint_line_numbers` -/

/-- `increment = !matches!(side_by_side_panel, Some(Left))` (read from the generated rule). -/
def incrementFor (panel : Option Panel) : Bool :=
  let m := decide (panelCode panel = incrementRule.2)
  if incrementRule.1 then !m else m

def lookupEmit (sbs : Bool) (pc : Nat) : List (Bool × Nat × Option (Bool × Bool)) → Option (Option (Bool × Bool))
  | [] => none
  | (s, p, r) :: rest => if s = sbs ∧ (p = 99 ∨ p = pc) then some r else lookupEmit sbs pc rest

/-- Which of the two number fields `format_and_paint_line_numbers` emits. -/
def emitFor (sbs : Bool) (panel : Option Panel) : Except String (Bool × Bool) :=
  match lookupEmit sbs (panelCode panel) emitArms with
  | some (some r) => .ok r
  | _ => .error "internal error: entered unreachable code"

/-- What one call of `paint_line` puts into the gutter: which fields are emitted and the number
    pair they are fed with. -/
structure Cell where
  emitL : Bool
  emitR : Bool
  minus : Option Nat
  plus : Option Nat
  deriving DecidableEq, Repr

/-- Number visible in the `{nm}` placeholder of the left field. -/
def Cell.left (x : Cell) : Option Nat := if x.emitL then x.minus else none
/-- Number visible in the `{np}` placeholder of the right field. -/
def Cell.right (x : Cell) : Option Nat := if x.emitR then x.plus else none

/-- Number part of `Painter::paint_line` when line-number data is present: new counters and the
    gutter cell (`none`: the state yields no gutter). `sbs` = `config.side_by_side`. -/
def paintLine (sbs : Bool) (c : Counters) (st : St) (panel : Option Panel) :
    Except String (Counters × Option Cell) :=
  match linenumbersAndStyles c st (incrementFor panel) with
  | .error e => .error e
  | .ok none => .ok (c, none)
  | .ok (some (c', sh)) =>
    match emitFor sbs panel with
    | .error e => .error e
    | .ok (el, er) => .ok (c', some ⟨el, er, sh.minus, sh.plus⟩)

/-! ### Unified mode -/

/-- `Painter::paint_lines` on `n` buffered lines of one state (unified mode: panel `None`). -/
def paintLinesU (c : Counters) (st : St) : Nat → Except String (Counters × List (Option Cell))
  | 0 => .ok (c, [])
  | n + 1 =>
    match paintLine false c st none with
    | .error e => .error e
    | .ok (c1, r) =>
      match paintLinesU c1 st n with
      | .error e => .error e
      | .ok (c2, rs) => .ok (c2, r :: rs)

/-- `paint_minus_and_plus_lines`, unified branch: the sides are painted in the generated order;
    `m` buffered minus lines, `p` buffered plus lines. -/
def paintSidesU (m p : Nat) (c : Counters) : List Nat → Except String (Counters × List (Option Cell))
  | [] => .ok (c, [])
  | side :: rest =>
    match paintLinesU c (St.ofCode side) (if side = 0 then m else if side = 4 then p else 0) with
    | .error e => .error e
    | .ok (c1, r1) =>
      match paintSidesU m p c1 rest with
      | .error e => .error e
      | .ok (c2, r2) => .ok (c2, r1 ++ r2)

/-- `Painter::paint_buffered_minus_and_plus_lines` in unified mode. -/
def paintSubhunkU (c : Counters) (m p : Nat) : Except String (Counters × List (Option Cell)) :=
  if m = 0 ∧ p = 0 then .ok (c, []) else paintSidesU m p c unifiedOrder

/-- `Painter::paint_zero_line` in unified mode. -/
def paintZeroU (c : Counters) : Except String (Counters × List (Option Cell)) :=
  paintLinesU c .zero 1

/-- Kind of a hunk line of a two-way diff. -/
inductive Kind where
  | minus | plus | ctx
  deriving DecidableEq, Repr

/-- The part of `StateMachine`/`Painter` state that `handle_hunk_line` threads through a hunk:
    counters, number of buffered minus / plus lines, whether `self.state` is `HunkPlus`, rows
    painted so far. -/
structure UState where
  c : Counters
  minusBuf : Nat
  plusBuf : Nat
  prevPlus : Bool
  out : List (Option Cell)

def flushU (s : UState) : Except String UState :=
  match paintSubhunkU s.c s.minusBuf s.plusBuf with
  | .error e => .error e
  | .ok (c, rows) => .ok { s with c := c, minusBuf := 0, plusBuf := 0, out := s.out ++ rows }

/-- `len > line_buffer_size` (or `>=`, as the source says). -/
def overFull (bufSize n : Nat) : Bool :=
  if bufferFlushStrict then decide (n > bufSize) else decide (n ≥ bufSize)

/-- `handle_hunk_line` for one hunk line of kind `k`. -/
def stepLineU (bufSize : Nat) (s : UState) (k : Kind) : Except String UState :=
  match (if overFull bufSize s.minusBuf || overFull bufSize s.plusBuf then flushU s else .ok s) with
  | .error e => .error e
  | .ok s1 =>
    match k with
    | .minus =>
      match (if s1.prevPlus then flushU s1 else .ok s1) with
      | .error e => .error e
      | .ok s2 => .ok { s2 with minusBuf := s2.minusBuf + 1, prevPlus := false }
    | .plus => .ok { s1 with plusBuf := s1.plusBuf + 1, prevPlus := true }
    | .ctx =>
      match flushU s1 with
      | .error e => .error e
      | .ok s2 =>
        match paintZeroU s2.c with
        | .error e => .error e
        | .ok (c, rows) => .ok { s2 with c := c, out := s2.out ++ rows, prevPlus := false }

def stepLinesU (bufSize : Nat) (s : UState) : List Kind → Except String UState
  | [] => .ok s
  | k :: ks =>
    match stepLineU bufSize s k with
    | .error e => .error e
    | .ok s1 => stepLinesU bufSize s1 ks

/-- A whole hunk in unified mode: counters as `initialize_hunk` left them, the hunk lines, and
    the final flush (next hunk header / end of input). Result: final counters and the gutter
    cell of every output row. -/
def runUnified (bufSize : Nat) (c : Counters) (ks : List Kind) :
    Except String (Counters × List (Option Cell)) :=
  match stepLinesU bufSize ⟨c, 0, 0, false, []⟩ ks with
  | .error e => .error e
  | .ok s =>
    match flushU s with
    | .error e => .error e
    | .ok s' => .ok (s'.c, s'.out)

/-! ### Side-by-side mode -/

abbrev Alignment := List (Option Nat × Option Nat)

/-- States `wrap_minusplus_block` pushes for one line that occupies `rows` rows. -/
def segStates (sts : Nat × Nat) (rows : Nat) : List St :=
  match rows with
  | 0 => []
  | r + 1 => St.ofCode sts.1 :: List.replicate r (St.ofCode sts.2)

/-- `(s..s+n).map(|i| (Some(i), None))` -/
def leftOnly : Nat → Nat → Alignment
  | _, 0 => []
  | s, n + 1 => (some s, none) :: leftOnly (s + 1) n

/-- `(s..s+n).map(|i| (None, Some(i)))` -/
def rightOnly : Nat → Nat → Alignment
  | _, 0 => []
  | s, n + 1 => (none, some s) :: rightOnly (s + 1) n

/-- `(l..l+n).zip(r..r+n)` as `(Some, Some)` pairs. -/
def paired : Nat → Nat → Nat → Alignment
  | _, _, 0 => []
  | l, r, n + 1 => (some l, some r) :: paired (l + 1) (r + 1) n

/-- `wrap_minusplus_block`: new alignment and new per-row states, given the number of rows each
    minus (`wl`) and plus (`wr`) line wraps into. `mExp`, `pExp`: expected next line indices;
    `L`, `R`: rows produced so far on each side. -/
def wrapBlock (wl wr : List Nat) :
    Alignment → (mExp pExp L R : Nat) → Except String (Alignment × List St × List St)
  | [], _, _, _, _ => .ok ([], [], [])
  | (some m, none) :: rest, mExp, pExp, L, R =>
    if m ≠ mExp then .error "bad alignment index" else
    match wl[m]? with
    | none => .error "bad wrap info"
    | some x =>
      match wrapBlock wl wr rest (mExp + 1) pExp (L + x) R with
      | .error e => .error e
      | .ok (al, sl, sr) => .ok (leftOnly L x ++ al, segStates wrapStates.1 x ++ sl, sr)
  | (none, some p) :: rest, mExp, pExp, L, R =>
    if p ≠ pExp then .error "bad alignment index" else
    match wr[p]? with
    | none => .error "bad wrap info"
    | some y =>
      match wrapBlock wl wr rest mExp (pExp + 1) L (R + y) with
      | .error e => .error e
      | .ok (al, sl, sr) => .ok (rightOnly R y ++ al, sl, segStates wrapStates.2 y ++ sr)
  | (some m, some p) :: rest, mExp, pExp, L, R =>
    if m ≠ mExp then .error "bad alignment index" else
    match wl[m]? with
    | none => .error "bad wrap info"
    | some x =>
      if p ≠ pExp then .error "bad alignment index" else
      match wr[p]? with
      | none => .error "bad wrap info"
      | some y =>
        match wrapBlock wl wr rest (mExp + 1) (pExp + 1) (L + x) (R + y) with
        | .error e => .error e
        | .ok (al, sl, sr) =>
          .ok (paired L R (min x y) ++ leftOnly (L + y) (x - y) ++ rightOnly (R + x) (y - x) ++ al,
               segStates wrapStates.1 x ++ sl, segStates wrapStates.2 y ++ sr)
  | (none, none) :: _, _, _, _, _ => .error "internal error: entered unreachable code: None-None alignment"

def lookupSt (l : List St) (i : Nat) : Except String St :=
  match l[i]? with
  | some s => .ok s
  | none => .error "index out of bounds"

def lookupOpp (code : Nat) : List (Nat × Nat) → Option Nat
  | [] => none
  | (a, b) :: rest => if a = code then some b else lookupOpp code rest

/-- `paint_minus_or_plus_panel_line`: the state used for the number field when the line index
    is `None`. -/
def opposite (st : St) : Except String St :=
  match lookupOpp st.code oppositeArms with
  | some b => .ok (St.ofCode b)
  | none => .error "internal error: entered unreachable code"

def patMatch (pat x : Nat) : Bool := pat = 99 || pat = x

/-- A state pattern of the correction match: (state code, payload 0 `None` | 1 `Some(raw line)` | 99 any). -/
def patMatch2 (pat : Nat × Nat) (code raw : Nat) : Bool := patMatch pat.1 code && patMatch pat.2 raw

def fixLookup (ls lraw rs rraw mi pi : Nat) : List (List (Nat × Nat) × (Nat × Nat) × Nat × Nat × Nat) → Nat
  | [] => 0
  | (lp, rp, mp, pp, act) :: rest =>
    if lp.any (patMatch2 · ls lraw) && patMatch2 rp rs rraw && patMatch mp mi && patMatch pp pi then act
    else fixLookup ls lraw rs rraw mi pi rest

/-- The correction at the tail of the side-by-side row loop. `lraw`/`rraw`: the left / right state
    still carries its raw line (`HunkMinus(_, Some(raw))`: coloured input, `raw` styles). -/
def applyFix (c : Counters) (ls rs : St) (lraw rraw mi pi : Bool) : Except String Counters :=
  match fixLookup ls.code (if lraw then 1 else 0) rs.code (if rraw then 1 else 0)
      (if mi then 1 else 0) (if pi then 1 else 0) sbsFixArms with
  | 1 =>
    match addUsize c.left 1 with
    | .error e => .error e
    | .ok l => .ok { c with left := l }
  | 2 => .ok { c with left := c.left - 1 }
  | _ => .ok c

/-- One row of the side-by-side display: the left and the right panel gutter. -/
structure SbsRow where
  l : Option Cell
  r : Option Cell
  deriving DecidableEq, Repr

/-- One iteration of the row loop of `paint_minus_and_plus_lines_side_by_side`. -/
def sbsRow (c : Counters) (sl sr : List St) (lraw rraw : Bool) (mi pi : Option Nat) :
    Except String (Counters × SbsRow) :=
  match (match mi with | some i => lookupSt sl i | none => Except.ok (St.ofCode sbsDefaultStates.1)) with
  | .error e => .error e
  | .ok ls =>
    match (match mi with | some _ => Except.ok ls | none => opposite ls) with
    | .error e => .error e
    | .ok nl =>
      match paintLine true c nl (some .left) with
      | .error e => .error e
      | .ok (c1, cl) =>
        match (match pi with | some i => lookupSt sr i | none => Except.ok (St.ofCode sbsDefaultStates.2)) with
        | .error e => .error e
        | .ok rs =>
          match (match pi with | some _ => Except.ok rs | none => opposite rs) with
          | .error e => .error e
          | .ok nr =>
            match paintLine true c1 nr (some .right) with
            | .error e => .error e
            | .ok (c2, cr) =>
              match applyFix c2 ls rs lraw rraw mi.isSome pi.isSome with
              | .error e => .error e
              | .ok c3 => .ok (c3, ⟨cl, cr⟩)

/-- Raw-payload flag of the state at a line index (`None` index: the default state, payload `None`). -/
def rawAt (flags : List Bool) : Option Nat → Bool
  | some i => flags.getD i false
  | none => false

/-- The row loop. `rl`/`rr`: for each entry of `sl`/`sr`, whether that state carries a raw line. -/
def sbsRows (c : Counters) (sl sr : List St) (rl rr : List Bool) : Alignment → Except String (Counters × List SbsRow)
  | [] => .ok (c, [])
  | (mi, pi) :: rest =>
    match sbsRow c sl sr (rawAt rl mi) (rawAt rr pi) mi pi with
    | .error e => .error e
    | .ok (c1, row) =>
      match sbsRows c1 sl sr rl rr rest with
      | .error e => .error e
      | .ok (c2, rows) => .ok (c2, row :: rows)

/-- `paint_minus_and_plus_lines_side_by_side` for a subhunk of `m` minus and `p` plus lines with
    line alignment `al`; `wl`/`wr`: number of rows of each line (all 1 = nothing wraps, in which
    case `wrap_minusplus_block` is not called); `rl`/`rr`: which lines are kept raw in their state. -/
def sbsBlock (c : Counters) (m p : Nat) (al : Alignment) (wl wr : List Nat) (rl rr : List Bool) :
    Except String (Counters × List SbsRow) :=
  if wl.any (· ≠ 1) || wr.any (· ≠ 1) then
    match wrapBlock wl wr al 0 0 0 0 with
    | .error e => .error e
    -- `wrap_minusplus_block` rebuilds the states without raw payload
    | .ok (al', sl, sr) => sbsRows c sl sr [] [] al'
  else sbsRows c (List.replicate m .minus) (List.replicate p .plus) rl rr al

/-- Both panels of one row of an unchanged line (`paint_zero_lines_side_by_side` inner loop). -/
def zeroPanels (c : Counters) (st : St) : List Nat → Except String (Counters × List (Option Cell))
  | [] => .ok (c, [])
  | pc :: rest =>
    match paintLine true c st (some (if pc = 1 then .left else .right)) with
    | .error e => .error e
    | .ok (c1, cell) =>
      match zeroPanels c1 st rest with
      | .error e => .error e
      | .ok (c2, cells) => .ok (c2, cell :: cells)

def zeroRowsSbs (c : Counters) : List St → Except String (Counters × List SbsRow)
  | [] => .ok (c, [])
  | st :: rest =>
    match zeroPanels c st zeroPanelOrder with
    | .error e => .error e
    | .ok (c1, cells) =>
      match zeroRowsSbs c1 rest with
      | .error e => .error e
      | .ok (c2, rows) => .ok (c2, ⟨cells.head?.join, (cells.drop 1).head?.join⟩ :: rows)

/-- `paint_zero_lines_side_by_side` for a line that occupies `rows` rows
    (`wrap_zero_block`: first row `HunkZero`, the others the generated continuation state). -/
def zeroSbs (c : Counters) (rows : Nat) : Except String (Counters × List SbsRow) :=
  zeroRowsSbs c (.zero :: List.replicate (rows - 1) (St.ofCode zeroWrappedState))

/-- A painted block of a hunk: an unchanged line, or a subhunk handed to
    `paint_buffered_minus_and_plus_lines`. -/
inductive Block where
  | zero (rows : Nat)
  | sub (m p : Nat) (al : Alignment) (wl wr : List Nat) (rl rr : List Bool)

def runBlocksSbs (c : Counters) : List Block → Except String (Counters × List SbsRow)
  | [] => .ok (c, [])
  | b :: rest =>
    match (match b with
           | .zero rows => zeroSbs c rows
           | .sub m p al wl wr rl rr => if m = 0 ∧ p = 0 then .ok (c, []) else sbsBlock c m p al wl wr rl rr) with
    | .error e => .error e
    | .ok (c1, r1) =>
      match runBlocksSbs c1 rest with
      | .error e => .error e
      | .ok (c2, r2) => .ok (c2, r1 ++ r2)

def runBlocksU (c : Counters) : List Block → Except String (Counters × List (Option Cell))
  | [] => .ok (c, [])
  | b :: rest =>
    match (match b with
           | .zero _ => paintZeroU c
           | .sub m p _ _ _ _ _ => paintSubhunkU c m p) with
    | .error e => .error e
    | .ok (c1, r1) =>
      match runBlocksU c1 rest with
      | .error e => .error e
      | .ok (c2, r2) => .ok (c2, r1 ++ r2)

/-! ### `format.rs`: digits, `log10_plus_1`, `pad` -/

def digitChar (d : Nat) : Char := Char.ofNat (48 + d)

def digitsF : Nat → Nat → List Char
  | 0, _ => []
  | fuel + 1, n => if n < 10 then [digitChar n] else digitsF fuel (n / 10) ++ [digitChar (n % 10)]

/-- Decimal digits of `n` (`Display for usize`); fuel `n + 1` always suffices
    (`Proofs.LineNumbers.digitsF_fuel`). -/
def digits (n : Nat) : List Char := digitsF (n + 1) n

def log10Find (n len : Nat) : List (Nat × Nat) → Option Nat
  | [] => none
  | (t, k) :: rest => if n ≤ t then some (len + k) else log10Find n len rest

def log10F : Nat → Nat → Nat → Nat
  | 0, _, len => len
  | fuel + 1, n, len =>
    match log10Find n len log10Thresholds with
    | some r => r
    | none => log10F fuel (n / log10Step.2) (len + log10Step.1)

/-- `format::log10_plus_1` (fuel `n + 1` suffices: `Proofs.LineNumbers.log10Plus1_eq`). -/
def log10Plus1 (n : Nat) : Nat := log10F (n + 1) n 0

inductive Align where
  | left | center | right
  deriving DecidableEq, Repr

def Align.code : Align → Nat
  | .left => 0 | .center => 1 | .right => 2

def Align.ofCode : Nat → Align
  | 0 => .left | 2 => .right | _ => .center

/-- `CenterRightNumbers::center_right_space` for `usize`: is the extra leading space used? -/
def centerRightSpace (n : Nat) (al : Align) (width : Nat) : Bool :=
  if al ≠ .center then false
  else decide (width > log10Plus1 n ∧ width % 2 ≠ log10Plus1 n % 2)

def lookupNat (k : Nat) : List (Nat × Nat) → Option Nat
  | [] => none
  | (a, b) :: rest => if a = k then some b else lookupNat k rest

/-- `format!("{s:<w$}")` / `^` / `>` of the digit string `d` (std::fmt padding with spaces;
    centre puts the odd space on the right). `flag`: 0 `<`, 1 `^`, 2 `>`. -/
def fmtPad (d : List Char) (w flag : Nat) : List Char :=
  if d.length ≥ w then d
  else
    let t := w - d.length
    match flag with
    | 0 => d ++ List.replicate t ' '
    | 2 => List.replicate t ' ' ++ d
    | _ => List.replicate (t / 2) ' ' ++ d ++ List.replicate (t - t / 2) ' '

/-- `format::pad(n, width, alignment, precision)` for a number (precision is ignored by
    `Display for usize`). -/
def pad (n width : Nat) (al : Align) : List Char :=
  let flag := (lookupNat al.code padArms).getD al.code
  let body := fmtPad (digits n) width flag
  if centerRightSpace n al width then (' ' :: body).dropLast else body

/-! ### format strings -/

/-- `FormatStringPlaceholderData`; `ph`: 1 = `{nm}`, 2 = `{np}`. -/
structure PH where
  pre : List Char
  preLen : Nat
  ph : Option Nat
  align : Option Align
  width : Option Nat
  precision : Option Nat
  fmtType : List Char
  suf : List Char
  sufLen : Nat
  deriving DecidableEq, Repr

/-- `List.span`, spelt with `takeWhile`/`dropWhile`. -/
def spanTD (p : Char → Bool) (l : List Char) : List Char × List Char := (l.takeWhile p, l.dropWhile p)

/-- Characters the regex class `\d` accepts, as far as the model knows: ASCII digits and three
    other `Nd` blocks (Arabic-Indic, Devanagari, fullwidth). The harness sends no other digits. -/
def isUniDigit (c : Char) : Bool :=
  c.isDigit || (0x660 ≤ c.toNat && c.toNat ≤ 0x669) || (0x966 ≤ c.toNat && c.toNat ≤ 0x96F)
    || (0xFF10 ≤ c.toNat && c.toNat ≤ 0xFF19)

/-- `str::parse::<usize>()` on a `\d+` capture. -/
def parseUsize (ds : List Char) : Except String Nat :=
  if ds.all Char.isDigit then
    let n := ds.foldl (fun a c => 10 * a + (c.toNat - 48)) 0
    if n ≤ usizeMax then .ok n else .error "ParseIntError: number too large to fit in target type"
  else .error "ParseIntError: invalid digit found in string"

/-- Raw captures of the placeholder regex: label code, alignment char, width, precision, type. -/
structure Caps where
  label : Nat
  alignC : Option Char
  widthS : Option (List Char)
  precS : Option (List Char)
  typeS : List Char

def isAlignChar (c : Char) : Bool := (alignChars.map (·.1)).contains c

def isTypeStart (c : Char) : Bool := c.isAlpha
def isTypeRest (c : Char) : Bool := c.isAlphanum || c = '_' || c = '-'

/-- `(?:_?([A-Za-z][0-9A-Za-z_-]*))?\}` -/
def matchTypeClose (l : List Char) : Option (List Char × List Char) :=
  let body := match l with
    | '_' :: c :: r => if isTypeStart c then some (c :: r) else none
    | _ => none
  let body := match body with
    | some b => some b
    | none => match l with
      | c :: _ => if isTypeStart c then some l else none
      | [] => none
  match body with
  | some (c :: r) =>
    let (t, rest) := spanTD isTypeRest r
    match rest with
    | '}' :: rest' => some (c :: t, rest')
    | _ => none
  | _ =>
    match l with
    | '}' :: rest' => some ([], rest')
    | _ => none

/-- `(?:\.(\d+))?` then the type and the closing brace. -/
def matchPrecTypeClose (l : List Char) : Option (Option (List Char) × List Char × List Char) :=
  match l with
  | '.' :: r =>
    let (ds, rest) := spanTD isUniDigit r
    if ds.isEmpty then none
    else match matchTypeClose rest with
      | some (t, rest') => some (some ds, t, rest')
      | none => none
  | _ =>
    match matchTypeClose l with
    | some (t, rest') => some (none, t, rest')
    | none => none

/-- `(\d+)?` then precision, type, closing brace. -/
def matchWidthOn (l : List Char) : Option (Option (List Char) × Option (List Char) × List Char × List Char) :=
  let (ds, rest) := spanTD isUniDigit l
  match matchPrecTypeClose rest with
  | some (p, t, rest') => some (if ds.isEmpty then none else some ds, p, t, rest')
  | none => none

def specWith (label : Nat) (ac : Option Char) (l : List Char) : Option (Caps × List Char) :=
  match matchWidthOn l with
  | some (w, p, t, rest) => some (⟨label, ac, w, p, t⟩, rest)
  | none => none

/-- After the `:`: optional fill/alignment (leftmost-first alternatives), then the rest. -/
def matchSpec (label : Nat) (l : List Char) : Option (Caps × List Char) :=
  let alt1 := match l with
    | c1 :: c2 :: r => if !isAlignChar c1 && isAlignChar c2 then specWith label (some c2) r else none
    | _ => none
  match alt1 with
  | some r => some r
  | none =>
    let alt2 := match l with
      | c1 :: r => if isAlignChar c1 then specWith label (some c1) r else none
      | _ => none
    match alt2 with
    | some r => some r
    | none => specWith label none l

def dropPrefix? : List Char → List Char → Option (List Char)
  | l, [] => some l
  | [], _ :: _ => none
  | c :: l, d :: p => if c = d then dropPrefix? l p else none

/-- The placeholder regex anchored right after a `{`: labels in alternation order. -/
def matchAfterBrace (l : List Char) : List (String × Nat) → Option (Caps × List Char)
  | [] => none
  | (lab, code) :: more =>
    let here := match dropPrefix? l lab.toList with
      | some ('}' :: rest) => some (⟨code, none, none, none, []⟩, rest)
      | some (':' :: rest) => matchSpec code rest
      | _ => none
    match here with
    | some r => some r
    | none => matchAfterBrace l more

/-- Leftmost match of the placeholder regex in `l`: (text before it, captures, text after it). -/
def findPlaceholder : List Char → Option (List Char × Caps × List Char)
  | [] => none
  | c :: rest =>
    match (if c = '{' then matchAfterBrace rest placeholderLabels else none) with
    | some (caps, after) => some ([], caps, after)
    | none =>
      match findPlaceholder rest with
      | some (pre, caps, after) => some (c :: pre, caps, after)
      | none => none

def lookupAlign (c : Char) : List (Char × Nat) → Option Align
  | [] => none
  | (a, code) :: rest => if a = c then some (Align.ofCode code) else lookupAlign c rest

def optParse : Option (List Char) → String → Except String (Option Nat)
  | none, _ => .ok none
  | some ds, what =>
    match parseUsize ds with
    | .ok n => .ok (some n)
    | .error _ => .error ("Invalid " ++ what ++ " in format string")

def mkPH (pre : List Char) (caps : Caps) (suf : List Char) : Except String PH :=
  match optParse caps.widthS "width" with
  | .error e => .error e
  | .ok w =>
    match optParse caps.precS "precision" with
    | .error e => .error e
    | .ok p =>
      .ok ⟨pre, pre.length, some caps.label, caps.alignC.bind (lookupAlign · alignChars), w, p,
           caps.typeS, suf, suf.length⟩

def parseFormatF : Nat → List Char → Bool → Except String (List PH)
  | 0, _, _ => .ok []
  | fuel + 1, l, padFirst =>
    match findPlaceholder l with
    | none => .ok []
    | some (pre, caps, after) =>
      match mkPH (if padFirst then oddPadChar :: pre else pre) caps after with
      | .error e => .error e
      | .ok ph =>
        match parseFormatF fuel after false with
        | .error e => .error e
        | .ok rest => .ok (ph :: rest)

/-- `format::parse_line_number_format(format_string, regex, prefix_with_space)`. -/
def parseFormat (l : List Char) (prefixWithSpace : Bool) : Except String (List PH) :=
  match parseFormatF (l.length + 1) l prefixWithSpace with
  | .error e => .error e
  | .ok [] =>
    let pre := if prefixWithSpace then [oddPadChar] else []
    .ok [⟨pre, pre.length, none, none, none, none, [], l, l.length⟩]
  | .ok items => .ok items

/-- `format_line_number` with hyperlinks off. -/
def formatLineNumber (n : Option Nat) (al : Align) (width : Nat) : List Char :=
  match n with
  | none => List.replicate width ' '
  | some n => pad n width al

/-- Loop of `format_and_paint_line_number_field` (styles dropped): text so far, pending suffix. -/
def renderFieldGo (minW : Nat) (minus plus : Option Nat) : List PH → List Char → List Char → List Char
  | [], acc, suf => acc ++ suf
  | ph :: rest, acc, _ =>
    let width := match ph.width with
      | some w => max w minW
      | none => minW
    let al := ph.align.getD .center
    let field := match ph.ph with
      | some 1 => formatLineNumber minus al width
      | some 2 => formatLineNumber plus al width
      | _ => []
    renderFieldGo minW minus plus rest (acc ++ ph.pre ++ field) ph.suf

def renderField (fd : List PH) (minW : Nat) (minus plus : Option Nat) : List Char :=
  renderFieldGo minW minus plus fd [] []

/-- Gutter text of one cell (`format_and_paint_line_numbers`, ANSI removed). -/
def renderCell (fl fr : List PH) (minW : Nat) : Option Cell → List Char
  | none => []
  | some x =>
    (if x.emitL then renderField fl minW x.minus x.plus else []) ++
    (if x.emitR then renderField fr minW x.minus x.plus else [])

/-! ### `initialize_hunk`, hunk header -/

def maxSum : List (Nat × Nat) → Except String Nat
  | [] => .ok 0
  | (n, d) :: rest =>
    match addUsizeSat maxSumSaturates n d with
    | .error e => .error e
    | .ok s =>
      match maxSum rest with
      | .error e => .error e
      | .ok m => .ok (max s m)

/-- `LineNumbersData::initialize_hunk`: counters and `hunk_max_line_number_width`. The width is
    `1 + floor(log10(max as f64))`, modelled as the digit count (exact below 10^15; see notes). -/
def initializeHunk (pairs : List (Nat × Nat)) : Except String (Counters × Nat) :=
  match pairs.head?, pairs.getLast? with
  | some first, some last =>
    match maxSum pairs with
    | .error e => .error e
    | .ok m =>
      .ok (⟨if initUsesLast.1 then last.1 else first.1, if initUsesLast.2 then last.1 else first.1⟩,
           (digits m).length)
  | _, _ => .error "index out of bounds"

/-- Line number printed in the hunk-header box (`plus_line_number`). -/
def headerNumber (pairs : List (Nat × Nat)) : Except String Nat :=
  match pairs.head?, pairs.getLast? with
  | some first, some last =>
    let pr := if headerNumberRule.1 then last else first
    .ok (if headerNumberRule.2 = 0 then pr.1 else pr.2)
  | _, _ => .error "attempt to subtract with overflow"

/-- Path printed in the hunk-header box. -/
def headerPath (minusFile plusFile : String) : String :=
  if plusFile = headerPathRule.1 then (if headerPathRule.2.1 then plusFile else minusFile)
  else (if headerPathRule.2.2 then plusFile else minusFile)

/-- `@+ ([^@]+)@+(.*\s?)` anchored at the head of `l`: (capture 1, capture 2). -/
def matchHeaderAt (l : List Char) : Option (List Char × List Char) :=
  let (ats, r1) := spanTD (· = '@') l
  if ats.isEmpty then none
  else match r1 with
    | ' ' :: r2 =>
      let (mid, r3) := spanTD (· ≠ '@') r2
      if mid.isEmpty then none
      else
        let (ats2, r4) := spanTD (· = '@') r3
        if ats2.isEmpty then none else some (mid, r4)
    | _ => none

/-- Leftmost match of the hunk-header regex. -/
def findHeader : List Char → Option (List Char × List Char)
  | [] => none
  | c :: rest =>
    match matchHeaderAt (c :: rest) with
    | some r => some r
    | none => findHeader rest

/-- All matches of `[-+](\d+)(?:,(\d+))?` in `l`, converted as `parse_hunk_header` does. -/
def coordsF : Nat → List Char → Except String (List (Nat × Nat))
  | 0, _ => .ok []
  | _ + 1, [] => .ok []
  | fuel + 1, c :: rest =>
    if c = '-' ∨ c = '+' then
      let (ds, r1) := spanTD isUniDigit rest
      if ds.isEmpty then coordsF fuel rest
      else
        let (len, r2) : Option (List Char) × List Char := match r1 with
          | ',' :: r =>
            let (ls, r') := spanTD isUniDigit r
            if ls.isEmpty then (none, r1) else (some ls, r')
          | _ => (none, r1)
        match parseUsize ds with
        | .error e => .error e
        | .ok n =>
          match (match len with | none => Except.ok 1 | some ls => parseUsize ls) with
          | .error e => .error e
          | .ok d =>
            match coordsF fuel r2 with
            | .error e => .error e
            | .ok more => .ok ((n, d) :: more)
    else coordsF fuel rest

/-- `parse_hunk_header`: `none` if the line is not a hunk header, else the code fragment and
    the `(start, length)` pairs. A number `parse::<usize>` rejects, or the absence of any coordinate,
    is a panic / an empty list or (optional repair, generated flags) makes the line 'not a header'. -/
def parseHunkHeader (line : List Char) : Except String (Option (List Char × List (Nat × Nat))) :=
  match findHeader line with
  | none => .ok none
  | some (coordsText, frag) =>
    match coordsF (coordsText.length + 1) coordsText with
    | .error e => if headerParseRejects then .ok none else .error e
    | .ok pairs =>
      if headerRejectsEmpty && pairs.isEmpty then .ok none else .ok (some (frag, pairs))

/-- A two-way hunk header as git / diff -u write it: `@@ -a[,b] +c[,d] @@frag`. -/
def fmtCoord (sign : Char) (start : Nat) (len : Option Nat) : List Char :=
  sign :: digits start ++ (match len with | some n => ',' :: digits n | none => [])

def fmtHunkHeader (a : Nat) (b : Option Nat) (c : Nat) (d : Option Nat) (frag : List Char) : List Char :=
  "@@ ".toList ++ fmtCoord '-' a b ++ [' '] ++ fmtCoord '+' c d ++ " @@".toList ++ frag

end LineNumbers
