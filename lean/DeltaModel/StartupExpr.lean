/-!
Checked `usize` arithmetic as delta's debug build (overflow checks on) executes it: the expression
language the extractor `tools/extractors/startup.py` translates option-value arithmetic into
(`adapt_wrap_max_lines_argument`, `WrapConfig::config_max_line_length`, the side-by-side panel widths).

* `Expr`   — variables, literals, `+ - * /` (each a panic point: overflow, underflow, division by
  zero), their `saturating_*` forms (total), `max`, `min`;
* `eval`   — evaluation over `usize`, `.error (.panic …)` at a panic point;
* `range`  — interval evaluation: `some (lo, hi)` promises that for every assignment of the variables
  inside the given intervals no panic point is hit and the value lies in `[lo, hi]`
  (`Proofs/StartupExpr.lean: range_sound`). It is executable, so that "cannot overflow for these
  ranges of the options" is decided by evaluation of the *generated* expression.

Core Lean only.
-/
namespace Startup

/-- `usize::MAX` (64-bit) -/
def usizeMax : Nat := 18446744073709551615
/-- `isize::MAX` -/
def isizeMax : Nat := 9223372036854775807

/-- How start-up can end other than normally: `fatal` = `fatal(…)`, a message and exit status 2 (a clean
refusal of the option value); `panic` = a Rust panic (overflow check, `unwrap`, slice, capacity overflow). -/
inductive Err where
  | fatal (msg : String)
  | panic (msg : String)
  deriving DecidableEq, Repr

abbrev Res (α : Type) := Except Err α

inductive Expr where
  | var (i : Nat)
  | lit (n : Nat)
  | add (a b : Expr)
  | sub (a b : Expr)
  | mul (a b : Expr)
  | div (a b : Expr)
  | satAdd (a b : Expr)
  | satSub (a b : Expr)
  | satMul (a b : Expr)
  | max (a b : Expr)
  | min (a b : Expr)
  deriving DecidableEq, Repr

inductive Op where
  | add | sub | mul | div | satAdd | satSub | satMul | max | min
  deriving DecidableEq, Repr

/-- one `usize` operation -/
def applyOp : Op → Nat → Nat → Res Nat
  | .add, x, y => if x + y ≤ usizeMax then .ok (x + y) else .error (.panic "attempt to add with overflow")
  | .sub, x, y => if y ≤ x then .ok (x - y) else .error (.panic "attempt to subtract with overflow")
  | .mul, x, y => if x * y ≤ usizeMax then .ok (x * y) else .error (.panic "attempt to multiply with overflow")
  | .div, x, y => if 0 < y then .ok (x / y) else .error (.panic "attempt to divide by zero")
  | .satAdd, x, y => .ok (Nat.min (x + y) usizeMax)
  | .satSub, x, y => .ok (x - y)
  | .satMul, x, y => .ok (Nat.min (x * y) usizeMax)
  | .max, x, y => .ok (Nat.max x y)
  | .min, x, y => .ok (Nat.min x y)

def bin (op : Op) (ra rb : Res Nat) : Res Nat :=
  match ra with
  | .error e => .error e
  | .ok x =>
    match rb with
    | .error e => .error e
    | .ok y => applyOp op x y

/-- Evaluation as the debug build does it (left operand first). A variable outside the environment or a
value beyond `usize` cannot be written in Rust; both are error branches so that they are visible. -/
def eval (env : List Nat) : Expr → Res Nat
  | .var i => match env[i]? with
    | some v => if v ≤ usizeMax then .ok v else .error (.panic "not a usize")
    | none => .error (.panic "unbound variable")
  | .lit n => if n ≤ usizeMax then .ok n else .error (.panic "literal out of range")
  | .add a b => bin .add (eval env a) (eval env b)
  | .sub a b => bin .sub (eval env a) (eval env b)
  | .mul a b => bin .mul (eval env a) (eval env b)
  | .div a b => bin .div (eval env a) (eval env b)
  | .satAdd a b => bin .satAdd (eval env a) (eval env b)
  | .satSub a b => bin .satSub (eval env a) (eval env b)
  | .satMul a b => bin .satMul (eval env a) (eval env b)
  | .max a b => bin .max (eval env a) (eval env b)
  | .min a b => bin .min (eval env a) (eval env b)

/-- one operation on intervals; `none` = a panic point may be hit -/
def rangeOp : Op → (Nat × Nat) → (Nat × Nat) → Option (Nat × Nat)
  | .add, (la, ha), (lb, hb) => if ha + hb ≤ usizeMax then some (la + lb, ha + hb) else none
  | .sub, (la, ha), (lb, hb) => if hb ≤ la then some (la - hb, ha - lb) else none
  | .mul, (la, ha), (lb, hb) => if ha * hb ≤ usizeMax then some (la * lb, ha * hb) else none
  | .div, (la, ha), (lb, hb) => if 0 < lb then some (la / hb, ha / lb) else none
  | .satAdd, (la, ha), (lb, hb) => some (Nat.min (la + lb) usizeMax, Nat.min (ha + hb) usizeMax)
  | .satSub, (la, ha), (lb, hb) => some (la - hb, ha - lb)
  | .satMul, (la, ha), (lb, hb) => some (Nat.min (la * lb) usizeMax, Nat.min (ha * hb) usizeMax)
  | .max, (la, ha), (lb, hb) => some (Nat.max la lb, Nat.max ha hb)
  | .min, (la, ha), (lb, hb) => some (Nat.min la lb, Nat.min ha hb)

def rbin (op : Op) (ra rb : Option (Nat × Nat)) : Option (Nat × Nat) :=
  match ra with
  | none => none
  | some x =>
    match rb with
    | none => none
    | some y => rangeOp op x y

/-- Interval evaluation; `envR` gives `[lo, hi]` per variable. -/
def range (envR : List (Nat × Nat)) : Expr → Option (Nat × Nat)
  | .var i => match envR[i]? with
    | some (lo, hi) => if hi ≤ usizeMax then some (lo, hi) else none
    | none => none
  | .lit n => if n ≤ usizeMax then some (n, n) else none
  | .add a b => rbin .add (range envR a) (range envR b)
  | .sub a b => rbin .sub (range envR a) (range envR b)
  | .mul a b => rbin .mul (range envR a) (range envR b)
  | .div a b => rbin .div (range envR a) (range envR b)
  | .satAdd a b => rbin .satAdd (range envR a) (range envR b)
  | .satSub a b => rbin .satSub (range envR a) (range envR b)
  | .satMul a b => rbin .satMul (range envR a) (range envR b)
  | .max a b => rbin .max (range envR a) (range envR b)
  | .min a b => rbin .min (range envR a) (range envR b)

/-- every variable's value lies in its interval -/
def InEnv : List Nat → List (Nat × Nat) → Prop
  | [], [] => True
  | v :: vs, (lo, hi) :: rs => lo ≤ v ∧ v ≤ hi ∧ InEnv vs rs
  | _, _ => False

/-! ### decision lists: a Rust `match` on integer patterns with `==` guards -/

abbrev Arms := List (List (Nat × Nat) × Expr)

def condHolds (env : List Nat) (c : Nat × Nat) : Bool :=
  match env[c.1]? with
  | some v => v == c.2
  | none => false

/-- first arm whose tests all hold; a `match` without an applicable arm does not compile in Rust -/
def evalArms (env : List Nat) : Arms → Res Nat
  | [] => .error (.panic "no arm applies")
  | (conds, e) :: rest => if conds.all (condHolds env) then eval env e else evalArms env rest

/-- every arm is panic free on the whole box and the last arm always applies -/
def rangeArms (envR : List (Nat × Nat)) : Arms → Bool
  | [] => false
  | [(conds, e)] => conds.isEmpty && (range envR e).isSome
  | (_, e) :: rest => (range envR e).isSome && rangeArms envR rest

end Startup
