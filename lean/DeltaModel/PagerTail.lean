import DeltaModel.Pager
import DeltaModel.Generated.PagerTail
/-!
Model for C18 — what delta does *after its last write*: the destructor of `output_type`
(`impl Drop for OutputType`, `src/utils/bat/output.rs`) and the tail of `main` after `run_app(..)`
returned (`src/main.rs`).

`Generated.PagerTail.dropStmts` / `mainTail` are those statements, re-extracted on every check, one row
per *effect* with the guards it runs under. This file interprets them for an arbitrary way the pager
ended (`PagerStatus`: exit code, killed by a signal, `wait` failed):

* an effect that must not happen (stderr / stdout write, exit, anything not understood) is taken to
  happen as soon as its guards *may* hold (`guardMay`: a guard that is not understood may hold);
* the effect that must happen (waiting for the pager) counts only when its guards *must* hold
  (`guardMust`: only `is-pager`, in a run that has a pager).

`runFull` is `Pager.run` with the abstract "`Drop` waits for the pager, then `process::exit`" suffix
replaced by this interpretation. Rust semantics assumed: a `return` from `run_app` drops `output_type`
exactly once; `process::exit` / `fatal` run no destructor (as in `Pager.run`).
-/
namespace PagerTail
open Pager Generated

/-- How the pager process ended, as seen by `Child::wait`. -/
inductive PagerStatus
  /-- `exit(code)` -/
  | exited (code : Nat)
  /-- killed by signal `sig` (`status.code()` is `None`) -/
  | signaled (sig : Nat)
  /-- `wait` itself returned `Err` -/
  | waitFailed
  deriving DecidableEq, Repr

/-- The guard may hold in a run with (`pager`, `st`). A guard this model does not understand may hold. -/
def guardMay (pager : Bool) (st : PagerStatus) (g : String) : Bool :=
  if g = "is-pager" then pager
  else if g = "not:is-pager" then !pager
  else if g = "status:any" then true
  else if g = "status:exit-nonzero" then (match st with | .exited c => c != 0 | _ => false)
  else if g = "status:exit-zero" then (match st with | .exited c => c == 0 | _ => false)
  else if g = "status:exit-any" then (match st with | .exited _ => true | _ => false)
  else if g = "status:signal" then (match st with | .signaled _ => true | _ => false)
  else if g = "status:wait-err" then (match st with | .waitFailed => true | _ => false)
  else true

/-- The guard holds in every run with a pager, whatever its status. -/
def guardMust (pager : Bool) (g : String) : Bool := g = "is-pager" && pager

abbrev Row := List String × String × String

/-- Value of the argument of `process::exit(..)`; `code` = the value `main` bound to `exit_code`. -/
def exitArg (tok : String) (code : Int) : Option Int :=
  if tok = "exit_code" then some code else tok.toInt?

/-- Events of one effect row. -/
def rowEvents (pager : Bool) (st : PagerStatus) (code : Int) (r : Row) : List Event :=
  let gs := r.1
  let eff := r.2.1
  if eff = "wait-child" then
    if gs.all (guardMust pager) then [Event.closePager, Event.waitPager]
    else if gs.all (guardMay pager st) then [Event.unknown]    -- a wait that happens only sometimes
    else []
  else if !gs.all (guardMay pager st) then []
  else if eff = "stderr" then [Event.message]
  else if eff = "stdout" ∨ eff = "write" then [Event.writeOk]
  else if eff.startsWith "exit:" then
    match exitArg (String.ofList (eff.toList.drop 5)) code with
    | some c => [Event.exit c]
    | none => [Event.unknown]
  else [Event.unknown]

def Event.isExit : Event → Bool
  | .exit _ => true
  | _ => false

/-- Statements in order; nothing runs after a `process::exit`. -/
def interp (pager : Bool) (st : PagerStatus) (code : Int) : List Row → List Event
  | [] => []
  | r :: rest =>
    let evs := rowEvents pager st code r
    if evs.any Event.isExit then evs else evs ++ interp pager st code rest

/-- `drop(output_type)`. -/
def dropEvents (pager : Bool) (st : PagerStatus) (code : Int) : List Event :=
  interp pager st code PagerTail.dropStmts

/-- `main` after `run_app` returned `Ok(code)` (or the BrokenPipe `Err` mapped to 0). -/
def mainTailEvents (st : PagerStatus) (code : Int) : List Event :=
  interp false st code PagerTail.mainTail

/-- A whole run, the part after `run_app`'s body interpreted from the extracted statements.
    `st`: how the pager ends (ignored when there is none). -/
def runFull (s : Scenario) (st : PagerStatus) : List Event :=
  if !shapeOk then [Event.unknown] else
  match body s with
  | none => [Event.unknown]
  | some b =>
    (if hasPager s then [Event.spawnPager] else [])
    ++ b.events
    ++ (if b.returns then dropEvents (hasPager s) st b.code ++ mainTailEvents st b.code
        else [Event.exit b.code])

/-- What is left to happen after the write that failed with EPIPE, in a quiet stop:
    (the wrapped command is reaped,) the pager is closed and waited for, exit status 0. -/
def quietTail (sub pager : Bool) : List Event :=
  (if sub then [Event.waitSub] else [])
  ++ (if pager then [Event.closePager, Event.waitPager] else [])
  ++ [Event.exit 0]

/-- `delta a b` / `delta git …` / `delta rg …`: a wrapped command is running. -/
def subMode : Mode → Bool
  | .sub _ _ _ _ => true
  | _ => false

end PagerTail
