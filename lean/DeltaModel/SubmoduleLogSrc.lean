import DeltaModel.Machine
import DeltaModel.Generated.SubmoduleLog
/-!
`handle_submodule_log_line` (/repo/src/handlers/submodule.rs) executed *from its source*: an interpreter for the
statement list that the extractor regenerates (`Generated.SubmoduleLog.body`, `testPrefix`) over the state of the
machine model.

Every statement has one meaning here; a statement the interpreter does not know (`unknown`), a guard on another
predicate, a target state it has no counterpart for, or a body that does not end in its tail expression makes the run
`none`. `C14.submodule_log_handler_follows_source` (Props/C14.lean) states that the run over the generated list is
`Machine.handleSubmoduleLog` — the hand-written function the model driver executes and all whole-run theorems are
about — for every configuration, state and line. The two statements that write the file header still owed to the
section before the log (`paint_buffered_minus_and_plus_lines(); handle_pending_line_with_diff_name()?;`) are part of
the list: dropping, moving or reordering them in the Rust function breaks that theorem instead of silently leaving the
model behind.
-/
namespace SubmoduleLogSrc
open Headers Machine Generated Generated.SubmoduleLog

/-- the states `handle_additional_cases` is sent to from here -/
def stateOf : String → Option State
  | "SubmoduleLog" => some .submoduleLog
  | _ => none

/-- the statements in source order; `none` = a construct without a meaning here -/
def exec (cfg : Cfg) (l : L) : List Stmt → M → Option (Except String (Bool × M))
  | [], _ => none
  | .declineUnless t :: rest, m =>
    if t = testName then
      if !startsWith l.text testPrefix then some (.ok (false, m)) else exec cfg l rest m
    else none
  | .paintBuffered :: rest, m => exec cfg l rest (flushMP m)
  | .emit :: rest, m => exec cfg l rest (Machine.emit m)
  | .pendingDiffName :: rest, m => exec cfg l rest (pendingDiffName cfg m)
  | [.tailAdditionalCases s], m =>
    match stateOf s with
    | some st => some (handleAdditionalCases cfg m l st)
    | none => none
  | .tailAdditionalCases _ :: _ :: _, _ => none
  | .unknown _ :: _, _ => none

/-- `handle_submodule_log_line` as the source has it -/
def handleSubmoduleLogSrc (cfg : Cfg) (m : M) (l : L) : Option (Except String (Bool × M)) :=
  exec cfg l body m

end SubmoduleLogSrc
