import DeltaModel.Machine
import DeltaModel.RawLineCallers
import DeltaModel.Generated.RawUse
/-!
The line state machine fed with *byte* lines (coloured or not), and the colour source of its hunk rows.

`DeltaModel/Machine.lean` receives for every input line the stripped `text` and the `raw` line as two
independent inputs and does not carry the decision of `maybe_raw_line` (src/handlers/hunk.rs) — that
decision is modelled in `DeltaModel/RawLineCallers.lean` (`Ansi.hunkLineKeepsRaw`, over the generated
arms of `new_line_state`). This file composes them without touching either:

* `ingestLine`: the last statement of `ingest_line_utf8` (src/delta.rs; statement list regenerated in
  `Generated/IngestSteps.lean`): `self.line = ansi::strip_ansi_codes(&self.raw_line)`. The machine's
  line is made from the bytes of `raw_line` (as they are after the CR and `--max-line-length` steps,
  which `DeltaModel/Ingest.lean` models): `raw` = the decoded bytes, `text` = the decoded stripped bytes,
  and the per-line facts (grapheme clusters, commit regex, blame / grep / submodule parse) are functions of
  the *stripped* text, as in the handlers. The decoding `dec : Bytes → Str` (UTF-8) and the fact functions
  are parameters: the theorems hold for every choice.
* `rowKeepsRaw`: for an output row of kind minus / unchanged / plus, the decision `maybe_raw_line` takes
  for the input line the row derives from (`Row.src`): `some true` = the row's *style sections* are
  parsed from the raw line (`Painter::update_diff_style_sections`: moved-line colours, `--word-diff`, raw
  hunk-line styles — the text of the row is the prepared stripped line in every case), `some false` =
  delta's own styles, `none` = not a hunk row. Merge-conflict rows (always `None` in the code) are given
  the decision of their line too: an over-approximation that only strengthens "not kept raw" statements.
* `runBytes`: ingest every line, run the machine, pair every row with its colour source.

Core Lean only.
-/
namespace MachineRaw
open Machine Ansi

/-- what the handlers compute from the stripped line (`self.line`) with regexes / Unicode tables -/
structure Facts where
  graphemes : List Headers.Str
  commitRe : Bool
  blame : Bool
  grep : Nat
  submodule : Option Headers.Str

/-- `self.line = ansi::strip_ansi_codes(&self.raw_line)` and the per-line facts; error = the char-boundary
panic of the iterator's consumers on non-benign sequences (C08 `vte_partition_*`). -/
def ingestLine (dec : Bytes → Headers.Str) (facts : Headers.Str → Facts) (rawLine : Bytes) : Except String L :=
  match strip rawLine with
  | .error e => .error e
  | .ok p =>
    .ok { raw := dec rawLine, text := dec p, graphemes := (facts (dec p)).graphemes,
          commitRe := (facts (dec p)).commitRe, blame := (facts (dec p)).blame, grep := (facts (dec p)).grep,
          submodule := (facts (dec p)).submodule }

def ingestAll (dec : Bytes → Headers.Str) (facts : Headers.Str → Facts) : List Bytes → Except String (List L)
  | [] => .ok []
  | b :: bs =>
    match ingestLine dec facts b with
    | .error e => .error e
    | .ok l =>
      match ingestAll dec facts bs with
      | .error e => .error e
      | .ok ls => .ok (l :: ls)

/-- the options `maybe_raw_line` looks at -/
structure RawCfg where
  wordDiff : Bool := false          -- `is_word_diff()` (git diff --word-diff / --color-words as caller)
  inspect : Bool := true            -- `--inspect-raw-lines=true`
  git : GitColors := []             -- `color.diff.old` / `color.diff.new` of the gitconfig delta reads

/-- `config.<kind>_style.is_raw` as the machine's configuration has it -/
def isRawOf (cfg : Cfg) : Generated.HunkKind → Bool
  | .minus => cfg.minusStyle.isRaw
  | .zero => cfg.zeroStyle.isRaw
  | .plus => cfg.plusStyle.isRaw

/-- the prefix character `new_line_state` derived for a row of this kind -/
def prefixCharOf : RowKind → Option Char
  | .minus => some '-'
  | .zero => some ' '
  | .plus => some '+'
  | _ => none

/-- Is the row painted with the styles parsed from its raw input line? (`none`: not a hunk row) -/
def rowKeepsRaw (rc : RawCfg) (cfg : Cfg) (combined : Bool) (rawAt : Nat → Bytes) (r : Row) : Option Bool :=
  match prefixCharOf r.kind with
  | none => none
  | some c => hunkLineKeepsRaw rc.wordDiff rc.inspect (isRawOf cfg) rc.git c combined (rawAt r.src)

def bytesAt (lines : List Bytes) (k : Nat) : Bytes := (lines[k]?).getD []

/-- the whole run on byte lines: rows paired with their colour source -/
def runBytes (rc : RawCfg) (cfg : Cfg) (combined : Bool) (dec : Bytes → Headers.Str) (facts : Headers.Str → Facts)
    (lines : List Bytes) : Except String (List (Row × Option Bool)) :=
  match ingestAll dec facts lines with
  | .error e => .error e
  | .ok ls =>
    match Machine.run cfg ls with
    | .error e => .error e
    | .ok m => .ok (m.out.map fun r => (r, rowKeepsRaw rc cfg combined (bytesAt lines) r))

/-- Where the state machine's source reads the raw line — the inventory this model and `Machine.lean` were written
against (file under src/, function, mentions of identifiers ending in `raw_line`), compared with the regenerated
`Generated.rawLineUses` by the theorem `raw_line_use_inventory`. In the model: `ingest_line_utf8` = `ingestLine`
(+ `DeltaModel/Ingest.lean`); `emit_line_unchanged`, the commit / diff-header / hunk-header writers, `handle_additional_cases`,
`enter_merge_conflict` = the `l.raw` / `raw` arguments of `Machine.emitLineUnchanged`, `drawRows` (raw style only),
`emitHunkHeader`; `handle_hunk_line` = the pass-through row of `hunkLinePush`; `maybe_raw_line` / `new_line_state` =
`Ansi.hunkLineKeepsRaw` through `rowKeepsRaw`; blame / grep / diff-stat rows are outside the machine model (C16, C17). -/
def modelledRawLineUses : List (String × String × Nat) :=
  [("delta.rs", "n_parents", 1),
   ("delta.rs", "new", 1),
   ("delta.rs", "ingest_line_utf8", 14),
   ("delta.rs", "emit_line_unchanged", 2),
   ("delta.rs", "format_raw_line", 1),
   ("handlers/blame.rs", "blame_metadata_style", 1),
   ("handlers/blame.rs", "format_blame_metadata", 1),
   ("handlers/commit_meta.rs", "_handle_commit_meta_header_line", 4),
   ("handlers/diff_header.rs", "should_write_generic_diff_header_header_line", 1),
   ("handlers/diff_header.rs", "write_generic_diff_header_header_line", 2),
   ("handlers/diff_stat.rs", "handle_diff_stat_line", 1),
   ("handlers/grep.rs", "handle_grep_line", 3),
   ("handlers/grep.rs", "emit_ripgrep_format_grep_line", 3),
   ("handlers/grep.rs", "_emit_classic_format_code", 3),
   ("handlers/grep.rs", "get_code_style_sections", 3),
   ("handlers/grep.rs", "parse_raw_grep_line", 3),
   ("handlers/hunk.rs", "handle_hunk_line", 10),
   ("handlers/hunk.rs", "maybe_raw_line", 7),
   ("handlers/hunk.rs", "new_line_state", 18),
   ("handlers/hunk_header.rs", "handle_hunk_header_line", 1),
   ("handlers/hunk_header.rs", "emit_hunk_header_line", 2),
   ("handlers/hunk_header.rs", "write_hunk_header_raw", 2),
   ("handlers/merge_conflict.rs", "enter_merge_conflict", 2),
   ("handlers/mod.rs", "handle_additional_cases", 1)]

end MachineRaw
