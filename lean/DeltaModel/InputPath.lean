import DeltaModel.Generated.InputPath
/-!
C11, the input side: a blocking byte pipe with arbitrary chunking, and the reader stack `run_app` puts between it
and the line state machine (`BufRead::read_until(b'\n')` of `bytelines::ByteLines::next`, called once per iteration of
`StateMachine::consume`), as a labelled transition system.

* the producer appends chunks of any size to the pipe at any time (`Ev.write`), may close it (`Ev.close`);
* the consumer (`cstep`) is a deterministic program except for how many of the available bytes a `read` returns
  (at least one, `clip`): the hint `n` of `Ev.cons n` chooses it. `cstep = none`: the consumer cannot move — it is
  blocked in `read` (pipe empty, not closed) or has finished (end of input seen);
* the program is *compiled from the generated description* of the source (`Generated.InputPath`): reads performed
  before `delta()` is called become an eager phase (`Eager.upTo n` for `take(n).read_to_end`, `Eager.all` for
  `read_to_end`), the reader handed to `delta()` gives the buffer capacity and whether the bytes read eagerly are chained
  in front (`Cursor::new(..).chain(..)`).

Bytes are `Nat`s (the driver passes values below 256). Core Lean only.
-/
namespace InputPath
open Generated.InputPath

/-- a read performed before the line loop starts -/
inductive Eager where
  | upTo (n : Nat)     -- `take(n).read_to_end(..)`: returns when n bytes have arrived or at end of input
  | all                -- `read_to_end(..)` / `read_to_string(..)`: returns at end of input
  deriving DecidableEq, Repr

/-- the consumer program -/
structure Prog where
  eager : Option Eager := none
  /-- the bytes read eagerly are put in front of the line reader -/
  rechain : Bool := false
  /-- capacity of the line reader's buffer (upper bound of one `read`) -/
  cap : Nat := 8192
  /-- the delimiter of `read_until` -/
  delim : Nat := 10
  deriving DecidableEq, Repr

/-- capacity of std's `BufReader` (`DEFAULT_BUF_SIZE`, also of the one inside `Stdin`): a fact about std, not read
from delta's source; no theorem depends on its value -/
def stdBufCap : Nat := 8192

/-- `.lock()` and `.by_ref()` do not change what is read -/
def stripRefs : Reader → Reader
  | .lock r => stripRefs r
  | .byRef r => stripRefs r
  | .take n r => .take n (stripRefs r)
  | .bufReader c r => .bufReader c (stripRefs r)
  | .chain a b => .chain (stripRefs a) (stripRefs b)
  | .byteLines r => .byteLines (stripRefs r)
  | r => r

def eagerOf (root : Reader) (p : PreRead) : Except String Eager :=
  if p.call = "read_to_end" ∨ p.call = "read_to_string" then
    match stripRefs p.reader with
    | .take n r => if r = root then .ok (.upTo n) else .error ("eager read on an unknown reader: " ++ p.stmt)
    | r => if r = root then .ok .all else .error ("eager read on an unknown reader: " ++ p.stmt)
  else .error ("unknown eager call `" ++ p.call ++ "`: " ++ p.stmt)

/-- capacity of a buffered source over `root` -/
def sourceCap (root : Reader) : Reader → Except String Nat
  | .bufReader c r => if r = root then .ok (c.getD stdBufCap) else .error "BufReader over an unknown source"
  | r => if r = root ∧ root = .stdin then .ok stdBufCap else .error "the line reader's source is not a known buffered reader"

/-- compile the generated description of one branch of `run_app` -/
def compile (root : Reader) (pre : List PreRead) (reader : Reader) (delim : Option Nat) : Except String Prog :=
  let d := delim.getD 10
  match stripRefs reader with
  | .byteLines (.chain (.cursor _) src) =>
    match sourceCap root src, pre with
    | .ok c, [p] => match eagerOf root p with
      | .ok e => .ok { eager := some e, rechain := true, cap := c, delim := d }
      | .error m => .error m
    | .ok _, _ => .error "a Cursor is chained in front of the input but the reads before delta() are not a single known read"
    | .error m, _ => .error m
  | .byteLines src =>
    match sourceCap root src, pre with
    | .ok c, [] => .ok { eager := none, rechain := false, cap := c, delim := d }
    | .ok c, [p] => match eagerOf root p with
      | .ok e => .ok { eager := some e, rechain := false, cap := c, delim := d }
      | .error m => .error m
    | .ok _, _ => .error "more than one read before delta()"
    | .error m, _ => .error m
  | _ => .error "the reader handed to delta() is not `<buffered source>.byte_lines()`"

/-- the worst case, used when the description cannot be compiled: nothing is handed on before end of input -/
def worstProg : Prog := { eager := some .all, rechain := true, cap := 1, delim := 10 }

def progOr (r : Except String Prog) : Prog := match r with | .ok p => p | .error _ => worstProg

/-- the program of the stdin branch (`git diff | delta`, delta as pager) of the current source -/
def stdinProg : Prog := progOr (compile .stdin stdinPreReads stdinReader byteLinesDelimiter)
/-- the program of the subcommand branch (`delta a b`, `delta git …`) of the current source -/
def subcmdProg : Prog := progOr (compile .childStdout subcmdPreReads subcmdReader byteLinesDelimiter)

/-- the shape of the seeded change C11-w6-01 (an 8000-byte sniff in front), for the counterexample -/
def sniffProg (n : Nat) : Prog := { eager := some (.upTo n), rechain := true, cap := 8192, delim := 10 }

-- ---------------------------------------------------------------------------------------------- the LTS

structure S where
  /-- ghost: every byte the producer has written so far -/
  sent : List Nat := []
  /-- bytes in the pipe: written, not yet returned by a `read` -/
  pipe : List Nat := []
  closed : Bool := false
  /-- eager read still running -/
  eager : Option Eager := none
  /-- bytes it has collected -/
  acc : List Nat := []
  /-- the line reader's buffer: filled, not yet consumed -/
  buf : List Nat := []
  /-- `read_until`'s destination: the part of the current line seen so far -/
  cur : List Nat := []
  /-- lines handed to `ingest_line`, oldest first, as `read_until` produced them (delimiter included) -/
  handed : List (List Nat) := []
  /-- the line loop has seen the end of input -/
  done : Bool := false
  deriving DecidableEq, Repr

def init (p : Prog) : S := { eager := p.eager }

/-- how many bytes a `read` returns: at least one, at most what is wanted and what is there; `n` is the scheduler's choice -/
def clip (want avail n : Nat) : Nat := max 1 (min n (min want avail))

/-- first line of a buffer: `(bytes up to and including the delimiter, rest)` -/
def splitAtDelim (d : Nat) : List Nat → Option (List Nat × List Nat)
  | [] => none
  | b :: bs =>
    if b = d then some ([b], bs)
    else match splitAtDelim d bs with
      | some (l, r) => some (b :: l, r)
      | none => none

/-- how many more bytes the eager read asks for -/
def wantOf (p : Prog) (s : S) : Eager → Nat
  | .upTo k => k - s.acc.length
  | .all => max 1 p.cap

/-- the eager read returns: the line loop starts, with the bytes collected in front when they are chained back -/
def endEager (p : Prog) (s : S) : S := { s with eager := none, buf := if p.rechain then s.acc else [], acc := [] }

/-- the eager phase: one `read` of the read running before the line loop -/
def cstepEager (p : Prog) (n : Nat) (s : S) (e : Eager) : Option S :=
  if wantOf p s e = 0 then some (endEager p s)
  else match s.pipe with
    | [] => if s.closed then some (endEager p s) else none
    | _ :: _ =>
      some { s with acc := s.acc ++ s.pipe.take (clip (wantOf p s e) s.pipe.length n),
                    pipe := s.pipe.drop (clip (wantOf p s e) s.pipe.length n) }

/-- the line loop (`lines.next()` = `read_until(delim)` over the buffered reader): `fill_buf` reads from the pipe only
when the buffer is empty; a buffered delimiter ends the line at once; without one the whole buffer goes to the line and
`fill_buf` is called again -/
def cstepLines (p : Prog) (n : Nat) (s : S) : Option S :=
  match s.buf with
  | [] =>
    match s.pipe with
    | [] =>
      if s.closed then some { s with done := true, cur := [], handed := if s.cur = [] then s.handed else s.handed ++ [s.cur] }
      else none
    | _ :: _ =>
      let k := clip p.cap s.pipe.length n
      some { s with buf := s.pipe.take k, pipe := s.pipe.drop k }
  | _ :: _ =>
    match splitAtDelim p.delim s.buf with
    | some (l, r) => some { s with handed := s.handed ++ [s.cur ++ l], cur := [], buf := r }
    | none => some { s with cur := s.cur ++ s.buf, buf := [] }

/-- one consumer step; `none`: blocked in `read`, or finished -/
def cstep (p : Prog) (n : Nat) (s : S) : Option S :=
  if s.done then none else
  match s.eager with
  | some e => cstepEager p n s e
  | none => cstepLines p n s

inductive Ev where
  | write (c : List Nat)
  | close
  | cons (n : Nat)
  deriving DecidableEq, Repr

def apply (p : Prog) (s : S) : Ev → S
  | .write c => if s.closed then s else { s with sent := s.sent ++ c, pipe := s.pipe ++ c }
  | .close => { s with closed := true }
  | .cons n => (cstep p n s).getD s

def exec (p : Prog) (s : S) (evs : List Ev) : S := evs.foldl (apply p) s

/-- the producer pauses: the consumer runs alone, read sizes chosen by `hint`, until it cannot move (or the fuel ends) -/
def settle (p : Prog) (hint : Nat → Nat) : Nat → S → S
  | 0, s => s
  | f + 1, s => match cstep p (hint f) s with
    | none => s
    | some s' => settle p hint f s'

/-- enough fuel for `settle` (`Proofs/InputPath.lean`: `settle_blocked`) -/
def fuelFor (s : S) : Nat := 2 * s.pipe.length + s.buf.length + 2

-- ---------------------------------------------------------------------------------------------- the specification

/-- split bytes into lines: `(unterminated rest, complete lines with their delimiter)` -/
def feed (d : Nat) : List Nat × List (List Nat) → List Nat → List Nat × List (List Nat)
  | st, [] => st
  | (cur, h), b :: bs => if b = d then feed d ([], h ++ [cur ++ [b]]) bs else feed d (cur ++ [b], h) bs

def completeLines (d : Nat) (w : List Nat) : List (List Nat) := (feed d ([], []) w).2
def partialLine (d : Nat) (w : List Nat) : List Nat := (feed d ([], []) w).1

/-- `bytelines::util::handle_line`: drop the final `\n` and a `\r` before it -/
def stripEol (l : List Nat) : List Nat :=
  match l.reverse with
  | 10 :: 13 :: r => r.reverse
  | 10 :: r => r.reverse
  | _ => l

/-- the lines as `ingest_line` receives them -/
def linesToMachine (s : S) : List (List Nat) := s.handed.map stripEol

end InputPath
